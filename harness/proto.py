"""Line protocol to the Lean driver: exact rationals, one JSON object per line."""
from __future__ import annotations

import json
import os
import subprocess
from fractions import Fraction
from pathlib import Path

ROOT = Path(__file__).resolve().parent.parent
DRIVER = ROOT / "lean" / ".lake" / "build" / "bin" / "driver"


def enc(x):
    """Encode a logical value for the wire: Fraction -> [num, den], None -> null."""
    if x is None or isinstance(x, (bool, str)):
        return x
    if isinstance(x, Fraction):
        return [x.numerator, x.denominator]
    if isinstance(x, int):
        return x
    if isinstance(x, float):
        if x != x:
            return None
        f = Fraction(x)
        return [f.numerator, f.denominator]
    if isinstance(x, (list, tuple)):
        return [enc(v) for v in x]
    if isinstance(x, dict):
        return {k: enc(v) for k, v in x.items()}
    raise TypeError(f"cannot encode {type(x)}: {x!r}")


class Driver:
    """Runs batches of requests through the compiled Lean driver."""

    def __init__(self, path: Path = DRIVER):
        self.path = Path(path)
        if not self.path.exists():
            raise FileNotFoundError(f"Lean driver not built: {self.path} (run ./setup.sh)")

    def run(self, requests: list[dict]) -> list[dict]:
        if not requests:
            return []
        lines = []
        for i, r in enumerate(requests):
            r = dict(r)
            r["id"] = i
            lines.append(json.dumps(r, separators=(",", ":")))
        p = subprocess.run(
            [str(self.path)],
            input=("\n".join(lines) + "\n").encode(),
            stdout=subprocess.PIPE,
            stderr=subprocess.PIPE,
            check=False,
        )
        if p.returncode != 0:
            raise RuntimeError(f"driver exited {p.returncode}: {p.stderr.decode()[-2000:]}")
        out = [json.loads(l) for l in p.stdout.decode().splitlines() if l.strip()]
        if len(out) != len(requests):
            raise RuntimeError(f"driver answered {len(out)} of {len(requests)} requests")
        for i, o in enumerate(out):
            if o.get("id") != i:
                raise RuntimeError(f"driver answer out of order at {i}: {o}")
            if "driver_error" in o:
                raise RuntimeError(f"driver error on request {i}: {o['driver_error']} :: {lines[i][:500]}")
        return out
