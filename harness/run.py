"""Entry point: python run.py <PROP> --tier quick|thorough [--replay file]"""
from __future__ import annotations

import argparse
import os
import sys
import time
import traceback

sys.path.insert(0, os.path.dirname(os.path.abspath(__file__)))

import engine  # noqa: E402


def main():
    ap = argparse.ArgumentParser()
    ap.add_argument("prop")
    ap.add_argument("--tier", default=os.environ.get("VERIF_TIER", "quick"))
    ap.add_argument("--replay", default=None)
    a = ap.parse_args()
    seed = int(os.environ.get("VERIF_SEED", "0"))
    prop = a.prop
    try:
        audit = engine.lean_build_and_audit()
        from proto import Driver
        drv = Driver()
    except Exception as e:  # noqa: BLE001
        print(f"machinery failure: {e}", file=sys.stderr)
        traceback.print_exc()
        return 2
    out = engine.Outcome(prop, a.tier, seed)
    try:
        from props import registry
        if a.replay:
            return registry.replay(prop, a.replay, drv)
        registry.run(prop, out, drv)
    except Exception as e:  # noqa: BLE001
        print(f"machinery failure: {e}", file=sys.stderr)
        traceback.print_exc()
        return 2
    return engine.finish(out, audit)


if __name__ == "__main__":
    sys.exit(main())
