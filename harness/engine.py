"""Shared machinery of the checks: Lean build + axiom audit, outcome bookkeeping, evidence files,
known findings, VIOLATION / KNOWN-FINDING lines, replay files."""
from __future__ import annotations

import fcntl
import hashlib
import json
import os
import re
import subprocess
import sys
import time
from collections import Counter
from fractions import Fraction
from pathlib import Path

ROOT = Path(__file__).resolve().parent.parent
LEAN = ROOT / "lean"
EVID = Path(os.environ.get("VERIF_EVIDENCE_DIR", ROOT / "evidence"))      # redirected by tools/try_patch_wt.sh only
REPLAYS = Path(os.environ.get("VERIF_REPLAY_DIR", ROOT / "replays"))
KNOWN = ROOT / "known_findings.txt"
ALLOWED_AXIOMS = {"propext", "Classical.choice", "Quot.sound"}
FORBIDDEN = re.compile(r"\b(sorry|admit|native_decide|bv_decide|implemented_by|unsafe)\b|^\s*axiom\s|maxHeartbeats\s+0", re.M)

TRUSTED_BASE = [
    "Lean 4.33 kernel; axioms allowed: propext, Classical.choice, Quot.sound (audited per theorem via #print axioms on every run); no native_decide / bv_decide / sorry",
    "Props/*.lean statements (holds / InDom) are a reading of properties.jsonl",
    "hand-written Lean model of ioos_qc (IoosQc/Model) tied to /repo by the differential correspondence run of this check: generators, canonicalisation (harness/sut.py), Fraction/JSON wire encoding, Lean driver decoding",
    "float64 = exact rational arithmetic on the dyadic input lattice (DESIGN.md §3)",
    "numpy / pandas / xarray / geographiclib / pyparsing / ruamel.yaml semantics are modelled, not verified",
]


def jsonable(x):
    if isinstance(x, Fraction):
        return str(x)
    if isinstance(x, dict):
        return {str(k): jsonable(v) for k, v in x.items()}
    if isinstance(x, (list, tuple)):
        return [jsonable(v) for v in x]
    if isinstance(x, (str, int, float, bool)) or x is None:
        return x
    return repr(x)


def case_hash(case) -> str:
    return hashlib.sha1(json.dumps(jsonable(case), sort_keys=True).encode()).hexdigest()


# ---------------------------------------------------------------------------------------------
# Lean build and audit
# ---------------------------------------------------------------------------------------------
def lean_sources_hash() -> str:
    h = hashlib.sha1()
    for p in sorted(LEAN.rglob("*.lean")):
        if ".lake" in p.parts:
            continue
        h.update(str(p.relative_to(LEAN)).encode())
        h.update(p.read_bytes())
    h.update((LEAN / "lakefile.toml").read_bytes())
    return h.hexdigest()


def lean_build_and_audit() -> dict:
    """Build the Lean library + driver (no-op when warm) and audit every property theorem.
    Result cached under lean/.lake keyed by a hash of the sources; guarded by a file lock so
    twenty checks can start together."""
    (LEAN / ".lake").mkdir(exist_ok=True)
    lock = open(LEAN / ".lake" / "verif.lock", "w")
    fcntl.flock(lock, fcntl.LOCK_EX)
    try:
        key = lean_sources_hash()
        cache = LEAN / ".lake" / "verif_audit.json"
        if cache.exists():
            try:
                c = json.loads(cache.read_text())
                if c.get("key") == key and c.get("build_ok") and (LEAN / ".lake/build/bin/driver").exists():
                    c["cached"] = True
                    return c
            except Exception:  # noqa: BLE001
                pass
        t0 = time.time()
        res = {"key": key, "cached": False}
        p = subprocess.run(["lake", "build"], cwd=LEAN, stdout=subprocess.PIPE, stderr=subprocess.STDOUT, check=False)
        res["build_ok"] = p.returncode == 0
        res["build_log"] = p.stdout.decode()[-4000:]
        # forbidden constructs in the sources (comments stripped)
        bad = []
        for f in sorted(LEAN.rglob("*.lean")):
            if ".lake" in f.parts:
                continue
            txt = f.read_text()
            txt = re.sub(r"/-.*?-/", "", txt, flags=re.S)
            txt = re.sub(r"--.*", "", txt)
            for m in FORBIDDEN.finditer(txt):
                bad.append(f"{f.relative_to(LEAN)}: {m.group(0).strip()}")
        res["forbidden"] = bad
        theorems = {}
        if res["build_ok"]:
            a = subprocess.run(["lake", "env", "lean", "IoosQc/Audit.lean"], cwd=LEAN, stdout=subprocess.PIPE,
                               stderr=subprocess.STDOUT, check=False)
            out = a.stdout.decode()
            res["audit_ok"] = a.returncode == 0
            res["audit_log"] = out[-3000:] if a.returncode != 0 else ""
            # "'IoosQc.C03_gross' depends on axioms: [propext, Quot.sound]" / "does not depend on any axioms"
            for m in re.finditer(r"'([\w.\x27]+)' (?:depends on axioms: \[([^\]]*)\]|does not depend on any axioms)", out):
                name = m.group(1).split(".")[-1]
                axs = [x.strip() for x in (m.group(2) or "").replace("\n", " ").split(",") if x.strip()]
                theorems[name] = axs
        else:
            res["audit_ok"] = False
        res["theorems"] = theorems
        res["wall_s"] = round(time.time() - t0, 1)
        cache.write_text(json.dumps(res))
        return res
    finally:
        fcntl.flock(lock, fcntl.LOCK_UN)
        lock.close()


def leanchecker(prop: str) -> dict:
    """Thorough tier: independent re-check of the compiled theorem modules of one property."""
    mods = [f"IoosQc.Theorems.{p.stem}" for p in sorted((LEAN / "IoosQc" / "Theorems").glob(f"{prop}*.lean"))]
    if not mods:
        return {"ok": False, "log": "no theorem module"}
    t0 = time.time()
    p = subprocess.run(["lake", "env", "leanchecker", *mods], cwd=LEAN, stdout=subprocess.PIPE, stderr=subprocess.STDOUT, check=False)
    return {"ok": p.returncode == 0, "modules": mods, "log": p.stdout.decode()[-1500:], "wall_s": round(time.time() - t0, 1)}


def obligations_for(audit: dict, prop: str):
    """(obligations, discharged, names, failures) for the theorems named `<prop>_*`."""
    names = sorted(n for n in audit.get("theorems", {}) if n.startswith(prop + "_"))
    failures = []
    ok = 0
    for n in names:
        axs = set(audit["theorems"][n])
        if axs <= ALLOWED_AXIOMS:
            ok += 1
        else:
            failures.append(f"{n}: axioms {sorted(axs - ALLOWED_AXIOMS)}")
    return len(names), ok, names, failures


# ---------------------------------------------------------------------------------------------
# Known findings
# ---------------------------------------------------------------------------------------------
def load_known(prop: str):
    """Entries of known_findings.txt for this property: {id: text} for `known:` lines."""
    out = {}
    if not KNOWN.exists():
        return out
    for line in KNOWN.read_text().splitlines():
        line = line.strip()
        if not line.startswith("known:"):
            continue
        kv = dict(re.findall(r"(\w+)=(\S+)", line))
        if kv.get("property") == prop and "id" in kv:
            text = re.sub(r"^known:\s*", "", line)
            text = re.sub(r"^property=\S+\s*", "", text)
            out[kv["id"]] = text
    return out


# ---------------------------------------------------------------------------------------------
class Outcome:
    def __init__(self, prop: str, tier: str, seed: int):
        self.prop, self.tier, self.seed = prop, tier, seed
        self.t0 = time.time()
        self.evaluations = 0
        self.distinct = set()
        self.nontrivial = set()
        self.tags = Counter()
        self.samples = []
        self.violations = []       # dicts: {"what":..., "case":..., ...}
        self.corr_breaks = []      # correspondence breaks without a failing input
        self.known_hits = Counter()
        self.rule = ""
        self.exhaustive = False
        self.notes = []
        self.known = load_known(prop)
        self.extra = {}

    def record(self, case, nontrivial: bool, tags=()):
        self.evaluations += 1
        h = case_hash(case)
        self.distinct.add(h)
        if nontrivial:
            self.nontrivial.add(h)
        for t in tags:
            self.tags[t] += 1
        if len(self.samples) < 3 or (nontrivial and len(self.samples) < 6):
            self.samples.append(jsonable(case))

    def violation(self, what: str, replay: dict, known_id: str | None = None):
        """Register a property violation; attributed to a known finding only if `known_id` is
        listed for this property in known_findings.txt."""
        if known_id is not None and known_id in self.known:
            self.known_hits[known_id] += 1
            return
        if len(self.violations) < 50:
            self.violations.append({"what": what, **replay})

    def corr_break(self, what: str, replay: dict):
        if len(self.corr_breaks) < 50:
            self.corr_breaks.append({"what": what, **replay})

    def elapsed(self):
        return time.time() - self.t0


def write_replay(prop: str, payload: dict) -> str:
    REPLAYS.mkdir(exist_ok=True)
    body = json.dumps(jsonable(payload), indent=1, sort_keys=True)
    h = hashlib.sha1(body.encode()).hexdigest()[:12]
    path = REPLAYS / f"{prop}-{h}.json"
    path.write_text(body)
    try:
        return str(path.relative_to(ROOT))
    except ValueError:
        return str(path)


def finish(out: Outcome, audit: dict, level_note: str = "") -> int:
    """Write the evidence file, print verdict lines, return the exit code."""
    prop = out.prop
    n_obl, n_ok, names, failures = obligations_for(audit, prop)
    proof_broken = []
    if not audit.get("build_ok"):
        proof_broken.append("lake build failed: " + audit.get("build_log", "")[-800:])
    if audit.get("build_ok") and not audit.get("audit_ok"):
        proof_broken.append("axiom audit failed: " + audit.get("audit_log", "")[-800:])
    if audit.get("forbidden"):
        proof_broken.append("forbidden constructs: " + "; ".join(audit["forbidden"][:5]))
    if failures:
        proof_broken.append("axiom policy: " + "; ".join(failures))
    if audit.get("build_ok") and n_obl == 0:
        proof_broken.append(f"no theorem named {prop}_* found by the audit")
    if out.tier == "thorough" and audit.get("build_ok"):
        lc = leanchecker(prop)
        out.extra["leanchecker"] = {k: lc.get(k) for k in ("ok", "modules", "wall_s")}
        if not lc["ok"]:
            proof_broken.append("leanchecker rejected the compiled modules: " + lc.get("log", "")[-600:])

    lines = []
    for kid, cnt in sorted(out.known_hits.items()):
        lines.append(f"KNOWN-FINDING: property={prop} {out.known[kid]} (reproduced on {cnt} cases)")
    rc = 0
    for v in out.violations[:5]:
        path = write_replay(prop, {"property": prop, "kind": "violation", **v})
        lines.append(f"VIOLATION property={prop} replay={path}")
        rc = 1
    if not out.violations:
        for b in out.corr_breaks[:3]:
            path = write_replay(prop, {"property": prop, "kind": "correspondence-break",
                                       "no_longer_checks": b.get("what"), **b})
            lines.append(f"VIOLATION property={prop} replay={path} no-failing-input-found")
            rc = 1
        for pb in proof_broken[:1]:
            path = write_replay(prop, {"property": prop, "kind": "proof-obligation-broken", "no_longer_checks": pb})
            lines.append(f"VIOLATION property={prop} replay={path} no-failing-input-found")
            rc = 1

    cov = {
        "obligations": max(n_obl, 1),
        "discharged": n_ok if not proof_broken else 0,
        "checker_cmd": "cd /verif/lean && lake build && lake env lean IoosQc/Audit.lean   # #print axioms for every property theorem",
        "trusted_base": TRUSTED_BASE,
        "theorems": names,
        "axioms_used": sorted({a for n in names for a in audit.get("theorems", {}).get(n, [])}),
        "evaluations": out.evaluations,
        "distinct_nontrivial": len(out.nontrivial),
        "distinct": len(out.distinct),
        "rule": out.rule,
        "samples": out.samples[:6] or [{"note": "no case generated"}],
        "tags": dict(out.tags.most_common(60)),
        "exhaustive": out.exhaustive,
        "known_findings_reproduced": dict(out.known_hits),
        "correspondence_breaks": len(out.corr_breaks),
        "lean_build_cached": bool(audit.get("cached")),
        **out.extra,
    }
    if proof_broken:
        # a proof obligation does not check: no proof-level counts are claimed for this run
        cov.pop("obligations")
        cov.pop("discharged")
        cov["proof_broken"] = proof_broken
    ev = {
        "property_id": prop,
        "tier": out.tier,
        "seed": out.seed,
        "level": "proof",
        "coverage": cov,
        "assumptions": TRUSTED_BASE + ([level_note] if level_note else []) + out.notes,
        "wall_s": round(out.elapsed(), 2),
        "violations": len(out.violations) + (len(out.corr_breaks) if not out.violations else 0),
    }
    EVID.mkdir(exist_ok=True)
    (EVID / f"{prop}.json").write_text(json.dumps(ev, indent=1))
    for l in lines:
        print(l)
    print(f"{prop} tier={out.tier} seed={out.seed} evaluations={out.evaluations} distinct_nontrivial={len(out.nontrivial)} "
          f"theorems={n_ok}/{n_obl} known={sum(out.known_hits.values())} violations={len(out.violations)} "
          f"corr_breaks={len(out.corr_breaks)} wall={ev['wall_s']}s -> exit {rc}")
    sys.stdout.flush()
    return rc
