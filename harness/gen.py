"""Seeded generators of logical QC-test cases.  Every number sits on the dyadic lattice k/2^s
(|k| <= 2^16, s <= 4) so that float64 (and float32) arithmetic of the real code is exact on
them (DESIGN.md §3); values are placed on, just below and just above every threshold."""
from __future__ import annotations

import itertools
import random
from fractions import Fraction as F

from sut import geodesic_hops

H = F(1, 2)
E = F(1, 16)


def lattice(rng, lo=-8, hi=8, s=None):
    s = rng.choice([0, 0, 1, 2, 4]) if s is None else s
    return F(rng.randint(lo * 2**s, hi * 2**s), 2**s)


def around(rng, anchors):
    a = rng.choice(anchors)
    return a + rng.choice([0, 0, 0, H, -H, E, -E, 1, -1, 2, -2])


def series(rng, n, anchors, p_missing=0.15):
    return [None if rng.random() < p_missing else around(rng, anchors) for _ in range(n)]


FORCE_N = None          # set by the long-input sub-check: every generated series gets exactly this length


def length(rng, maxn=12):
    if FORCE_N is not None:
        return FORCE_N
    r = rng.random()
    if r < 0.08:
        return 0
    if r < 0.16:
        return 1
    if r < 0.26:
        return 2
    if r < 0.36:
        return 3
    return rng.randint(min(4, maxn), maxn)


def times(rng, n, regular=None, start=None):
    """Strictly increasing whole-second axis."""
    start = rng.choice([0, 1577836800, 1583020800 - 86400, 946684800 + 59 * 86400]) if start is None else start
    regular = rng.random() < 0.5 if regular is None else regular
    if regular:
        step = rng.choice([1, 2, 30, 60, 60, 600, 3600, 86400])
        if rng.random() < 0.15:
            # steps whose reciprocal is not a float: k x step x (1 / step) can land a unit in the last place below k
            step = rng.choice([3, 7, 49, 98, 103, 107, 161, 187, 196, 197])
        return [start + i * step for i in range(n)], step
    steps = [rng.choice([1, 2, 7, 30, 60, 61, 90, 600, 3600, 86400, 3 * 86400]) for _ in range(max(0, n - 1))]
    if n >= 4 and rng.random() < 0.3:
        # irregular, yet the total span is (n - 1) x the FIRST step (and the mean step equals the first one): an axis that a
        # "first step x count == span" regularity test takes for evenly sampled
        d = rng.choice([2, 10, 60, 600, 3600])
        steps = [d]
        while len(steps) < n - 1:
            k = rng.choice([d // 2, d // 2, max(1, d // 10)])
            steps += [d - k, d + k] if len(steps) + 2 <= n - 1 else [d]
        head, tail = steps[:1], steps[1:]
        rng.shuffle(tail)
        steps = head + tail
    out = [start]
    for s in steps:
        out.append(out[-1] + s)
    return out[:n], None


def seq(vals, is_seq=True):
    return {"seq": is_seq, "vals": list(vals)}


# --------------------------------------------------------------------------------------------
def gen_gross(rng, maxn=12):
    a = sorted(rng.sample(range(-3, 8), 4))
    r = rng.random()
    fail = [F(a[0]), F(a[3])]
    sus = [F(a[1]), F(a[2])]
    if r < 0.1:
        sus = list(fail)                       # suspect == fail
    elif r < 0.2:
        fail = [F(a[1]), F(a[1])]              # degenerate
        sus = list(fail)
    elif r < 0.3:
        sus = [F(a[0]) - rng.choice([0, H, 1]), F(a[2])]   # maybe not contained
    elif r < 0.38:
        sus = [F(a[1]), F(a[3]) + rng.choice([0, E, 1])]
    if rng.random() < 0.5:
        fail.reverse()
    if rng.random() < 0.5:
        sus.reverse()
    case = {"fn": "gross", "fail": seq(fail), "suspect": None if rng.random() < 0.25 else seq(sus)}
    m = rng.random()
    if m < 0.03:
        case["fail"] = seq(fail + [F(1)])
    elif m < 0.06:
        case["fail"] = seq(fail[:1])
    elif m < 0.09:
        case["fail"] = seq(fail, False)
    elif m < 0.12 and case["suspect"] is not None:
        case["suspect"] = seq(sus + [F(0)])
    elif m < 0.15 and case["suspect"] is not None:
        case["suspect"] = seq(sus, False)
    anchors = [F(x) for x in a]
    case["inp"] = series(rng, length(rng, maxn), anchors)
    if rng.random() < 0.15 and case["fail"]["seq"] and len(case["fail"]["vals"]) == 2:
        # decimal bounds (exact as float64, NOT representable in float32) against data born as float32: the nearest
        # float32 to a bound lies strictly on one side of it.  Comparisons only, so float64 evaluation is still exact.
        import numpy as np

        dec = sorted(rng.sample([0.1, 0.3, 1.1, 2.2, 25.7, 33.3], 4))
        f64 = [F(d) for d in dec]
        f32 = [F(float(np.float32(d))) for d in dec]
        below_above = [F(float(np.nextafter(np.float32(d), np.float32(s)))) for d in dec for s in (-1e9, 1e9)]
        case["fail"] = seq([f64[0], f64[3]] if rng.random() < 0.5 else [f64[3], f64[0]])
        if case["suspect"] is not None:
            case["suspect"] = seq([f64[1], f64[2]])
        n = length(rng, maxn)
        if rng.random() < 0.5:
            case["inp"] = [None if rng.random() < 0.1 else rng.choice(f32 + f32 + below_above + [F(1), F(30)]) for _ in range(n)]
        else:
            # ... or float64 values exactly ON the decimal bounds and one float64 step on either side of them
            ulps = [F(float(np.nextafter(d, s))) for d in dec for s in (-1e9, 1e9)]
            case["inp"] = [None if rng.random() < 0.1 else rng.choice(f64 + f64 + ulps + [F(1), F(30)]) for _ in range(n)]
        case["decimal_f32"] = True
    return case


def gen_valid(rng, maxn=12):
    a = sorted(rng.sample(range(0, 12), 2))
    lo, hi = F(a[0]), F(a[1])
    r = rng.random()
    if r < 0.12:
        lo = None
    elif r < 0.24:
        hi = None
    elif r < 0.3:
        hi = lo
    elif r < 0.33:
        lo = hi = None
    as_time = rng.random() < 0.3
    anchors = [x for x in (lo, hi) if x is not None] or [F(3)]
    n = length(rng, maxn)
    if as_time:
        base = 1577836800
        inp = [None if rng.random() < 0.15 else base + int(rng.choice(anchors)) + rng.choice([-1, 0, 0, 1, 5]) for _ in range(n)]
        lo = None if lo is None else base + int(lo)
        hi = None if hi is None else base + int(hi)
        inp = [None if v is None else F(v) for v in inp]
        lo = None if lo is None else F(lo)
        hi = None if hi is None else F(hi)
    else:
        inp = series(rng, n, anchors)
        if rng.random() < 0.3:
            # whole-number data (deliverable as an integer array) against bounds with a fractional part: values on either
            # side of the bound AND of its truncation
            inp = [None if v is None else F(int(v // 1)) for v in inp]
            if rng.random() < 0.7:
                inp = [v for v in inp if v is not None]
            lo = None if lo is None else lo + rng.choice([H, -H, F(1, 4)])
            hi = None if hi is None else hi + rng.choice([H, -H, F(3, 4)])
            if lo is not None and hi is not None and lo > hi:
                lo, hi = hi, lo
    return {"fn": "valid", "lo": lo, "hi": hi, "start_incl": rng.random() < 0.5, "end_incl": rng.random() < 0.5,
            "inp": inp, "as_time": as_time}


DEFAULT_BOX = [F(-180), F(-90), F(180), F(90)]


def gen_location(rng, maxn=10):
    n = length(rng, maxn)
    r = rng.random()
    if r < 0.25:
        box = list(DEFAULT_BOX)
    else:
        x0 = F(rng.choice([-180, -170, -80, -10, 0, 100, 170]))
        y0 = F(rng.choice([-90, -60, -10, 0, 30]))
        box = [x0, y0, x0 + rng.choice([0, 1, 5, 10]), y0 + rng.choice([0, 1, 5, 10])]
        if rng.random() < 0.08:
            box = [box[2], box[1], box[0], box[3]]  # reversed: nothing inside
    xs = [box[0], box[2], (box[0] + box[2]) / 2]
    ys = [box[1], box[3], (box[1] + box[3]) / 2]
    tiny = [0, 0, F(1, 1024), -F(1, 1024), F(1, 16), -F(1, 16), F(1, 2), -F(1, 2), 1, -1, 3]
    lon, lat = [], []
    for _ in range(n):
        u = rng.random()
        x = rng.choice(xs) + rng.choice(tiny)
        y = rng.choice(ys) + rng.choice(tiny)
        x = max(F(-180), min(F(180), x)) if rng.random() < 0.7 else x
        y = max(F(-90), min(F(90), y))
        if u < 0.1:
            x = None
        elif u < 0.2:
            y = None
        elif u < 0.27:
            x = y = None
        lon.append(x)
        lat.append(y)
    if n >= 2 and rng.random() < 0.15:
        # antimeridian-adjacent hop
        i = rng.randrange(n - 1)
        lon[i], lon[i + 1] = F(179) + F(1023, 1024), F(-179) - F(1023, 1024)
        lat[i] = lat[i + 1] = F(0)
    if n >= 2 and rng.random() < 0.2:
        # a track at high latitude, some hops along a meridian, some along a parallel (where cheap planar / spherical
        # bounds on the geodesic length are least accurate); default box so that hop distance decides
        lat0 = F(rng.choice([56, 62, 68, 75, 84, -58, -71]))
        lon0 = F(rng.choice([10, -150, 179]))
        lon, lat = [lon0], [lat0]
        for _ in range(n - 1):
            if rng.random() < 0.6:
                lon.append(lon[-1]); lat.append(lat[-1] + rng.choice([1, F(1, 2), -1]) * (1 if abs(lat[-1]) < 85 else 0))
            else:
                lon.append(lon[-1] + rng.choice([1, -1, F(1, 4)])); lat.append(lat[-1])
        lon = [x if x is None or -180 <= x <= 180 else x - 360 * (1 if x > 0 else -1) for x in lon]
        box = list(DEFAULT_BOX)
    if n >= 3 and rng.random() < 0.25 and lon[0] is not None and lat[0] is not None:
        # the platform has not moved yet: the first two fixes are identical (a zero-length first hop)
        lon[1], lat[1] = lon[0], lat[0]
    # keep latitudes inside [-90, 90] and longitudes finite for the geodesic routine
    hops = geodesic_hops(lon, lat)
    rm = None
    r = rng.random()
    present = [h for h in hops if h is not None]
    if r < 0.3:
        rm = None
    elif r < 0.55 and present:
        rm = rng.choice(present)                 # exactly on a hop distance
    elif r < 0.7 and present:
        # a hair below / above a realised hop distance (relative 2^-12: inside the error of spherical or planar
        # approximations of the WGS84 geodesic, far outside float64 rounding); comparisons only, exact rationals decide
        rm = F(float(rng.choice(present)) * (1 + rng.choice([-1, 1]) * 2.0 ** -12))
        if rng.random() < 0.4 and any(h >= 1 for h in present):
            # ... or less than a metre below it (the whole-metre part of the hop), as a dyadic number
            h = rng.choice([h for h in present if h >= 1])
            rm = F(int(h)) + rng.choice([0, F(1, 4)]) if F(int(h)) + F(1, 4) < h else F(int(h))
    elif r < 0.8:
        rm = F(0)
    else:
        rm = F(rng.choice([1, 100, 1000, 100000, 5000000]))
    case = {"fn": "location", "lon": lon, "lat": lat, "bbox": seq(box), "range_max": rm, "hops": hops,
            "bbox_default": box == DEFAULT_BOX and rng.random() < 0.5}
    m = rng.random()
    if m < 0.03:
        case["bbox"] = seq(box[:3])
        case["bbox_default"] = False
    elif m < 0.06:
        case["bbox"] = seq(box, False)
        case["bbox_default"] = False
    elif m < 0.10 and n >= 1:
        case["lat"] = lat[:-1]
        case["hops"] = geodesic_hops(lon, case["lat"] + [None])[: max(0, len(lon) - 1)]
    return case


PERIODS = ["year", "month", "week", "weekofyear", "dayofyear", "dayofweek", "quarter", "day", "hour"]
PERIOD_RANGE = {"year": (2018, 2023), "month": (1, 12), "week": (1, 53), "weekofyear": (1, 53),
                "dayofyear": (1, 366), "dayofweek": (0, 6), "quarter": (1, 4), "day": (1, 31), "hour": (0, 23)}
DAY = 86400
EDGE_DAYS = [  # days since epoch around year boundaries / leap days
    *(18259 + d for d in range(-4, 5)),      # around 2020-01-01 (18262)
    *(18262 + 59 + d for d in range(-2, 3)),  # around 2020-02-29
    *(18628 + d for d in range(-4, 5)),      # around 2021-01-01
    *(17897 - 3 + d for d in range(0, 8)),   # around 2019-01-01
]


def gen_climatology(rng, maxn=10):
    n = length(rng, maxn)
    k = rng.choice([0, 1, 1, 2, 2, 3, 4])
    base = 18262 * DAY  # 2020-01-01
    style = rng.random()
    if style < 0.4:
        t = sorted(rng.choice(EDGE_DAYS) * DAY + rng.choice([0, 0, 3600, 86399]) for _ in range(n))
    else:
        t = sorted(base + rng.randint(-800, 800) * DAY + rng.choice([0, 0, 43200, 86399]) for _ in range(n))
    members = []
    vanch = [F(0), F(10), F(20), F(30)]
    zanch = [F(0), F(10), F(50), F(100)]
    for _ in range(k):
        m = {}
        if rng.random() < 0.45 or n == 0:
            period = None
            if n and rng.random() < 0.8:
                a = rng.choice(t) + rng.choice([0, 0, -1, 1, -DAY, DAY])
                b = rng.choice(t) + rng.choice([0, 0, -1, 1, DAY, 400 * DAY])
            else:
                a, b = base - 30 * DAY, base + 30 * DAY
            m["tspan"] = [F(a), F(b)]
            m["period"] = None
        else:
            period = rng.choice(PERIODS)
            lo, hi = PERIOD_RANGE[period]
            a = rng.randint(lo, hi)
            b = rng.randint(lo, hi)
            r_ = rng.random()
            if r_ < 0.35:
                a, b = lo, hi
            elif r_ < 0.6 and period not in ("year",):
                # all but the LAST unit of the cycle (day 1..365, week 1..52, month 1..11, …): looks like a catch-all, is not one
                a, b = lo, hi - 1
            m["tspan"] = [F(a), F(b)]
            m["period"] = period
            prev = [q for q in members if q["period"] is not None and q["period"] != period]
            if prev and rng.random() < 0.5:
                # same numbers as an earlier member of ANOTHER period kind (month 1..3 next to quarter 1..3)
                m["tspan"] = list(rng.choice(prev)["tspan"])
            elif rng.random() < 0.3:
                m["tspan"] = sorted([F(rng.randint(0, 6)), F(rng.randint(0, 6))])   # small numbers most kinds can take
        v = sorted([around(rng, vanch), around(rng, vanch)])
        m["vspan"] = v
        if rng.random() < 0.6:
            m["fspan"] = [v[0] - rng.choice([0, 1, 5]), v[1] + rng.choice([0, 1, 5])]
            if rng.random() < 0.15:  # fail span not containing the valid span: still legal for this test
                m["fspan"] = [v[0] + 1, v[1] + 2]
        else:
            m["fspan"] = None
        if rng.random() < 0.45:
            z = sorted([rng.choice(zanch), rng.choice(zanch)])
            m["zspan"] = z
        else:
            m["zspan"] = None
        for key in ("tspan", "vspan", "fspan", "zspan"):
            if m[key] is not None and rng.random() < 0.3:
                m[key] = list(reversed(m[key]))
        members.append(m)
    anchors = vanch
    for m in members:
        anchors = anchors + list(m["vspan"]) + (list(m["fspan"]) if m["fspan"] else [])
    inp = series(rng, n, anchors)
    zr = rng.random()
    if zr < 0.15:
        z = [None] * n
    else:
        z = [None if rng.random() < 0.2 else rng.choice(zanch) + rng.choice([0, 0, H, -H, 1]) for _ in range(n)]
    return {"fn": "climatology", "members": members, "inp": inp, "t": t, "z": z,
            "tkind": rng.choice(["iso", "stamp", "dt64", "us", "unpadded", "pydt"]), "clim_object": rng.choice([False, False, False, False, True, True, "grown", "grown"])}


def gen_spike(rng, maxn=12):
    n = length(rng, maxn)
    if n == 0 and rng.random() < 0.5:
        n = rng.randint(3, 6)
    anchors = [F(0), F(1), F(2), F(4)]
    shape = rng.random()
    if shape < 0.5:
        xs = series(rng, n, anchors)
    else:
        base = lattice(rng)
        xs = [base] * n
        step = rng.choice([F(0), H, F(1)])
        xs = [base + i * step for i in range(n)]     # plateau / ramp
        for _ in range(rng.choice([1, 1, 2])):
            if n:
                i = rng.randrange(n)
                xs[i] = xs[i] + rng.choice([1, -1, 2, -2, H, 4])
                if rng.random() < 0.3 and i + 1 < n:
                    xs[i + 1] = xs[i]                # double spike
        xs = [None if rng.random() < 0.1 else x for x in xs]
    # magnitudes actually present -> thresholds exactly on them
    mags = []
    for i in range(1, n - 1):
        p, x, q = xs[i - 1], xs[i], xs[i + 1]
        if None not in (p, x, q):
            mags.append(abs(x - (p + q) / 2))
            if (x - p) * (q - x) < 0:
                mags.append(min(abs(x - p), abs(q - x)))
    pool = [m for m in mags if m > 0] or [F(1)]
    def thr():
        r = rng.random()
        if r < 0.2:
            return None
        if r < 0.6:
            return rng.choice(pool)
        if r < 0.68:
            return F(0)
        return rng.choice(pool) + rng.choice([H, -E, E, 1])
    sus, fail = thr(), thr()
    if rng.random() < 0.15 and sus is not None:
        fail = sus
    method = rng.choice(["average", "differential"])
    if rng.random() < 0.04:
        method = rng.choice(["Average", "median", ""])
    if rng.random() < 0.12:
        dec = gen_spike_decimal(rng, maxn)
        if dec is not None:
            return dec
    return {"fn": "spike", "method": method, "sus": sus, "fail": fail, "inp": xs}


def gen_spike_decimal(rng, maxn=12):
    """Decimal values (tenths) and decimal thresholds, spike magnitudes ON a threshold: off the dyadic lattice sums and halves
    are rounded, so a case is kept only if, at every interior point and for both thresholds, the verdict over the reals (exact
    rationals of the float inputs) equals the float64 evaluation of the DOCUMENTED formula — then the expected flags are
    unambiguous and an algebraic rearrangement that rounds differently (second differences, x - a/2 - b/2, …) shows."""
    import numpy as np

    n = rng.randint(3, max(3, min(maxn, 8)))
    method = rng.choice(["average", "differential"])
    xs = [rng.choice([0.0, 1.2, 3.4, 2.4, 6.8, 0.1, 0.7]) for _ in range(n)]
    if rng.random() < 0.5:
        x = 0.0
        xs = []
        for _ in range(n):
            x = float(np.float64(x) + np.float64(rng.choice([0.1, 0.5, 1.2, 2.2, -0.5, -1.1, 1.0])))
            xs.append(float(np.round(x, 1)))
    mags = []
    for i in range(1, n - 1):
        p_, x_, q_ = (np.float64(v) for v in xs[i - 1:i + 2])
        if method == "average":
            mags.append(float(np.abs(x_ - (p_ + q_) / 2)))
        elif (x_ - p_) * (q_ - x_) < 0:
            mags.append(float(np.minimum(np.abs(x_ - p_), np.abs(q_ - x_))))
    pool = [m for m in mags if m > 0] + [0.5, 1.0]
    sus, fail = float(rng.choice(pool)), float(rng.choice(pool))
    for thr in (sus, fail):
        for i in range(1, n - 1):
            p_, x_, q_ = xs[i - 1:i + 2]
            P, X, Q = F(p_), F(x_), F(q_)
            if method == "average":
                real = abs(X - (P + Q) / 2) > F(thr)
                ieee = bool(np.abs(np.float64(x_) - (np.float64(p_) + np.float64(q_)) / 2) > np.float64(thr))
            else:
                a, b = X - P, Q - X
                real = (a * b < 0) and min(abs(a), abs(b)) > F(thr)
                fa, fb = np.float64(x_) - np.float64(p_), np.float64(q_) - np.float64(x_)
                ieee = bool(fa * fb < 0 and np.minimum(np.abs(fa), np.abs(fb)) > np.float64(thr))
                if (a * b < 0) != bool(fa * fb < 0):
                    return None
            if real != ieee:
                return None
    return {"fn": "spike", "method": method, "sus": F(sus), "fail": F(fail), "inp": [F(x) for x in xs], "decimal_f32": True}


def gen_roc(rng, maxn=12):
    n = length(rng, maxn)
    t, _ = times(rng, n, regular=rng.random() < 0.35)
    # keep steps <= 2^22 s and values on the lattice: quotient separation argument of DESIGN §3
    anchors = [F(0), F(8), F(17), F(-3)]
    xs = series(rng, n, anchors)
    rates = []
    for i in range(1, n):
        if xs[i] is not None and xs[i - 1] is not None:
            rates.append(abs(xs[i] - xs[i - 1]) / (t[i] - t[i - 1]))
    exact = [r for r in rates if r > 0 and (r.denominator & (r.denominator - 1)) == 0 and r.denominator <= 2**20]
    r = rng.random()
    if exact and r < 0.5:
        thr = rng.choice(exact)
    elif r < 0.6:
        thr = F(0)
    else:
        thr = rng.choice([E, F(1, 8), H, F(1), F(1, 64), F(1, 1024)])
    case = {"fn": "roc", "inp": xs, "t": t, "thr": thr}
    if rng.random() < 0.12:
        dec = gen_roc_decimal(rng, maxn)
        if dec is not None:
            return dec
    if rng.random() < 0.05 and n >= 1:
        case["t"] = t[:-1] if rng.random() < 0.5 else t + [t[-1] + 5]
    return case


def gen_roc_decimal(rng, maxn=12):
    """Decimal threshold, time steps that are not powers of two, changes within one float64 step of threshold x step.
    Off the dyadic lattice the float64 quotient is rounded, so a case is kept only if, at every point, the verdict over the
    reals (exact rationals of the float inputs) equals the float64 evaluation of the documented formula |dx| / dt > thr —
    then the expected flags are unambiguous and any algebraic rearrangement that rounds differently shows."""
    import numpy as np

    if rng.random() < 0.4:
        # values BORN as float32 (tenths), power-of-two steps, the threshold exactly on a realised rate or one float64 step around
        # it: in float64 (where a float32 difference is exact) the verdict is unambiguous; a computation kept in float32 rounds
        # the difference
        n = rng.randint(2, max(2, min(maxn, 8)))
        xs32 = [float(np.float32(rng.choice([20.1, 3.7, 35.17, 0.05, 1.3, 7.9, 12.6]))) for _ in range(n)]
        steps = [rng.choice([1, 2, 4, 8]) for _ in range(n - 1)]
        t = [1577836800]
        for d in steps:
            t.append(t[-1] + d)
        rates = [abs(np.float64(xs32[i + 1]) - np.float64(xs32[i])) / steps[i] for i in range(n - 1)]
        rates = [r for r in rates if r > 0]
        if not rates:
            return None
        r0 = rng.choice(rates)
        thr = float(rng.choice([r0, np.nextafter(r0, np.inf), np.nextafter(r0, -np.inf)]))
        return {"fn": "roc", "inp": [F(x) for x in xs32], "t": t, "thr": F(thr), "decimal_f32": True}
    n = rng.randint(2, max(2, min(maxn, 8)))
    thr = rng.choice([0.1, 0.2, 0.05, 0.3, 0.7])
    steps = [rng.choice([3, 6, 7, 12, 24, 41, 48, 53]) for _ in range(n - 1)]
    t = [1577836800]
    for d in steps:
        t.append(t[-1] + d)
    xs = [float(rng.choice([0.0, 0.1, 1.5, 0.1 + 0.2]))]
    for d in steps:
        c = np.float64(thr) * d
        c = float(rng.choice([c, np.nextafter(c, np.inf), np.nextafter(c, -np.inf), c, c * 2, c / 2]))
        xs.append(float(np.float64(xs[-1]) + c) if rng.random() < 0.6 else float(np.float64(xs[-1]) - c))
    for i in range(1, n):
        real = abs(F(xs[i]) - F(xs[i - 1])) / steps[i - 1] > F(thr)
        ieee = bool(np.abs(np.float64(xs[i]) - np.float64(xs[i - 1])) / np.float64(steps[i - 1]) > np.float64(thr))
        if real != ieee:
            return None
    return {"fn": "roc", "inp": [F(x) for x in xs], "t": t, "thr": F(thr), "decimal_f32": True}


def gen_flat(rng, maxn=12, regular_only=False):
    n = length(rng, maxn)
    regular = True if regular_only else rng.random() < 0.75
    t, step = times(rng, n, regular=regular)
    if n >= 2:
        d = sorted(b - a for a, b in zip(t, t[1:]))
        m = len(d)
        D = d[m // 2] if m % 2 else (d[m // 2 - 1] + d[m // 2]) // 2
    else:
        D = 1
    base = lattice(rng)
    xs = []
    while len(xs) < n:
        run = rng.randint(1, 5)
        v = base + rng.choice([0, 1, 2, 5]) + rng.choice([0, 0, E, -E])
        for _ in range(run):
            xs.append(v + rng.choice([0, 0, 0, E, -E, F(1, 4)]))
    xs = [None if rng.random() < 0.12 else x for x in xs[:n]]
    def dur():
        k = rng.randint(0, n + 2)
        r = rng.random()
        if r < 0.5:
            return F(k * D)
        if r < 0.7:
            return F(k * D) + rng.choice([1, H, E]) if D > 1 or True else F(k * D)
        if r < 0.85:
            return max(F(0), F(k * D) - rng.choice([1, H]))
        return F(rng.choice([0, D - 1 if D > 1 else 0, 10 * D * (n + 1)]))
    tol = rng.choice([F(0), E, F(1, 8), F(1, 4), H, F(1), F(2), F(5), F(6)])
    return {"fn": "flat", "inp": xs, "t": t, "sus": dur(), "fail": dur(), "tol": tol}


def exact_var(vals, ddof):
    n = len(vals)
    if n - ddof <= 0:
        return None
    mu = sum(vals) / n
    return sum((v - mu) ** 2 for v in vals) / (n - ddof)


def gen_atten(rng, maxn=10):
    n = length(rng, maxn)
    ct = "range" if rng.random() < 0.5 else "std"
    windowed = rng.random() < 0.65
    t, step = times(rng, n, regular=rng.random() < 0.6)
    anchors = [F(0), F(2), F(8)]
    xs = series(rng, n, anchors, p_missing=0.12)
    case = {"fn": "atten", "check_type": ct, "inp": xs, "t": t, "period": None, "min_obs": None, "min_period": None}
    if rng.random() < 0.03:
        case["check_type"] = rng.choice(["Std", "ptp", ""])
    stats = []   # exact (variance or range) values that occur
    if windowed and n >= 1:
        steps = sorted({b - a for a, b in zip(t, t[1:])}) or [60]
        P = rng.choice(steps) * rng.choice([1, 1, 2, 3]) + rng.choice([0, 0, 1, -1])
        P = max(1, P)
        if rng.random() < 0.2:
            P = F(P) + rng.choice([F(1, 2), -F(1, 2), F(1, 4)])      # a period that is not a whole number of seconds ("90.5s")
        case["period"] = F(P)
        r = rng.random()
        if r < 0.3:
            case["min_obs"] = rng.choice([0, 1, 2, 3])
        elif r < 0.5 and n >= 2:
            case["min_period"] = F(rng.choice(steps) * rng.choice([0, 1, 2]) + rng.choice([0, 1]))
        for i in range(n):
            w = [xs[j] for j in range(i + 1) if t[j] > t[i] - P]
            p = [v for v in w if v is not None]
            if ct == "range":
                if p and len(p) == len(w):
                    stats.append(max(p) - min(p))
            else:
                v = exact_var(p, 1)
                if v is not None:
                    stats.append(v)
    else:
        p = [v for v in xs if v is not None]
        if p:
            stats.append(max(p) - min(p) if ct == "range" else exact_var(p, 0))
    def thr():
        r = rng.random()
        if ct == "range":
            if stats and r < 0.6:
                return rng.choice(stats) + rng.choice([0, 0, E, -E, 1])
            return rng.choice([F(0), H, F(1), F(2), F(8), F(9)])
        # std: keep away from the computed spread (rounding margin, DESIGN §3)
        for _ in range(20):
            c = rng.choice([F(0), E, H, F(1), F(2), F(3), F(4), F(6), F(-1)])
            if all(abs(v - c * c) > F(1, 2**20) * max(1, v) for v in stats):
                return c
        return F(100)
    case["sus"], case["fail"] = thr(), thr()
    return case


def gen_density(rng, maxn=10):
    n = length(rng, maxn)
    zstyle = rng.random()
    zvals = [F(0), F(5), F(10), F(20)]
    if zstyle < 0.3:
        z = [F(i * 5) for i in range(n)]
    elif zstyle < 0.5:
        z = [F((n - i) * 5) for i in range(n)]
    elif zstyle < 0.65:
        z = [F(5 * min(i, n - 1 - i)) for i in range(n)]   # down-up
    elif zstyle < 0.75:
        z = [F(10)] * n
    else:
        z = [rng.choice(zvals) for _ in range(n)]
    z = [None if rng.random() < 0.1 else v for v in z]
    rho = series(rng, n, [F(1024), F(1025), F(1026)], p_missing=0.1)
    ds = []
    for i in range(n - 1):
        if None not in (rho[i], rho[i + 1], z[i], z[i + 1]):
            sgn = (z[i + 1] > z[i]) - (z[i + 1] < z[i])
            ds.append(sgn * (rho[i + 1] - rho[i]))
    def thr():
        r = rng.random()
        if r < 0.2:
            return None
        if ds and r < 0.65:
            return rng.choice(ds) + rng.choice([0, 0, E, -E])
        return rng.choice([F(0), -E, -H, F(-1), F(-3), H])
    case = {"fn": "density", "inp": rho, "z": z, "sus": thr(), "fail": thr()}
    if rng.random() < 0.04 and n:
        case["z"] = z[:-1]
    return case


def gen_pressure(rng, maxn=10, allow_nan=True):
    n = length(rng, maxn)
    style = rng.random()
    p = [F(0)] * n
    cur = F(rng.choice([0, 5, 100]))
    up = rng.random() < 0.5
    for i in range(n):
        p[i] = cur
        step = rng.choice([1, 1, 2, H, 0, -1, -H]) if style < 0.7 else rng.choice([1, -1, 0, 2, -2])
        cur = cur + (step if up else -step)
    if allow_nan and rng.random() < 0.2:
        p = [None if rng.random() < 0.15 else v for v in p]
    return {"fn": "pressure", "inp": p}


def gen_speed(rng, maxn=10):
    n = length(rng, maxn)
    t, _ = times(rng, n, regular=rng.random() < 0.3)
    lon, lat = [], []
    x, y = F(rng.choice([-70, 0, 10, 179])), F(rng.choice([-45, 0, 40, 60]))
    for _ in range(n):
        x = x + rng.choice([0, F(1, 1024), F(1, 64), -F(1, 64), F(1, 2), 1])
        y = y + rng.choice([0, F(1, 1024), -F(1, 1024), F(1, 64), F(1, 4)])
        y = max(F(-89), min(F(89), y))
        x = max(F(-180), min(F(180), x))
        u = rng.random()
        if u < 0.08:
            lon.append(None); lat.append(y)
        elif u < 0.16:
            lon.append(x); lat.append(None)
        elif u < 0.22:
            lon.append(None); lat.append(None)
        else:
            lon.append(x); lat.append(y)
    hops = geodesic_hops(lon, lat)
    # thresholds exactly on a realised speed when the quotient is exact in float64
    exact = []
    for i, h in enumerate(hops):
        if h is not None and h > 0:
            dtv = t[i + 1] - t[i]
            if dtv & (dtv - 1) == 0:           # power of two: float division is exact
                exact.append(h / dtv)
    def thr():
        r = rng.random()
        if exact and r < 0.5:
            return rng.choice(exact)
        return rng.choice([F(0), F(1, 1024), F(1), F(3), F(100), F(2000)])
    case = {"fn": "speed", "lon": lon, "lat": lat, "t": t, "sus": thr(), "fail": thr(), "hops": hops}
    if rng.random() < 0.05 and n:
        which = rng.choice(["lat", "t"])
        case[which] = case[which][:-1]
    return case


def subsecond(case, rng):
    """The same logical case on timestamps with a fractional second: stamp i is t[i] seconds plus c[i] quarter seconds, c
    non-decreasing with increments below one second, so that every elapsed time, cut to WHOLE seconds as the rate tests
    document, is the elapsed time of the whole-second axis `t` the model is given.  None when the axis does not fit."""
    t = case.get("t")
    if t is None or len(t) < 2 or any(b - a < 1 for a, b in zip(t, t[1:])):
        return None
    c, out = 0, []
    for i, sec in enumerate(t):
        if i:
            c += rng.choice([0, 1, 2, 3, 3])
        out.append(int(sec) * 1_000_000_000 + c * 250_000_000)
    if out[-1] == int(t[-1]) * 1_000_000_000:
        return None
    return dict(case, t_ns=out)


def rescale(case, rng):
    """The same kind of case at another MAGNITUDE: data and value thresholds multiplied by a power of two (exact in float64 and
    in the model's rationals), and — when scaled up — the data nudged by a few units, so that differences land within a relative
    1e-6 of a threshold (or, scaled down, within an absolute 1e-9 of it).  On the small lattice every difference from a
    threshold is either 0 or >= 1/8: a comparison made "tolerant" (np.isclose-style rtol / atol) is invisible there."""
    fn = case["fn"]
    if fn not in ("gross", "valid", "spike", "roc", "flat", "atten", "density", "pressure") or case.get("decimal_f32") \
            or case.get("as_time") or case.get("decimal"):
        return case
    k = rng.choice([-30, -24, 17, 20, 24])
    s = F(2) ** k
    jitter = k > 0 and fn in ("gross", "valid", "spike", "flat", "density", "pressure") or (fn == "atten" and case.get("check_type") == "range" and k > 0)
    c = dict(case)

    def sc(v, j=False):
        if v is None:
            return None
        return v * s + (rng.choice([0, 0, 1, -1, 2]) if j else 0)

    def scseq(q):
        return None if q is None else {**q, "vals": [sc(v) for v in q["vals"]]}
    c["inp"] = [sc(v, jitter) for v in case["inp"]]
    if fn == "gross":
        c["fail"], c["suspect"] = scseq(case["fail"]), scseq(case.get("suspect"))
    elif fn == "valid":
        c["lo"], c["hi"] = sc(case.get("lo")), sc(case.get("hi"))
    elif fn in ("spike", "atten", "density"):
        c["sus"], c["fail"] = sc(case.get("sus")), sc(case.get("fail"))
    elif fn == "roc":
        c["thr"] = sc(case["thr"])
    elif fn == "flat":
        c["tol"] = sc(case["tol"])
    c["rescaled"] = k
    return c


GENERATORS = {
    "gross": gen_gross, "valid": gen_valid, "location": gen_location, "climatology": gen_climatology,
    "spike": gen_spike, "roc": gen_roc, "flat": gen_flat, "atten": gen_atten, "density": gen_density,
    "pressure": gen_pressure, "speed": gen_speed,
}


def rng_for(seed, *parts):
    return random.Random("/".join([str(seed), *map(str, parts)]))
