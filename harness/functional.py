"""Correspondence + predicate run for properties that are about single calls of a QC test
(C01, C02, C03, C08–C14): generate logical cases, run the real code, let the Lean driver evaluate
the property predicate on the code's output and recompute the model."""
from __future__ import annotations

import copy
import itertools
from fractions import Fraction as F

import numpy as np

import gen
import sut
from engine import Outcome, jsonable

SERIES_KEYS = {
    "gross": ["inp"], "valid": ["inp"], "location": ["lon", "lat"], "climatology": ["inp", "t", "z"],
    "spike": ["inp"], "roc": ["inp", "t"], "flat": ["inp", "t"], "atten": ["inp", "t"],
    "density": ["inp", "z"], "pressure": ["inp"], "speed": ["lon", "lat", "t"],
}
SAFE_CARRIERS = ["nd_f8", "list_none", "list_nan", "series", "tuple_none", "ma_junk"]
SAFE_TCARRIERS = ["dt64ns", "epoch_int", "dtindex", "dt64s", "dtindex_us", "series_ms"]


def f32_exact(case):
    """Every series value is exactly a float32."""
    for k in SERIES_KEYS[case["fn"]]:
        if k == "t":
            continue
        for v in case[k]:
            if v is not None and F(float(np.float32(float(v)))) != v:
                return False
    return True


def pick_carriers(case, rng):
    fn = case["fn"]
    carrier = rng.choice(SAFE_CARRIERS + (["nd_f4"] * 2 if fn in ("gross", "valid", "climatology", "roc", "spike", "density") and f32_exact(case) else []))
    if fn == "valid":
        carrier = "nd_f8"            # valid_range_test takes numpy arrays (Series: see C15)
        if not case.get("as_time") and case["inp"] and all(v is not None and F(v).denominator == 1 for v in case["inp"]) \
                and rng.random() < 0.6:
            carrier = "nd_i8"        # ... of any real dtype: whole-number data as int64
    if fn == "pressure":
        carrier = rng.choice(["nd_f8", "list_nan"])
    tc = rng.choice(SAFE_TCARRIERS)
    sk = rng.choice(["list", "tuple"])
    return carrier, tc, sk


def refresh(case):
    """Recompute derived fields after a structural edit."""
    if case["fn"] in ("location", "speed"):
        lon, lat = case["lon"], case["lat"]
        n = min(len(lon), len(lat))
        case["hops"] = sut.geodesic_hops(lon[:n], lat[:n]) if len(lon) == len(lat) else \
            sut.geodesic_hops(lon, (lat + [None] * len(lon))[: len(lon)])
    return case


def evaluate(drv, items, want_spec=False):
    """items: list of (case, carrier, tcarrier, span_kind) -> list of (obs, answer)."""
    obs = [sut.observe(c, ca, tc, sk) for (c, ca, tc, sk) in items]
    reqs = []
    for (c, _, _, _), o in zip(items, obs):
        r = {"kind": "test", "call": sut.wire_case(c), "obs": sut.wire_obs(o)}
        if want_spec:
            r["want_spec"] = True
        reqs.append(r)
    return list(zip(obs, drv.run(reqs)))


def nontrivial(obs) -> bool:
    return "error" in obs or len(set(obs["flags"])) >= 2


def tags_of(case, obs, ans):
    t = [f"fn:{case['fn']}"]
    n = len(case[SERIES_KEYS[case["fn"]][0]])
    t.append(f"n:{n if n < 4 else '4+'}")
    if "error" in obs:
        t.append(f"error:{obs['error']}")
    else:
        for f in set(obs["flags"]):
            t.append(f"flag:{f}")
    if not ans.get("model_eq", True):
        t.append("model_differs")
    return t


def shrink(drv, case, carriers, fails, budget=150):
    """Greedy minimisation: drop positions, drop climatology members, simplify values."""
    best = copy.deepcopy(case)
    keys = SERIES_KEYS[case["fn"]]
    steps = 0

    def try_(cand):
        nonlocal best, steps
        steps += 1
        if steps > budget:
            return False
        try:
            refresh(cand)
            if fails(cand):
                best = cand
                return True
        except Exception:  # noqa: BLE001
            return False
        return False

    changed = True
    while changed and steps <= budget:
        changed = False
        n = len(best[keys[0]])
        if all(len(best[k]) == n for k in keys):
            for i in range(n - 1, -1, -1):
                cand = copy.deepcopy(best)
                for k in keys:
                    del cand[k][i]
                if try_(cand):
                    changed = True
                    break
            if changed:
                continue
        if best["fn"] == "climatology":
            for i in range(len(best["members"])):
                cand = copy.deepcopy(best)
                del cand["members"][i]
                if try_(cand):
                    changed = True
                    break
            if changed:
                continue
        for k in keys:
            if k == "t":
                continue
            for i, v in enumerate(best[k]):
                if isinstance(v, F) and v.denominator != 1:
                    cand = copy.deepcopy(best)
                    cand[k][i] = F(round(v))
                    if try_(cand):
                        changed = True
                        break
            if changed:
                break
    return best


def repro_line(case, carriers):
    try:
        f, kw = sut.build_call(case, *carriers)
        args = ", ".join(f"{k}={v!r}" for k, v in kw.items())
        return f"from ioos_qc import qartod, argo, axds; import numpy as np, pandas as pd; print({f.__module__.split('.')[-1]}.{f.__name__}({args}))"
    except Exception as e:  # noqa: BLE001
        return f"<could not build call: {e}>"


def run_cases(out: Outcome, drv, items, verdict, what, classify=None, want_spec=True, extra_check=None):
    """Evaluate `items`; `verdict(case, obs, ans)` -> None if fine / not judged, else a short
    description of the failure.  Violations are shrunk and recorded."""
    results = evaluate(drv, items, want_spec=want_spec)
    for (case, ca, tc, sk), (obs, ans) in zip(items, results):
        if not ans["in_dom"]:
            out.tags["out_of_domain"] += 1
            continue
        out.record(case, nontrivial(obs), tags_of(case, obs, ans))
        bad = verdict(case, obs, ans)
        if bad is None and extra_check is not None:
            bad = extra_check(case, (ca, tc, sk), obs, ans)
        if bad is None:
            continue
        carriers = (ca, tc, sk)

        def fails(c, _carriers=carriers):
            (o, a), = evaluate(drv, [(c, *_carriers)], want_spec=False)
            return a["in_dom"] and verdict(c, o, a) is not None

        small = case
        if len(out.violations) < 5:
            try:
                # (a long series is reported as it is: every shrinking step would re-run thousands of positions)
                small = shrink(drv, case, carriers, fails) if len(case[SERIES_KEYS[case['fn']][0]]) <= 400 else copy.deepcopy(case)
            except Exception:  # noqa: BLE001
                small = case
        (o2, a2), = evaluate(drv, [(small, *carriers)], want_spec=True)
        if not (a2["in_dom"] and verdict(small, o2, a2) is not None):
            small, o2, a2 = case, obs, ans
        kid = classify(small, carriers, o2, a2) if classify else None
        out.violation(
            f"{what}: {bad}",
            {"fn": case["fn"], "case": jsonable(small), "carriers": list(carriers), "observed": o2,
             "model": a2.get("model"), "spec": a2.get("spec"), "python": repro_line(small, carriers),
             "unshrunk_case": jsonable(case)},
            known_id=kid,
        )


def random_items(seed, prop, fn, count, maxn=12):
    rng = gen.rng_for(seed, prop, fn)
    items = []
    for _ in range(count):
        c = gen.GENERATORS[fn](rng, maxn) if fn != "flat" else gen.gen_flat(rng, maxn)
        if rng.random() < 0.12:
            c = gen.rescale(c, rng)
        items.append((c, *pick_carriers(c, rng)))
    return items


def corpus_items(prop):
    """Minimised past failures and hand-picked boundary cases kept under corpus/<prop>/; they run first."""
    import json
    from engine import ROOT
    from props.registry import _unjson

    items = []
    d = ROOT / "corpus" / prop
    if d.is_dir():
        for f in sorted(d.glob("*.json")):
            data = json.loads(f.read_text())
            case = _unjson(data["case"])
            case["fn"] = data["fn"]
            items.append((refresh(case), *data["carriers"]))
    return items
