"""Writes /verif/MANIFEST.json from one table (kept here so the manifest stays consistent)."""
import json
from pathlib import Path

ROOT = Path(__file__).resolve().parent.parent

COMMON_NOTE = (
    "Trusted base: Lean 4.33 kernel + axioms propext/Classical.choice/Quot.sound (audited with #print axioms on every run; "
    "no native_decide, no sorry); the Lean statements in lean/IoosQc/Props are a reading of properties.jsonl; the model in "
    "lean/IoosQc/Model is hand-written and tied to /repo only by the differential correspondence run (generators, "
    "canonicalisation in harness/sut.py, Fraction/JSON wire, Lean driver decoding); float64 is treated as exact on the dyadic "
    "input lattice (DESIGN.md §3); numpy/pandas/xarray/geographiclib behaviour is modelled, not verified. C01, C03, C04, C05, C07, C09, C11, C12, C14, C19, C20 also "
    "have source pins: literal tables, signature defaults, the layout dispatch of Config.__init__ (C07) and the window comparisons of the stream front ends (C05) "
    "read from /repo by harness/extract.py (Python ast) and checked by the kernel against IoosQc/Theorems/SourcePin.lean on every run. C03, C04, C05, C06, C07, C08, C09, C10, C11, C12, C13, C14, C18, C19 additionally have a TRANSLATED model: harness/translate.py "
    "(Python ast -> Lean, a translator that raises on anything outside its vocabulary) regenerates the array-level Lean definitions of ALL ELEVEN QC test "
    "functions (gross_range, valid_range, location, climatology + ClimatologyConfig.check, spike, rate_of_change, flat_line, attenuated_signal, "
    "density_inversion, pressure_increasing, speed), of qartod_compare, ContextConfig's call extraction, Call.run, collect_results_dict and PandasStore.save from /repo's current source on every run and the kernel checks that they are the "
    "definitions of IoosQc/Model/NpSrc.lean / NpAgg.lean / NpStore.lean / NpCollect.lean / NpCall.lean, which Theorems/NpSrc … NpSrc9 + NpRefine prove equal to the pointwise models the property "
    "theorems are about (theorems Cxx_src_*; Theorems/SrcProps restates the property theorems directly about the translated programs, Cxx_prog_*; numpy.ma's data-under-mask semantics, strided windows, index arrays, for loops "
    "modelled in Model/Np and compared primitive by primitive with the installed numpy on every run); a rewritten body makes that pin 'reshaped' — "
    "nothing is claimed from it and the correspondence run remains the tie. C05, C06, C18 also compare complete real runs with the pipeline model "
    "IoosQc.systemRun (Model/System, Theorems/Sys)."
)

CHECKS = {
    "C01": ("Theorems C01_*: every model test returns exactly one valid flag per element for every length and every valid "
            "parameter set (totality, alphabet); purity and determinism are facts about Python objects and are carried by the "
            "correspondence run (byte-level snapshots of every argument before/after, repeated and interleaved calls).",
            "Lean 4 proof (totality/alphabet of the model) + differential correspondence with argument snapshots"),
    "C02": ("Theorem C02_missing: in the model a missing observation is MISSING (or UNKNOWN where the test is undefined) and a "
            "present one is MISSING only if a needed value is missing, for all tests, lengths and 2^n placements; the same "
            "predicate is evaluated on the code's output for all placements up to n=5 (quick) and random longer series.",
            "Lean 4 proof of the missing-discipline predicate on the model + differential correspondence"),
    "C03": ("Theorems C03_gross, C03_valid (+ corollaries): the code-shaped models of gross_range_test / valid_range_test equal "
            "the property sentence for every series, span pair and inclusivity setting; the predicate `conforms spec` is "
            "evaluated on the real functions' output over an exhaustive span lattice and a seeded boundary generator. C03_np_gross / C03_src_gross: "
            "the array-level transcription of gross_range_test (raw data under masks, masked boolean indexes), regenerated from the source by "
            "harness/translate.py, equals the pointwise model. C03_src_valid: the same for valid_range_test, for ARBITRARY raw data under the caller's mask "
            "(that function does not fill masked cells with NaN: the hidden number is compared and flagged, and the closing MISSING assignment repairs it).",
            "Lean 4 proof (functional characterisation; refinement of the translated array-level program to the pointwise model) + "
            "differential correspondence + numpy-primitive correspondence"),
    "C04": ("Theorems C04_main, C04_compareAt, C04_perm, C04_dup, C04_assoc, C04_idem, C04_worst_ge/mem: the priority loop equals "
            "the maximum by precedence for every column; order / multiplicity / grouping independence proved outright; "
            "correspondence runs qartod_compare, aggregate() and PandasStore.compute_aggregate on enumerated and random vectors (incl. non-flag values "
            "a narrowing cast would turn into flags). C04_src_compare: the source-shaped transcription of qartod_compare (two nested for loops writing through "
            "np.where index arrays), regenerated from the source, equals the model the aggregation theorems are about.",
            "Lean 4 proof (algebraic laws of the aggregate; C04_pin_priorities for every admissible priority table, instantiated with the "
            "table read from the source; refinement of the translated loop nest to the aggregation model) + differential correspondence"),
    "C08": ("Theorem C08_climatology (+ corollaries), parametric in the calendar function: fold over members = flag of the last "
            "covering member; calendar fields checked against pandas day by day. C08_src_climatology: the source-shaped transcription of "
            "ClimatologyConfig.check + climatology_test (for loop over the members with a continue, masked / plain boolean index algebra, three ordered "
            "assignments per member), regenerated from the source, equals the pointwise model for columns of one length.",
            "Lean 4 proof (fold induction; refinement of the translated member loop to the pointwise model) + differential correspondence incl. calendar sweep "
            "+ numpy-primitive correspondence"),
    "C09": ("Theorem C09_spike (+ endpoints, threshold equality, method rejection) for both methods and all threshold "
            "combinations; exhaustive short series over a 5-symbol alphabet plus seeded generator on the real spike_test. C09_np_spike / "
            "C09_src_spike: the array-level transcription of spike_test (ref / diff arrays with raw data under masks, the write through a view, "
            "end points, closing MISSING assignment), regenerated from the source by harness/translate.py, equals the pointwise model for both methods.",
            "Lean 4 proof (pointwise characterisation; refinement of the translated array-level program to the pointwise model) + "
            "differential correspondence + numpy-primitive correspondence"),
    "C10": ("Theorems C10_roc, C10_speed (+ equality, length-mismatch corollaries) over strictly increasing whole-second axes; "
            "geodesic distance is an input of the model computed by the harness with the documented argument order. C10_np_roc / C10_src_roc: the "
            "array-level transcription of rate_of_change_test, regenerated from the source by harness/translate.py, equals the pointwise model; C10_src_speed: "
            "the same for argo.speed_test. "
            "Timestamps with a fractional second are covered through the whole-second axis of their elapsed times.",
            "Lean 4 proof (pointwise characterisation over Q; refinement of the translated array-level program) + differential correspondence "
            "+ numpy-primitive correspondence"),
    "C11": ("Theorem C11_flat: window lemma, floor lemma and override resolution for regular sampling, any durations and "
            "tolerances; sweeps of n, k_s, k_f and plateau lengths on the real flat_line_test. C11_src_flat: the source-shaped transcription "
            "(strided 2-D window of the RAW data buffer, masked row minima / maxima, np.ma.filled, np.insert, two inlined run_test calls), regenerated from "
            "the source, equals the pointwise model; the nested helper rolling_window is compared with the model's primitive by running /repo's own copy.",
            "Lean 4 proof (window characterisation; refinement of the translated array-level program to the pointwise model) + differential correspondence "
            "+ numpy-primitive correspondence"),
    "C12": ("Theorem C12_atten (+ trailing-window membership, min_obs, FAIL-wins): ordered assignments resolve to the property "
            "sentence for both check types; statistics shared between spec and model are checked against pandas/numpy. C12_src_atten: the "
            "source-shaped transcription (dispatch on check_type / test_period / min_obs / min_period, five ordered assignments), regenerated from the source, "
            "equals the pointwise model (pandas' rolling window and the two spread functions stay primitives of the model).",
            "Lean 4 proof (override resolution, window membership; refinement of the translated program) + differential correspondence"),
    "C13": ("Theorems C13_density, C13_pressure, C13_reverse: both members of an inverted pair flagged, mirrored flags for "
            "reversed profiles, telescoping direction lemma; exhaustive short profiles on the real functions. C13_src_density / C13_src_pressure: the "
            "source-shaped transcriptions (delta = sign(diff z) * diff rho with raw data under masks, `== True` of a masked boolean, the `any(...)` guards, "
            "writes through views of the flag array; plain-array mean / sign / np.where index arithmetic), regenerated from the source, equal the pointwise models.",
            "Lean 4 proof (pointwise characterisation, reversal symmetry; refinement of the translated array-level programs) + differential correspondence "
            "+ numpy-primitive correspondence"),
    "C14": ("Theorem C14_location (+ edges inside, FAIL over SUSPECT): box membership and hop distance, for all tracks and "
            "missing patterns; hop distances supplied by the harness' own geodesic call. C14_src_location: the source-shaped transcription of "
            "location_test, regenerated from the source, equals the pointwise model.",
            "Lean 4 proof (pointwise characterisation; refinement of the translated array-level program) + differential correspondence + numpy-primitive correspondence"),
}

NOT_YET = {}

CHECKS.update({
    "C05": ("Theorems C05_numpy_mask, C05_pandas_mask, C05_xarray_mask, C05_frontends_agree, C05_selectRows(_zip): each front end's "
            "subsetting mechanism equals starting <= t < ending for every window and time axis (pandas: any row labels, repeated ones included — after the repair of F-22), and the "
            "mask restricts every column alike; the correspondence runs every front end on generated tables / configs and compares the "
            "yielded ContextResults and a probe test's received arguments with direct calls of the real tests on the rows IoosQc.specMask "
            "selects. What a test returns on those rows is C03-C14's business. C05_sys_*: the composed pipeline model IoosQc.runStream / systemRun "
            "(Config.contexts grouping -> window rows -> Call.run binding -> test model -> collection) yields exactly one result per configured "
            "(context, present stream, test), the direct call on the window rows (C05_sys_yield_sound / _complete), the same for every front-end "
            "mechanism, untouched by rows outside the window; complete real runs are compared with that one model value. NaT rows: C05_numpy_mask_nat. "
            "C05_pin_window: the comparison operators the three front ends apply to the window bounds (>= starting, < ending) are read from the source. "
            "C05_src_call: Call.run, regenerated from the source by harness/translate.py, equals the model callRun of the keyword theorems.",
            "Lean 4 proof (refinement of each front end's window mechanism to the specification mask; soundness / completeness of the pipeline model) "
            "+ differential correspondence, per context and end to end"),
    "C06": ("Theorems scatter_getD, C06_collect_spec, C06_dict_spec, C06_order_independent, C06_main: numpy boolean-mask assignment "
            "folded over any sequence of context results puts each value on the row of its rank; order independent for disjoint windows; "
            "list and dict form agree. Correspondence on synthetic and stream-yielded ContextResult sequences in all / random orders. "
            "C06_sys_pieces_wf / C06_sys_collect / C06_sys_dict: in the composed pipeline model every piece is well formed (one flag per window row, by "
            "C01_length) and the collected columns carry the last covering context's flag, for every table and configuration; complete real runs "
            "with several contexts are compared with IoosQc.systemRun. C06_src_dict: collect_results_dict, regenerated from the source by harness/translate.py "
            "(nested loops over ContextResults and CallResults, a mapping keyed by stream / package / test), leaves under every key the fold collectDict describes.",
            "Lean 4 proof (invariant of the collecting fold, permutation invariance, well-formedness in the pipeline model) + differential correspondence"),
    "C07": ("Theorems C07_context, C07_layout_contexts/context/streams/modules, C07_depth_*, C07_unknown_skipped, C07_main: the layout "
            "dispatch of Config on the parsed tree yields one call per configured (stream, module, test) for all four layouts. The eight "
            "carriers (YAML / JSON / files / xarray attributes) are decoded by third-party code and are covered by the correspondence "
            "only (12 carriers x 4 layouts on generated configurations). C07_pin_layout: the chain of layout tests of Config.__init__ (keys, order, "
            "depth threshold, default stream key) read from the source is the chain the model dispatches on. C07_src_context: the stream / package / test loops "
            "of ContextConfig.__init__, regenerated from the source by harness/translate.py, equal the model contextCalls.",
            "Lean 4 proof (refinement: typed configuration -> written tree -> calls) + differential correspondence over carriers"),
    "C15": ("Theorems C15_data, C15_time, C15_factor, C15_main (+ regression witness C15_data_bad_witness for fixed finding F-11): branch "
            "logic of the input normalisation; that numpy / pandas coercions behave as modelled is checked by running every carrier of "
            "each logical case on the real functions (13 data carriers, 11 time carriers, list / tuple spans).",
            "Lean 4 proof (normalisation factors through the denotation) + differential correspondence over all carriers"),
    "C16": ("Theorem C16_main (from C16_gross, _valid, _location, _climatology, _spike, _roc, _flat, _atten, _density, _speed): for every "
            "ordered pair of parameter sets accepted by IoosQc.stricter no flag improves and the UNKNOWN / MISSING set is unchanged; the "
            "same predicate is evaluated on pairs of runs of the real functions.",
            "Lean 4 proof (monotonicity of every threshold-driven test) + differential correspondence on (loose, strict) pairs"),
    "C17": ("Theorem C17_main (17 invariance theorems C17_add_*, C17_neg_*, C17_shift_*, C17_both_*, C17_reverse_spike and the locality "
            "theorem C17_locality with per-test lemmas): exact invariance under offsets / negation / time shifts / reversal and locality "
            "of single-point perturbations; transformations are rebuilt in Lean (applyT) and executed on the real functions.",
            "Lean 4 proof (algebraic invariances over Q, locality by index analysis) + differential correspondence on transformed pairs"),
    "C18": ("Theorems C18_isolation, C18_insert_fault(s), C18_alone, C18_fault_silent, C18_main: in the model every configured entry is "
            "evaluated independently, so failing entries drop out; the theorems are true by construction of a state-free model and the "
            "weight is carried by the correspondence: every fault kind at random positions on every front end, collected results compared "
            "with each healthy test configured alone. C18_sys_isolation / _alone / _drop_failing: in the composed pipeline model (where tests are "
            "BOUND to the stream's inputs and RUN, so 'cannot run' is computed, not declared) dropping any entries that contribute nothing — absent "
            "stream, missing input, rejected parameters, raising callee, or simply other tests — leaves every collected column unchanged; complete "
            "real runs with failing entries are compared with IoosQc.systemRun.",
            "Lean 4 proof (independence of entries in the run model; isolation in the pipeline model) + fault-injection correspondence on all front ends"),
    "C19": ("Theorems C19_cfSafe_charset, C19_plain_name, C19_kept_iff, C19_main: cf_safe_name output alphabet for every string, "
            "include / exclude semantics, and the save loop writes exactly the axis, data and one flag column per kept result when names "
            "do not collide (collisions = known finding F-18); correspondence on PandasStore.save / compute_aggregate over real stream runs. "
            "C19_src_save / C19_prog_save: PandasStore.save + column_from_collected_result, regenerated from the source by harness/translate.py, equal the model.",
            "Lean 4 proof (invariant of the save loop, character-level lemma; refinement of the translated save loop to the model) + differential correspondence"),
    "C20": ("Theorems evalRev_compile, C20_eval_history, C20_main, C20_history_irrelevant: the postfix stack machine returns the ordinary "
            "arithmetic value of the expression on top of ANY stack content (history independence for all histories); validator and "
            "creator are executable models checked by correspondence; pyparsing's grammar is third-party (expressions are rendered by the "
            "harness with random redundant parentheses / spacing and parsed by the real parser). "
            "C20_src_eval / C20_src_evalFx / C20_src_history: evaluate_stack and eval_fx, regenerated from the source by harness/translate.py "
            "(open recursion, kernel-pinned), compute evalRev on every stack of strings that stands for tokens, hence the arithmetic value after any history.",
            "Lean 4 proof (compiler correctness of the postfix evaluation, for every stack prefix; refinement of the translated evaluate_stack to it) "
            "+ differential correspondence over histories and raw stacks"),
})

def main():
    import sys
    sys.path.insert(0, str(ROOT / "harness"))
    from props import registry

    claimed = sorted(p for p in CHECKS if p in registry.ALL)
    checks = []
    for p in claimed:
        text, tech = CHECKS[p]
        checks.append({
            "property_id": p,
            "quick_cmd": f"./check {p} --tier quick",
            "thorough_cmd": f"./check {p} --tier thorough",
            "evidence_file": f"/verif/evidence/{p}.json",
            "replay_cmd_template": f"./check {p} --replay {{path}}",
            "engine": "lean4-proof+correspondence",
            "level_claimed": {"category": "proof", "text": text, "design_ref": f"DESIGN.md §4 {p}"},
            "level_note": COMMON_NOTE,
            "technique": tech,
        })
    na = [{"property_id": p, "reason": r} for p, r in sorted(NOT_YET.items()) if p not in claimed]
    for p in sorted(CHECKS):
        if p not in claimed and p not in NOT_YET:
            na.append({"property_id": p, "reason": "check under construction"})
    m = {
        "version": 1,
        "setup_cmd": "./setup.sh",
        "hooks": {
            "guard": "IOOS_QC_VERIF",
            "enable": "no source hooks are needed: the harness imports /repo/ioos_qc in place and registers its probe test "
                      "functions at run time with setattr; IOOS_QC_VERIF is reserved and unused",
            "baseline_off_cmd": "cd /repo && /venv/bin/python -m pytest -q -p no:cacheprovider --timeout=900 --continue-on-collection-errors",
            "source_commits": [],
            "add_only": True,
        },
        "engines": [{
            "name": "lean4-proof+correspondence",
            "path": "/verif/lean (model, Props, Theorems, Driver) + /verif/harness (Python correspondence harness)",
            "serves_properties": claimed,
            "kind_free_text": "machine-checked Lean 4 theorems about an executable model; model tied to /repo by a differential "
                              "correspondence run evaluating the theorem's own predicate on the code's output",
        }],
        "checks": checks,
        "not_applicable": sorted(na, key=lambda d: d["property_id"]),
        "notes": "See DESIGN.md. known_findings.txt lists genuine defects (known / fixed).",
    }
    (ROOT / "MANIFEST.json").write_text(json.dumps(m, indent=1) + "\n")
    print("claimed:", claimed)


if __name__ == "__main__":
    main()
