"""Calls the real ioos_qc code (imported in place from /repo) on logical cases and canonicalises
what it returns.  Logical cases hold Fractions / None / int seconds; this module turns them into
the Python carriers the functions accept."""
from __future__ import annotations

import datetime as dt
import logging
import os
import sys
import warnings
from fractions import Fraction

os.environ.setdefault("PYTHONDONTWRITEBYTECODE", "1")
sys.dont_write_bytecode = True
REPO = os.environ.get("VERIF_REPO", "/repo")
if REPO not in sys.path:
    sys.path.insert(0, REPO)

import numpy as np  # noqa: E402
import pandas as pd  # noqa: E402

warnings.filterwarnings("ignore")
logging.disable(logging.CRITICAL)

from geographiclib.geodesic import Geodesic  # noqa: E402

import ioos_qc  # noqa: E402
from ioos_qc import argo, axds, qartod  # noqa: E402

assert os.path.realpath(ioos_qc.__file__).startswith(os.path.realpath(REPO)), ioos_qc.__file__

ERR_NAMES = {"ValueError", "TypeError", "AssertionError", "IndexError", "AttributeError"}

DATA_CARRIERS = [
    "list_none", "list_nan", "tuple_none", "nd_f8", "nd_f4", "nd_obj",
    "ma_nan", "series", "series_idx", "series_obj", "dask",
]
# masked array whose masked cells hold finite junk (finding F-11, fixed), list holding np.ma.masked
DATA_CARRIERS_EXTRA = ["ma_junk", "list_masked", "ma_mixed"]
TIME_CARRIERS = [
    "dt64ns", "dt64s", "dt64ms", "pydt", "stamps", "dtindex", "series_naive", "series_utc",
    "dtindex_utc", "epoch_int", "epoch_float",
    # pandas objects whose stored unit is not ns (the default for objects built from datetimes in pandas >= 3)
    "dtindex_us", "dtindex_s", "series_ms", "series_us_idx", "dtindex_us_utc",
]


import contextlib  # noqa: E402
import signal  # noqa: E402


class CalleeTimeout(Exception):
    """The code under test did not return within the per-call limit."""


@contextlib.contextmanager
def time_limit(seconds=float(os.environ.get("VERIF_CALL_TIMEOUT", "30"))):
    """Bound one call into the code under test (a mutated callee that hangs must become an
    observation, not a hung check)."""
    def handler(signum, frame):
        raise CalleeTimeout(f"no result after {seconds} s")
    try:
        old = signal.signal(signal.SIGALRM, handler)
    except ValueError:          # not in the main thread
        yield
        return
    signal.setitimer(signal.ITIMER_REAL, seconds)
    try:
        yield
    finally:
        signal.setitimer(signal.ITIMER_REAL, 0)
        signal.signal(signal.SIGALRM, old)


def f2float(x):
    return float("nan") if x is None else float(x)


def mk_data(vals, carrier="nd_f8"):
    """Build a data carrier for a logical series (Fractions / None)."""
    fl = [f2float(v) for v in vals]
    if carrier == "list_none":
        return [None if v is None else float(v) for v in vals]
    if carrier == "list_nan":
        return fl
    if carrier == "tuple_none":
        return tuple(None if v is None else float(v) for v in vals)
    if carrier == "nd_f8":
        return np.array(fl, dtype=np.float64)
    if carrier == "nd_f4":
        return np.array(fl, dtype=np.float32)
    if carrier == "nd_i8":
        if not all(v is not None and Fraction(v).denominator == 1 for v in vals):
            # a derived case (shifted, perturbed, shrunk) that is no longer on whole numbers: the float64 array
            return np.array(fl, dtype=np.float64)
        return np.array([int(v) for v in vals], dtype=np.int64)
    if carrier == "nd_i1":
        # the narrowest signed dtype: a sum or difference of two cells leaves its range
        assert all(v is not None and Fraction(v).denominator == 1 and -128 <= v < 128 for v in vals)
        return np.array([int(v) for v in vals], dtype=np.int8)
    if carrier == "nd_u2":
        assert all(v is not None and Fraction(v).denominator == 1 and 0 <= v < 65536 for v in vals)
        return np.array([int(v) for v in vals], dtype=np.uint16)
    if carrier == "nd_obj":
        return np.array([None if v is None else float(v) for v in vals], dtype=object)
    if carrier == "ma_nan":
        return np.ma.masked_invalid(np.array(fl, dtype=np.float64))
    if carrier == "ma_junk":
        data = np.array([7.25 if v is None else float(v) for v in vals], dtype=np.float64)
        return np.ma.array(data, mask=[v is None for v in vals])
    if carrier == "ma_mixed":
        # allocated mask; missing cells alternately masked (finite number underneath) and left as an UNMASKED NaN
        miss = [i for i, v in enumerate(vals) if v is None]
        masked = set(miss[::2])
        data = np.array([(7.25 if i in masked else np.nan) if v is None else float(v) for i, v in enumerate(vals)], dtype=np.float64)
        return np.ma.array(data, mask=[i in masked for i in range(len(vals))])
    if carrier in ("ma_i4", "ma_u1"):
        # integer-dtype masked array with an explicit mask array (an integer variable with a _FillValue): missing cells are
        # masked and hold a fill number; the mask array is allocated even when nothing is missing
        assert all(v is None or Fraction(v).denominator == 1 for v in vals)
        dtype = np.int32 if carrier == "ma_i4" else np.uint8
        return np.ma.array([7 if v is None else int(v) for v in vals], mask=[v is None for v in vals], dtype=dtype)
    if carrier == "list_masked":
        return [np.ma.masked if v is None else float(v) for v in vals]
    if carrier == "series":
        return pd.Series(fl, dtype="float64")
    if carrier == "series_idx":
        return pd.Series(fl, dtype="float64", index=[10 + 3 * i for i in range(len(fl))][::-1])
    if carrier == "series_obj":
        return pd.Series([None if v is None else float(v) for v in vals], dtype=object)
    if carrier == "dask":
        import dask.array as da

        return da.from_array(np.array(fl, dtype=np.float64), chunks=max(1, len(fl)))
    raise ValueError(carrier)


EPOCH = np.datetime64("1970-01-01T00:00:00", "ns")


def mk_time(secs, carrier="dt64ns"):
    """Build a time carrier for whole seconds since the epoch."""
    ns = np.array([int(s) for s in secs], dtype="int64") * 1_000_000_000
    a = ns.astype("datetime64[ns]")
    if carrier == "dt64ns":
        return a
    if carrier == "dt64s":
        return a.astype("datetime64[s]")
    if carrier == "dt64ms":
        return a.astype("datetime64[ms]")
    if carrier == "pydt":
        return [dt.datetime(1970, 1, 1) + dt.timedelta(seconds=int(s)) for s in secs]
    if carrier == "stamps":
        return [pd.Timestamp(int(s), unit="s") for s in secs]
    if carrier == "dtindex":
        return pd.DatetimeIndex(a)
    if carrier == "series_naive":
        return pd.Series(a)
    if carrier == "series_utc":
        return pd.Series(pd.DatetimeIndex(a).tz_localize("UTC"))
    if carrier == "dtindex_utc":
        return pd.DatetimeIndex(a).tz_localize("UTC")
    if carrier == "dtindex_us":
        return pd.DatetimeIndex(a.astype("datetime64[us]"))
    if carrier == "dtindex_s":
        return pd.DatetimeIndex(a.astype("datetime64[s]"))
    if carrier == "series_ms":
        return pd.Series(a.astype("datetime64[ms]"))
    if carrier == "series_us_idx":
        return pd.Series(a.astype("datetime64[us]"), index=[10 + 3 * i for i in range(len(a))][::-1])
    if carrier == "dtindex_us_utc":
        return pd.DatetimeIndex(a.astype("datetime64[us]")).tz_localize("UTC")
    if carrier == "epoch_int":
        return [int(s) for s in secs]
    if carrier == "epoch_float":
        return np.array([float(s) for s in secs], dtype=np.float64)
    raise ValueError(carrier)


def mk_time_ns(ns_list, carrier="dt64ns"):
    """Time carriers for instants given in integer nanoseconds (sub-second times)."""
    ns = np.array([int(v) for v in ns_list], dtype="int64")
    a = ns.astype("datetime64[ns]")
    if carrier == "dt64ns":
        return a
    if carrier == "dt64ms":
        assert all(int(v) % 1_000_000 == 0 for v in ns_list)
        return a.astype("datetime64[ms]")
    if carrier == "pydt":
        assert all(int(v) % 1000 == 0 for v in ns_list)
        return [dt.datetime(1970, 1, 1) + dt.timedelta(microseconds=int(v) // 1000) for v in ns_list]
    if carrier == "stamps":
        return [pd.Timestamp(int(v), unit="ns") for v in ns_list]
    if carrier == "dtindex":
        return pd.DatetimeIndex(a)
    if carrier == "series_naive":
        return pd.Series(a)
    if carrier == "series_utc":
        return pd.Series(pd.DatetimeIndex(a).tz_localize("UTC"))
    if carrier == "dtindex_utc":
        return pd.DatetimeIndex(a).tz_localize("UTC")
    if carrier in ("dtindex_us", "series_us_idx", "dtindex_us_utc"):
        assert all(int(v) % 1000 == 0 for v in ns_list)
        u = a.astype("datetime64[us]")
        if carrier == "dtindex_us":
            return pd.DatetimeIndex(u)
        if carrier == "dtindex_us_utc":
            return pd.DatetimeIndex(u).tz_localize("UTC")
        return pd.Series(u, index=[10 + 3 * i for i in range(len(u))][::-1])
    if carrier == "series_ms":
        assert all(int(v) % 1_000_000 == 0 for v in ns_list)
        return pd.Series(a.astype("datetime64[ms]"))
    # seconds since the epoch as the CORRECTLY ROUNDED float64 of the exact instant: `int(v) / 1e9` first rounds the integer
    # nanoseconds (61 bits) to a float and lands one ulp (238 ns) off the float that means "…00.75 s"
    if carrier == "epoch_float":
        return np.array([float(Fraction(int(v), 10**9)) for v in ns_list], dtype=np.float64)
    if carrier == "epoch_float_list":
        return [float(Fraction(int(v), 10**9)) for v in ns_list]
    raise ValueError(carrier)


SUBSECOND_TIME_CARRIERS = ["dt64ns", "dt64ms", "pydt", "stamps", "dtindex", "series_naive", "series_utc", "dtindex_utc",
                           "epoch_float", "epoch_float_list", "dtindex_us", "series_us_idx", "dtindex_us_utc", "series_ms"]


def mk_span(arg, kind="list"):
    """A SeqArg {'seq': bool, 'vals': [...]} as list / tuple / ndarray."""
    vals = [float(v) for v in arg["vals"]]
    if not arg["seq"]:
        return np.array(vals)
    return tuple(vals) if kind == "tuple" else list(vals)


def geodesic_hops(lon, lat):
    """Hop distances (exact Fractions of the float64 results) computed by the harness itself with
    the documented argument order Inverse(lat1, lon1, lat2, lon2); None where undefined."""
    out = []
    for i in range(1, len(lon)):
        if None in (lon[i - 1], lat[i - 1], lon[i], lat[i]):
            out.append(None)
        else:
            d = Geodesic.WGS84.Inverse(float(lat[i - 1]), float(lon[i - 1]), float(lat[i]), float(lon[i]))["s12"]
            out.append(Fraction(d))
    return out


def iso(sec):
    return (dt.datetime(1970, 1, 1) + dt.timedelta(seconds=int(sec))).isoformat()


def clim_config(members, span_kind="list", tkind="iso"):
    out = []
    for m in members:
        mk = (lambda ab: tuple(ab)) if span_kind == "tuple" else (lambda ab: list(ab))
        d = {}
        if m.get("period") is None:
            a, b = m["tspan"]
            if tkind == "iso":
                d["tspan"] = mk([iso(a), iso(b)])
            elif tkind in ("us", "unpadded", "pydt"):
                # other spellings of the same instants: month/day/year text, ISO-like text without zero padding (text
                # order differs from time order for both), Python datetimes
                def sp(sec, kind=tkind):
                    d_ = dt.datetime(1970, 1, 1) + dt.timedelta(seconds=int(sec))
                    if kind == "pydt":
                        return d_
                    if kind == "us":
                        return f"{d_.month}/{d_.day}/{d_.year} {d_.hour:02d}:{d_.minute:02d}:{d_.second:02d}"
                    return f"{d_.year}-{d_.month}-{d_.day} {d_.hour}:{d_.minute:02d}:{d_.second:02d}"
                d["tspan"] = mk([sp(a), sp(b)])
            elif tkind == "stamp":
                d["tspan"] = mk([pd.Timestamp(int(a), unit="s"), pd.Timestamp(int(b), unit="s")])
            else:
                d["tspan"] = mk([np.datetime64(int(a), "s"), np.datetime64(int(b), "s")])
        else:
            d["tspan"] = mk([float(x) if Fraction(x).denominator != 1 else int(x) for x in m["tspan"]])
            d["period"] = m["period"]
        d["vspan"] = mk([float(x) for x in m["vspan"]])
        if m.get("fspan") is not None:
            d["fspan"] = mk([float(x) for x in m["fspan"]])
        if m.get("zspan") is not None:
            d["zspan"] = mk([float(x) for x in m["zspan"]])
        out.append(d)
    return out


def omit_defaults(case) -> bool:
    """Deterministic coin per logical case: leave out the keyword arguments whose value equals the documented default
    (start_inclusive=True, end_inclusive=False, method="average", tolerance=0, check_type="std"), so that the
    defaults of the signatures are exercised as well as the explicit spellings."""
    if "omit_defaults" in case:
        return bool(case["omit_defaults"])
    import zlib

    key = repr([(k, str(case[k])) for k in sorted(case) if k not in ("hops",)])
    return zlib.crc32(key.encode()) % 2 == 0


def build_call(case, carrier="nd_f8", tcarrier="dt64ns", span_kind="list"):
    """Return (function, kwargs) for a logical test case."""
    fn = case["fn"]
    od = omit_defaults(case)
    D = lambda k: mk_data(case[k], carrier)  # noqa: E731
    T = lambda: (mk_time_ns(case["t_ns"], tcarrier) if "t_ns" in case else mk_time(case["t"], tcarrier))  # noqa: E731
    fo = lambda k: None if case.get(k) is None else float(case[k])  # noqa: E731
    if fn == "gross":
        kw = {"inp": D("inp"), "fail_span": mk_span(case["fail"], span_kind)}
        if case.get("suspect") is not None:
            kw["suspect_span"] = mk_span(case["suspect"], span_kind)
        return qartod.gross_range_test, kw
    if fn == "valid":
        if case.get("as_time"):
            inp = mk_time([0 if v is None else v for v in case["inp"]], "dt64ns").copy()
            for i, v in enumerate(case["inp"]):
                if v is None:
                    inp[i] = np.datetime64("NaT")
            b = lambda v: None if v is None else np.datetime64(int(v), "s")  # noqa: E731
            if carrier in ("series", "series_idx"):
                inp = pd.Series(inp)
        else:
            inp = D("inp")
            b = lambda v: None if v is None else float(v)  # noqa: E731
        span = (b(case.get("lo")), b(case.get("hi")))
        if span_kind == "list":
            span = list(span)
        kw = {"inp": inp, "valid_span": span}
        if not (od and case["start_incl"] is True):
            kw["start_inclusive"] = case["start_incl"]
        if not (od and case["end_incl"] is False):
            kw["end_inclusive"] = case["end_incl"]
        return axds.valid_range_test, kw
    if fn == "location":
        kw = {"lon": D("lon"), "lat": D("lat")}
        if case.get("bbox_default"):
            pass
        else:
            kw["bbox"] = mk_span(case["bbox"], span_kind)
        if case.get("range_max") is not None:
            kw["range_max"] = float(case["range_max"])
        return qartod.location_test, kw
    if fn == "climatology":
        cfg = clim_config(case["members"], span_kind, case.get("tkind", "iso"))
        if case.get("clim_object"):
            # a ClimatologyConfig object that has already been used on other data (same length, other times)
            obj = qartod.ClimatologyConfig()
            grown = case["clim_object"] == "grown"      # members added AFTER the object's first use
            first = cfg[: len(cfg) // 2] if grown else cfg
            for d in first:
                obj.add(**d)
            n = len(case["inp"])
            try:
                qartod.climatology_test(obj, np.arange(n, dtype="float64"),
                                        (np.arange(n, dtype="int64") * 86400 * 41 + 1400000000).astype("datetime64[s]").astype("datetime64[ns]"),
                                        np.zeros(n))
            except Exception:  # noqa: BLE001
                pass
            for d in cfg[len(first):]:
                obj.add(**d)
            cfg = obj
        return qartod.climatology_test, {"config": cfg, "inp": D("inp"), "tinp": T(), "zinp": D("z")}
    if fn == "spike":
        kw = {"inp": D("inp")}
        if not (od and case["method"] == "average"):
            kw["method"] = case["method"]
        if case.get("sus") is not None or case.get("sus_explicit_none"):
            kw["suspect_threshold"] = fo("sus")
        if case.get("fail") is not None:
            kw["fail_threshold"] = fo("fail")
        return qartod.spike_test, kw
    if fn == "roc":
        return qartod.rate_of_change_test, {"inp": D("inp"), "tinp": T(), "threshold": float(case["thr"])}
    if fn == "flat":
        kw = {"inp": D("inp"), "tinp": T(), "suspect_threshold": float(case["sus"]), "fail_threshold": float(case["fail"])}
        if not (od and case["tol"] == 0):
            kw["tolerance"] = float(case["tol"])
        return qartod.flat_line_test, kw
    if fn == "atten":
        kw = {
            "inp": D("inp"), "tinp": T(), "suspect_threshold": float(case["sus"]),
            "fail_threshold": float(case["fail"]),
        }
        if not (od and case["check_type"] == "std"):
            kw["check_type"] = case["check_type"]
        if case.get("period") is not None:
            kw["test_period"] = int(case["period"]) if Fraction(case["period"]).denominator == 1 else float(case["period"])
        if case.get("min_obs") is not None:
            kw["min_obs"] = int(case["min_obs"])
        if case.get("min_period") is not None:
            kw["min_period"] = int(case["min_period"]) if Fraction(case["min_period"]).denominator == 1 else float(case["min_period"])
        return qartod.attenuated_signal_test, kw
    if fn == "density":
        kw = {"inp": D("inp"), "zinp": D("z")}
        if case.get("sus") is not None:
            kw["suspect_threshold"] = fo("sus")
        if case.get("fail") is not None:
            kw["fail_threshold"] = fo("fail")
        return qartod.density_inversion_test, kw
    if fn == "pressure":
        return argo.pressure_increasing_test, {"inp": D("inp")}
    if fn == "speed":
        return argo.speed_test, {
            "lon": D("lon"), "lat": D("lat"), "tinp": T(),
            "suspect_threshold": float(case["sus"]), "fail_threshold": float(case["fail"]),
        }
    raise ValueError(fn)


def canon_result(res):
    """Canonical observation of a returned flag array."""
    data = np.ma.getdata(res)
    mask = np.ma.getmaskarray(res)
    arr = np.asarray(data)
    flags = []
    for v in arr.reshape(-1).tolist():
        try:
            iv = int(v)
            flags.append(iv if iv == v else -1)
        except (TypeError, ValueError):
            flags.append(-1)
    return {"flags": flags, "shape": list(arr.shape), "masked": bool(np.any(mask))}


def err_obs(e: BaseException):
    name = type(e).__name__
    return {"error": name if name in ERR_NAMES else "Exception", "error_type": name, "msg": str(e)[:200]}


def observe(case, carrier="nd_f8", tcarrier="dt64ns", span_kind="list"):
    """Run the real test; returns the canonical observation dict."""
    try:
        f, kw = build_call(case, carrier, tcarrier, span_kind)
        with warnings.catch_warnings():
            warnings.simplefilter("ignore")
            with np.errstate(all="ignore"), time_limit():
                res = f(**kw)
        return canon_result(res)
    except Exception as e:  # noqa: BLE001
        return err_obs(e)


def wire_obs(obs):
    """The part of an observation that crosses the wire."""
    if "error" in obs:
        return {"error": obs["error"]}
    return {"flags": obs["flags"]}


def wire_case(case):
    """Logical case -> wire call (drops harness-only keys)."""
    from proto import enc

    c = {k: v for k, v in case.items() if k not in ("as_time", "bbox_default", "tkind", "sus_explicit_none", "note", "clim_object", "t_ns",
                                                    "omit_defaults", "decimal_f32")}
    # a keyword left out of the real call (build_call) is left out here too: the model's own defaults
    # (IoosQc/Model/Defaults.lean) then say what the omission means
    if omit_defaults(case):
        fn = c["fn"]
        if fn == "valid":
            if c.get("start_incl") is True:
                del c["start_incl"]
            if c.get("end_incl") is False:
                del c["end_incl"]
        elif fn == "spike" and c.get("method") == "average":
            del c["method"]
        elif fn == "flat" and c.get("tol") == 0:
            del c["tol"]
        elif fn == "atten" and c.get("check_type") == "std":
            del c["check_type"]
    if c["fn"] == "location" and case.get("bbox_default"):
        c.pop("bbox", None)
    if c["fn"] in ("location", "speed") and "hops" not in c:
        c["hops"] = geodesic_hops(case["lon"], case["lat"])
    return enc(c)
