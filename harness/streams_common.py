"""Tables, configs and front-end runners shared by C05, C06, C18, C19."""
from __future__ import annotations

import copy
import os
import tempfile
import warnings
from fractions import Fraction as F

import numpy as np
import pandas as pd
import xarray as xr

import gen
import sut
from ioos_qc import qartod
from ioos_qc.config import Config, QcConfig
from ioos_qc.results import collect_results
from ioos_qc.streams import NetcdfStream, NumpyStream, PandasStream, XarrayStream

FRONTENDS = ["pandas", "numpy", "xarray", "netcdf"]
BASE_T = 1577836800  # 2020-01-01


# ---------------------------------------------------------------------------------------------
# probe test: registered into ioos_qc.qartod at run time (no source change)
# ---------------------------------------------------------------------------------------------
PROBE_LOG = []


def _verif_probe(inp, tinp=None, zinp=None, lat=None, lon=None, tag=0):
    """Returns GOOD for every row and records exactly what it received."""
    def canon(a):
        if a is None:
            return None
        msk = np.ma.getmaskarray(a).reshape(-1) if isinstance(a, np.ma.MaskedArray) else None
        a = np.asarray(np.ma.getdata(a))
        if np.issubdtype(a.dtype, np.datetime64):
            return [int(v) for v in a.astype("datetime64[s]").astype("int64")]
        vals = [None if (isinstance(v, float) and v != v) else float(v) for v in a.astype("float64").tolist()]
        return vals if msk is None else [None if m else v for v, m in zip(vals, msk)]
    PROBE_LOG.append({"tag": tag, "inp": canon(inp), "tinp": canon(tinp), "zinp": canon(zinp), "lat": canon(lat), "lon": canon(lon)})
    return np.ma.ones(np.asarray(inp).size, dtype="uint8")


RAISER_CLASSES = [RuntimeError, IndexError, AssertionError, KeyError, ZeroDivisionError, AttributeError, OverflowError]


def _verif_raiser(inp, tag=0):
    """A callee that raises while evaluating the data; the exception class varies with `tag`."""
    raise RAISER_CLASSES[int(tag) % len(RAISER_CLASSES)]("probe test that raises while evaluating the data")


def install_probes():
    if not hasattr(qartod, "_verif_probe"):
        _verif_probe.__module__ = "ioos_qc.qartod"
        _verif_raiser.__module__ = "ioos_qc.qartod"
        setattr(qartod, "_verif_probe", _verif_probe)
        setattr(qartod, "_verif_raiser", _verif_raiser)


# ---------------------------------------------------------------------------------------------
# tables
# ---------------------------------------------------------------------------------------------
def gen_table(rng, maxn=10, streams=("v1", "v2"), axes=None, index_kind=None, allow_nat=False):
    """Logical table: times (whole seconds, strictly increasing), columns of Fractions/None.  With `allow_nat` some tables
    get rows whose timestamp is NaT (`tab["nat"]`: row numbers; `tab["t"]` keeps a nominal instant there, used only to lay
    out windows)."""
    n = rng.choice([0, 1, 2, 3]) if rng.random() < 0.2 else rng.randint(4, maxn)
    step = rng.choice([60, 60, 600, 3600])
    t = [BASE_T + i * step + (rng.choice([0, 0, 1, 7]) if i and rng.random() < 0.3 else 0) for i in range(n)]
    t = sorted(set(t))
    n = len(t)
    cols = {}
    for s in streams:
        cols[s] = [None if rng.random() < 0.1 else F(rng.randint(-4, 40), rng.choice([1, 1, 2])) for _ in range(n)]
    if axes is None:
        axes = [a for a in ("z", "lat", "lon") if rng.random() < 0.7]
        if ("lat" in axes) != ("lon" in axes):
            axes = [a for a in axes if a not in ("lat", "lon")]
    ax = {}
    if "z" in axes:
        ax["z"] = [None if rng.random() < 0.08 else F(rng.randint(0, 30)) for _ in range(n)]
    if "lat" in axes:
        ax["lat"] = [F(40) + F(i, 64) for i in range(n)]
        ax["lon"] = [F(-70) + F(rng.randint(0, 8), 64) for i in range(n)]
    index_kind = index_kind or rng.choice(["range", "range", "shifted", "permuted", "labels", "dup"])
    if n >= 3 and rng.random() < 0.2:
        # rows not in time order (a back-filled batch appended at the end): distinct instants, any order
        k = rng.randint(1, n - 1)
        order = list(range(k, n)) + list(range(k))
        t = [t[i] for i in order]
        cols = {s_: [v[i] for i in order] for s_, v in cols.items()}
        ax = {a_: [v[i] for i in order] for a_, v in ax.items()}
    nat = []
    if allow_nat and n >= 2 and rng.random() < 0.25:
        nat = [rng.randrange(n)]      # one row: a second NaT would be a duplicated time label, which xarray's .sel rejects
    return {"n": n, "t": t, "cols": cols, "axes": ax, "index_kind": index_kind, "nat": nat}


def table_index(tab):
    n, k = tab["n"], tab["index_kind"]
    if k == "range":
        return list(range(n))
    if k == "shifted":
        return [100 + i for i in range(n)]
    if k == "permuted":
        return [(i * 7 + 3) % max(n, 1) if n and np.gcd(7, n) == 1 else n - 1 - i for i in range(n)]
    if k == "dup":
        # chunks concatenated without ignore_index: the row labels repeat (0..m-1, 0..m-1, …)
        m = max(2, (n + 1) // 2)
        return [i % m for i in range(n)]
    return [f"r{i}" for i in range(n)]


def fl(vals):
    return np.array([np.nan if v is None else float(v) for v in vals], dtype="float64")


def fl_masked(vals):
    """Missing cells as a masked array holding a finite number under the mask."""
    return np.ma.array([7.25 if v is None else float(v) for v in vals], mask=[v is None for v in vals], dtype="float64")


def times_ns(tab):
    a = (np.array(tab["t"], dtype="int64") * 1_000_000_000).astype("datetime64[ns]")
    for i in tab.get("nat", ()):
        a[i] = np.datetime64("NaT")
    return a


def make_df(tab):
    d = {"time": times_ns(tab)}
    for a, v in tab["axes"].items():
        d[a] = fl(v)
    for s, v in tab["cols"].items():
        d[s] = fl(v)
    return pd.DataFrame(d, index=table_index(tab))


def make_ds(tab, layout="time_dim"):
    """`time_dim`: time is the dimension coordinate; `obs_dim`: CF observation axis — every variable on dimension `obs`,
    time an auxiliary (non-index) coordinate."""
    dim = "time" if layout == "time_dim" else "obs"
    dv = {}
    for a, v in tab["axes"].items():
        dv[a] = ((dim,), fl(v))
    for s, v in tab["cols"].items():
        dv[s] = ((dim,), fl(v))
    if layout == "time_dim":
        return xr.Dataset(dv, coords={"time": times_ns(tab)})
    dv["time"] = ((dim,), times_ns(tab))
    return xr.Dataset(dv).set_coords("time")


# ---------------------------------------------------------------------------------------------
# configs
# ---------------------------------------------------------------------------------------------
def window_layout(rng, tab, kind=None):
    """List of (starting, ending) in seconds (None = open); disjoint by construction."""
    t = tab["t"]
    n = len(t)
    kind = kind or rng.choice(["none", "all", "split2", "split3", "gap", "halfopen_lo", "halfopen_hi", "empty+rest", "all+empty"])
    if n == 0 or kind == "none":
        return [(None, None)]
    lo, hi = t[0], t[-1] + 1
    cut = lambda: t[rng.randrange(n)] + rng.choice([0, 0, 0, 1, -1, F(1, 2), -F(1, 2)])  # noqa: E731
    if kind == "all":
        return [(lo - 5, hi + 5)]
    if kind == "split2":
        c = cut()
        return [(lo - 1, c), (c, hi)]
    if kind == "split3":
        a, b = sorted([cut(), cut()])
        return [(None, a), (a, b), (b, None)]
    if kind == "gap":
        a, b = sorted([cut(), cut()])
        return [(lo, a), (b, hi)]
    if kind == "halfopen_lo":
        c = cut()
        return [(None, c)]
    if kind == "halfopen_hi":
        c = cut()
        return [(c, None)]
    if kind == "empty+rest":
        return [(hi + 100, hi + 200), (lo, hi)]
    if kind == "all+empty":
        return [(lo, hi), (lo - 500, lo - 100)]
    raise ValueError(kind)


def iso(sec):
    """ISO text of an instant in seconds (whole, or a Fraction with a half second)."""
    f = F(sec)
    if f.denominator == 1:
        return sut.iso(int(f))
    import datetime as dt
    return (dt.datetime(1970, 1, 1) + dt.timedelta(seconds=int(f // 1), microseconds=int((f % 1) * 1_000_000))).isoformat()


def spec_masks(drv, tab, wins):
    """IoosQc.specMask for every window; instants travel in half seconds so that bounds between two rows are integers."""
    sc2 = lambda v: None if v is None else int(F(v) * 2)  # noqa: E731
    nat = set(tab.get("nat", ()))
    a, = drv.run([{"kind": "window", "t": [None if i in nat else int(t) * 2 for i, t in enumerate(tab["t"])],
                   "windows": [[sc2(w[0]), sc2(w[1])] for w in wins]}])
    return a["spec"]


def test_params(rng, tab, test):
    """(module, test name, kwargs as JSON-able python) for a named test."""
    if test == "gross":
        return "qartod", "gross_range_test", {"fail_span": [0, 30], "suspect_span": [rng.choice([1, 5]), rng.choice([20, 25])]}
    if test == "spike":
        return "qartod", "spike_test", {"suspect_threshold": rng.choice([1, 3]), "fail_threshold": rng.choice([6, 10]),
                                        "method": rng.choice(["average", "differential"])}
    if test == "roc":
        return "qartod", "rate_of_change_test", {"threshold": rng.choice([0.0078125, 0.03125, 0.125])}
    if test == "flat":
        return "qartod", "flat_line_test", {"suspect_threshold": 120, "fail_threshold": 240, "tolerance": rng.choice([0.5, 2])}
    if test == "location":
        return "qartod", "location_test", {"bbox": [-71, 39, -69, 40.0625], "range_max": rng.choice([None, 5000])}
    if test == "climatology":
        return "qartod", "climatology_test", {"config": [
            {"tspan": [iso(BASE_T - 86400), iso(BASE_T + 86400 * 30)], "vspan": [2, 20], "fspan": [0, 30], "zspan": [0, 15]},
            {"tspan": [1, 1], "period": "month", "vspan": [5, 10], "zspan": [10, 40]},
        ]}
    if test == "density":
        return "qartod", "density_inversion_test", {"suspect_threshold": -1, "fail_threshold": -5}
    if test == "speed":
        return "argo", "speed_test", {"suspect_threshold": 1, "fail_threshold": 10}
    if test == "valid":
        return "axds", "valid_range_test", {"valid_span": [1, 25]}
    if test == "probe":
        kw = {"tag": rng.randint(0, 99)}
        # configured keywords that collide with what a stream passes, and one the function does not take
        # (Call.run: the stream's value wins, unknown keywords are dropped — IoosQc.C05_call_kwargs)
        if rng.random() < 0.4:
            kw["zinp"] = [-5.0, -6.0]
        if rng.random() < 0.3:
            kw["lat"] = [-7.0]
            kw["lon"] = [-8.0]
        if rng.random() < 0.4:
            kw["bogus_keyword"] = 1
        return "qartod", "_verif_probe", kw
    if test == "aggregate":
        return "qartod", "aggregate", None
    raise ValueError(test)


NEEDS = {"roc": ["t"], "flat": ["t"], "location": ["lat", "lon"], "climatology": ["t", "z"], "density": ["z"],
         "speed": ["t", "lat", "lon"]}
ALL_TESTS = ["gross", "spike", "roc", "flat", "location", "climatology", "density", "speed", "valid", "probe"]


def usable_tests(tab):
    ax = set(tab["axes"]) | {"t"}
    return [t for t in ALL_TESTS if all(a in ax for a in NEEDS.get(t, []))]


def gen_config(rng, tab, max_tests=3, windows=None, tests=None):
    """Logical config: list of contexts {window:(a,b), streams:{sid:[(key, module, test, kwargs)]}}."""
    wins = windows or window_layout(rng, tab)
    pool = tests or usable_tests(tab)
    sids = list(tab["cols"])
    ctxs = []
    # the same stream/test set in every context, so collected results combine contexts
    plan = {}
    for sid in sids:
        if rng.random() < 0.8 or not plan:
            k = rng.randint(1, max_tests)
            chosen = rng.sample(pool, min(k, len(pool)))
            plan[sid] = [(t, *test_params(rng, tab, t)) for t in chosen]
    for w in wins:
        ctxs.append({"window": w, "streams": copy.deepcopy(plan)})
    r = rng.random()
    if r < 0.25 and len(ctxs) >= 2:
        # contexts that do not all run the same tests: every context but the first loses some of its entries
        for c in ctxs[1:]:
            entries = [(sid, e) for sid, es in c["streams"].items() for e in es]
            keep = set(rng.sample(range(len(entries)), rng.randint(1, len(entries)))) if entries else set()
            c["streams"] = {}
            for i, (sid, e) in enumerate(entries):
                if i in keep:
                    c["streams"].setdefault(sid, []).append(e)
    elif r < 0.40 and len(ctxs) >= 2:
        # the first window written a second time AFTER the others, carrying the part of its entries the first mention
        # left out (equal contexts that are not adjacent in the list)
        first = ctxs[0]
        entries = [(sid, e) for sid, es in first["streams"].items() for e in es]
        if len(entries) >= 2:
            cut = rng.randint(1, len(entries) - 1)
            a, b = entries[:cut], entries[cut:]
            first["streams"] = {}
            for sid, e in a:
                first["streams"].setdefault(sid, []).append(e)
            again = {"window": first["window"], "streams": {}}
            for sid, e in b:
                again["streams"].setdefault(sid, []).append(e)
            ctxs.append(again)
    return ctxs


def window_bound(sec):
    """A window bound (seconds, possibly on a half second) in one of the forms a caller may write it: Timestamp,
    ISO string, datetime, numpy datetime64 — the form varies with the value."""
    ns = int(F(sec) * 1_000_000_000)
    form = (ns // 500_000_000) % 4
    ts = pd.Timestamp(ns, unit="ns")
    if form == 0:
        return ts
    if form == 1:
        return iso(sec)
    if form == 2:
        return ts.to_pydatetime()
    return np.datetime64(ns, "ns")


def config_dict(ctxs, with_contexts=None):
    """ioos_qc config mapping for the logical contexts."""
    out = []
    for c in ctxs:
        d = {"streams": {}}
        a, b = c["window"]
        if a is not None or b is not None:
            w = {}
            if a is not None:
                w["starting"] = window_bound(a)
            if b is not None:
                w["ending"] = window_bound(b)
            d["window"] = w
        for sid, tests in c["streams"].items():
            for (_key, module, name, kw) in tests:
                d["streams"].setdefault(sid, {}).setdefault(module, {})[name] = copy.deepcopy(kw)
        out.append(d)
    return {"contexts": out}


# ---------------------------------------------------------------------------------------------
# running a front end
# ---------------------------------------------------------------------------------------------
NAMED = {"time": "obs_time", "z": "depth_m", "lat": "y_deg", "lon": "x_deg"}


def run_frontend(fe, tab, cfg_dict, tmpdir=None, twice=False, warmup=None):
    """Returns the list of yielded ContextResults (evaluated).  With `twice`, the SAME stream object is run a second
    time and both lists are returned."""
    with warnings.catch_warnings():
        warnings.simplefilter("ignore")
        cfg = cfg_dict if isinstance(cfg_dict, Config) else Config(cfg_dict)
        if fe == "pandas":
            st = PandasStream(make_df(tab))
        elif fe == "pandas_named":
            # the axis columns under names of the caller's choosing, next to unrelated columns (one of them called "z")
            df = make_df(tab).rename(columns=NAMED)
            df["z"] = "unrelated text"
            df["station"] = 17
            st = PandasStream(df, time="obs_time", z="depth_m", lat="y_deg", lon="x_deg")
        elif fe == "xarray_named":
            st = XarrayStream(make_ds(tab).rename({k: v for k, v in NAMED.items() if k == "time" or k in tab["axes"]}),
                              time="obs_time", z="depth_m", lat="y_deg", lon="x_deg")
        elif fe == "netcdf_named":
            st = NetcdfStream(make_ds(tab).rename({k: v for k, v in NAMED.items() if k == "time" or k in tab["axes"]}),
                              time="obs_time", z="depth_m", lat="y_deg", lon="x_deg")
        elif fe == "numpy":
            # the container of the columns varies with the table (deterministically): NaN arrays, or masked arrays with
            # a finite number under the mask
            conv = fl_masked if (tab["n"] + len(tab["cols"])) % 3 == 0 else fl
            kw = {"inp": {s: conv(v) for s, v in tab["cols"].items()}, "time": times_ns(tab)}
            if tab["n"] % 4 == 1:
                # a dict subclass with a default factory (records appended stream by stream): `in` says a stream is
                # absent, subscripting would invent it
                import collections
                n_rows = tab["n"]
                kw["inp"] = collections.defaultdict(lambda: np.full(n_rows, np.nan), kw["inp"])
            elif tab["n"] % 4 == 2:
                import collections
                kw["inp"] = collections.OrderedDict(kw["inp"])
            for a, v in tab["axes"].items():
                kw[a] = conv(v)
            st = NumpyStream(**kw)
        elif fe == "xarray":
            st = XarrayStream(make_ds(tab))
        elif fe == "xarray_obs":
            st = XarrayStream(make_ds(tab, "obs_dim"))
        elif fe == "netcdf_obs":
            st = NetcdfStream(make_ds(tab, "obs_dim"))
        elif fe == "netcdf":
            st = NetcdfStream(make_ds(tab))
        elif fe in ("netcdf_file", "xarray_file"):
            # netCDF3 through the scipy engine (the only writer available offline); time stored as
            # seconds since the epoch so that the undecoded NetcdfStream path reads it as such
            d = tempfile.mkdtemp(prefix="verif_nc_")
            try:
                path = os.path.join(d, "t.nc")
                ds = make_ds(tab)
                ds["time"].encoding = {"units": "seconds since 1970-01-01 00:00:00", "dtype": "float64"}
                ds.to_netcdf(path, engine="scipy")
                st = NetcdfStream(path) if fe == "netcdf_file" else XarrayStream(path)
                with np.errstate(all="ignore"):
                    return list(st.run(cfg))
            finally:
                import shutil
                shutil.rmtree(d, ignore_errors=True)
        else:
            raise ValueError(fe)
        with np.errstate(all="ignore"), sut.time_limit(60):
            if warmup is not None:
                # the SAME stream object first runs another configuration (its results are not looked at)
                list(st.run(warmup if isinstance(warmup, Config) else Config(warmup)))
            first = list(st.run(cfg))
            if twice:
                return first, list(st.run(cfg))
            return first


def canon_ctx_result(r):
    def arr(a):
        if a is None:
            return None
        msk = np.ma.getmaskarray(a).reshape(-1) if isinstance(a, np.ma.MaskedArray) else None
        a = np.asarray(np.ma.getdata(a))
        if a.size == 0:
            return []
        if np.issubdtype(a.dtype, np.datetime64):
            return [int(v) for v in a.astype("datetime64[s]").astype("int64")]
        vals = [None if v != v else float(v) for v in a.astype("float64").reshape(-1).tolist()]
        return vals if msk is None else [None if m else v for v, m in zip(vals, msk)]
    return {
        "stream_id": r.stream_id,
        "mask": [bool(b) for b in np.asarray(r.subset_indexes).reshape(-1)],
        "tests": [{"package": tr.package, "test": tr.test, **sut.canon_result(tr.results)} for tr in r.results],
        "data": arr(r.data), "tinp": arr(r.tinp), "zinp": arr(r.zinp), "lat": arr(r.lat), "lon": arr(r.lon),
    }
