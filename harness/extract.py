"""Source pins: a small translator from /repo's current source to Lean.

A few literal TABLES of the code are read with Python's `ast` on every run, written into a generated
Lean file and checked by the kernel (`decide`) against the decidable admissibility predicates of
lean/IoosQc/Theorems/SourcePin.lean; the theorems there (`C04_pin_priorities`, `C19_pin_cfSafe_classes`,
`C01_pin_flagCodes`, `C20_pin_fxOps`) quantify over every admissible table.

  * recognised table that is admissible      -> status "ok"      (one more proof obligation discharged)
  * recognised table that is NOT admissible  -> status "failed"  (a proof obligation is broken: the check
                                                                 searches for a failing input as usual and
                                                                 reports a violation either way)
  * source no longer has the recognisable literal shape -> status "unavailable": nothing is claimed
    from the pin for this run; the tie of the model to the code then rests on the correspondence run
    alone (it is the primary tie in any case).  A reshaped source is not evidence against the property.
"""
from __future__ import annotations

import ast
import hashlib
import json
import os
import re
import subprocess
from pathlib import Path

ROOT = Path(__file__).resolve().parent.parent
LEAN = ROOT / "lean"
REPO = Path(os.environ.get("VERIF_REPO", "/repo"))
ALLOWED_AXIOMS = {"propext", "Classical.choice", "Quot.sound"}
FLAG = {"GOOD": ".good", "UNKNOWN": ".unknown", "SUSPECT": ".suspect", "FAIL": ".fail", "MISSING": ".missing"}
PYOP = {"add": ".add", "sub": ".sub", "mul": ".mul", "truediv": ".truediv", "pow": ".pow"}
PIN_PROPS = {"C01": ["flag_codes"], "C04": ["flag_codes", "priorities", "src_qartod_compare"], "C19": ["cf_safe", "src_save"], "C20": ["fx_ops", "src_eval_fx"], "C08": ["src_climatology_test"], "C07": ["config_layout", "src_ContextConfig_calls"], "C05": ["window_ops", "src_Call_run"], "C18": ["src_Call_run"], "C06": ["src_collect_results_dict"],
             "C03": ["defaults_valid", "src_gross_range_test", "src_valid_range_test"], "C09": ["default_spike", "src_spike_test"],
             "C11": ["default_flat", "src_flat_line_test"], "C12": ["default_atten", "src_attenuated_signal_test"], "C14": ["default_location", "src_location_test"],
             "C10": ["src_rate_of_change_test", "src_speed_test"], "C13": ["src_density_inversion_test", "src_pressure_increasing_test"]}
# function bodies translated by harness/translate.py: (Lean theorem about the committed transcription, its binder list, its statement)
SRC_FUNCS = {
    "gross_range_test": ("IoosQc.NpSrc.C03_src_gross", "(inp : List V) (f : SeqArg) (s : Option SeqArg)",
                         "IoosQc.Gen.gross_range_test inp f s = grossRange f s inp", "inp f s"),
    "spike_test": ("IoosQc.NpSrc.C09_src_spike", "(inp : List V) (sus fail : Option Rat) (method : String)",
                   "IoosQc.Gen.spike_test inp sus fail method = spikeTest method sus fail inp", "inp sus fail method"),
    "rate_of_change_test": ("IoosQc.NpSrc.C10_src_roc", "(inp : List V) (ts : List Int) (thr : Rat)",
                            "IoosQc.Gen.rate_of_change_test inp ts thr = rocTest inp ts thr", "inp ts thr"),
    "location_test": ("IoosQc.NpSrc.C14_src_location", "(lon lat : List V) (bbox : SeqArg) (rm : Option Rat) (hops : List V)",
                      "IoosQc.Gen.location_test lon lat bbox rm hops = locationTest lon lat bbox rm hops", "lon lat bbox rm hops"),
    "density_inversion_test": ("IoosQc.NpSrc.C13_src_density", "(rho z : List V) (sus fail : Option Rat)",
                               "IoosQc.Gen.density_inversion_test rho z sus fail = densityTest rho z sus fail", "rho z sus fail"),
    "pressure_increasing_test": ("IoosQc.NpSrc.C13_src_pressure", "(p : List V)",
                                 "IoosQc.Gen.pressure_increasing_test p = pressureTest p", "p"),
    "speed_test": ("IoosQc.NpSrc.C10_src_speed", "(lon lat : List V) (ts : List Int) (sus fail : Rat) (hops : List V)",
                   "IoosQc.Gen.speed_test lon lat ts sus fail hops = speedTest lon lat ts sus fail hops", "lon lat ts sus fail hops"),
    "flat_line_test": ("IoosQc.NpSrc.C11_src_flat", "(inp : List V) (ts : List Int) (sus fail tol : Rat)",
                       "IoosQc.Gen.flat_line_test inp ts sus fail tol = flatLineTest inp ts sus fail tol", "inp ts sus fail tol"),
    "qartod_compare": ("IoosQc.NpSrc.C04_src_compare", "(vs : List (List IoosQc.Cell))",
                       "IoosQc.Gen.qartod_compare vs = qartodCompare vs", "vs"),
    "climatology_test": ("IoosQc.NpSrc.C08_src_climatology",
                         "(periodOf : Period → Int → Int) (ms : List Member) (inp : List V) (ts : List Int) (z : List V) "
                         "(ht : ts.length = inp.length) (hz : z.length = inp.length)",
                         "IoosQc.Gen.climatology_test periodOf ms inp ts z = climatologyTest periodOf ms inp ts z", "periodOf ms inp ts z ht hz"),
    "attenuated_signal_test": ("IoosQc.NpSrc.C12_src_atten",
                               "(inp : List V) (ts : List Int) (sus fail : Rat) (period : Option Rat) (minObs : Option Nat) (minPeriod : Option Rat) (checkType : String)",
                               "IoosQc.Gen.attenuated_signal_test inp ts sus fail period minObs minPeriod checkType = "
                               "attenuatedTest checkType inp ts sus fail period minObs minPeriod", "inp ts sus fail period minObs minPeriod checkType"),
    "save": ("IoosQc.NpSrc.C19_src_save", "(rs : List StoreRes) (wd wa : Bool) (inc exc : Option (List String))",
             "IoosQc.Gen.save rs IoosQc.NpSrc.defaultAxes wd wa inc exc = storeSave wd wa inc exc rs", "rs wd wa inc exc"),
    "collect_results_dict": ("IoosQc.NpSrc.C06_src_dict", "(rs : List IoosQc.NpSrc.CR) (k : IoosQc.NpSrc.DKey)",
                             "IoosQc.NpSrc.dlookup (IoosQc.Gen.collect_results_dict rs) k = IoosQc.NpSrc.extend none (IoosQc.NpSrc.dictPieces rs k)", "rs k"),
    "Call_run": ("IoosQc.NpSrc.C05_src_call", "{β : Type} (configured passed : KwArgs) (sig : List String) (f : KwArgs → Except Err β)",
                 "IoosQc.Gen.Call_run configured passed sig f = callRun f configured passed sig", "configured passed sig f"),
    "ContextConfig_calls": ("IoosQc.NpSrc.C07_src_context", "(knownMod : String → Bool) (known : String → String → Bool) (c : J)",
                            "IoosQc.Gen.ContextConfig_calls knownMod known c ((c.get? \"window\").getD .null) (regionOf c) = contextCalls knownMod known c",
                            "knownMod known c"),
    "valid_range_test": ("IoosQc.NpSrc.C03_src_valid", "(inp : List V) (span : V × V) (si ei : Bool) (junk : List Np.Fl)",
                         "IoosQc.Gen.valid_range_test inp span si ei junk = validRange span.1 span.2 si ei inp", "inp span si ei junk"),
    "eval_fx": ("IoosQc.NpFx.C20_src_history",
                "(pf : String → Option Rat) (st : Stats) (exprStack : List IoosQc.NpFx.SE) (pre : List Tok) (e : Expr) "
                "(h : IoosQc.NpFx.Stands pf exprStack (pre ++ e.compile))",
                "IoosQc.Gen.eval_fx pf st.get exprStack = IoosQc.NpFx.ofOpt (e.eval st)", "pf st exprStack pre e h"),
}


def _parse(rel):
    return ast.parse((REPO / rel).read_text())


def flag_codes():
    """[(lean flag, code)] from `class QartodFlags`."""
    for node in ast.walk(_parse("ioos_qc/qartod.py")):
        if isinstance(node, ast.ClassDef) and node.name == "QartodFlags":
            out = []
            for st in node.body:
                if isinstance(st, ast.Assign) and len(st.targets) == 1 and isinstance(st.targets[0], ast.Name) \
                        and isinstance(st.value, ast.Constant) and isinstance(st.value.value, int) and not isinstance(st.value.value, bool):
                    name = st.targets[0].id
                    if name in FLAG and st.value.value >= 0:
                        out.append((FLAG[name], st.value.value))
            return out or None
    return None


def priorities():
    """[lean flag] from the literal `priorities = [QartodFlags.X, ...]` of qartod_compare."""
    for node in ast.walk(_parse("ioos_qc/qartod.py")):
        if isinstance(node, ast.FunctionDef) and node.name == "qartod_compare":
            for st in ast.walk(node):
                if isinstance(st, ast.Assign) and len(st.targets) == 1 and isinstance(st.targets[0], ast.Name) \
                        and st.targets[0].id == "priorities" and isinstance(st.value, (ast.List, ast.Tuple)):
                    out = []
                    for e in st.value.elts:
                        if isinstance(e, ast.Attribute) and isinstance(e.value, ast.Name) and e.value.id in ("QartodFlags", "FLAGS") \
                                and e.attr in FLAG:
                            out.append(FLAG[e.attr])
                        else:
                            return None
                    return out
    return None


def _char_class(body: str):
    """'0-9_' -> [(48, 57), (95, 95)]; None for anything with escapes or classes we do not read."""
    if not body or "\\" in body or "[" in body or "]" in body:
        return None
    out, i = [], 0
    while i < len(body):
        if i + 2 < len(body) and body[i + 1] == "-":
            lo, hi = ord(body[i]), ord(body[i + 2])
            if lo > hi:
                return None
            out.append((lo, hi))
            i += 3
        else:
            if body[i] == "-" and 0 < i < len(body) - 1:
                return None
            out.append((ord(body[i]), ord(body[i])))
            i += 1
    return out


def cf_safe():
    """{'lead': ranges, 'keep': ranges, 'prefix': str, 'repl': str} from utils.cf_safe_name."""
    for node in ast.walk(_parse("ioos_qc/utils.py")):
        if isinstance(node, ast.FunctionDef) and node.name == "cf_safe_name":
            lead = keep = repl = prefix = None
            for c in ast.walk(node):
                if isinstance(c, ast.Call) and isinstance(c.func, ast.Attribute) and isinstance(c.func.value, ast.Name) and c.func.value.id == "re":
                    if c.func.attr == "match" and c.args and isinstance(c.args[0], ast.Constant) and isinstance(c.args[0].value, str):
                        m = re.fullmatch(r"\^\[([^\^].*)\]", c.args[0].value)
                        lead = _char_class(m.group(1)) if m else None
                    if c.func.attr == "sub" and len(c.args) >= 2 and all(isinstance(a, ast.Constant) and isinstance(a.value, str) for a in c.args[:2]):
                        m = re.fullmatch(r"\[\^(.+)\]", c.args[0].value)
                        keep = _char_class(m.group(1)) if m else None
                        repl = c.args[1].value
                if isinstance(c, ast.JoinedStr) and len(c.values) == 2 and isinstance(c.values[0], ast.Constant) \
                        and isinstance(c.values[1], ast.FormattedValue):
                    prefix = c.values[0].value
            if None in (lead, keep, repl, prefix) or len(repl) != 1:
                return None
            return {"lead": lead, "keep": keep, "prefix": prefix, "repl": repl}
    return None


def fx_ops():
    """[(symbol, lean PyOp)] from the module-level dict `opn` of fx_parser."""
    tree = _parse("ioos_qc/config_creator/fx_parser.py")
    for st in tree.body:
        if isinstance(st, ast.Assign) and len(st.targets) == 1 and isinstance(st.targets[0], ast.Name) and st.targets[0].id == "opn" \
                and isinstance(st.value, ast.Dict):
            out = []
            for k, v in zip(st.value.keys, st.value.values):
                if not (isinstance(k, ast.Constant) and isinstance(k.value, str) and len(k.value) == 1):
                    return None
                if isinstance(v, ast.Attribute) and isinstance(v.value, ast.Name) and v.value.id == "operator":
                    out.append((k.value, PYOP.get(v.attr, ".other")))
                else:
                    out.append((k.value, ".other"))
            return out
    return None


def sig_defaults(rel, func, names):
    """{name: literal default} of the named parameters of a module-level function, from its `def` line."""
    for node in _parse(rel).body:
        if isinstance(node, ast.FunctionDef) and node.name == func:
            a = node.args
            pos = a.posonlyargs + a.args
            table = {p.arg: d for p, d in zip(pos[len(pos) - len(a.defaults):], a.defaults)}
            table.update({p.arg: d for p, d in zip(a.kwonlyargs, a.kw_defaults) if d is not None})
            out = {}
            for n in names:
                if n not in table:
                    return None
                try:
                    out[n] = ast.literal_eval(table[n])
                except Exception:  # noqa: BLE001
                    return None
            return out
    return None


def _is_num(x):
    return isinstance(x, (int, float)) and not isinstance(x, bool) and float(x) == int(x)


def window_ops():
    """For PandasStream, NumpyStream and XarrayStream: the comparison operator applied to `context.window.starting` and the one
    applied to `context.window.ending` in `run` (exactly one of each per class, `<column> OP context.window.<bound>`)."""
    out = []
    tree = _parse("ioos_qc/streams.py")
    names = {ast.GtE: "ge", ast.Gt: "gt", ast.LtE: "le", ast.Lt: "lt"}
    for cls in ("PandasStream", "NumpyStream", "XarrayStream"):
        node = next((n for n in tree.body if isinstance(n, ast.ClassDef) and n.name == cls), None)
        run = node and next((n for n in node.body if isinstance(n, ast.FunctionDef) and n.name == "run"), None)
        if run is None:
            return None
        found = {"starting": [], "ending": []}
        for n in ast.walk(run):
            if isinstance(n, ast.Compare) and len(n.ops) == 1 and type(n.ops[0]) in names:
                r = ast.unparse(n.comparators[0])
                if r in ("context.window.starting", "context.window.ending"):
                    found[r.rsplit(".", 1)[1]].append(names[type(n.ops[0])])
                elif "context.window" in ast.unparse(n.left):
                    return None                       # bound on the left: not the shape read here
        if len(found["starting"]) != 1 or len(found["ending"]) != 1:
            return None
        out.append([found["starting"][0], found["ending"][0]])
    return out


def config_layout():
    """The `if … elif … elif … else` chain of Config.__init__ (keys, order, depth threshold; every branch must build its
    ContextConfig in the form the model reads) and the default of `default_stream_key`: ([("contexts", k) | ("streams", k) | ("depth", n)], key)."""
    for node in _parse("ioos_qc/config.py").body:
        if isinstance(node, ast.ClassDef) and node.name == "Config":
            init = next((n for n in node.body if isinstance(n, ast.FunctionDef) and n.name == "__init__"), None)
            if init is None:
                return None
            names = [a.arg for a in init.args.args]
            if "default_stream_key" not in names:
                return None
            dflt = init.args.defaults[len(init.args.defaults) - (len(names) - names.index("default_stream_key"))]
            if not (isinstance(dflt, ast.Constant) and isinstance(dflt.value, str)):
                return None
            chain = []
            for n in ast.walk(init):
                if isinstance(n, ast.If) and ast.unparse(n.test) == "'contexts' in self.config":
                    cur = n
                    while True:
                        t, body = ast.unparse(cur.test), " ".join(ast.unparse(b) for b in cur.body)
                        m = re.fullmatch(r"'(\w+)' in self\.config", t)
                        if m and f"for c in self.config['{m.group(1)}']:" in body and "ContextConfig(c).calls" in body:
                            chain.append(("contexts", m.group(1)))
                        elif m and "ContextConfig(self.config).calls" in body:
                            chain.append(("streams", m.group(1)))
                        elif re.fullmatch(r"dict_depth\(self\.config\) >= (\d+)", t) and "ContextConfig(odict(streams=self.config)).calls" in body:
                            chain.append(("depth", int(re.fullmatch(r"dict_depth\(self\.config\) >= (\d+)", t).group(1))))
                        else:
                            return None
                        if len(cur.orelse) == 1 and isinstance(cur.orelse[0], ast.If):
                            cur = cur.orelse[0]
                            continue
                        tail = " ".join(ast.unparse(b) for b in cur.orelse)
                        if "ContextConfig(odict(streams={default_stream_key: self.config})).calls" not in tail:
                            return None
                        return [chain, dflt.value]
    return None


def defaults_valid():
    d = sig_defaults("ioos_qc/axds.py", "valid_range_test", ["start_inclusive", "end_inclusive"])
    if d is None or not all(isinstance(v, bool) for v in d.values()):
        return None
    return [d["start_inclusive"], d["end_inclusive"]]


def default_spike():
    d = sig_defaults("ioos_qc/qartod.py", "spike_test", ["method"])
    return d["method"] if d and isinstance(d["method"], str) and d["method"].isascii() and '"' not in d["method"] else None


def default_flat():
    d = sig_defaults("ioos_qc/qartod.py", "flat_line_test", ["tolerance"])
    return int(d["tolerance"]) if d and _is_num(d["tolerance"]) else None


def default_atten():
    d = sig_defaults("ioos_qc/qartod.py", "attenuated_signal_test", ["check_type"])
    return d["check_type"] if d and isinstance(d["check_type"], str) and d["check_type"].isascii() and '"' not in d["check_type"] else None


def default_location():
    d = sig_defaults("ioos_qc/qartod.py", "location_test", ["bbox"])
    if not d or not isinstance(d["bbox"], (tuple, list)) or not all(_is_num(v) for v in d["bbox"]):
        return None
    return [int(v) for v in d["bbox"]]


def _src(name):
    def f():
        import translate
        try:
            return translate.translate(name)
        except translate.Untranslatable:
            return None
    return f


EXTRACTORS = {**{f"src_{fn}": _src(fn) for fn in SRC_FUNCS}, "flag_codes": flag_codes, "config_layout": config_layout, "window_ops": window_ops, "priorities": priorities, "cf_safe": cf_safe, "fx_ops": fx_ops,
              "defaults_valid": defaults_valid, "default_spike": default_spike, "default_flat": default_flat,
              "default_atten": default_atten, "default_location": default_location}


def _pairs(rs):
    return "[" + ", ".join(f"({a}, {b})" for a, b in rs) + "]"


def _chars(s):
    return "[" + ", ".join(f"Char.ofNat {ord(c)}" for c in s) + "]"


def lean_for(table: str, val) -> tuple[str, str]:
    """(Lean source proving the pin for this table, name of the final theorem)."""
    if table == "flag_codes":
        body = "[" + ", ".join(f"(Flag{f}, {c})" for f, c in val) + "]"
        return (f"def srcFlagCodes : List (Flag × Nat) := {body}\n"
                "theorem src_flagCodes_ok : Pin.flagCodesOk srcFlagCodes = true := by decide\n"
                "theorem src_flagCodes : (∀ e ∈ srcFlagCodes, e.1.code = e.2) ∧ (∀ f : Flag, ∃ e ∈ srcFlagCodes, e.1 = f ∧ e.2 = f.code) :=\n"
                "  C01_pin_flagCodes _ src_flagCodes_ok\n", "src_flagCodes")
    if table == "priorities":
        body = "[" + ", ".join(f"Flag{f}" for f in val) + "]"
        return (f"def srcPriorities : List Flag := {body}\n"
                "theorem src_priorities_ok : Pin.prioritiesOk srcPriorities = true := by decide\n"
                "theorem src_priorities (col : List Cell) : Pin.aggregateWith srcPriorities col = worstOf col :=\n"
                "  C04_pin_priorities _ src_priorities_ok col\n", "src_priorities")
    if table == "cf_safe":
        return (f"def srcLead : List (Nat × Nat) := {_pairs(val['lead'])}\n"
                f"def srcKeep : List (Nat × Nat) := {_pairs(val['keep'])}\n"
                f"def srcPrefix : List Char := {_chars(val['prefix'])}\n"
                f"def srcRepl : Char := Char.ofNat {ord(val['repl'])}\n"
                "theorem src_cfSafe_ok : Pin.classesOk srcLead srcKeep srcPrefix srcRepl = true := by decide\n"
                "theorem src_cfSafe (s : List Char) : Pin.cfSafeWith srcLead srcKeep srcPrefix srcRepl s = cfSafeName s :=\n"
                "  C19_pin_cfSafe_classes _ _ _ _ src_cfSafe_ok s\n", "src_cfSafe")
    if table == "fx_ops":
        body = "[" + ", ".join(f"(Char.ofNat {ord(k)}, Pin.PyOp{v})" for k, v in val) + "]"
        return (f"def srcFxOps : List (Char × Pin.PyOp) := {body}\n"
                "theorem src_fxOps_ok : Pin.fxOpsOk srcFxOps = true := by decide\n"
                "theorem src_fxOps (o : BinOp) : ∀ e ∈ srcFxOps, e.1 = Pin.BinOp.symbol o → e.2 = Pin.BinOp.pyOp o :=\n"
                "  C20_pin_fxOps _ src_fxOps_ok o\n", "src_fxOps")
    if table.startswith("src_"):
        fn = table[4:]
        thm, binders, stmt, args = SRC_FUNCS[fn]
        return ("namespace IoosQc.Gen\nopen IoosQc.Np\nopen IoosQc.NpSrc (Axes setCol dotted CR TR DKey DState dhas dget dset emptyLikeFilled streamsOf)\nopen IoosQc.NpFx (SE FxErr FxR Op2 pop untuple strIn lookupOp alpha0 fromFloat tie)\n" + val + "end IoosQc.Gen\n"
                f"theorem src_{fn}_same : @IoosQc.Gen.{fn} = @IoosQc.NpSrc.{fn} := rfl\n"
                f"theorem src_{fn} {binders} : {stmt} := by\n  rw [src_{fn}_same]; exact {thm} {args}\n", f"src_{fn}")
    if table == "window_ops":
        items = ", ".join(f"(.{a}, .{b})" for a, b in val)
        return (f"theorem src_window_ok : ([{items}] : List (Pin.Cmp × Pin.Cmp)) = [(.ge, .lt), (.ge, .lt), (.ge, .lt)] := by decide\n"
                f"theorem src_window (w : Window) (ts : List Int) : ∀ ops ∈ ([{items}] : List (Pin.Cmp × Pin.Cmp)), Pin.maskWith ops w ts = specMask w ts :=\n"
                "  C05_pin_window _ src_window_ok w ts\n", "src_window")
    if table == "config_layout":
        chain, dk = val
        if not (dk.isascii() and '"' not in dk and all(k == "depth" or (v.isascii() and '"' not in v) for k, v in chain)):
            return None
        items = ", ".join({"contexts": f'.contextsKey "{v}"', "streams": f'.streamsKey "{v}"', "depth": f".depthGe {v}"}[k] for k, v in chain)
        return (f'theorem src_layout_ok : (([{items}] : List Pin.LayoutTest), "{dk}") = (Pin.layoutChain, "_stream") := by decide\n'
                f"theorem src_layout (knownMod : String → Bool) (known : String → String → Bool) (cfg : J) :\n"
                f'    Pin.configCallsWith knownMod known "{dk}" [{items}] cfg = configCalls knownMod known "_stream" cfg :=\n'
                "  C07_pin_layout _ _ src_layout_ok knownMod known cfg\n", "src_layout")
    b = lambda x: "true" if x else "false"  # noqa: E731
    if table == "defaults_valid":
        return (f"theorem src_defaults_ok : (({b(val[0])}, {b(val[1])}) : Bool × Bool) = (Defaults.validStartInclusive, Defaults.validEndInclusive) := by decide\n"
                f"theorem src_defaults (lo hi : V) (inp : List V) : validRange lo hi {b(val[0])} {b(val[1])} inp = validRange lo hi true false inp :=\n"
                "  C03_pin_defaults _ _ src_defaults_ok lo hi inp\n", "src_defaults")
    if table == "default_spike":
        return (f'theorem src_default_ok : ("{val}" : String) = Defaults.spikeMethod := by decide\n'
                f'theorem src_default (sus fail : Option Rat) (inp : List V) : spikeTest "{val}" sus fail inp = spikeTest "average" sus fail inp :=\n'
                "  C09_pin_default_method _ src_default_ok sus fail inp\n", "src_default")
    if table == "default_flat":
        return (f"theorem src_default_ok : (({val} : Int) : Rat) = Defaults.flatTolerance := by decide\n"
                f"theorem src_default (inp : List V) (ts : List Int) (sus fail : Rat) : flatLineTest inp ts sus fail (({val} : Int) : Rat) = flatLineTest inp ts sus fail 0 :=\n"
                "  C11_pin_default_tolerance _ src_default_ok inp ts sus fail\n", "src_default")
    if table == "default_atten":
        return (f'theorem src_default_ok : ("{val}" : String) = Defaults.attenCheckType := by decide\n'
                '#check @C12_pin_default_check_type\n', "src_default_ok")
    if table == "default_location":
        body = "[" + ", ".join(f"(({v} : Int) : Rat)" for v in val) + "]"
        return (f"theorem src_default_ok : ({body} : List Rat) = Defaults.locationBBox := by decide\n"
                f"theorem src_default (lon lat : List V) (r : Option Rat) (hops : List V) : locationTest lon lat ⟨true, {body}⟩ r hops = locationTest lon lat ⟨true, [-180, -90, 180, 90]⟩ r hops :=\n"
                "  C14_pin_default_bbox _ src_default_ok lon lat r hops\n", "src_default")
    raise ValueError(table)


def _kernel_check(prop: str, tag: str, parts, finals) -> dict:
    """Write the generated Lean file, let the kernel check it (cached by content), return status / axioms / log."""
    text = ("/- generated by harness/extract.py from the current source of ioos_qc; checked with `lake env lean` -/\n"
            "import IoosQc.Theorems.SourcePin\nimport IoosQc.Theorems.NpSrc\nimport IoosQc.Theorems.NpSrc2\nimport IoosQc.Theorems.NpSrc3\nimport IoosQc.Theorems.NpSrc4\nimport IoosQc.Theorems.NpSrc5\nimport IoosQc.Theorems.NpSrc6\nimport IoosQc.Theorems.NpSrc7\nimport IoosQc.Theorems.NpSrc8\nimport IoosQc.Theorems.NpSrc9\nimport IoosQc.Theorems.NpSrc10\nimport IoosQc.Theorems.NpSrc11\nopen IoosQc\n\n" + "\n".join(parts) + "\n"
            + "".join(f"#print axioms {f}\n" for f in finals))
    sha = hashlib.sha1(text.encode()).hexdigest()[:16]
    # the key also covers the compiled libraries the file is checked against
    stamp = "".join(hashlib.sha1(o.read_bytes()).hexdigest()[:8] if o.exists() else "nobuild"
                    for o in (LEAN / ".lake/build/lib/lean/IoosQc/Theorems/SourcePin.olean", LEAN / ".lake/build/lib/lean/IoosQc/Theorems/NpSrc.olean",
                              LEAN / ".lake/build/lib/lean/IoosQc/Theorems/NpSrc2.olean", LEAN / ".lake/build/lib/lean/IoosQc/Theorems/NpSrc3.olean",
                              LEAN / ".lake/build/lib/lean/IoosQc/Theorems/NpSrc4.olean", LEAN / ".lake/build/lib/lean/IoosQc/Theorems/NpSrc5.olean",
                              LEAN / ".lake/build/lib/lean/IoosQc/Theorems/NpSrc6.olean", LEAN / ".lake/build/lib/lean/IoosQc/Theorems/NpSrc7.olean",
                              LEAN / ".lake/build/lib/lean/IoosQc/Theorems/NpSrc8.olean", LEAN / ".lake/build/lib/lean/IoosQc/Theorems/NpSrc9.olean",
                              LEAN / ".lake/build/lib/lean/IoosQc/Theorems/NpSrc10.olean",
                              LEAN / ".lake/build/lib/lean/IoosQc/Theorems/NpSrc11.olean"))
    d = LEAN / ".lake" / "pins"
    d.mkdir(parents=True, exist_ok=True)
    f = d / f"{prop}{tag}_{sha}.lean"
    cache = d / f"{prop}{tag}_{sha}_{stamp}.json"
    if cache.exists():
        try:
            c = json.loads(cache.read_text())
            c["cached"] = True
            c["file"] = str(f.relative_to(ROOT))
            return c
        except Exception:  # noqa: BLE001
            pass
    f.write_text(text)
    p = subprocess.run(["lake", "env", "lean", str(f)], cwd=LEAN, stdout=subprocess.PIPE, stderr=subprocess.STDOUT, check=False)
    out = p.stdout.decode()
    axioms = set()
    for m in re.finditer(r"depends on axioms: \[([^\]]*)\]", out):
        axioms |= {x.strip() for x in m.group(1).replace("\n", " ").split(",") if x.strip()}
    ok = p.returncode == 0 and axioms <= ALLOWED_AXIOMS and "sorry" not in out
    upd = {"ok": ok, "axioms": sorted(axioms), "log": "" if ok else out[-1500:]}
    cache.write_text(json.dumps(upd))
    upd["file"] = str(f.relative_to(ROOT))
    return upd


def source_pin(prop: str) -> dict | None:
    """Extract, generate, kernel-check.  None when the property has no pinned table.

    Literal tables (codes, priorities, character classes, operator table, defaults): a table that is read but does not satisfy
    its admissibility predicate is a broken proof obligation ("failed").  Translated function bodies (`src_*`): the kernel
    checks that the definition regenerated from the current source IS the committed transcription the theorems are about;
    if it is not (the body was rewritten) the pin is "reshaped" — nothing is claimed from it for this run, exactly as when the
    translator cannot read the source at all, and the tie rests on the correspondence run."""
    tables = PIN_PROPS.get(prop)
    if not tables:
        return None
    res = {"tables": {}, "status": "ok", "source": str(REPO), "theorems": [], "axioms": []}
    parts, finals, srcs = [], [], []
    for t in tables:
        try:
            val = EXTRACTORS[t]()
        except Exception as e:  # noqa: BLE001  (unreadable / unparsable source file)
            val = None
            res.setdefault("notes", []).append(f"{t}: {type(e).__name__}: {e}")
        if val is None:
            res["tables"][t] = "unavailable (the source no longer has the shape the translator reads)"
            continue
        src, final = lean_for(t, val)
        if t.startswith("src_"):
            res["tables"][t] = f"{len(val.splitlines())} lines translated"
            srcs.append((t, src, final))
        else:
            res["tables"][t] = json.loads(json.dumps(val))
            parts.append(src)
            finals.append(final)
    missing = len(tables) - len(parts) - len(srcs)
    axioms = set()
    if parts:
        c = _kernel_check(prop, "", parts, finals)
        res["file"] = c["file"]
        res["cached"] = bool(c.get("cached"))
        axioms |= set(c["axioms"])
        if c["ok"]:
            res["theorems"] += finals
        else:
            res["status"] = "failed"
            res["log"] = c["log"]
    for t, src, final in srcs:
        c = _kernel_check(prop, "_" + t, [src], [final])
        if c["ok"]:
            res["theorems"].append(final)
            axioms |= set(c["axioms"])
            res["tables"][t] += f"; kernel-checked equal to IoosQc.NpSrc.{t[4:]} ({c['file']})"
        else:
            missing += 1
            res["tables"][t] = ("reshaped: the definition regenerated from the current source is not the committed transcription "
                                "IoosQc.NpSrc." + t[4:] + " (nothing is claimed from this pin for this run)")
            res.setdefault("notes", []).append(f"{t}: {c['log'][-300:]}")
    res["axioms"] = sorted(axioms)
    if not res["theorems"] and res["status"] == "ok":
        res["status"] = "unavailable"
    elif missing and res["status"] == "ok":
        res["status"] = "ok (partly unavailable)"
    return res


if __name__ == "__main__":
    import sys

    for pr in sys.argv[1:] or sorted(PIN_PROPS):
        print(pr, json.dumps(source_pin(pr), indent=1))
