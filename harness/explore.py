import sys, json, collections
from fractions import Fraction as F
import gen, sut
from proto import Driver, enc

def main():
    fns = sys.argv[1].split(",") if len(sys.argv) > 1 else list(gen.GENERATORS)
    N = int(sys.argv[2]) if len(sys.argv) > 2 else 300
    drv = Driver()
    for fn in fns:
        rng = gen.rng_for(0, "explore", fn)
        cases = [gen.GENERATORS[fn](rng) for _ in range(N)]
        obs = [sut.observe(c) for c in cases]
        reqs = [{"kind": "test", "want_spec": True, "call": sut.wire_case(c), "obs": sut.wire_obs(o)} for c, o in zip(cases, obs)]
        ans = drv.run(reqs)
        cnt = collections.Counter()
        shown = 0
        for c, o, a in zip(cases, obs, ans):
            if not a["in_dom"]:
                cnt["out_of_dom"] += 1; continue
            key = []
            if not a["spec_ok"]: key.append("SPEC")
            if not a["model_eq"]: key.append("MODEL")
            if not a["model_spec_ok"]: key.append("MODELSPEC")
            if a["valid_params"] and not a["c01_ok"]: key.append("C01")
            if a["c02_applies"] and not a["c02_ok"]: key.append("C02")
            k = "+".join(key) or "ok"
            cnt[k] += 1
            if key and shown < (int(sys.argv[3]) if len(sys.argv) > 3 else 3):
                shown += 1
                print("----", fn, k)
                print(" case:", {kk: (vv if kk in ("fn","method","check_type","members") else [None if x is None else float(x) for x in vv] if isinstance(vv, list) else (float(vv) if isinstance(vv, F) else vv)) for kk, vv in c.items()})
                print(" obs:", o)
                print(" model:", a["model"], " spec:", a.get("spec"))
        print(fn, dict(cnt))

main()
