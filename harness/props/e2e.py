"""End-to-end correspondence: a complete real run — Config(dict) -> stream front end -> collect_results (list and dict
form) — against ONE model value, `IoosQc.systemRun` (lean/IoosQc/Model/System.lean): contexts grouped as Config.contexts
groups them, the window rows of each context, `Call.run`'s binding of the subset rows to the test, the MODEL of the test
itself (`TestCall.run`, the one theorems C02-C17 are about), and the collection of every context's flags back onto the
input rows.  Theorems about that composition: lean/IoosQc/Theorems/Sys.lean (C05_sys_*, C06_sys_*, C18_sys_*).

Shared by C05 (every case), C06 (cases with several contexts) and C18 (cases with entries that cannot run)."""
from __future__ import annotations

import warnings
from fractions import Fraction as F

import numpy as np

import gen
import streams_common as sc
import sut
from engine import jsonable
from ioos_qc.results import collect_results
from proto import enc

WHAT = ("IoosQc.systemRun (Model/System: Config.contexts -> window rows -> Call.run binding -> test model -> collect_results; "
        "theorems C05_sys_yield_sound/complete, C06_sys_collect, C18_sys_isolation)")

DUMMY = {"inp": [F(0)], "t": [0], "z": [F(0)], "lon": [F(0)], "lat": [F(0)]}
ARRAY_KW = {"inp", "tinp", "zinp", "lon", "lat"}
TIME_TESTS = {"roc", "flat", "atten", "climatology", "speed"}


def spec_for(rng, test, tab):
    """Logical parameters (the keys of gen.py's cases, without arrays) on the lattice of the table's values."""
    q = lambda *xs: F(rng.choice(xs))  # noqa: E731
    if test == "gross":
        f = [q(0, -2), q(30, 20)]
        s = [f[0] + q(0, 1, 5), f[1] - q(0, 2, 10)] if rng.random() < 0.7 else None
        if rng.random() < 0.3:
            f = f[::-1]
        return {"fn": "gross", "fail": gen.seq(f, True), "suspect": None if s is None else gen.seq(s, rng.random() < 0.9)}
    if test == "valid":
        return {"fn": "valid", "lo": rng.choice([None, F(1), F(5)]), "hi": rng.choice([None, F(25), F(12)]),
                "start_incl": rng.random() < 0.6, "end_incl": rng.random() < 0.4}
    if test == "spike":
        return {"fn": "spike", "method": rng.choice(["average", "differential"]), "sus": rng.choice([None, F(1), F(3), F(0)]),
                "fail": rng.choice([None, F(6), F(10), F(2)])}
    if test == "roc":
        return {"fn": "roc", "thr": F(1, rng.choice([128, 32, 8, 1]))}
    if test == "flat":
        return {"fn": "flat", "sus": F(rng.choice([60, 120, 150, 3600])), "fail": F(rng.choice([120, 240, 7200])), "tol": q(0, F(1, 2), 2, 5)}
    if test == "atten":
        per = rng.choice([None, None, 120, 600, 3600, 7200])
        d = {"fn": "atten", "check_type": "range", "sus": q(2, 5, 10), "fail": q(0, 1, 2), "period": None if per is None else F(per),
             "min_obs": None, "min_period": None}
        if per is not None and rng.random() < 0.4:
            d["min_obs"] = rng.choice([1, 2, 3])
        return d
    if test == "density":
        return {"fn": "density", "sus": rng.choice([None, F(-1), F(0)]), "fail": rng.choice([None, F(-5), F(-2)])}
    if test == "pressure":
        return {"fn": "pressure"}
    if test == "climatology":
        t0 = tab["t"][0] if tab["t"] else sc.BASE_T
        ms = [{"tspan": [F(t0 - 86400), F(t0 + rng.choice([120, 3600, 86400 * 30]))], "period": None, "vspan": [F(2), F(20)],
               "fspan": rng.choice([None, [F(0), F(30)]]), "zspan": rng.choice([None, [F(0), F(15)]])}]
        if rng.random() < 0.6:
            ms.append({"tspan": [F(1), F(rng.choice([1, 3, 12]))], "period": rng.choice(["month", "quarter", "dayofyear", "week"]),
                       "vspan": [F(5), F(10)], "fspan": None, "zspan": rng.choice([None, [F(10), F(40)]])})
        return {"fn": "climatology", "members": ms, "tkind": "iso"}
    if test == "location":
        return {"fn": "location", "bbox": gen.seq([F(-71), F(39), F(-69), F(40) + F(rng.choice([1, 2, 4]), 64)], True),
                "range_max": rng.choice([None, F(2000), F(5000)])}
    if test == "speed":
        return {"fn": "speed", "sus": q(1, 5), "fail": q(10, 50)}
    if test == "bad_gross":
        return {"fn": "gross", "fail": gen.seq([F(1), F(2), F(3)], True), "suspect": None}
    if test == "bad_spike":
        return {"fn": "spike", "method": "median", "sus": F(1), "fail": F(2)}
    if test == "raiser":
        return {"fn": "raiser"}
    raise ValueError(test)


def real_entry(spec):
    """(module, test name, configured kwargs) of the real test a logical spec stands for."""
    if spec["fn"] == "raiser":
        return "qartod", "_verif_raiser", {"tag": 3}
    case = {**DUMMY, **{k: v for k, v in spec.items() if k != "hops"}}
    f, kw = sut.build_call(case)
    return f.__module__.split(".")[-1], f.__name__, {k: v for k, v in kw.items() if k not in ARRAY_KW}


def wire_spec(spec):
    if spec["fn"] == "raiser":
        return {"fn": "raiser"}
    case = {**DUMMY, **spec}
    if spec["fn"] in ("location", "speed"):
        case.setdefault("hops", [])
    w = sut.wire_case(case)
    return {k: v for k, v in w.items() if k not in ("inp", "t", "z", "lon", "lat")}


def usable(tab):
    ax = set(tab["axes"])
    ordered = tab["t"] == sorted(tab["t"])
    pool = ["gross", "valid", "spike", "pressure"]
    if "z" in ax:
        pool.append("density")
    if ordered:
        pool += ["roc", "flat", "atten"]
        if "z" in ax:
            pool.append("climatology")
    if "lat" in ax:
        pool.append("location")
        if ordered:
            pool.append("speed")
    return pool


def window_rows(tab, w):
    a, b = w
    return [i for i, t in enumerate(tab["t"]) if (a is None or t >= a) and (b is None or t < b)]


def gen_case(rng, maxn, faults=False):
    """(table, logical contexts): contexts = [{"window": (a, b), "entries": [(stream, spec)]}], whole-second bounds."""
    tab = sc.gen_table(rng, maxn)
    if "z" in tab["axes"] and rng.random() < 0.25:
        # the depth / pressure column is itself quality-controlled: a configured stream id that is also an axis column
        tab["cols"]["z"] = list(tab["axes"]["z"])
    import math
    wins = [tuple(None if v is None else math.floor(F(v)) for v in w) for w in sc.window_layout(rng, tab)]
    pool = usable(tab)
    plan = []
    for sid in tab["cols"]:
        if rng.random() < 0.85 or not plan:
            for t in rng.sample(pool, min(rng.randint(1, 3), len(pool))):
                plan.append((sid, spec_for(rng, t, tab)))
    ctxs = [{"window": w, "entries": list(plan)} for w in wins]
    r = rng.random()
    if r < 0.25 and len(ctxs) >= 2:
        for c in ctxs[1:]:
            c["entries"] = rng.sample(c["entries"], rng.randint(1, len(c["entries"])))
    elif r < 0.45 and len(ctxs) >= 2 and len(ctxs[0]["entries"]) >= 2:
        # the first window written a second time after the others (Config.contexts merges equal contexts)
        cut = rng.randint(1, len(ctxs[0]["entries"]) - 1)
        again = {"window": ctxs[0]["window"], "entries": ctxs[0]["entries"][cut:]}
        ctxs[0]["entries"] = ctxs[0]["entries"][:cut]
        ctxs.append(again)
    n_faults = 0
    if faults:
        used = {(sid, real_entry(sp)[:2]) for c in ctxs for sid, sp in c["entries"]}
        for _ in range(rng.randint(1, 3)):
            kind = rng.choice(["ghost", "raiser", "bad_gross", "bad_spike", "no_depth", "no_position"])
            sid = rng.choice(list(tab["cols"]))
            if kind == "ghost":
                sid, sp = "ghost_stream", spec_for(rng, rng.choice(["gross", "spike"]), tab)
            elif kind == "no_depth":
                if "z" in tab["axes"]:
                    continue
                sp = spec_for(rng, "density", tab)
            elif kind == "no_position":
                if "lat" in tab["axes"]:
                    continue
                sp = spec_for(rng, "location", tab)
                sp["range_max"] = None
            else:
                sp = spec_for(rng, kind, tab)
            k = (sid, real_entry(sp)[:2])
            if k in used:
                continue
            used.add(k)
            n_faults += 1
            for c in (ctxs if rng.random() < 0.5 else [rng.choice(ctxs)]):
                c["entries"].insert(rng.randint(0, len(c["entries"])), (sid, sp))
    # hop distances of the two position tests, per context: between consecutive WINDOW rows
    out = []
    for c in ctxs:
        rows = window_rows(tab, c["window"])
        es = []
        for sid, sp in c["entries"]:
            sp = dict(sp)
            if sp["fn"] in ("location", "speed") and "lat" in tab["axes"]:
                sp["hops"] = sut.geodesic_hops([tab["axes"]["lon"][i] for i in rows], [tab["axes"]["lat"][i] for i in rows])
            es.append((sid, sp))
        out.append({"window": c["window"], "entries": es})
    return tab, out, n_faults


def config_dict(ctxs):
    out = []
    for c in ctxs:
        d = {"streams": {}}
        a, b = c["window"]
        if a is not None or b is not None:
            w = {}
            if a is not None:
                w["starting"] = sc.window_bound(a)
            if b is not None:
                w["ending"] = sc.window_bound(b)
            d["window"] = w
        for sid, sp in c["entries"]:
            module, name, kw = real_entry(sp)
            d["streams"].setdefault(sid, {}).setdefault(module, {})[name] = kw
        out.append(d)
    return {"contexts": out}


def wire_request(tab, ctxs, obs):
    table = {"t": [int(t) for t in tab["t"]], "cols": [{"name": s, "vals": enc(v)} for s, v in tab["cols"].items()]}
    for a in ("z", "lat", "lon"):
        if a in tab["axes"]:
            table[a] = enc(tab["axes"][a])
    wc = []
    for c in ctxs:
        es = []
        for sid, sp in c["entries"]:
            module, name, _ = real_entry(sp)
            es.append({"stream": sid, "key": f"{module}.{name}", "spec": wire_spec(sp)})
        wc.append({"window": [c["window"][0], c["window"][1]], "entries": es})
    return {"kind": "system", "table": table, "contexts": wc, "obs": obs}


def observe(fe, tab, cfg):
    res = sc.run_frontend(fe, tab, cfg)
    with warnings.catch_warnings():
        warnings.simplefilter("ignore")
        lst = collect_results(res, how="list")
        dct = collect_results(res, how="dict")
    obs = {}
    for cr in lst:
        flags = [None if m else int(v) for v, m in zip(np.ma.getdata(cr.results).reshape(-1).tolist(),
                                                       np.ma.getmaskarray(cr.results).reshape(-1))]
        obs[(cr.stream_id, f"{cr.package}.{cr.test}")] = {"list": flags, "dict": None}
    for sid, pk in dct.items():
        for pkg, tests in pk.items():
            for tname, arr in tests.items():
                o = obs.setdefault((sid, f"{pkg}.{tname}"), {"list": None, "dict": None})
                o["dict"] = [int(v) for v in np.ma.getdata(arr).reshape(-1).tolist()]
    return obs


def run(out, drv, n, maxn=9, faults=False, min_ctx=1, tag="e2e"):
    """`n` generated complete runs through every front end, compared with IoosQc.systemRun."""
    sc.install_probes()
    rng = gen.rng_for(out.seed, "E2E", tag)
    reqs, meta = [], []
    made = 0
    guard = 0
    while made < n and guard < 20 * n:
        guard += 1
        tab, ctxs, nf = gen_case(rng, maxn, faults=faults)
        if tab["n"] == 0 or len(ctxs) < min_ctx or (faults and nf == 0):
            continue
        made += 1
        cfg = config_dict(ctxs)
        for fe in sc.FRONTENDS:
            case = {"frontend": fe, "table": tab, "contexts": ctxs, "check": "end-to-end run vs IoosQc.systemRun"}
            try:
                obs = observe(fe, tab, cfg)
            except Exception as e:  # noqa: BLE001
                out.record(case, True, [f"{tag}:fe:{fe}", f"{tag}:run-error"])
                out.violation(f"{WHAT}: the run did not complete on {fe}: {type(e).__name__}: {e}", {"case": jsonable(case)})
                continue
            incomplete = [k for k, o in obs.items() if o["list"] is None or o["dict"] is None]
            if incomplete:
                out.record(case, True, [f"{tag}:fe:{fe}"])
                out.violation(f"{WHAT}: list and dict form of collect_results do not hold the same keys on {fe}: {incomplete}",
                              {"case": jsonable(case)})
                continue
            wobs = [{"stream": k[0], "key": k[1], "list": o["list"], "dict": o["dict"]} for k, o in obs.items()]
            reqs.append(wire_request(tab, ctxs, wobs))
            meta.append((case, wobs, nf))
    ans = drv.run(reqs)
    for (case, wobs, nf), a in zip(meta, ans):
        tags = [f"{tag}:fe:{case['frontend']}", f"{tag}:ctx:{len(case['contexts'])}"]
        if not a["in_dom"]:
            out.tags[f"{tag}:outside-model-domain"] += 1
            continue
        if a["n_partial"]:
            tags.append(f"{tag}:partial-window")
        if a["n_norun"]:
            tags.append(f"{tag}:entry-that-cannot-run")
        if case["frontend"] == "pandas":
            for c in case["contexts"]:
                for _sid, sp in c["entries"]:
                    tags.append(f"{tag}:test:{sp['fn']}")
            for m in a["model"]:
                for v in set(m["list"]):
                    tags.append(f"{tag}:flag:{'masked' if v is None else v}")
        out.record(case, bool(a["n_partial"] or a["n_norun"]), tags)
        if not a["agree"]:
            out.violation(f"{WHAT}: the collected results of the real run differ from the model's for {a['differs'] or 'the set of keys'} "
                          f"on {case['frontend']}",
                          {"case": jsonable(case), "observed": wobs, "model": a["model"]})
