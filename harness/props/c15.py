"""C15 — flags do not depend on how the same series and times are represented."""
from __future__ import annotations

import copy
from fractions import Fraction as F

import functional as fx
import gen
import sut
from engine import Outcome, jsonable
from props.c16 import std_margin_ok

WHAT = "IoosQc.C15_main / C15_factor (C15.holds over all carriers of one logical case)"
HAS_TIME = {"climatology", "roc", "flat", "atten", "speed"}
JUNK = F(29, 4)   # the finite number sut.mk_data puts under the mask for 'ma_junk'


def data_carriers(case):
    fn = case["fn"]
    k0 = fx.SERIES_KEYS[fn]
    vals = [v for k in k0 if k != "t" for v in case[k]]
    cars = ["list_none", "list_nan", "tuple_none", "nd_f8", "nd_f4", "nd_obj", "ma_nan", "series", "series_idx",
            "series_obj", "dask", "list_masked", "ma_junk", "ma_mixed"]
    if fn == "valid":
        if case.get("as_time"):
            return ["nd_f8", "series"]
        cars = [c for c in cars if c not in ("nd_obj", "series_obj")]
    if vals and all(v is None or (v.denominator == 1 and abs(v) < 2 ** 31) for v in vals) and not case.get("as_time"):
        cars.append("ma_i4")
        if all(v is None or 0 <= v < 256 for v in vals):
            cars.append("ma_u1")
    if vals and all(v is not None and v.denominator == 1 for v in vals) and not case.get("as_time"):
        cars.append("nd_i8")
        if all(0 <= v < 65536 for v in vals):
            cars.append("nd_u2")
        if all(-128 <= v < 128 for v in vals):
            cars.append("nd_i1")
    return cars


def f32_exact(case):
    import numpy as np
    for k in fx.SERIES_KEYS[case["fn"]]:
        if k == "t":
            continue
        for v in case[k]:
            if v is not None and F(float(np.float32(float(v)))) != v:
                return False
    return True


def junk_substituted(case):
    c = copy.deepcopy(case)
    for k in fx.SERIES_KEYS[case["fn"]]:
        if k != "t":
            c[k] = [JUNK if v is None else v for v in c[k]]
    return fx.refresh(c)


def subsecond_times(out: Outcome, fn, rng, count):
    """Times with a fractional second (quarter seconds: exact in every carrier).  The Lean model's
    time axis is whole seconds, so this sub-check is the relational half of C15.holds only: every
    carrier must give the flags the datetime64[ns] carrier gives."""
    done = 0
    tries = 0
    import json as _json
    from engine import ROOT
    from props.registry import _unjson
    pinned = []
    for f in sorted((ROOT / "corpus" / "C15_subsecond").glob("*.json")):
        d = _json.loads(f.read_text())
        if d["fn"] == fn:
            c0 = _unjson(d["case"])
            c0["fn"] = fn
            if fn == "atten" and isinstance(c0.get("period"), str):
                c0["period"] = F(c0["period"])
            pinned.append(c0)
    while done < count and tries < count * 6:
        tries += 1
        case = pinned.pop() if pinned else gen.GENERATORS[fn](rng, 8)
        if "t_ns" in case:
            t_fixed = case.pop("t_ns")
        else:
            t_fixed = None
        n = len(case["t"])
        if n < 2 or any(len(case[k]) != n for k in fx.SERIES_KEYS[fn]) or not std_margin_ok(case):
            continue
        quarters = [rng.choice([0, 250_000_000, 500_000_000, 750_000_000]) for _ in range(n)]
        if rng.random() < 0.35:
            # a clock that runs a constant fraction of a second late: every elapsed time is still a WHOLE number of seconds
            # (a conversion that is off by a few hundred nanoseconds then sits just below or above a whole second)
            quarters = [rng.choice([250_000_000, 500_000_000, 750_000_000])] * n
        t_ns = [int(t) * 1_000_000_000 + q for t, q in zip(case["t"], quarters)] if t_fixed is None else [int(x) for x in t_fixed]
        if any(b <= a for a, b in zip(t_ns, t_ns[1:])):
            continue
        if fn == "climatology" and case["members"] and rng.random() < 0.7:
            # put an absolute window end between a sample and the next whole second
            i = rng.randrange(n)
            case["members"][0]["period"] = None
            case["members"][0]["tspan"] = [F(case["t"][0] - 5), F(case["t"][i])]
        c = dict(case)
        c["t_ns"] = t_ns
        done += 1
        base = sut.observe(c, "nd_f8", "dt64ns", "list")
        out.record({"subsecond": jsonable(c)}, fx.nontrivial(base), [f"fn:{fn}", "subsecond-times"])
        for tc in sut.SUBSECOND_TIME_CARRIERS[1:]:
            o = sut.observe(c, "nd_f8", tc, "list")
            if o.get("flags") != base.get("flags") or ("error" in o) != ("error" in base):
                out.violation(f"{WHAT}: {fn} with sub-second times through time carrier {tc}: {o.get('flags', o)} vs "
                              f"{base.get('flags', base)} (datetime64[ns])",
                              {"fn": fn, "case": jsonable(c), "carriers": ["nd_f8", tc, "list"], "observed": o, "baseline": base})
                break


def _put(obj, j, val):
    """The same container with element j replaced by `val` (unmasked)."""
    import numpy as np
    import pandas as pd

    if isinstance(obj, tuple):
        lst = list(obj)
        lst[j] = val
        return tuple(lst)
    if isinstance(obj, list):
        lst = list(obj)
        lst[j] = val
        return lst
    if isinstance(obj, pd.Series):
        obj = obj.copy()
        obj.iloc[j] = val
        return obj
    if isinstance(obj, np.ma.MaskedArray):
        obj = obj.copy()
        obj[j] = val
        return obj
    obj = np.array(obj, dtype="float64")
    obj[j] = val
    return obj


def infinite_values(out: Outcome, fn, rng, count):
    """A series holding +inf / -inf: not a finite number and not one of the missing markers, so the functional properties say nothing
    about its flag — but C15 does: whatever the flag is, it must not depend on the container.  Relational half only (every float-capable
    carrier against the float64 array)."""
    import warnings

    import numpy as np

    carriers = ["nd_f8", "list_nan", "list_none", "tuple_none", "series", "ma_nan", "ma_junk"]
    done = tries = 0
    while done < count and tries < count * 6:
        tries += 1
        case = gen.GENERATORS[fn](rng, 8)
        if case.get("decimal_f32") or case.get("as_time") or not std_margin_ok(case):
            continue
        key = "inp" if "inp" in case else "lon"
        n = len(case[key])
        if n < 2 or any(len(case[k]) != n for k in fx.SERIES_KEYS[fn]):
            continue
        j = rng.randrange(n)
        val = rng.choice([float("inf"), float("-inf")])
        obs = []
        for ca in carriers:
            try:
                f, kw = sut.build_call(case, ca, "dt64ns", "list")
                kw[key] = _put(kw[key], j, val)
                with warnings.catch_warnings():
                    warnings.simplefilter("ignore")
                    with np.errstate(all="ignore"), sut.time_limit():
                        obs.append(sut.canon_result(f(**kw)))
            except Exception as e:  # noqa: BLE001
                obs.append(sut.err_obs(e))
        done += 1
        out.record({"infinite": jsonable(case), "j": j}, fx.nontrivial(obs[0]), [f"fn:{fn}", "infinite-value"])
        for ca, o in zip(carriers[1:], obs[1:]):
            if o.get("flags") != obs[0].get("flags") or ("error" in o) != ("error" in obs[0]):
                out.violation(f"{WHAT}: {fn} with {val} at position {j} through data carrier {ca}: {o.get('flags', o)} vs "
                              f"{obs[0].get('flags', obs[0])} (float64 array)",
                              {"fn": fn, "case": jsonable(case), "position": j, "value": str(val), "carriers": [ca, "dt64ns", "list"],
                               "observed": o, "baseline": obs[0]})
                break


def run(out: Outcome, drv):
    n = 120 if out.tier == "quick" else 3000
    out.rule = ("for every test: generated logical case (valid parameters), delivered through every supported data carrier (list / tuple "
                "with None or NaN, float64 / float32 / int64 / object arrays, masked arrays with NaN or with a FINITE number under the "
                "mask, Series with default / non-default index / object dtype, dask array, list holding np.ma.masked), every time carrier "
                "(datetime64 ns/s/ms, python datetimes, Timestamps, DatetimeIndex and Series naive or UTC-aware stored in ns / us / ms / s, epoch ints / floats) "
                "and list vs tuple parameter spans; all observations of one logical case go to IoosQc.C15.holds; "
                "non-trivial = >= 2 distinct flags")
    for fn in gen.GENERATORS:
        rng = gen.rng_for(out.seed, "C15", fn)
        reqs, meta = [], []
        pool = [it[0] for it in fx.corpus_items("C15") if it[0]["fn"] == fn]
        for k in range(n + len(pool)):
            case = pool[k] if k < len(pool) else gen.GENERATORS[fn](rng, 10 if out.tier == "quick" else 20)
            if k >= len(pool) and k % 4 == 3 and fn not in ("location", "speed") and not case.get("as_time"):
                # every fourth case on whole numbers, so that the integer-dtype carriers (int64, uint16, int8, integer
                # masked arrays) apply; for the profile / band tests the depths as well
                case = copy.deepcopy(case)
                for key in fx.SERIES_KEYS[fn]:
                    if key != "t":
                        case[key] = [None if v is None else F(int(v // 1)) for v in case[key]]
                case = fx.refresh(case)
            if not std_margin_ok(case):
                continue
            variants = []
            dcs = data_carriers(case)
            if not f32_exact(case):
                dcs = [c for c in dcs if c != "nd_f4"]
            base_t = "dt64ns"
            for dc in dcs:
                variants.append((dc, base_t, "list"))
            if fn in HAS_TIME:
                for tc in sut.TIME_CARRIERS:
                    variants.append(("nd_f8", tc, "list"))
            variants.append(("nd_f8", base_t, "tuple"))
            obs = [sut.observe(case, *v) for v in variants]
            reqs.append({"kind": "c15", "call": sut.wire_case(case), "obs_list": [sut.wire_obs(o) for o in obs]})
            meta.append((case, variants, obs))
        if fn in HAS_TIME:
            subsecond_times(out, fn, gen.rng_for(out.seed, "C15", fn, "subsecond"), max(10, n // 4))
        if fn not in ("valid",):
            infinite_values(out, fn, gen.rng_for(out.seed, "C15", fn, "inf"), max(8, n // 8))
        ans = drv.run(reqs)
        for (case, variants, obs), a in zip(meta, ans):
            if not a["in_dom"]:
                out.tags["skipped_domain_or_invalid_params"] += 1
                continue
            out.record(case, fx.nontrivial(obs[0]), [f"fn:{fn}", f"variants:{len(variants)}"] +
                       [f"carrier:{v[0]}" for v in variants if v[0] in ("nd_i8", "nd_u2", "nd_i1", "ma_i4", "ma_u1")])
            if a["holds"]:
                continue
            base = obs[variants.index(("nd_f8", "dt64ns", "list"))]
            for v, o, ok in zip(variants, obs, a["conform"]):
                if ok and o.get("flags") == base.get("flags") and "error" not in o:
                    continue
                kid = None
                out.violation(f"{WHAT}: {fn} through carrier {v}: {o.get('flags', o)} vs {base.get('flags', base)} (float64 array)",
                              {"fn": fn, "case": jsonable(case), "carriers": list(v), "observed": o, "baseline": base,
                               "model": a["model"], "python": fx.repro_line(case, v)}, known_id=kid)
