"""C01 — every QC test is a total, pure map from a series to one valid flag per point.
Lean side: C01.holds (no error, one valid flag code per element) on the code's output, and the
theorem C01_total on the model.  Purity / determinism / shape / mask are facts about Python
objects: observed here with byte-level snapshots of every argument and repeated calls."""
from __future__ import annotations

import copy
import pickle
import warnings

import numpy as np
import pandas as pd

import functional as fx
import gen
import sut
from engine import Outcome, jsonable
from ioos_qc import qartod

FNS = list(gen.GENERATORS)
WHAT = "IoosQc.C01_total (C01.holds) + argument snapshots"
CARRIERS = {
    "default": ["nd_f8", "list_none", "list_nan", "tuple_none", "series", "ma_nan", "ma_junk", "ma_mixed", "nd_obj"],
    "valid": ["nd_f8", "ma_nan", "ma_junk", "ma_mixed"],
    "pressure": ["nd_f8", "list_nan"],
}
TCARRIERS = ["dt64ns", "epoch_int", "dtindex", "dt64s", "pydt", "series_naive", "epoch_float", "dtindex_us", "series_ms"]


def snap(o):
    if isinstance(o, np.ma.MaskedArray):
        d = np.ma.getdata(o)
        return ("ma", str(o.dtype), o.shape, snap(np.asarray(d)), np.ma.getmaskarray(o).tobytes())
    if isinstance(o, np.ndarray):
        if o.dtype == object:
            return ("ndo", o.shape, pickle.dumps(o.tolist()))
        return ("nd", str(o.dtype), o.shape, o.tobytes())
    if isinstance(o, pd.Series):
        return ("series", str(o.dtype), snap(o.to_numpy()), snap(o.index.to_numpy()))
    if isinstance(o, pd.Index):
        return ("index", str(o.dtype), snap(o.to_numpy()))
    if isinstance(o, dict):
        return ("dict", tuple((k, snap(v)) for k, v in o.items()))
    if isinstance(o, (list, tuple)):
        return (type(o).__name__, tuple(snap(v) for v in o))
    if type(o).__name__ == "ClimatologyConfig":
        return ("climcfg", snap([tuple(m) for m in o.members]))
    if type(o).__module__.startswith("dask"):
        return ("dask", snap(np.asarray(o)))
    if isinstance(o, float) and o != o:
        return ("nan",)
    try:
        return ("p", pickle.dumps(o))
    except Exception:  # noqa: BLE001
        return ("r", repr(o))


def call(f, kw):
    with warnings.catch_warnings():
        warnings.simplefilter("ignore")
        with np.errstate(all="ignore"), sut.time_limit():
            return f(**kw)


def observe(case, carriers, rng):
    try:
        f, kw = sut.build_call(case, *carriers)
    except Exception as e:  # noqa: BLE001
        return sut.err_obs(e)
    if case["fn"] == "climatology" and isinstance(kw["config"], list) and rng.random() < 0.6:
        # the documented alternative to a list of mappings: one ClimatologyConfig object, reused across calls
        cfg = qartod.ClimatologyConfig()
        for d in kw["config"]:
            cfg.add(**d)
        kw["config"] = cfg
        if rng.random() < 0.5:
            # history: the same config object was used on OTHER data before this call
            try:
                m = len(case["inp"]) + rng.choice([0, 1])
                call(f, {"config": cfg, "inp": np.arange(m, dtype="float64"), "zinp": np.zeros(m),
                         "tinp": (np.arange(m, dtype="int64") * 86400 * 37 + 1500000000).astype("datetime64[s]").astype("datetime64[ns]")})
            except Exception:  # noqa: BLE001
                pass
    before = snap(kw)
    try:
        r1 = call(f, kw)
    except Exception as e:  # noqa: BLE001
        o = sut.err_obs(e)
        o["mutated"] = snap(kw) != before
        return o
    o = sut.canon_result(r1)
    o["mutated"] = snap(kw) != before
    key = "inp" if "inp" in kw else "lon"
    o["input_shape"] = list(np.shape(np.asarray(kw[key], dtype=object)))
    # history: the same call again, then other tests on the very same argument objects, then again
    try:
        r2 = sut.canon_result(call(f, kw))
        if case["fn"] == "climatology":
            # the same parameter object on OTHER data (other times, another length) in between
            try:
                other = dict(kw)
                m = len(case["inp"]) + 1
                other["inp"] = np.arange(m, dtype="float64")
                other["zinp"] = np.zeros(m)
                other["tinp"] = (np.arange(m, dtype="int64") * 86400 * 37 + 1500000000).astype("datetime64[s]").astype("datetime64[ns]")
                call(f, other)
            except Exception:  # noqa: BLE001
                pass
        for _ in range(rng.randint(1, 3)):
            which = rng.random()
            try:
                if which < 0.4:
                    call(qartod.gross_range_test, {"inp": kw[key], "fail_span": [0, 1]})
                elif which < 0.7:
                    call(qartod.spike_test, {"inp": kw[key], "suspect_threshold": 1, "fail_threshold": 2})
                else:
                    other = gen.GENERATORS[rng.choice(FNS)](rng, 6)
                    sut.observe(other)
            except Exception:  # noqa: BLE001
                pass
        r3 = sut.canon_result(call(f, kw))
        o["deterministic"] = r2["flags"] == o["flags"] and r3["flags"] == o["flags"]
    except Exception as e:  # noqa: BLE001
        o["deterministic"] = False
        o["repeat_error"] = type(e).__name__
    o["mutated"] = o["mutated"] or snap(kw) != before
    # the caller refills its buffers IN PLACE (same array / list objects, other contents) and calls again: the answer
    # must be the one fresh copies of the new contents get — nothing may be remembered by object identity
    try:
        refilled = refill_in_place(kw)
        if refilled:
            fresh = {k: (copy.deepcopy(v) if k in refilled else v) for k, v in kw.items()}
            ra = rb = None
            try:
                ra = sut.canon_result(call(f, kw))["flags"]
            except Exception as e:  # noqa: BLE001
                ra = type(e).__name__
            try:
                rb = sut.canon_result(call(f, fresh))["flags"]
            except Exception as e:  # noqa: BLE001
                rb = type(e).__name__
            o["refilled"] = sorted(refilled)
            if ra != rb:
                o["buffer_reuse"] = {"same_objects_refilled": ra, "fresh_copies": rb}
    except Exception as e:  # noqa: BLE001
        o["refill_error"] = f"{type(e).__name__}: {e}"
    return o


def refill_in_place(kw):
    """Give the time axis three times its steps and reverse the data, writing into the SAME objects."""
    done = set()
    for k, v in kw.items():
        if isinstance(v, np.ndarray) and not isinstance(v, np.ma.MaskedArray) and v.ndim == 1 and v.size >= 2 and v.flags.writeable:
            if k == "tinp" and v.dtype.kind in "Mif":
                v[:] = v[0] + (v - v[0]) * 3
                done.add(k)
            elif k != "tinp" and v.dtype.kind == "f":
                v[:] = v[::-1].copy()
                done.add(k)
        elif isinstance(v, list) and len(v) >= 2 and k in ("tinp", "inp", "zinp", "lon", "lat"):
            if k == "tinp":
                try:
                    v[:] = [v[0] + (x - v[0]) * 3 for x in v]
                    done.add(k)
                except TypeError:
                    pass
            else:
                v[:] = v[::-1]
                done.add(k)
    return done


def run(out: Outcome, drv):
    out.rule = ("for each of the 11 test functions: lengths 0,1,2,3 with every missing placement (exhaustive) then seeded cases "
                "of length <= 12 (quick) / 40 (thorough), valid parameters only (malformed ones are C03/C09/... business), several "
                "data/time carriers; observed: exception, length, flag alphabet, shape, mask, byte-level snapshot of every "
                "argument, and a call on the SAME argument objects after the caller refilled them in place vs fresh copies; snapshot of every "
                "argument before/after, repeat call, repeat after other tests ran on the same argument objects; non-trivial = "
                ">= 2 distinct flags in the result")
    n = 350 if out.tier == "quick" else 8000
    maxn = 12 if out.tier == "quick" else 40
    for fn in FNS:
        rng = gen.rng_for(out.seed, "C01", fn)
        cases = []
        # short series with every missing placement
        import itertools
        for ln in (0, 1, 2, 3):
            for rep in range(3 if out.tier == "quick" else 12):
                base = None
                for _ in range(200):
                    c = gen.GENERATORS[fn](rng, 3)
                    if len(c[fx.SERIES_KEYS[fn][0]]) == ln and all(len(c[k]) == ln for k in fx.SERIES_KEYS[fn]):
                        base = c
                        break
                if base is None:
                    continue
                k0 = fx.SERIES_KEYS[fn][0]
                vals = [v if v is not None else gen.F(1) for v in base[k0]]
                for pat in itertools.product([False, True], repeat=ln):
                    c = dict(base)
                    c[k0] = [None if m else v for m, v in zip(pat, vals)]
                    cases.append(fx.refresh(c))
        for _ in range(n):
            cases.append(gen.GENERATORS[fn](rng, maxn))
        items = [it for it in fx.corpus_items("C01") if it[0]["fn"] == fn]
        for c in cases:
            cars = CARRIERS.get(fn, CARRIERS["default"])
            vals_ = [v for k in fx.SERIES_KEYS[fn] if k != "t" for v in c[k]]
            if fn not in ("valid", "pressure") and not c.get("as_time") and \
                    all(v is None or (gen.F(v).denominator == 1 and abs(v) < 2 ** 31) for v in vals_):
                cars = cars + ["ma_i4", "ma_i4"]        # integer masked array with an allocated mask (values permitting)
            items.append((c, rng.choice(cars), rng.choice(TCARRIERS), rng.choice(["list", "tuple"])))
        obs = [observe(c, (ca, tc, sk), rng) for c, ca, tc, sk in items]
        ans = drv.run([{"kind": "test", "call": sut.wire_case(c), "obs": sut.wire_obs(o), "want_spec": True}
                       for (c, _, _, _), o in zip(items, obs)])
        for (c, ca, tc, sk), o, a in zip(items, obs, ans):
            if not a["in_dom"] or not a["valid_params"]:
                out.tags["skipped_invalid_params_or_domain"] += 1
                continue
            out.record(c, fx.nontrivial(o), fx.tags_of(c, o, a) + [f"carrier:{ca}", f"tcarrier:{tc}"])
            bad = []
            if not a["c01_ok"]:
                bad.append(f"not one valid flag per element / raised: {o.get('error_type', o.get('flags'))}")
            if "flags" in o:
                if o["shape"] != o["input_shape"]:
                    bad.append(f"shape {o['shape']} != input shape {o['input_shape']}")
                if o["masked"]:
                    bad.append("result hides flags behind a mask")
                if not o.get("deterministic", True):
                    bad.append("repeated call returned different flags")
            if o.get("mutated"):
                bad.append("an argument object was modified by the call")
            if o.get("buffer_reuse"):
                bad.append(f"after the caller refilled {o.get('refilled')} in place, the same objects get {o['buffer_reuse']['same_objects_refilled']} "
                           f"but fresh copies of the same contents get {o['buffer_reuse']['fresh_copies']}")
            if o.get("refilled"):
                out.tags["buffers-refilled-in-place"] += 1
            if bad:
                out.violation(f"{WHAT}: {fn}: " + "; ".join(bad),
                              {"fn": fn, "case": jsonable(c), "carriers": [ca, tc, sk], "observed": o, "model": a["model"],
                               "python": fx.repro_line(c, (ca, tc, sk))})
