"""C03, C08–C14: one property = a set of test functions whose flags the property pins down.
Verdict: the Lean predicate `conforms (spec call) observation` evaluated on the code's output."""
from __future__ import annotations

from fractions import Fraction as F

import functional as fx
import gen
from engine import Outcome

PLAN = {
    # prop: (fns, quick count per fn, thorough count per fn, max length quick/thorough)
    "C03": (["gross", "valid"], 2500, 30000),
    "C08": (["climatology"], 2500, 40000),
    "C09": (["spike"], 4000, 60000),
    "C10": (["roc", "speed"], 2500, 30000),
    "C11": (["flat"], 4000, 60000),
    "C12": (["atten"], 1500, 20000),
    "C13": (["density", "pressure"], 3000, 40000),
    "C14": (["location"], 2500, 30000),
}

WHAT = {
    "C03": "IoosQc.C03_gross / C03_valid (conforms spec)",
    "C08": "IoosQc.C08_climatology (conforms spec)",
    "C09": "IoosQc.C09_spike (conforms spec)",
    "C10": "IoosQc.C10_roc / C10_speed (conforms spec)",
    "C11": "IoosQc.C11_flat (conforms spec)",
    "C12": "IoosQc.C12_atten (conforms spec)",
    "C13": "IoosQc.C13_density / C13_pressure (conforms spec)",
    "C14": "IoosQc.C14_location (conforms spec)",
}


def verdict(case, obs, ans):
    if ans["spec_ok"]:
        return None
    return f"{case['fn']}: observed {obs.get('flags', obs.get('error'))} is not admitted by the property (spec {ans.get('spec')})"


def exhaustive_items(prop, tier):
    """Small complete enumerations (bounded-exhaustive core)."""
    items = []
    if prop == "C03":
        vals = [F(0), F(1), F(2), F(3), F(4)]
        probe = lambda lo, hi: [lo - 1, lo, lo + F(1, 2), (lo + hi) / 2, hi - F(1, 2), hi, hi + 1, None]  # noqa: E731
        import itertools
        pairs = list(itertools.product(vals, repeat=2))
        step = 1 if tier == "thorough" else 3
        k = 0
        for (fa, fb) in pairs:
            for (sa, sb) in pairs:
                k += 1
                if k % step:
                    continue
                lo, hi = min(fa, fb), max(fa, fb)
                items.append(({"fn": "gross", "fail": gen.seq([fa, fb]), "suspect": gen.seq([sa, sb]),
                               "inp": probe(lo, hi) + probe(min(sa, sb), max(sa, sb))}, "nd_f8", "dt64ns", "list"))
        for lo in [None, F(0), F(3)]:
            for hi in [None, F(3), F(5)]:
                for si in (True, False):
                    for ei in (True, False):
                        for as_time in (False, True):
                            a = lo if lo is not None else F(0)
                            b = hi if hi is not None else F(5)
                            inp = [a - 1, a, a + 1, b - 1, b, b + 1, None]
                            items.append(({"fn": "valid", "lo": lo, "hi": hi, "start_incl": si, "end_incl": ei,
                                           "inp": inp, "as_time": as_time}, "nd_f8", "dt64ns", "tuple"))
    if prop == "C09":
        import itertools
        alpha = [None, F(0), F(1), F(2), F(4)]
        maxlen = 5 if tier == "thorough" else 4
        thr = [None, F(0), F(1), F(2)]
        for n in range(0, maxlen + 1):
            for xs in itertools.product(alpha, repeat=n):
                for m in ("average", "differential"):
                    k = hash((xs, m)) % 16
                    s, f = thr[k % 4], thr[k // 4]
                    items.append(({"fn": "spike", "method": m, "sus": s, "fail": f, "inp": list(xs)}, "list_none", "dt64ns", "list"))
    if prop == "C13":
        import itertools
        zs = [F(0), F(5), F(10), None]
        rs = [F(1), F(2), F(3), None]
        maxlen = 4 if tier == "thorough" else 3
        for n in range(0, maxlen + 1):
            for z in itertools.product(zs, repeat=n):
                for r in itertools.product(rs, repeat=n):
                    k = hash((z, r)) % 9
                    th = [None, F(0), F(-1)]
                    items.append(({"fn": "density", "inp": list(r), "z": list(z), "sus": th[k % 3], "fail": th[k // 3]},
                                  "list_none", "dt64ns", "list"))
        for n in range(0, 6):
            for p in itertools.product([F(0), F(1), F(2)], repeat=n):
                items.append(({"fn": "pressure", "inp": list(p)}, "nd_f8", "dt64ns", "list"))
    if prop == "C11":
        # sweep n, k_s, k_f, plateau lengths around k, thresholds around k*D
        import itertools
        D = 60
        for n in range(0, 8 if tier == "quick" else 10):
            for ks in range(0, n + 2):
                for kf in range(ks, n + 2):
                    for delta in (F(-1), F(0), F(1)):
                        xs = [F(1)] * n
                        if n > 2:
                            xs[n // 2] = F(3)
                        t = [1577836800 + i * D for i in range(n)]
                        items.append(({"fn": "flat", "inp": xs, "t": t, "sus": max(F(0), ks * D + delta),
                                       "fail": max(F(0), kf * D + delta), "tol": F(1, 2)}, "nd_f8", "dt64ns", "list"))
    return items


def calendar_check(out: Outcome, drv):
    """IoosQc.periodOf against pandas: every day 1970-01-01 … 2100-12-31 (thorough) or the edge
    set around every year boundary and leap day (quick), for every period kind."""
    import numpy as np
    import pandas as pd

    if out.tier == "thorough":
        days = np.arange(0, 47848, dtype="int64")
    else:
        years = pd.date_range("1970-01-01", "2100-01-01", freq="YS")
        base = (years.values.astype("datetime64[D]").astype("int64"))
        days = np.unique(np.concatenate([base + d for d in range(-5, 6)] +
                                        [base + 58 + d for d in range(0, 4)]))
        days = days[(days >= 0) & (days < 47848)]
    secs = days * 86400 + 13 * 3600 + 7
    idx = pd.DatetimeIndex(secs.astype("datetime64[s]"))
    want = {"year": idx.year, "month": idx.month, "week": idx.isocalendar().week.to_numpy(), "dayofyear": idx.dayofyear,
            "dayofweek": idx.dayofweek, "quarter": idx.quarter, "day": idx.day, "hour": idx.hour}
    reqs = [{"kind": "period", "period": p, "t": [int(v) for v in secs]} for p in want]
    bad = 0
    for p, a in zip(want, drv.run(reqs)):
        w = [int(v) for v in np.asarray(want[p])]
        out.record({"calendar": p, "days": int(len(days))}, True, [f"calendar:{p}"])
        if a["values"] != w:
            i = next(k for k, (x, y) in enumerate(zip(a["values"], w)) if x != y)
            bad += 1
            out.corr_break(f"IoosQc.periodOf correspondence with pandas ({p})",
                           {"period": p, "t": int(secs[i]), "model": a["values"][i], "pandas": w[i]})
    out.extra["calendar_days_checked"] = int(len(days))
    out.extra["calendar_exhaustive_1970_2100"] = out.tier == "thorough"


LONG_N = [4099, 8195, 16390, 20011]


def tile_case(case, length):
    """The short case repeated cyclically up to `length` positions (None when its series are too short or of unequal lengths)."""
    keys = fx.SERIES_KEYS[case["fn"]]
    n = len(case[keys[0]])
    if n < 4 or any(len(case[k]) != n for k in keys):
        return None
    c = dict(case)
    for k in keys:
        v = case[k]
        if k == "t":
            if any(x is None for x in v) or any(b <= a for a, b in zip(v, v[1:])):
                return None
            period = (v[-1] - v[0]) + (v[1] - v[0])
            c[k] = [v[i % n] + (i // n) * period for i in range(length)]
            if c[k][-1] >= 7_000_000_000:
                return None         # past the year 2190: datetime64[ns] ends in 2262
        else:
            c[k] = [v[i % n] for i in range(length)]
    c.pop("decimal_f32", None)
    return fx.refresh(c)


def run(out: Outcome, drv, prop):
    fns, nq, nt = PLAN[prop]
    n = nq if out.tier == "quick" else nt
    out.rule = (f"seeded boundary-focused generator per function ({', '.join(fns)}; values on a dyadic lattice placed on/around "
                f"every threshold, lengths 0..12 incl. 0,1,2,3, missing values, malformed parameter stream; per function four LONG series — a short case repeated "
                f"cyclically to just past 4096 / 8192 / 16384 / 20000 positions, thorough also 33000 / 66000; ~500 / ~1000 for attenuated_signal_test, "
                f"none for climatology_test) plus a small "
                f"bounded-exhaustive core (C10: also timestamps with a fractional second, elapsed time cut to whole seconds); a case is non-trivial when its observed flag vector has >= 2 distinct values or the call "
                f"raised; distinct by SHA-1 of the canonical logical case")
    if prop == "C08":
        calendar_check(out, drv)
    if prop in ("C03", "C08", "C09", "C10", "C11", "C13", "C14"):
        # the array-level model these properties' theorems go through (Model/Np -> Theorems/NpRefine, NpSrc): its numpy
        # primitives against the installed numpy, data and mask
        from props import np_prims
        np_prims.run(out, drv, 400 if out.tier == "quick" else 6000)
    if prop in ("C09", "C10", "C13"):
        # ... and their composition in context: intermediate arrays of the transcriptions vs the locals of the running functions
        from props import np_mid
        np_mid.run(out, drv, prop, 150 if out.tier == "quick" else 2500)
    corp = fx.corpus_items(prop)
    if corp:
        fx.run_cases(out, drv, corp, verdict, WHAT[prop])
        out.extra["corpus_cases"] = len(corp)
    ex = exhaustive_items(prop, out.tier)
    if ex:
        fx.run_cases(out, drv, ex, verdict, WHAT[prop])
        out.extra["exhaustive_core_cases"] = len(ex)
    if prop == "C10":
        # timestamps with a fractional second: the rate is per WHOLE elapsed second (gen.subsecond keeps the model's axis)
        rng = gen.rng_for(out.seed, prop, "subsecond")
        items = []
        for fn in fns:
            for _ in range(n // 5):
                c = gen.subsecond(gen.GENERATORS[fn](rng, 10), rng)
                if c is not None and "hops" in c or c is not None and fn == "roc":
                    ca, _tc, sk = fx.pick_carriers(c, rng)
                    items.append((c, ca, rng.choice(["dt64ns", "dtindex", "stamps", "series_naive", "epoch_float", "dtindex_us", "series_ms"]), sk))
        out.extra["subsecond_cases"] = len(items)
        fx.run_cases(out, drv, items, verdict, WHAT[prop])
    # long series ("for any length"): an implementation that works in blocks or chunks differs from the whole-array one only
    # past its block size, at the seams.  A short generated case (every position near a threshold) is repeated cyclically up to
    # the long length, the time axis continued with the same steps; lengths just past 2^12 .. 2^16
    rng = gen.rng_for(out.seed, prop, "long")
    longs = []
    for fn in fns:
        if fn == "climatology":
            continue            # its generated axes span years: repeated, they leave the range of datetime64[ns]
        # (the trailing-window model of attenuated_signal_test is quadratic in the series length: shorter series there)
        for ln in ([515, 1030] if fn == "atten" else LONG_N if out.tier == "quick" else LONG_N + [33000, 66000]):
            for _try in range(20):
                c = tile_case(gen.GENERATORS[fn](rng, 9) if fn != "flat" else gen.gen_flat(rng, 9), ln + rng.randrange(0, 7))
                if c is not None:
                    longs.append((c, *fx.pick_carriers(c, rng)))
                    break
    out.extra["long_series_cases"] = len(longs)
    fx.run_cases(out, drv, longs, verdict, WHAT[prop])
    for fn in fns:
        items = fx.random_items(out.seed, prop, fn, n, 12 if out.tier == "quick" else 20)
        # in chunks, so a systematic failure stops early
        for i in range(0, len(items), 2000):
            fx.run_cases(out, drv, items[i:i + 2000], verdict, WHAT[prop])
            if len(out.violations) >= 5:
                break
