"""C18 — a test that cannot run drops out without disturbing the rest of the run."""
from __future__ import annotations

import copy
import warnings

import numpy as np

import gen
import streams_common as sc
from props import e2e
import sut
from engine import Outcome, jsonable
from ioos_qc.results import collect_results

WHAT = "IoosQc.C18_isolation / C18_alone (C18.holds: results with failing entries = results of each healthy test alone)"
FAULTS = ["unknown_module", "unknown_test", "bad_params", "missing_input", "absent_stream", "raises"]   # + "dup_bad_params" (below)


# parameters each function rejects (TypeError for a missing required argument, ValueError for a bad value)
DUP_BAD = {
    "gross_range_test": {"fail_span": [1, 2, 3]},
    "spike_test": {"suspect_threshold": 1, "fail_threshold": 2, "method": "median"},
    "rate_of_change_test": {},
    "flat_line_test": {"tolerance": 1},
    "location_test": {"bbox": [1, 2]},
    "climatology_test": {},
    "valid_range_test": {},
    "speed_test": {"suspect_threshold": 1},
}


def collected(fe, tab, ctxs, intern, second_run=False):
    """Collected results of a run; with `second_run`, of the SECOND run of the same stream and Config objects."""
    if second_run:
        from ioos_qc.config import Config
        with warnings.catch_warnings():
            warnings.simplefilter("ignore")
            cobj = Config(sc.config_dict(ctxs))
        _, res = sc.run_frontend(fe, tab, cobj, twice=True)
    else:
        res = sc.run_frontend(fe, tab, sc.config_dict(ctxs))
    with warnings.catch_warnings():
        warnings.simplefilter("ignore")
        lst = collect_results(res, how="list")
        dct = collect_results(res, how="dict")
    out = []

    def col(a):
        """A collected data / axis column, canonical: masked -> None, NaN -> 'nan', datetimes -> ns."""
        if a is None:
            return None
        msk = np.ma.getmaskarray(a).reshape(-1)
        d = np.asarray(np.ma.getdata(a)).reshape(-1)
        if np.issubdtype(d.dtype, np.datetime64):
            d = d.astype("datetime64[ns]").astype("int64")
        return tuple(None if m else ("nan" if (isinstance(v, float) and v != v) else v) for v, m in zip(d.tolist(), msk.tolist()))

    for cr in lst:
        flags = tuple(None if m else int(v) for v, m in zip(np.ma.getdata(cr.results).reshape(-1).tolist(),
                                                            np.ma.getmaskarray(cr.results).reshape(-1)))
        # the whole collected result is "the result a test yields": its flags AND the data / time / depth / position columns
        whole = (flags, col(cr.data), col(cr.tinp), col(cr.zinp), col(cr.lat), col(cr.lon))
        out.append([cr.hash_key, intern.setdefault(whole, len(intern) + 1)])
    nd = sum(len(tests) for pk in dct.values() for tests in pk.values())
    # the dict form, flattened to the same (key, flags) shape (uncovered rows are UNKNOWN there, not masked)
    out_d = []
    for sid, pk in dct.items():
        for pkg, tests in pk.items():
            for tname, arr in tests.items():
                flags = tuple(None if m else int(v) for v, m in zip(np.ma.getdata(arr).reshape(-1).tolist(),
                                                                    np.ma.getmaskarray(arr).reshape(-1)))
                out_d.append([f"{sid}:{pkg}.{tname}", intern.setdefault(("dict", flags), len(intern) + 1)])
    return out, nd, out_d


def fault_entry(rng, kind, tab, used):
    """(stream id, module, test name, kwargs) of an entry that cannot run; None if not applicable."""
    sid = rng.choice(list(tab["cols"]))
    if kind == "unknown_module":
        # dotted names: the import fails on the PARENT package first (e.name is then not the module that was asked for)
        return sid, rng.choice(["nosuchmodule", "nosuchmodule", "qartod_v1.1", "contrib.x", "v2.qartod", "qartod.x"]), "gross_range_test", {"fail_span": [0, 1]}
    if kind == "unknown_test":
        return sid, "qartod", "no_such_test", {"x": 1}
    if kind == "bad_params":
        for cand, kw in (("gross_range_test", {"fail_span": [1, 2, 3]}), ("spike_test", {"method": "median"}),
                         ("attenuated_signal_test", {"suspect_threshold": 1, "fail_threshold": 1, "check_type": "nope"})):
            if (sid, "qartod", cand) not in used:
                return sid, "qartod", cand, kw
        return None
    if kind == "missing_input":
        if "z" not in tab["axes"] and (sid, "qartod", "density_inversion_test") not in used:
            return sid, "qartod", "density_inversion_test", {"suspect_threshold": -1, "fail_threshold": -2}
        if "lat" not in tab["axes"] and (sid, "qartod", "location_test") not in used:
            return sid, "qartod", "location_test", {"bbox": [-80, 30, -60, 50]}
        return None
    if kind == "absent_stream":
        return "ghost_stream", "qartod", "gross_range_test", {"fail_span": [0, 1]}
    if kind == "raises":
        return sid, "qartod", "_verif_raiser", {"tag": rng.randint(0, 20)}
    raise ValueError(kind)


def run(out: Outcome, drv):
    sc.install_probes()
    n = 90 if out.tier == "quick" else 600
    out.rule = ("generated tables and configs with 1..3 healthy tests per stream over 1..3 contexts; 1..3 failing entries of every kind "
                "(unknown module, unknown test, parameters the function rejects, required depth / position input not supplied, stream id "
                "absent from the data, a callee that raises) inserted at random positions of random contexts; run on every front end; the "
                "collected results (list form and dict form) must be exactly those each healthy (stream, module, test) yields when configured alone on the same "
                "front end (IoosQc.C18.holds); non-trivial = at least one failing entry was configured")
    rng = gen.rng_for(out.seed, "C18")
    reqs, meta = [], []
    for it in range(n):
        tab = sc.gen_table(rng, 9, allow_nat=True)
        if tab["n"] == 0:
            continue
        healthy_pool = [t for t in sc.usable_tests(tab) if t != "probe"] + ["probe"]
        ctxs = sc.gen_config(rng, tab, tests=healthy_pool)
        used = {(sid, m, name) for c in ctxs for sid, ts in c["streams"].items() for (_k, m, name, _kw) in ts}
        faulty = copy.deepcopy(ctxs)
        kinds = rng.sample(FAULTS, rng.randint(1, 3))
        placed = []
        todo = []
        for kind in kinds:
            todo.append((kind, fault_entry(rng, kind, tab, used)))
            if kind == "absent_stream" and rng.random() < 0.6:
                # several tests under the stream id that is absent from the data
                for nm, kw_ in rng.sample([("spike_test", {"suspect_threshold": 1, "fail_threshold": 2}),
                                           ("rate_of_change_test", {"threshold": 0.5}),
                                           ("flat_line_test", {"suspect_threshold": 120, "fail_threshold": 240, "tolerance": 1})],
                                          rng.randint(1, 2)):
                    todo.append((kind, ("ghost_stream", "qartod", nm, kw_)))
        for kind, fe_ in todo:
            if fe_ is None:
                continue
            sid, m, name, kw = fe_
            if (sid, m, name) in used:
                continue
            used.add((sid, m, name))
            for c in (faulty if rng.random() < 0.5 else [rng.choice(faulty)]):
                lst = c["streams"].setdefault(sid, [])
                lst.insert(rng.randint(0, len(lst)), (kind, m, name, kw))
                if rng.random() < 0.5:
                    # move the stream to the front of the mapping
                    c["streams"] = {sid: c["streams"].pop(sid), **c["streams"]}
            placed.append((kind, f"{sid}:{m}.{name}"))
        if rng.random() < 0.5:
            # the SAME (stream, module, test) as a healthy entry, written a second time with parameters the function rejects,
            # in a further context with the same window (Config.contexts merges equal contexts): the healthy definition must
            # still yield what it yields alone, wherever the rejected one stands
            cands = [(ci, sid, e) for ci, c in enumerate(ctxs) for sid, es in c["streams"].items() for e in es if e[2] in DUP_BAD]
            if cands:
                ci, sid, e = rng.choice(cands)
                dup = {"window": ctxs[ci]["window"], "streams": {sid: [("dup_bad_params", e[1], e[2], copy.deepcopy(DUP_BAD[e[2]]))]}}
                # `faulty` has the contexts of `ctxs` in the same order (entries were only inserted into them)
                pos = rng.choice([ci + 1, ci + 1, len(faulty), ci])
                faulty.insert(pos, dup)
                placed.append(("dup_bad_params", f"{sid}:{e[1]}.{e[2]}"))
        if it % 6 == 5:
            # a configuration NONE of whose stream ids is in the data (a config written for another deployment): the run
            # completes on every front end and yields nothing
            ghost = [{"window": c["window"], "streams": {"ghost_stream": [("absent_stream", "qartod", "gross_range_test", {"fail_span": [0, 1]})],
                                                          "ghost_2": [("absent_stream", "qartod", "spike_test", {"suspect_threshold": 1, "fail_threshold": 2})]}}
                     for c in ctxs]
            for fe in sc.FRONTENDS:
                case = {"frontend": fe, "table": tab, "contexts_with_faults": ghost, "faults": [["absent_stream", "every configured stream"]]}
                out.record(case, True, [f"fe:{fe}", "fault:every-stream-absent"])
                try:
                    obs, nd, obs_d = collected(fe, tab, ghost, {})
                    if obs or obs_d:
                        out.violation(f"{WHAT}: a configuration whose streams are all absent from the data yields results on {fe}: {obs} {obs_d}",
                                      {"case": jsonable(case), "observed": obs})
                except Exception as e:  # noqa: BLE001
                    out.violation(f"{WHAT}: a run whose configured streams are all absent from the data did not complete on {fe}: "
                                  f"{type(e).__name__}: {e}", {"case": jsonable(case)}, known_id="F-21")
        healthy_keys = []
        for c in ctxs:
            for sid, ts in c["streams"].items():
                for (_k, m, name, _kw) in ts:
                    k = (sid, m, name)
                    if k not in healthy_keys:
                        healthy_keys.append(k)
        for fe in sc.FRONTENDS:
            intern = {}
            case = {"frontend": fe, "table": tab, "contexts_with_faults": faulty, "faults": placed}
            try:
                # every other case observes the SECOND run of the same stream / Config objects: what a failing entry
                # left behind in the first run must not matter
                obs, nd, obs_d = collected(fe, tab, faulty, intern, second_run=(len(reqs) // 2) % 2 == 1)
            except Exception as e:  # noqa: BLE001
                out.record(case, True, [f"fe:{fe}", "run_error"])
                out.violation(f"{WHAT}: run with failing entries did not complete on {fe}: {type(e).__name__}: {e}",
                              {"case": jsonable(case)})
                continue
            entries, entries_d = [], []
            for (sid, m, name) in healthy_keys:
                alone = []
                for c in ctxs:
                    ts = [t for t in c["streams"].get(sid, []) if (t[1], t[2]) == (m, name)]
                    if ts:
                        alone.append({"window": c["window"], "streams": {sid: ts}})
                try:
                    r, _, rd = collected(fe, tab, alone, intern)
                except Exception:  # noqa: BLE001
                    r, rd = [], []
                if len(r) == 1:
                    entries.append({"key": r[0][0], "fault": "none", "result": r[0][1]})
                elif len(r) == 0:
                    # the "healthy" test cannot run on this data either (e.g. rejects the window rows): it is a failing entry
                    entries.append({"key": f"{sid}:{m}.{name}", "fault": "raises", "result": 0})
                if len(rd) == 1:
                    entries_d.append({"key": rd[0][0], "fault": "none", "result": rd[0][1]})
                elif len(rd) == 0:
                    entries_d.append({"key": f"{sid}:{m}.{name}", "fault": "raises", "result": 0})
            for kind, key in placed:
                entries.append({"key": key, "fault": kind, "result": 0})
                entries_d.append({"key": key, "fault": kind, "result": 0})
            reqs.append({"kind": "c18", "entries": entries, "obs": obs})
            meta.append((case, obs, entries, nd, "list"))
            reqs.append({"kind": "c18", "entries": entries_d, "obs": obs_d})
            meta.append((case, obs_d, entries_d, len(obs_d), "dict"))
    ans = drv.run(reqs)
    for (case, obs, entries, nd, form), a in zip(meta, ans):
        case = dict(case, collected_as=form)
        out.record(case, bool(case["faults"]), [f"fe:{case['frontend']}", f"how:{form}"] + [f"fault:{k}" for k, _ in case["faults"]])
        if not a["holds"] or nd != len(obs):
            out.violation(f"{WHAT}: collected (how={form}) {obs} (dict form: {nd} results) but the healthy tests alone yield {a['model']}",
                          {"case": jsonable(case), "observed": obs, "entries": entries, "model": a["model"]})
    # complete real runs containing entries that cannot run, against the one model value IoosQc.systemRun (props/e2e.py):
    # the model binds and runs every entry itself (absent stream, missing depth / position input, rejected parameters,
    # raising callee all contribute nothing there — theorem C18_sys_drop_failing)
    e2e.run(out, drv, n=25 if out.tier == "quick" else 400, maxn=9 if out.tier == "quick" else 20, faults=True, tag="e2e")
