"""C16 — stricter thresholds never produce a better flag.  Predicates: IoosQc.stricter, C16.holds."""
from __future__ import annotations

import copy
from fractions import Fraction as F

import functional as fx
import gen
import sut
from engine import Outcome, jsonable

FNS = [f for f in gen.GENERATORS if f != "pressure"]
WHAT = "IoosQc.C16_main (C16.holds on a stricter pair)"
H, E = F(1, 2), F(1, 16)
STEP = [F(0), F(0), E, H, F(1), F(2)]


def shrink_span(rng, ab, within=None):
    """A span nested in `ab` (given in any order), optionally also nested in `within`."""
    lo, hi = min(ab), max(ab)
    nlo, nhi = lo + rng.choice(STEP), hi - rng.choice(STEP)
    if within is not None:
        nlo, nhi = max(nlo, min(within)), min(nhi, max(within))
    if nlo > nhi:
        mid = max(lo, min(within)) if within is not None else lo
        mid = min(mid, hi)
        nlo = nhi = mid
    out = [nlo, nhi]
    if rng.random() < 0.3:
        out.reverse()
    return out


def lower(rng, v, floor=None):
    if v is None:
        return None
    w = v - rng.choice(STEP)
    return max(w, floor) if floor is not None else w


def strictify(rng, case):
    c = copy.deepcopy(case)
    fn = c["fn"]
    if fn == "gross":
        if not (c["fail"]["seq"] and len(c["fail"]["vals"]) == 2):
            return None
        c["fail"]["vals"] = shrink_span(rng, c["fail"]["vals"])
        if c["suspect"] is None:
            if rng.random() < 0.5:
                c["suspect"] = gen.seq(shrink_span(rng, c["fail"]["vals"]))
        else:
            if not (c["suspect"]["seq"] and len(c["suspect"]["vals"]) == 2):
                return None
            sv = c["suspect"]["vals"]
            fv = c["fail"]["vals"]
            if max(min(sv), min(fv)) > min(max(sv), max(fv)):
                return None
            c["suspect"]["vals"] = shrink_span(rng, sv, within=fv)
    elif fn == "valid":
        r = rng.random()
        if c["lo"] is not None:
            c["lo"] = c["lo"] + rng.choice(STEP)
        elif r < 0.3 and c["hi"] is not None:
            c["lo"] = c["hi"] - rng.choice([1, 3])
        if c["hi"] is not None:
            c["hi"] = c["hi"] - rng.choice(STEP)
        if rng.random() < 0.4:
            c["start_incl"] = False
        if rng.random() < 0.4:
            c["end_incl"] = False
        if c.get("as_time"):
            c["lo"] = None if c["lo"] is None else F(int(c["lo"]))
            c["hi"] = None if c["hi"] is None else F(int(c["hi"]))
    elif fn == "location":
        b = c["bbox"]["vals"]
        if not (c["bbox"]["seq"] and len(b) == 4):
            return None
        d = [rng.choice([F(0), F(0), F(1, 1024), H, F(1)]) for _ in range(4)]
        c["bbox"]["vals"] = [b[0] + d[0], b[1] + d[1], b[2] - d[2], b[3] - d[3]]
        c["bbox_default"] = False
        hops = [h for h in c["hops"] if h is not None]
        if c["range_max"] is None:
            if rng.random() < 0.5:
                c["range_max"] = rng.choice(hops) if hops and rng.random() < 0.7 else F(1000)
        else:
            c["range_max"] = max(F(0), rng.choice([c["range_max"], c["range_max"] - 1, c["range_max"] / 2] + hops[:2]))
            if c["range_max"] > case["range_max"]:
                c["range_max"] = case["range_max"]
    elif fn == "climatology":
        for m in c["members"]:
            m["vspan"] = shrink_span(rng, m["vspan"])
            if m["fspan"] is None:
                if rng.random() < 0.3:
                    v = m["vspan"]
                    m["fspan"] = [min(v) - rng.choice([0, 1]), max(v) + rng.choice([0, 1])]
            else:
                m["fspan"] = shrink_span(rng, m["fspan"])
    elif fn == "spike":
        for k in ("sus", "fail"):
            if c[k] is None:
                if rng.random() < 0.4:
                    c[k] = rng.choice([F(0), H, F(1), F(2)])
            else:
                c[k] = lower(rng, c[k])
    elif fn == "roc":
        c["thr"] = lower(rng, c["thr"], F(0))
    elif fn == "flat":
        c["sus"] = lower(rng, c["sus"], F(0)) if rng.random() < 0.7 else max(F(0), c["sus"] - rng.choice([60, 600]))
        c["fail"] = lower(rng, c["fail"], F(0)) if rng.random() < 0.7 else max(F(0), c["fail"] - rng.choice([60, 600]))
        c["tol"] = c["tol"] + rng.choice(STEP)
    elif fn == "atten":
        c["sus"] = c["sus"] + rng.choice(STEP)
        c["fail"] = c["fail"] + rng.choice(STEP)
        if c["check_type"] == "std":
            # keep the rounding margin of DESIGN §3 for the new thresholds too
            c["sus"] = case["sus"] + rng.choice([0, 1, 2])
            c["fail"] = case["fail"] + rng.choice([0, 1, 2])
    elif fn == "density":
        for k in ("sus", "fail"):
            if c[k] is None:
                if rng.random() < 0.4:
                    c[k] = rng.choice([F(0), -H, F(-1)])
            else:
                c[k] = c[k] + rng.choice(STEP)
    elif fn == "speed":
        c["sus"] = lower(rng, c["sus"], F(0))
        c["fail"] = lower(rng, c["fail"], F(0))
    return c


def std_margin_ok(case):
    """std thresholds must stay away from the realised spreads (DESIGN §3)."""
    if case["fn"] != "atten" or case["check_type"] != "std":
        return True
    xs, t = case["inp"], case["t"]
    stats = []
    if case["period"] is None:
        p = [v for v in xs if v is not None]
        v = gen.exact_var(p, 0) if p else None
        if v is not None:
            stats.append(v)
    else:
        P = case["period"]
        for i in range(len(xs)):
            if len(t) != len(xs):
                break
            p = [xs[j] for j in range(i + 1) if t[j] > t[i] - P and xs[j] is not None]
            v = gen.exact_var(p, 1)
            if v is not None:
                stats.append(v)
    for th in (case["sus"], case["fail"]):
        if any(abs(v - th * th) <= F(1, 2**20) * max(1, v) for v in stats):
            return False
    return True


def run(out: Outcome, drv):
    n = 700 if out.tier == "quick" else 15000
    out.rule = ("for every threshold-driven test: generated base case + a derived parameter set that is at least as strict (spans / box "
                "shrunk by 0, 1/16, 1/2, 1, 2 or onto realised values; thresholds lowered / raised likewise; thresholds added where absent; "
                "equal parameter sets included); both runs on the real function; judged by IoosQc.C16.holds when IoosQc.stricter accepts "
                "the pair; non-trivial = the two flag vectors differ")
    for fn in FNS:
        rng = gen.rng_for(out.seed, "C16", fn)
        pairs = []
        tries = 0
        while len(pairs) < n and tries < 5 * n:
            tries += 1
            base = gen.GENERATORS[fn](rng, 12 if out.tier == "quick" else 25)
            if base.get("decimal_f32"):
                continue        # shrinking a decimal bound by a lattice step is not exact in float64
            strict = strictify(rng, base)
            if strict is None or not std_margin_ok(strict) or not std_margin_ok(base):
                continue
            pairs.append((base, strict, fx.pick_carriers(base, rng)))
        obs1 = [sut.observe(b, *car) for b, s, car in pairs]
        obs2 = [sut.observe(s, *car) for b, s, car in pairs]
        ans = drv.run([{"kind": "c16", "call": sut.wire_case(b), "call2": sut.wire_case(s), "obs": sut.wire_obs(o1),
                        "obs2": sut.wire_obs(o2)} for (b, s, car), o1, o2 in zip(pairs, obs1, obs2)])
        for (b, s, car), o1, o2, a in zip(pairs, obs1, obs2, ans):
            if not (a["in_dom"] and a["stricter"]):
                out.tags["skipped_not_stricter" if a["in_dom"] else "skipped_domain"] += 1
                continue
            case = {"loose": b, "strict": s}
            out.record(case, o1.get("flags") != o2.get("flags"), [f"fn:{fn}", "changed" if o1.get("flags") != o2.get("flags") else "same"])
            if not a["holds"]:
                out.violation(f"{WHAT}: {fn}: flags {o1.get('flags', o1)} -> {o2.get('flags', o2)} under stricter parameters",
                              {"fn": fn, "case": jsonable(case), "carriers": list(car), "observed": o1, "observed_strict": o2,
                               "model": a["model"], "model_strict": a["model2"],
                               "python": fx.repro_line(b, car) + "  ## then ##  " + fx.repro_line(s, car)})
            elif not (a["agree1"] and a["agree2"]):
                out.corr_break("IoosQc.TestCall.spec correspondence (model no longer matches the code on an observable the "
                               f"functional properties determine) for {fn}",
                               {"fn": fn, "case": jsonable(case), "observed": o1, "observed_strict": o2, "model": a["model"],
                                "model_strict": a["model2"]})
