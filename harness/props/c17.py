"""C17 — flags ignore value/time offsets and depend only on the local neighbourhood.
Predicates: IoosQc.applyT (the transformation, recomputed in Lean and compared with the harness'),
IoosQc.C17.holds."""
from __future__ import annotations

import copy
from fractions import Fraction as F

import functional as fx
import gen
import sut
from engine import Outcome, jsonable
from props.c16 import std_margin_ok

WHAT = "IoosQc.C17_main (C17.holds under a transformation)"

ADD = ["spike", "roc", "flat", "atten", "density"]
NEG = ["spike", "roc", "flat", "atten"]
SHIFT_T = ["roc", "flat", "atten", "speed", "climatology"]
BOTH = ["gross", "valid"]
PERTURB = ["gross", "valid", "climatology", "spike", "roc", "flat", "atten", "density"]
PERTURB_AUX = ["density", "climatology"]
PERTURB_POS = ["location", "speed"]


def add_all(xs, k):
    return [None if v is None else v + k for v in xs]


def transforms_for(rng, case, tier):
    """Yield (transform descriptor for the wire, transformed logical case)."""
    fn = case["fn"]
    k0 = fx.SERIES_KEYS[fn][0]
    n = len(case[k0])
    ks = [F(1), F(-7, 2), F(1000), F(1, 16)]
    if fn in ADD:
        big = [] if (fn == "atten" and case.get("check_type") == "std") else [F(2**20), F(-(2**30))]
        for k in rng.sample(ks, 2) + ([rng.choice(big)] if big else []):
            c = copy.deepcopy(case)
            c["inp"] = add_all(c["inp"], k)
            yield {"kind": "addValue", "k": k}, c
    if fn in NEG:
        c = copy.deepcopy(case)
        c["inp"] = [None if v is None else -v for v in c["inp"]]
        yield {"kind": "negate"}, c
    if fn in SHIFT_T and (fn != "climatology" or all(m.get("period") is None for m in case["members"])):
        for tau in rng.sample([1, -1, 86400, -86400 * 365, 3600 * 7 + 13, 10**8], 2):
            c = copy.deepcopy(case)
            c["t"] = [t + tau for t in c["t"]]
            if "t_ns" in c:
                # stamps with a fractional second, shifted by a constant that is NOT a whole number of seconds: every elapsed time is
                # what it was (the model's whole-second axis moves by tau)
                for q in (1, 2, 3):
                    cq = copy.deepcopy(c)
                    cq["t_ns"] = [x + tau * 1_000_000_000 + q * 250_000_000 for x in c["t_ns"]]
                    yield {"kind": "shiftTime", "tau": tau}, cq
                continue
            if fn == "climatology":
                for m in c["members"]:
                    m["tspan"] = [m["tspan"][0] + tau, m["tspan"][1] + tau]
            yield {"kind": "shiftTime", "tau": tau}, c
    if fn in BOTH:
        for k in rng.sample(ks[:3], 2) + [rng.choice([F(2**20), F(-(2**30))])]:
            if fn == "valid" and case.get("as_time"):
                k = F(int(k) if k.denominator == 1 else 5)
            c = copy.deepcopy(case)
            c["inp"] = add_all(c["inp"], k)
            if fn == "gross":
                c["fail"]["vals"] = [v + k for v in c["fail"]["vals"]]
                if c["suspect"] is not None:
                    c["suspect"]["vals"] = [v + k for v in c["suspect"]["vals"]]
            else:
                c["lo"] = None if c["lo"] is None else c["lo"] + k
                c["hi"] = None if c["hi"] is None else c["hi"] + k
            yield {"kind": "shiftBoth", "k": k}, c
    if fn == "spike":
        c = copy.deepcopy(case)
        c["inp"] = list(reversed(c["inp"]))
        yield {"kind": "reverse"}, c
    # single-point perturbations
    positions = range(n) if n <= (8 if tier == "quick" else 14) else sorted(rng.sample(range(n), 6))
    if fn in PERTURB and not (fn == "atten" and case["period"] is None) and len(case["inp"]) == n:
        for j in positions:
            old = case["inp"][j]
            cands = [None, (old if old is not None else F(0)) + rng.choice([1, -1, 5, F(1, 2), 100])]
            for v in (cands if n <= 5 else [rng.choice(cands)]):
                if fn == "valid" and case.get("as_time") and v is not None:
                    v = F(int(v))
                c = copy.deepcopy(case)
                c["inp"][j] = v
                yield {"kind": "perturb", "j": j, "v": v}, c
    if fn in PERTURB_AUX and len(case["z"]) == n:
        for j in positions:
            old = case["z"][j]
            v = rng.choice([None, (old if old is not None else F(0)) + rng.choice([1, -1, 20])])
            c = copy.deepcopy(case)
            c["z"][j] = v
            yield {"kind": "perturbAux", "j": j, "v": v}, c
    if fn in PERTURB_POS and len(case["lon"]) == len(case["lat"]):
        for j in positions:
            c = copy.deepcopy(case)
            r = rng.random()
            if r < 0.2:
                x = y = None
            elif r < 0.3:
                x, y = None, c["lat"][j]
            elif r < 0.5 and len(c["lon"]) >= 2 and c["lon"][j + 1 if j + 1 < len(c["lon"]) else j - 1] is not None \
                    and c["lat"][j + 1 if j + 1 < len(c["lat"]) else j - 1] is not None:
                # the platform did not move: exactly the neighbour's fix (a zero-length hop)
                nb = j + 1 if j + 1 < len(c["lon"]) else j - 1
                x, y = c["lon"][nb], c["lat"][nb]
            else:
                x = (c["lon"][j] if c["lon"][j] is not None else F(0)) + rng.choice([F(1, 64), -F(1, 2), F(3)])
                y = (c["lat"][j] if c["lat"][j] is not None else F(0)) + rng.choice([F(1, 64), -F(1, 2), F(1)])
                x = max(F(-180), min(F(180), x))
                y = max(F(-89), min(F(89), y))
            c["lon"][j], c["lat"][j] = x, y
            c["hops"] = sut.geodesic_hops(c["lon"], c["lat"])
            yield {"kind": "perturbPos", "j": j, "lon": x, "lat": y, "hops": c["hops"]}, c


def run(out: Outcome, drv):
    from proto import enc

    nbase = 60 if out.tier == "quick" else 1200
    out.rule = ("for every test the property names: generated base case (dyadic values so every transformation is exact in float64), then "
                "value offsets, negation, whole-second time shifts (seconds to years; rate-of-change and speed also on stamps with fractional seconds shifted by a fractional number of seconds), joint data+span shifts, reversal (spike) and a "
                "single-point perturbation at EVERY position of series of length <= 8 (quick) / 14 (thorough); the transformed call is "
                "rebuilt in Lean (IoosQc.applyT) and must equal the harness' one; both runs on the real function; judged by C17.holds; "
                "non-trivial = base flag vector has >= 2 distinct flags")
    for fn in gen.GENERATORS:
        if fn == "pressure":
            continue
        rng = gen.rng_for(out.seed, "C17", fn)
        items = []
        tries = 0
        while len({id(b) for b, *_ in items}) < nbase and tries < nbase * 5:
            tries += 1
            base = gen.GENERATORS[fn](rng, 8 if out.tier == "quick" else 14)
            if base.get("decimal_f32"):
                continue        # decimal bounds are exact for comparisons only; an offset would round them
            if fn == "climatology" and rng.random() < 0.5:
                for m in base["members"]:
                    if m.get("period") is not None:
                        m["period"] = None
                        m["tspan"] = [F(base["t"][0] - 86400) if base["t"] else F(0), F(base["t"][-1] + 5) if base["t"] else F(10)]
            if not std_margin_ok(base):
                continue
            car = fx.pick_carriers(base, rng)
            if fn in ("roc", "speed") and rng.random() < 0.6:
                sub = gen.subsecond(base, rng)
                if sub is not None:
                    base = sub
                    car = (car[0], rng.choice(["dt64ns", "dtindex", "stamps", "series_naive"]), car[2])
                    out.tags["base:subsecond_stamps"] += 1
            if car[0] == "nd_f4":
                car = ("nd_f8", *car[1:])       # a shifted value need not be a float32 any more
            for tr, c2 in transforms_for(rng, base, out.tier):
                if std_margin_ok(c2):
                    items.append((base, tr, c2, car))
        if fn in ("roc", "speed"):
            # further bases on stamps with fractional seconds, with the time shifts only
            extra = 0
            for _ in range(400 if out.tier == "quick" else 4000):
                sub = gen.subsecond(gen.GENERATORS[fn](rng, 8), rng)
                if sub is None or sub.get("decimal_f32"):
                    continue
                car = fx.pick_carriers(sub, rng)
                car = ("nd_f8" if car[0] == "nd_f4" else car[0], rng.choice(["dt64ns", "dtindex", "stamps", "series_naive"]), car[2])
                for tr, c2 in transforms_for(rng, sub, out.tier):
                    if tr["kind"] == "shiftTime":
                        items.append((sub, tr, c2, car))
                extra += 1
                if extra >= (80 if out.tier == "quick" else 800):
                    break
            out.tags["base:subsecond_stamps"] += extra
        obs_cache = {}
        reqs, kept = [], []
        for base, tr, c2, car in items:
            if id(base) not in obs_cache:
                obs_cache[id(base)] = sut.observe(base, *car)
            o1 = obs_cache[id(base)]
            o2 = sut.observe(c2, *car)
            reqs.append({"kind": "c17", "call": sut.wire_case(base), "transform": enc(tr), "call2": sut.wire_case(c2),
                         "obs": sut.wire_obs(o1), "obs2": sut.wire_obs(o2)})
            kept.append((base, tr, c2, car, o1, o2))
        ans = drv.run(reqs)
        for (base, tr, c2, car, o1, o2), a in zip(kept, ans):
            if not a["in_dom"] or not a["applies"]:
                out.tags["skipped_domain_or_not_applicable"] += 1
                continue
            if not a["same_transform"]:
                raise RuntimeError(f"harness transform differs from IoosQc.applyT: {tr} on {base}")
            case = {"base": base, "transform": tr}
            out.record(case, fx.nontrivial(o1), [f"fn:{fn}", f"tr:{tr['kind']}"])
            if not a["holds"]:
                out.violation(f"{WHAT}: {fn} under {jsonable(tr)}: flags {o1.get('flags', o1)} vs {o2.get('flags', o2)}",
                              {"fn": fn, "case": jsonable(case), "transformed": jsonable(c2), "carriers": list(car),
                               "observed": o1, "observed_transformed": o2, "model": a["model"], "model_transformed": a["model2"],
                               "python": fx.repro_line(base, car) + "  ## then ##  " + fx.repro_line(c2, car)})
            elif not (a["agree1"] and a["agree2"]):
                out.corr_break("IoosQc.TestCall.spec correspondence (model no longer matches the code on an observable the "
                               f"functional properties determine) for {fn}",
                               {"fn": fn, "case": jsonable(case), "observed": o1, "observed_transformed": o2,
                                "model": a["model"], "model_transformed": a["model2"]})
