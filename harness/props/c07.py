"""C07 — every equivalent spelling of a configuration yields the same set of calls."""
from __future__ import annotations

import io
import json
import os
import shutil
import tempfile
import warnings
from collections import OrderedDict
from pathlib import Path

import numpy as np
import pandas as pd
import xarray as xr
from ruamel.yaml import YAML
from shapely.geometry import GeometryCollection, shape

import gen
import sut  # noqa: F401
from engine import Outcome, jsonable
from ioos_qc.config import Config

WHAT = "IoosQc.C07_layouts / C07_unknown_skipped (C07.holds: one call per configured (stream, module, test))"
DEFAULT_KEY = "_stream"
REAL = {
    "qartod": ["gross_range_test", "spike_test", "rate_of_change_test", "flat_line_test", "location_test", "climatology_test",
               "attenuated_signal_test", "density_inversion_test", "aggregate"],
    "argo": ["pressure_increasing_test", "speed_test"],
    "axds": ["valid_range_test"],
}
UNKNOWN_MODULES = ["nosuch", "qartodx", "gliderz", "qartod_v1.1", "contrib.x", "qartod.x"]
UNKNOWN_TESTS = ["no_such_test", "gross_range", "spike"]


AWKWARD_FLOATS = [1e-05, 2.5e-07, 1e+16, 6.02e+23, 1e-10, -3e-06]
AWKWARD_STRINGS = ["yes", "no", "on", "off", "y", "010", "1:30", "0x1F", "1_000", "~", "null", "2020-01-01", "1e3", ".5", "+12", "0o17",
                   "true", "None", "1e-05", "12:30:00"]


def params_for(rng, test):
    r = rng.random()
    if test in ("aggregate", "pressure_increasing_test"):
        return None if r < 0.6 else {}
    table = {
        "gross_range_test": {"fail_span": [0, rng.randint(10, 40)], "suspect_span": [1, 9.5]},
        "spike_test": {"suspect_threshold": 0.5, "fail_threshold": rng.randint(1, 5), "method": "average"},
        "rate_of_change_test": {"threshold": 0.125},
        "flat_line_test": {"suspect_threshold": 120, "fail_threshold": 240, "tolerance": 0.25},
        "location_test": {"bbox": [-80, 30, -60, 50]},
        "climatology_test": {"config": [{"tspan": ["2020-01-01T00:00:00", "2020-03-01T00:00:00"], "vspan": [1, 5], "zspan": [0, 10]},
                                        {"tspan": [1, 6], "period": "month", "vspan": [2, 8], "fspan": [0, 12]}]},
        "attenuated_signal_test": {"suspect_threshold": 2, "fail_threshold": 1, "check_type": "range"},
        "density_inversion_test": {"suspect_threshold": -0.5, "fail_threshold": -2},
        "speed_test": {"suspect_threshold": 1, "fail_threshold": 3},
        "valid_range_test": {"valid_span": [0, 10], "end_inclusive": True},
    }
    if test in table:
        if r < 0.08:
            return None
        if r < 0.14:
            return {}
        kw = dict(table[test])
        q = rng.random()
        scalars = [k for k, v in kw.items() if isinstance(v, (int, float)) and not isinstance(v, bool)]
        if q < 0.3 and scalars:
            # numbers whose text form is an exponent without a dot (json.dumps writes 1e-05), very small / very large
            kw[rng.choice(scalars)] = rng.choice(AWKWARD_FLOATS)
        if 0.2 < q < 0.5:
            # a free-text keyword (Config keeps every configured keyword): scalars that YAML 1.1 and YAML 1.2 read differently
            kw["comment"] = rng.choice(AWKWARD_STRINGS)
        return kw
    return {"whatever": 1} if r < 0.5 else None


def gen_typed(rng, max_ctx=3):
    # a quarter of the configurations can be written in ALL four layouts (one context, no window / region, one stream)
    bare = rng.random() < 0.25
    n_ctx = 1 if bare else (rng.choice([1, 1, 1, 2, 3]) if max_ctx > 1 else 1)
    ctxs = []
    for ci in range(n_ctx):
        w = None
        r = 1.0 if bare else rng.random()
        if r < 0.35:
            w = {"starting": f"2020-0{ci + 1}-01T00:00:00", "ending": f"2020-0{ci + 2}-01T00:00:00"}
        elif r < 0.45:
            w = {"starting": f"2020-0{ci + 1}-15T00:00:00"}
        elif r < 0.55:
            w = {"ending": f"2021-0{ci + 1}-01T12:30:00"}
        region = None
        r = 1.0 if bare else rng.random()
        if r < 0.15:
            region = {"type": "Feature", "geometry": {"type": "Point", "coordinates": [-72.0 + ci, 41.0]}}
        elif r < 0.3:
            region = {"type": "FeatureCollection", "features": [
                {"type": "Feature", "geometry": {"type": "Polygon", "coordinates": [[[0, 0], [0, 1], [1, 1 + ci], [0, 0]]]}}]}
        elif r < 0.36:
            region = {"type": "nothing", "note": ci}
        streams = []
        for sid in rng.sample(["v1", "v2", "sea_temp", "salinity", "x"], 1 if bare else rng.randint(1, 3)):
            mods = []
            names = rng.sample(list(REAL), rng.randint(1, 2))
            if bare and rng.random() < 0.6 and "qartod" not in names:
                names[0] = "qartod"
            if rng.random() < 0.25:
                names.insert(rng.randrange(len(names) + 1), rng.choice(UNKNOWN_MODULES))
            for m in names:
                pool = REAL.get(m, ["gross_range_test", "anything"])
                tests = rng.sample(pool, rng.randint(1, min(3, len(pool))))
                if bare and m == "qartod" and rng.random() < 0.6 and "climatology_test" not in tests:
                    tests[rng.randrange(len(tests))] = "climatology_test"      # a parameter that is a list of mappings
                if rng.random() < 0.25:
                    # a name no module has, or (as often) a test written under the WRONG module: real elsewhere, unknown here
                    elsewhere = [t for mm, ts in REAL.items() if mm != m for t in ts if t not in REAL.get(m, [])]
                    pick = rng.choice(UNKNOWN_TESTS) if rng.random() < 0.5 or not elsewhere else rng.choice(elsewhere)
                    if pick not in tests:
                        tests.insert(rng.randrange(len(tests) + 1), pick)
                mods.append({"name": m, "tests": [{"name": t, "kwargs": params_for(rng, t)} for t in tests]})
            streams.append({"id": sid, "modules": mods})
        ctxs.append({"window": w, "region": region, "streams": streams})
    if rng.random() < 0.12:
        # only parameter-less tests: the class of known finding F-09 in the bare stream layout
        for c in ctxs:
            for s in c["streams"]:
                s["modules"] = [{"name": "argo", "tests": [{"name": "pressure_increasing_test", "kwargs": None}]},
                                {"name": "qartod", "tests": [{"name": "aggregate", "kwargs": None}]}][: rng.randint(1, 2)]
    return ctxs


def region_seen(region):
    if region is None:
        return None
    try:
        if "features" in region:
            g = GeometryCollection([shape(f["geometry"]) for f in region["features"]])
        elif "geometry" in region:
            g = GeometryCollection([shape(region["geometry"])])
        else:
            return None
        return {"wkt": g.wkt}
    except Exception:  # noqa: BLE001
        return None


def streams_dict(streams):
    return {s["id"]: {m["name"]: {t["name"]: t["kwargs"] for t in m["tests"]} for m in s["modules"]} for s in streams}


def ctx_dict(c):
    d = {}
    if c["window"] is not None:
        d["window"] = dict(c["window"])
    if c["region"] is not None:
        d["region"] = c["region"]
    d["streams"] = streams_dict(c["streams"])
    return d


def layout_dict(layout, ctxs):
    if layout == "contexts":
        return {"contexts": [ctx_dict(c) for c in ctxs]}
    if len(ctxs) != 1:
        return None
    c = ctxs[0]
    if layout == "context":
        return ctx_dict(c)
    if c["window"] is not None or c["region"] is not None:
        return None
    if layout == "streams":
        return streams_dict(c["streams"])
    if layout == "modules" and len(c["streams"]) == 1:
        return streams_dict(c["streams"])[c["streams"][0]["id"]]
    return None


def to_odict(x):
    if isinstance(x, dict):
        return OrderedDict((k, to_odict(v)) for k, v in x.items())
    if isinstance(x, list):
        return [to_odict(v) for v in x]
    return x


def yaml_text(d):
    y = YAML(typ="safe")
    y.default_flow_style = False
    buf = io.StringIO()
    y.dump(d, buf)
    return buf.getvalue()


def xarray_attr_dataset(ctxs):
    """Per-variable QC attributes; expresses a single context without window / region."""
    c = ctxs[0]
    dv = {}
    i = 0
    for s in c["streams"]:
        for m in s["modules"]:
            for t in m["tests"]:
                dv[f"qc{i}"] = xr.DataArray(np.zeros(2), dims=("time",), attrs={
                    "ioos_qc_module": m["name"], "ioos_qc_test": t["name"], "ioos_qc_target": s["id"],
                    "ioos_qc_config": json.dumps(t["kwargs"] if t["kwargs"] is not None else {})})
                i += 1
    return xr.Dataset(dv)


CARRIERS = ["dict", "odict", "yaml", "json", "stringio_yaml", "stringio_json", "path_yaml", "path_json", "pathobj_yaml",
            "xr_global_json", "xr_global_yaml", "xr_vars"]


def source_for(carrier, d, ctxs, layout, tmp, k):
    if carrier == "dict":
        return json.loads(json.dumps(d))
    if carrier == "odict":
        return to_odict(d)
    if carrier == "yaml":
        return yaml_text(d)
    if carrier == "json":
        return json.dumps(d)
    if carrier == "stringio_yaml":
        return io.StringIO(yaml_text(d))
    if carrier == "stringio_json":
        return io.StringIO(json.dumps(d))
    if carrier in ("path_yaml", "pathobj_yaml"):
        p = os.path.join(tmp, f"qc_config_{k % 3}.yaml")      # a few file names, rewritten again and again
        Path(p).write_text(yaml_text(d))
        return p if carrier == "path_yaml" else Path(p)
    if carrier == "path_json":
        p = os.path.join(tmp, f"qc_config_{k % 2}.json")
        Path(p).write_text(json.dumps(d))
        return p
    if carrier == "xr_global_json":
        return xr.Dataset({"a": ("time", np.zeros(2))}, attrs={"ioos_qc_config": json.dumps(d)})
    if carrier == "xr_global_yaml":
        return xr.Dataset({"a": ("time", np.zeros(2))}, attrs={"ioos_qc_config": yaml_text(d)})
    if carrier == "xr_vars":
        if layout != "streams":
            return None
        return xarray_attr_dataset(ctxs)
    raise ValueError(carrier)


def canon_json(x):
    if isinstance(x, dict):
        return {str(k): canon_json(v) for k, v in x.items()}
    if isinstance(x, (list, tuple)):
        return [canon_json(v) for v in x]
    if isinstance(x, (np.generic,)):
        return x.item()
    if isinstance(x, (pd.Timestamp,)) or hasattr(x, "isoformat"):
        return pd.Timestamp(x).isoformat()
    return x


def observe(source):
    with warnings.catch_warnings():
        warnings.simplefilter("ignore")
        calls = Config(source).calls
    out = []
    for c in calls:
        w = {}
        if c.window.starting is not None:
            w["starting"] = pd.Timestamp(c.window.starting).isoformat()
        if c.window.ending is not None:
            w["ending"] = pd.Timestamp(c.window.ending).isoformat()
        out.append({"stream": c.stream_id, "module": c.module, "test": c.method, "kwargs": canon_json(dict(c.kwargs)),
                    "window": w or None, "region": None if c.region is None else {"wkt": c.region.wkt}})
    return out


def wire_ctx(c):
    return {"window": c["window"], "region": c["region"], "region_seen": region_seen(c["region"]),
            "streams": [{"id": s["id"], "modules": [{"name": m["name"], "tests": [{"name": t["name"], "kwargs": t["kwargs"]}
                                                                               for t in m["tests"]]} for m in s["modules"]]}
                        for s in c["streams"]]}


def run(out: Outcome, drv):
    n = 120 if out.tier == "quick" else 2500
    out.rule = ("generated typed configurations (1..3 contexts with closed / half-open / absent windows and Feature / FeatureCollection / "
                "unparsable regions, 1..3 streams, any subset of the qartod/argo/axds tests with scalar / list / list-of-mappings / empty "
                "/ absent parameters, unknown modules and tests inserted at random positions) written in each expressible layout "
                "(contexts / context / streams / modules) and delivered through 12 carriers (dict, OrderedDict, YAML and JSON text, "
                "StringIO, str and Path file paths (three file names, rewritten for every case), xarray global attribute as JSON or YAML, per-variable xarray attributes); "
                "observed Config(source).calls compared as a multiset with IoosQc.specCalls; non-trivial = >= 2 calls")
    rng = gen.rng_for(out.seed, "C07")
    tmp = tempfile.mkdtemp(prefix="verif_c07_")
    reqs, meta = [], []
    try:
        k = 0
        for it in range(n):
            ctxs = gen_typed(rng)
            if it % 25 == 0:
                # a document that pins its YAML version with a directive is loaded in between (its own scalars mean the same in
                # YAML 1.1 and 1.2): a loader shared between loads would keep resolving later documents by 1.1 rules
                try:
                    got = observe("%YAML 1.1\n---\nstreams:\n  v1:\n    qartod:\n      gross_range_test:\n        fail_span: [0, 1]\n")
                    if len(got) != 1:
                        out.violation(f"{WHAT}: a YAML document with a %YAML 1.1 directive exposes {len(got)} calls instead of 1",
                                      {"case": {"carrier": "yaml", "directive": "%YAML 1.1"}, "observed": got})
                except Exception as e:  # noqa: BLE001
                    out.violation(f"{WHAT}: a YAML document with a %YAML 1.1 directive is rejected: {type(e).__name__}: {e}",
                                  {"case": {"carrier": "yaml", "directive": "%YAML 1.1"}})
            for layout in ("contexts", "context", "streams", "modules"):
                d = layout_dict(layout, ctxs)
                if d is None:
                    continue
                carriers = CARRIERS if (out.tier == "thorough" or it % 4 == 0) else rng.sample(CARRIERS, 4)
                for carrier in carriers:
                    k += 1
                    src = source_for(carrier, d, ctxs, layout, tmp, k)
                    if src is None:
                        continue
                    case = {"layout": layout, "carrier": carrier, "contexts": ctxs}
                    try:
                        obs = observe(src)
                        if carrier in ("dict", "odict", "path_yaml", "path_json", "yaml", "json") and it % 2 == 0:
                            # the same source object / text / path handed to Config a second time means the same thing
                            again = observe(src)
                            if again != obs:
                                out.violation(f"{WHAT}: a second Config built from the same {carrier} source exposes different calls",
                                              {"case": jsonable(case), "observed": obs, "observed_second": again})
                    except Exception as e:  # noqa: BLE001
                        obs = None
                        err = f"{type(e).__name__}: {e}"
                    if obs is None:
                        meta.append((case, None, err))
                        reqs.append({"kind": "c07", "layout": layout, "default_key": DEFAULT_KEY,
                                     "contexts": [wire_ctx(c) for c in ctxs], "obs": []})
                        continue
                    wired = [wire_ctx(c) for c in ctxs]
                    if carrier == "xr_vars":
                        # an attribute cannot hold None: the harness wrote '{}' for absent parameters
                        for c in wired:
                            for s in c["streams"]:
                                for m in s["modules"]:
                                    for t in m["tests"]:
                                        if t["kwargs"] is None:
                                            t["kwargs"] = {}
                    reqs.append({"kind": "c07", "layout": layout, "default_key": DEFAULT_KEY, "contexts": wired, "obs": obs})
                    meta.append((case, obs, None))
    finally:
        shutil.rmtree(tmp, ignore_errors=True)
    ans = drv.run(reqs)
    for (case, obs, err), a in zip(meta, ans):
        in_dom = a["in_dom"]
        f09 = case["layout"] == "streams" and not a["has_params"]
        if not in_dom and not f09:
            out.tags["skipped_domain"] += 1
            continue
        out.record(case, a["n_spec"] >= 2, [f"layout:{case['layout']}", f"carrier:{case['carrier']}", f"calls:{min(a['n_spec'], 5)}"])
        if err is not None:
            out.violation(f"{WHAT}: Config(source) raised {err}", {"case": jsonable(case), "observed": err},
                          known_id="F-09" if f09 else None)
        elif not a["holds"]:
            kid = "F-09" if (f09 and len(obs) == 0 and a["depth"] < 4) else None
            out.violation(f"{WHAT}: layout {case['layout']} via {case['carrier']}: {len(obs)} calls exposed, {a['n_spec']} configured",
                          {"case": jsonable(case), "observed": obs, "model_agrees_with_code": a["model_eq"]}, known_id=kid)
        elif not a["model_eq"]:
            out.corr_break("IoosQc.configCalls correspondence (model of the layout dispatch no longer matches Config(source).calls)",
                           {"case": jsonable(case), "observed": obs})
