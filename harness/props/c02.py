"""C02 — a missing observation is never reported as evaluated.  Predicate: IoosQc.C02.holds."""
from __future__ import annotations

import itertools

import functional as fx
import gen
import sut
from engine import Outcome, jsonable

FNS = [f for f in gen.GENERATORS if f != "pressure"]
WHAT = "IoosQc.C02_main (C02.holds)"
AUX = {"location": "lat", "speed": "lat", "density": "z", "climatology": "z"}


def verdict(case, obs, ans):
    if not ans["c02_applies"] or ans["c02_ok"]:
        return None
    return f"{case['fn']}: flags {obs.get('flags')} break the missing-value discipline"


def placements(base, maxn):
    """All 2^n placements of missing values in the primary series and, independently, in the
    auxiliary series (depth / latitude; longitude for position tests is the primary)."""
    fn = base["fn"]
    k0 = fx.SERIES_KEYS[fn][0]
    n = len(base[k0])
    if n > maxn or any(len(base[k]) != n for k in fx.SERIES_KEYS[fn]):
        return
    fill = lambda xs, d: [v if v is not None else d for v in xs]  # noqa: E731
    prim = fill(base[k0], gen.F(1))
    aux_key = AUX.get(fn)
    aux = fill(base[aux_key], gen.F(2)) if aux_key else None
    pats = list(itertools.product([False, True], repeat=n))
    for p in pats:
        for q in (pats if aux_key and n <= 4 else [None]):
            c = dict(base)
            c[k0] = [None if m else v for m, v in zip(p, prim)]
            if q is not None:
                c[aux_key] = [None if m else v for m, v in zip(q, aux)]
            yield fx.refresh(c)


def run(out: Outcome, drv):
    maxn = 5 if out.tier == "quick" else 7
    reps = 6 if out.tier == "quick" else 30
    n_rand = 600 if out.tier == "quick" else 15000
    out.rule = (f"for each test that documents missing handling: base cases of length 0..{maxn} with ALL 2^n placements of missing "
                f"values in the data and (n<=4) independently all 2^n in depth/latitude (exhaustive per base case), every "
                f"climatology member shape from the generator, plus seeded longer series, plus speed / rate-of-change series with a repeated "
                f"timestamp (judged by C02.holds alone); non-trivial = >= 2 distinct flags")
    corp = fx.corpus_items("C02")
    if corp:
        fx.run_cases(out, drv, corp, verdict, WHAT, want_spec=True)
        out.extra["corpus_cases"] = len(corp)
    for fn in FNS:
        rng = gen.rng_for(out.seed, "C02", fn)
        items = []
        seen_len = {}
        tries = 0
        while tries < 4000 and sum(seen_len.values()) < reps * (maxn + 1):
            tries += 1
            base = gen.GENERATORS[fn](rng, maxn)
            n = len(base[fx.SERIES_KEYS[fn][0]])
            if seen_len.get(n, 0) >= reps:
                continue
            got = False
            for c in placements(base, maxn):
                items.append((c, *fx.pick_carriers(c, rng)))
                got = True
            if got:
                seen_len[n] = seen_len.get(n, 0) + 1
        for _ in range(n_rand):
            c = gen.GENERATORS[fn](rng, 12 if out.tier == "quick" else 30)
            items.append((c, *fx.pick_carriers(c, rng)))
        for i in range(0, len(items), 4000):
            fx.run_cases(out, drv, items[i:i + 4000], verdict, WHAT, want_spec=True)
            if len(out.violations) >= 5:
                break
    # Repeated timestamps (two fixes logged in the same second; sampling faster than the whole seconds the rate tests work in):
    # outside the domain of the functional properties (the rate is undefined there), but C02 still speaks — a present
    # observation whose predecessor is present must not come back MISSING.  Judged by C02.holds alone.
    for fn in ("speed", "roc"):
        rng = gen.rng_for(out.seed, "C02", fn, "repeated-timestamps")
        items = []
        for _ in range(150 if out.tier == "quick" else 3000):
            c = gen.GENERATORS[fn](rng, 8)
            n = len(c["t"])
            if n < 2 or any(len(c[k]) != n for k in fx.SERIES_KEYS[fn]):
                continue
            c = dict(c, t=list(c["t"]))
            for i in rng.sample(range(1, n), rng.randint(1, min(2, n - 1))):
                c["t"][i] = c["t"][i - 1]
            c["t"] = sorted(c["t"])
            items.append((fx.refresh(c), *fx.pick_carriers(c, rng)))
        for (case, ca, tc, sk), (obs, ans) in zip(items, fx.evaluate(drv, items, want_spec=False)):
            out.record(case, fx.nontrivial(obs), [f"fn:{fn}", "repeated-timestamps"])
            bad = verdict(case, obs, ans)
            if bad is not None:
                out.violation(f"{WHAT}: {bad} (time axis with a repeated timestamp)",
                              {"fn": fn, "case": jsonable(case), "carriers": [ca, tc, sk],
                               "observed": obs, "python": fx.repro_line(case, (ca, tc, sk))})
    out.exhaustive = False
