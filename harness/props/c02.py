"""C02 — a missing observation is never reported as evaluated.  Predicate: IoosQc.C02.holds."""
from __future__ import annotations

import itertools

import functional as fx
import gen
import sut
from engine import Outcome

FNS = [f for f in gen.GENERATORS if f != "pressure"]
WHAT = "IoosQc.C02_main (C02.holds)"
AUX = {"location": "lat", "speed": "lat", "density": "z", "climatology": "z"}


def verdict(case, obs, ans):
    if not ans["c02_applies"] or ans["c02_ok"]:
        return None
    return f"{case['fn']}: flags {obs.get('flags')} break the missing-value discipline"


def placements(base, maxn):
    """All 2^n placements of missing values in the primary series and, independently, in the
    auxiliary series (depth / latitude; longitude for position tests is the primary)."""
    fn = base["fn"]
    k0 = fx.SERIES_KEYS[fn][0]
    n = len(base[k0])
    if n > maxn or any(len(base[k]) != n for k in fx.SERIES_KEYS[fn]):
        return
    fill = lambda xs, d: [v if v is not None else d for v in xs]  # noqa: E731
    prim = fill(base[k0], gen.F(1))
    aux_key = AUX.get(fn)
    aux = fill(base[aux_key], gen.F(2)) if aux_key else None
    pats = list(itertools.product([False, True], repeat=n))
    for p in pats:
        for q in (pats if aux_key and n <= 4 else [None]):
            c = dict(base)
            c[k0] = [None if m else v for m, v in zip(p, prim)]
            if q is not None:
                c[aux_key] = [None if m else v for m, v in zip(q, aux)]
            yield fx.refresh(c)


def run(out: Outcome, drv):
    maxn = 5 if out.tier == "quick" else 7
    reps = 6 if out.tier == "quick" else 30
    n_rand = 600 if out.tier == "quick" else 15000
    out.rule = (f"for each test that documents missing handling: base cases of length 0..{maxn} with ALL 2^n placements of missing "
                f"values in the data and (n<=4) independently all 2^n in depth/latitude (exhaustive per base case), every "
                f"climatology member shape from the generator, plus seeded longer series; non-trivial = >= 2 distinct flags")
    corp = fx.corpus_items("C02")
    if corp:
        fx.run_cases(out, drv, corp, verdict, WHAT, want_spec=True)
        out.extra["corpus_cases"] = len(corp)
    for fn in FNS:
        rng = gen.rng_for(out.seed, "C02", fn)
        items = []
        seen_len = {}
        tries = 0
        while tries < 4000 and sum(seen_len.values()) < reps * (maxn + 1):
            tries += 1
            base = gen.GENERATORS[fn](rng, maxn)
            n = len(base[fx.SERIES_KEYS[fn][0]])
            if seen_len.get(n, 0) >= reps:
                continue
            got = False
            for c in placements(base, maxn):
                items.append((c, *fx.pick_carriers(c, rng)))
                got = True
            if got:
                seen_len[n] = seen_len.get(n, 0) + 1
        for _ in range(n_rand):
            c = gen.GENERATORS[fn](rng, 12 if out.tier == "quick" else 30)
            items.append((c, *fx.pick_carriers(c, rng)))
        for i in range(0, len(items), 4000):
            fx.run_cases(out, drv, items[i:i + 4000], verdict, WHAT, want_spec=True)
            if len(out.violations) >= 5:
                break
    out.exhaustive = False
