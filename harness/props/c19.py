"""C19 — the pandas store writes one aligned, uniquely named column per test result."""
from __future__ import annotations

import warnings
from importlib import import_module

import numpy as np
import pandas as pd

import gen
import streams_common as sc
import sut
from engine import Outcome, jsonable
from ioos_qc.config import Config
from ioos_qc.stores import PandasStore
from ioos_qc.streams import PandasStream
from ioos_qc.utils import cf_safe_name

WHAT = "IoosQc.C19_main (C19.holds: columns of PandasStore.save)"
STREAM_IDS = ["v1", "v2", "temp", "sea-temp", "sea.temp", "sea temp", "2m", "_x", "a/b", "t°C", "x-1", "x.1", "Salinity_PSU",
              "temp[1]", "temp*", "t?mp", "temp_raw"]          # ids that are also shell / regex patterns (matched literally)
NAMES = STREAM_IDS + ["", "9", "_", "é", "a__b", "A.b-c d", "123abc", "v_1", "ok_name"]


class ColIntern:
    def __init__(self):
        self.ids = {}

    def __call__(self, arr):
        if arr is None:
            return None
        a = np.ma.asarray(arr)
        if a.size == 0:
            return None
        mask = np.ma.getmaskarray(a).reshape(-1)
        data = np.ma.getdata(a).reshape(-1)
        key = []
        for v, m in zip(list(data), mask):
            if m:
                key.append(None)
            elif isinstance(v, (np.datetime64, pd.Timestamp)):
                key.append(("t", int(np.datetime64(v, "ns").astype("int64"))) if not pd.isna(v) else None)
            else:
                fv = float(v)
                key.append(None if fv != fv else fv)
        return self.ids.setdefault(tuple(key), len(self.ids) + 1)


CUSTOM_AXES = {"t": "timestamp", "z": "depth_m", "y": "latitude", "x": "longitude"}
AXIS_BACK = {"timestamp": "time", "depth_m": "z", "latitude": "lat", "longitude": "lon"}


def frame_cols(df, intern, custom_axes=False):
    """(column name, interned content) pairs; for a store with caller-chosen axis names the axis columns are mapped back
    to the default names the model uses — a default name appearing in such a frame is left as it is and so will not match."""
    back = (lambda c: AXIS_BACK.get(c, ("unexpected-default-axis-name:" + c) if c in AXIS_BACK.values() else c)) if custom_axes else (lambda c: c)
    return [[back(str(c)), intern(df[c].to_numpy())] for c in df.columns]


def run(out: Outcome, drv):
    sc.install_probes()
    n = 250 if out.tier == "quick" else 1500
    out.rule = ("PandasStream runs over generated tables whose stream ids include characters illegal in CF names (dash, dot, space, "
                "slash, leading digit / underscore, non-ASCII) and configs of 1..3 contexts / 1..3 tests; PandasStore.save with all four "
                "write_data / write_axes combinations and include / exclude lists over stream ids, test names and function objects, every "
                "other store asked a second time with other arguments; "
                "frame compared as a set of (column name, content) by IoosQc.C19.holds; compute_aggregate roll-up compared with the "
                "aggregate of all test columns; cf_safe_name on a name corpus; non-trivial = a filter or an unsafe stream id is involved")
    rng = gen.rng_for(out.seed, "C19")
    # cf_safe_name itself
    a, = drv.run([{"kind": "cfsafe", "names": NAMES}])
    for name, safe in zip(NAMES, a["safe"]):
        got = cf_safe_name(name)
        out.record({"cf_safe_name": name}, True, ["cfsafe"])
        if got != safe:
            out.violation(f"{WHAT}: cf_safe_name({name!r}) = {got!r}, model {safe!r}", {"case": {"name": name}, "observed": got})
    reqs, meta = [], []
    for it in range(n):
        k = rng.randint(1, 3)
        sids = rng.sample(STREAM_IDS, k)
        if it == 0:
            sids = ["x-1", "x.1"]          # the class of known finding F-18, always present
        elif rng.random() < 0.85:
            # avoid pairs whose safe names collide (those are the class of known finding F-18)
            seen, keep = set(), []
            for s in sids:
                if cf_safe_name(s) not in seen:
                    keep.append(s)
                    seen.add(cf_safe_name(s))
            sids = keep
        tab = sc.gen_table(rng, 8, streams=tuple(sids), index_kind="range")
        while it == 0 and tab["n"] == 0:
            tab = sc.gen_table(rng, 8, streams=tuple(sids), index_kind="range")
        tests = [t for t in sc.usable_tests(tab) if t not in ("probe",)]
        ctxs = sc.gen_config(rng, tab, tests=tests)
        if it == 0:
            ctxs = [{"window": [None, None], "streams": {sid: [("gross", "qartod", "gross_range_test", {"fail_span": [0, 30]})]
                                                         for sid in sids}}]
        cfg = sc.config_dict(ctxs)
        with warnings.catch_warnings():
            warnings.simplefilter("ignore")
            try:
                results = list(PandasStream(sc.make_df(tab)).run(Config(cfg)))
                # every fourth store names its axis columns itself; the others must keep the default names whatever
                # other stores of the same process were told
                custom_axes = (it % 4 == 2)
                store = PandasStore(results, axes=dict(CUSTOM_AXES)) if custom_axes else PandasStore(results)
            except Exception as e:  # noqa: BLE001
                out.tags["stream_failed"] += 1
                continue
            crs = list(store.collected_results)
            if not crs:
                continue
            write_data, write_axes = rng.random() < 0.5, rng.random() < 0.6
            pool = [c.stream_id for c in crs] + [c.test for c in crs] + [c.function for c in crs] + ["nosuch"]

            def pick():
                r = rng.random()
                if r < 0.5:
                    return None
                return rng.sample(pool, rng.randint(0 if r < 0.6 else 1, min(3, len(pool))))
            include, exclude = pick(), pick()
            intern = ColIntern()

            def wire_list(lst):
                if lst is None:
                    return None
                return [x if isinstance(x, str) else f"fn:{x.__module__.replace('ioos_qc.', '')}.{x.__name__}" for x in lst]
            case = {"table": tab, "contexts": ctxs, "write_data": write_data, "write_axes": write_axes,
                    "include": wire_list(include), "exclude": wire_list(exclude)}
            try:
                df = store.save(write_data=write_data, write_axes=write_axes, include=include, exclude=exclude)
            except Exception as e:  # noqa: BLE001
                out.record(case, True, ["save_error"])
                out.violation(f"{WHAT}: PandasStore.save raised {type(e).__name__}: {e}", {"case": jsonable(case)})
                continue
        rows_ok = len(df) == tab["n"] or (len(df.columns) == 0)
        wired = [{"stream": c.stream_id or "", "package": c.package or "", "test": c.test or "",
                  "fn": f"fn:{c.package}.{c.test}", "results": intern(c.results) or 0, "data": intern(c.data) or 0,
                  "tinp": intern(c.tinp), "zinp": intern(c.zinp), "lon": intern(c.lon), "lat": intern(c.lat)} for c in crs]
        obs = frame_cols(df, intern, custom_axes)
        if tab["n"] == 0:
            continue
        reqs.append({"kind": "c19", "write_data": write_data, "write_axes": write_axes, "include": case["include"],
                     "exclude": case["exclude"], "results": wired, "obs": obs})
        second = None
        if it % 2 == 0:
            # the same store asked again with other arguments: the second frame obeys the second request, and the first
            # frame is still what it was
            wd2, wa2 = rng.random() < 0.5, rng.random() < 0.7
            inc2, exc2 = pick(), pick()
            case2 = dict(case, write_data=wd2, write_axes=wa2, include=wire_list(inc2), exclude=wire_list(exc2),
                         earlier_save_on_same_store={k: case[k] for k in ("write_data", "write_axes", "include", "exclude")})
            try:
                with warnings.catch_warnings():
                    warnings.simplefilter("ignore")
                    df2 = store.save(write_data=wd2, write_axes=wa2, include=inc2, exclude=exc2)
                obs2 = frame_cols(df2, intern, custom_axes)
                rows_ok2 = len(df2) == tab["n"] or (len(df2.columns) == 0)
                if frame_cols(df, intern, custom_axes) != obs:
                    out.violation(f"{WHAT}: the frame returned by the first save changed when save was called again",
                                  {"case": jsonable(case2), "observed_first_before": obs, "observed_first_after": frame_cols(df, intern, custom_axes)})
                second = (case2, obs2, rows_ok2)
            except Exception as e:  # noqa: BLE001
                out.violation(f"{WHAT}: second PandasStore.save raised {type(e).__name__}: {e}", {"case": jsonable(case2)})
        # roll-up: the test columns are still the tests' flags afterwards, plus exactly one new column
        with warnings.catch_warnings():
            warnings.simplefilter("ignore")
            try:
                base_cols = frame_cols(store.save(write_data=False, write_axes=False), intern, custom_axes)
                store.compute_aggregate()
                after_cols = frame_cols(store.save(write_data=False, write_axes=False), intern, custom_axes)
            except Exception as e:  # noqa: BLE001
                out.violation(f"{WHAT}: save / compute_aggregate raised {type(e).__name__}: {e}", {"case": jsonable(case)})
                continue
        if after_cols[:len(base_cols)] != base_cols or len(after_cols) != len(base_cols) + 1:
            out.violation(f"{WHAT}: after compute_aggregate the frame is not 'the same test columns plus one roll-up column': "
                          f"before {base_cols}, after {after_cols}", {"case": jsonable(case), "before": base_cols, "after": after_cols})
        roll = store.collected_results[-1]
        meta.append((case, obs, rows_ok, wired, crs, roll))
        if second is not None:
            case2, obs2, rows_ok2 = second
            reqs.append({"kind": "c19", "write_data": case2["write_data"], "write_axes": case2["write_axes"], "include": case2["include"],
                         "exclude": case2["exclude"], "results": wired, "obs": obs2})
            meta.append((case2, obs2, rows_ok2, wired, crs, roll))
    ans = drv.run(reqs)
    agg_reqs = []
    for (case, obs, rows_ok, wired, crs, roll), a in zip(meta, ans):
        nontriv = case["include"] is not None or case["exclude"] is not None or any(cf_safe_name(s) != s for s in case["table"]["cols"])
        out.record(case, nontriv, ["store", f"wd:{case['write_data']}", f"wa:{case['write_axes']}",
                                   "include" if case["include"] is not None else "no-include",
                                   "exclude" if case["exclude"] is not None else "no-exclude",
                                   "collision" if not a["no_collision"] else "no-collision"])
        if not rows_ok:
            out.violation(f"{WHAT}: frame does not have one row per input row", {"case": jsonable(case), "observed": obs})
        elif not a["holds"]:
            kid = "F-18" if (not a["no_collision"] and obs == a["model"]) else None
            out.violation(f"{WHAT}: frame columns {obs} do not match the kept results (model frame {a['model']})",
                          {"case": jsonable(case), "observed": obs, "model": a["model"], "results": wired}, known_id=kid)
        vecs = [[None if m else int(v) for v, m in zip(np.ma.getdata(c.results).tolist(), np.ma.getmaskarray(c.results))] for c in crs]
        agg_reqs.append({"kind": "agg", "vectors": vecs, "obs": sut.wire_obs(sut.canon_result(roll.results))})
    for (case, *_), a in zip(meta, drv.run(agg_reqs)):
        if not a["holds"]:
            out.violation(f"{WHAT}: compute_aggregate roll-up differs from the aggregate of all test columns (spec {a['spec']})",
                          {"case": jsonable(case), "model": a["model"]})
