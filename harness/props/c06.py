"""C06 — collected results put every context's flags back on the right input rows."""
from __future__ import annotations

import itertools
import warnings

import numpy as np
import pandas as pd

import gen
import streams_common as sc
from props import e2e
import sut
from engine import Outcome, jsonable
from ioos_qc.results import CallResult, ContextResult, collect_results

WHAT = "IoosQc.C06_main / C06_collect_spec / C06_order_independent (C06.columnOk, C06.dictOk)"
COLS = ["data", "tinp", "zinp", "lat", "lon"]


class Intern:
    def __init__(self):
        self.ids = {}

    def __call__(self, v):
        if isinstance(v, (np.datetime64, pd.Timestamp)):
            v = ("t", int(np.datetime64(v, "ns").astype("int64")))
        elif isinstance(v, (float, np.floating)):
            v = ("nan",) if v != v else ("f", float(v))
        elif isinstance(v, (int, np.integer)):
            v = ("f", float(v))
        return self.ids.setdefault(v, len(self.ids) + 100)


def col_values(arr, intern, covered=None):
    """Canonical column: interned id of each entry; a masked entry is None on a row no context covers and the id of
    "a masked source value" on a covered row (the stream was fed a masked array)."""
    a = np.ma.asarray(arr)
    mask = np.ma.getmaskarray(a).reshape(-1)
    data = np.ma.getdata(a).reshape(-1)
    cov = covered if covered is not None and len(covered) == len(mask) else [False] * len(mask)
    return [(intern("masked-source-value") if c else None) if m else intern(v)
            for v, m, c in zip(data.tolist() if data.dtype.kind != "M" else list(data), mask, cov)]


def wire_vals(arr, intern):
    a = np.ma.asarray(arr)
    mask = np.ma.getmaskarray(a).reshape(-1)
    data = np.ma.getdata(a).reshape(-1)
    return [intern("masked-source-value") if m else intern(v)
            for v, m in zip(list(data) if data.dtype.kind == "M" else data.tolist(), mask)]


def synth_contexts(rng, n):
    """Synthetic ContextResults over n rows: disjoint masks incl. empty and all-covering."""
    layout = rng.choice(["split", "split", "gap", "all+empty", "empty+rest", "single", "interleaved"])
    rows = list(range(n))
    masks = []
    if layout == "single" or n == 0:
        masks = [[True] * n]
    elif layout == "all+empty":
        masks = [[True] * n, [False] * n]
    elif layout == "empty+rest":
        masks = [[False] * n, [True] * n]
    elif layout == "interleaved":
        k = rng.randint(2, 3)
        masks = [[(i % k) == j for i in rows] for j in range(k)]
    else:
        k = rng.randint(2, 4)
        cuts = sorted(rng.randint(0, n) for _ in range(k - 1))
        bounds = [0, *cuts, n]
        masks = [[bounds[j] <= i < bounds[j + 1] for i in rows] for j in range(k)]
        if layout == "gap" and len(masks) > 2:
            del masks[rng.randrange(1, len(masks) - 1)]
    streams = rng.choice([["v1"], ["v1", "v2"]])
    tests = rng.choice([[("qartod", "gross_range_test")], [("qartod", "gross_range_test"), ("qartod", "spike_test")],
                        [("qartod", "spike_test"), ("argo", "speed_test"), ("axds", "valid_range_test")]])
    axes = [a for a in ("zinp", "lat", "lon") if rng.random() < 0.6]
    t_all = (np.arange(n, dtype="int64") * 60 + sc.BASE_T).astype("datetime64[s]").astype("datetime64[ns]")
    src = {s: np.array([rng.choice([1.5, 2.0, 7.25, np.nan, -3.0]) for _ in rows]) for s in streams}
    ax = {a: np.array([float(rng.randint(0, 50)) for _ in rows]) for a in axes}
    if n and rng.random() < 0.3:
        # the stream was fed masked arrays (an observation / a depth / a position masked on some rows, a finite number underneath):
        # a masked source value on a covered row must come back masked in ITS column and nowhere else
        for d in (src, ax):
            for k in list(d):
                if rng.random() < 0.6:
                    d[k] = np.ma.array(np.nan_to_num(d[k], nan=-9.5), mask=[rng.random() < 0.3 for _ in rows])
    ctxs = []
    empties = rng.random() < 0.35
    for m in masks:
        mm = np.array(m, dtype=bool)
        for s in streams:
            if empties and rng.random() < 0.5:
                # a context whose tests all dropped out (what a stream yields when a test cannot run): it carries data of
                # its own but no result, and must not leave a trace in anybody's collected columns
                ctxs.append(ContextResult(
                    stream_id=s + "_norun", results=[], subset_indexes=mm.copy(),
                    data=np.full(int(mm.sum()), -77.5), tinp=t_all[mm] + np.timedelta64(1, "s"),
                    zinp=np.full(int(mm.sum()), -78.5), lat=np.full(int(mm.sum()), -79.5), lon=np.full(int(mm.sum()), -80.5),
                ))
            for (pkg, tst) in tests:
                flags = np.ma.array([rng.choice([1, 1, 2, 3, 4, 9]) for _ in range(int(mm.sum()))], dtype="uint8")
                ctxs.append(ContextResult(
                    stream_id=s,
                    results=[CallResult(package=pkg, test=tst, function=None, results=flags)],
                    subset_indexes=mm.copy(),
                    data=src[s][mm], tinp=t_all[mm],
                    zinp=ax["zinp"][mm] if "zinp" in ax else pd.Series(dtype="float64").to_numpy(),
                    lat=ax["lat"][mm] if "lat" in ax else pd.Series(dtype="float64").to_numpy(),
                    lon=ax["lon"][mm] if "lon" in ax else pd.Series(dtype="float64").to_numpy(),
                ))
    return ctxs


def wire_contexts(ctxs, intern):
    out = []
    for r in ctxs:
        mask = [bool(b) for b in np.asarray(r.subset_indexes).reshape(-1)]
        for tr in r.results:
            cols = {"results": {"mask": mask, "vals": [int(v) for v in np.ma.getdata(tr.results).reshape(-1).tolist()]}}
            for c in COLS:
                arr = getattr(r, c)
                if arr is None or np.asarray(arr).size == 0:
                    continue       # absent axis: nothing to put back
                cols[c] = {"mask": mask, "vals": wire_vals(arr, intern)}
            out.append({"key": f"{r.stream_id}:{tr.package}.{tr.test}", "cols": cols})
    return out


def freeze(ctxs):
    """Inputs as the stream front ends deliver them under pandas copy-on-write: read-only views."""
    out = []
    for r in ctxs:
        d = r._asdict()
        for k in ("data", "tinp", "zinp", "lat", "lon"):
            a = np.array(d[k])
            a.setflags(write=False)
            d[k] = a
        out.append(ContextResult(**d))
    return out


def scribble(lst, dct):
    """Overwrite, in place, every array a collect handed out (what a caller applying manual overrides does)."""
    def junk(a, v):
        try:
            if a is not None and np.ma.asarray(a).size:
                a[...] = v
        except (ValueError, TypeError):
            pass        # read-only or not assignable: nothing was changed
    for cr in lst:
        junk(cr.results, 4)
        for c in ("data", "zinp", "lat", "lon"):
            junk(getattr(cr, c), -999.0)
    for pk in dct.values():
        for tests in pk.values():
            for flags in tests.values():
                junk(flags, 3)


def table_mismatch(ctxs, tab):
    """For a run a real stream yielded over the logical table `tab`: the collected data / depth / position columns must carry
    the TABLE's values on every covered row (not merely whatever the stream put into its ContextResults).  -> description or None."""
    with warnings.catch_warnings():
        warnings.simplefilter("ignore")
        lst = collect_results(list(ctxs), how="list")
    cov = {}
    for r in ctxs:
        m = np.asarray(np.ma.getdata(r.subset_indexes)).reshape(-1).astype(bool)
        for tr in r.results:
            k = f"{r.stream_id}:{tr.package}.{tr.test}"
            cov[k] = m if k not in cov else (cov[k] | m)
    for cr in lst:
        c = cov.get(cr.hash_key)
        if c is None:
            continue
        for attr, col in (("data", tab["cols"].get(cr.stream_id)), ("zinp", tab["axes"].get("z")), ("lat", tab["axes"].get("lat")),
                          ("lon", tab["axes"].get("lon"))):
            arr = getattr(cr, attr)
            if col is None or arr is None or np.ma.asarray(arr).size != len(col):
                continue
            a = np.ma.asarray(arr)
            data, mask = np.ma.getdata(a).reshape(-1), np.ma.getmaskarray(a).reshape(-1)
            for i, want in enumerate(col):
                if not c[i]:
                    continue
                got = None if mask[i] or data[i] != data[i] else float(data[i])
                if (want is None) != (got is None) or (want is not None and float(want) != got):
                    return f"{cr.hash_key}: collected {attr}[{i}] = {got}, the table has {None if want is None else float(want)}"
    return None


def observe(ctxs, intern, present_cols, recollect=False):
    """Collected list and dict forms.  With `recollect`, the arrays of a first collect are overwritten in place and
    the run is collected again: the second collect must still report what the contexts produced."""
    try:
        with warnings.catch_warnings():
            warnings.simplefilter("ignore")
            ctxs = list(ctxs)
            lst = collect_results(iter(ctxs), how="list")      # a run handed over as a generator, consumed once
            dct = collect_results(ctxs, how="dict")
            if recollect:
                scribble(lst, dct)
                lst = collect_results(ctxs, how="list")
                dct = collect_results(ctxs, how="dict")
    except Exception as e:  # noqa: BLE001
        return None, f"{type(e).__name__}: {e}"
    covered = {}
    for r in ctxs:
        m = np.asarray(np.ma.getdata(r.subset_indexes)).reshape(-1).astype(bool)
        for tr in r.results:
            k = f"{r.stream_id}:{tr.package}.{tr.test}"
            covered[k] = m if k not in covered or len(covered[k]) != len(m) else (covered[k] | m)
    ol = []
    for cr in lst:
        cols = {"results": [None if m else int(v) for v, m in zip(np.ma.getdata(cr.results).reshape(-1).tolist(),
                                                                  np.ma.getmaskarray(cr.results).reshape(-1))]}
        for c in COLS:
            if c in present_cols.get(cr.hash_key, ()):
                cols[c] = col_values(getattr(cr, c), intern, covered.get(cr.hash_key))
        ol.append({"key": cr.hash_key, "cols": cols})
    od = []
    for sid, pk in dct.items():
        for pkg, tests in pk.items():
            for tst, flags in tests.items():
                od.append({"key": f"{sid}:{pkg}.{tst}", "flags": [int(v) for v in np.ma.getdata(flags).reshape(-1).tolist()],
                           "masked": bool(np.ma.getmaskarray(flags).any())})
    return {"list": ol, "dict": od}, None


def run(out: Outcome, drv):
    sc.install_probes()
    n_syn = 300 if out.tier == "quick" else 6000
    n_str = 40 if out.tier == "quick" else 800
    out.rule = ("(a) synthetic ContextResult sequences (0..9 rows; 1..4 disjoint windows incl. empty, all-covering, gapped and interleaved; "
                "1..2 streams x 1..3 tests, optionally interleaved with contexts that carry data but no test result; with / without depth and position arrays; writable and read-only input arrays) collected in "
                "list and dict form, in the generated order and in permuted orders (all permutations for <= 4 context results, 6 random "
                "otherwise), every third sequence collected a second time after the arrays of the first collect were overwritten in place; "
                "(b) the same for sequences yielded by real PandasStream / NumpyStream / XarrayStream runs; judged by "
                "IoosQc.C06.columnOk / dictOk and by equality of the outcome across orders; non-trivial = some row uncovered or >= 2 contexts")
    rng = gen.rng_for(out.seed, "C06")
    cases = []
    for _ in range(n_syn):
        n = rng.randint(0, 9)
        ctxs = synth_contexts(rng, n)
        if rng.random() < 0.5:
            ctxs = freeze(ctxs)
        cases.append(("synthetic", n, ctxs, None))
    for _ in range(n_str):
        tab = sc.gen_table(rng, 9, allow_nat=True)
        cx = sc.gen_config(rng, tab, tests=[t for t in sc.usable_tests(tab) if t != "probe"])
        fe = rng.choice(["pandas", "numpy", "xarray"])
        try:
            ctxs = sc.run_frontend(fe, tab, sc.config_dict(cx))
        except Exception:  # noqa: BLE001
            continue      # front-end failures are C05's business
        cases.append((fe, tab["n"], ctxs, {"table": tab, "contexts": cx}))
    reqs, meta = [], []
    for src, n, ctxs, desc in cases:
        if not ctxs:
            continue
        if desc is not None:
            try:
                bad = table_mismatch(ctxs, desc["table"])
            except Exception:  # noqa: BLE001   (a collect that raises is reported below)
                bad = None
            if bad:
                out.violation(f"{WHAT}: run through the {src} front end: {bad}", {"case": jsonable({"source": src, "n": n, "desc": desc}), "observed": bad})
        intern = Intern()
        by_ctx = [wire_contexts([r], intern) for r in ctxs]
        wired = [p for ps in by_ctx for p in ps]
        present = {}
        for w in wired:
            present.setdefault(w["key"], set()).update(w["cols"])
        orders = [list(range(len(ctxs)))]
        if len(ctxs) <= 4:
            orders = [list(p) for p in itertools.permutations(range(len(ctxs)))]
        else:
            for _ in range(6):
                p = list(range(len(ctxs)))
                rng.shuffle(p)
                orders.append(p)
        group = object()
        for order in orders:
            seq = [ctxs[i] for i in order]
            recollect = (len(reqs) % 3 == 2)
            obs, err = observe(seq, intern, present, recollect)
            case = {"source": src, "n": n, "order": order, "contexts": wired, "desc": desc}
            if recollect:
                case["collected_again_after_overwriting_the_first_collect"] = True
            if err is not None:
                out.record(case, True, [f"src:{src}", "error"])
                out.violation(f"{WHAT}: collect_results raised {err}", {"case": jsonable(case), "observed": err})
                break
            reqs.append({"kind": "c06", "n": n, "contexts": [p for i in order for p in by_ctx[i]],
                         "obs_list": obs["list"], "obs_dict": obs["dict"]})
            meta.append((case, obs, group))
    ans = drv.run(reqs)
    first_by_case = {}
    for (case, obs, group), a in zip(meta, ans):
        if not a["in_dom"]:
            out.tags["skipped_not_disjoint_or_malformed"] += 1
            continue
        nontriv = len(case["contexts"]) >= 2
        out.record(case, nontriv, [f"src:{case['source']}", f"pieces:{len(case['contexts'])}"])
        if any(d.get("masked") for d in obs["dict"]):
            out.violation(f"{WHAT}: dict form hides flags behind a mask", {"case": jsonable(case), "observed": jsonable(obs)})
        elif not a["holds"]:
            out.violation(f"{WHAT}: collected results differ from 'value of the covering context at the row's rank' "
                          f"(keys_ok={a['keys_ok']} list_ok={a['list_ok']} dict_ok={a['dict_ok']})",
                          {"case": jsonable(case), "observed": jsonable(obs), "model": a["model"]})
        key = id(group)
        canon = (sorted((o["key"], str(o["cols"])) for o in obs["list"]), sorted((o["key"], str(o["flags"])) for o in obs["dict"]))
        if key in first_by_case and first_by_case[key] != canon:
            out.violation(f"{WHAT}: outcome depends on the order in which the contexts were yielded",
                          {"case": jsonable(case), "observed": jsonable(obs)})
        first_by_case.setdefault(key, canon)
    # complete real runs with several contexts against the one model value IoosQc.systemRun (props/e2e.py)
    e2e.run(out, drv, n=25 if out.tier == "quick" else 400, maxn=9 if out.tier == "quick" else 20, min_ctx=2, tag="e2e")
