"""C05 — running a config through any stream front end equals calling each test directly on the
rows of its window (starting <= t < ending), with time/depth/position restricted alike."""
from __future__ import annotations

import inspect
import json
import warnings
from importlib import import_module

import numpy as np
import pandas as pd

import gen
import streams_common as sc
from props import e2e
import sut
from engine import Outcome, jsonable

WHAT = "IoosQc.C05_refine (front-end mask = specMask; results = direct call on the window rows)"


def direct_call(module, name, kw, rows):
    """What the test function returns when called directly on the window rows."""
    f = getattr(import_module(f"ioos_qc.{module}"), name)
    params = [p.name for p in inspect.signature(f).parameters.values() if p.kind == p.POSITIONAL_OR_KEYWORD]
    args = dict(kw or {})
    for k, v in rows.items():
        if v is not None:
            args[k] = v
    args = {k: v for k, v in args.items() if k in params}
    try:
        with warnings.catch_warnings():
            warnings.simplefilter("ignore")
            with np.errstate(all="ignore"):
                return sut.canon_result(f(**args))
    except Exception:  # noqa: BLE001
        return None


def expected_records(tab, ctxs, masks):
    """One record per (context, stream, test) in the canonical form of canon_ctx_result."""
    recs = []
    t_ns = sc.times_ns(tab)
    for c, mask in zip(ctxs, masks):
        m = np.array(mask, dtype=bool)
        rows_axes = {"tinp": t_ns[m]}
        for a, key in (("z", "zinp"), ("lat", "lat"), ("lon", "lon")):
            rows_axes[key] = sc.fl(tab["axes"][a])[m] if a in tab["axes"] else None
        for sid, tests in c["streams"].items():
            if sid not in tab["cols"]:
                continue
            data = sc.fl(tab["cols"][sid])[m]
            for (_k, module, name, kw) in tests:
                sc.PROBE_LOG.clear()
                res = direct_call(module, name, kw, {"inp": data, **rows_axes})
                canon = lambda a: [] if a is None else ([int(v) for v in a.astype("datetime64[s]").astype("int64")]  # noqa: E731
                                                        if np.issubdtype(a.dtype, np.datetime64)
                                                        else [None if v != v else float(v) for v in a.tolist()])
                recs.append({
                    "stream_id": sid, "mask": [bool(b) for b in mask],
                    "tests": [] if res is None else [{"package": module, "test": name, "flags": res["flags"]}],
                    "data": canon(data), "tinp": canon(rows_axes["tinp"]), "zinp": canon(rows_axes["zinp"]),
                    "lat": canon(rows_axes["lat"]), "lon": canon(rows_axes["lon"]),
                    "probe": list(sc.PROBE_LOG) if name == "_verif_probe" else None,
                })
    return recs


def observed_records(fe, tab, cfg):
    sc.PROBE_LOG.clear()
    out = []
    for r in sc.run_frontend(fe, tab, cfg):
        sc_before = len(sc.PROBE_LOG)
        c = sc.canon_ctx_result(r)
        c["tests"] = [{"package": t["package"], "test": t["test"], "flags": t["flags"]} for t in c["tests"]]
        out.append(c)
    return out, list(sc.PROBE_LOG)


def key(rec):
    r = {k: v for k, v in rec.items() if k != "probe"}
    return json.dumps(r, sort_keys=True)


def run(out: Outcome, drv, frontends=None):
    sc.install_probes()
    frontends = frontends or sc.FRONTENDS
    n = 120 if out.tier == "quick" else 1500
    maxn = 10 if out.tier == "quick" else 40
    out.rule = ("generated tables (0..10 rows quick / 40 thorough, default / shifted / permuted / string row index, with and without "
                "z/lat/lon) and configs (1..3 contexts: closed, half-open, gapped, empty, all-covering, absent windows with bounds on, "
                "just before and just after a row; 1..3 tests per stream incl. neighbour/time/position dependent ones and a probe that "
                "records its arguments) run through every front end, every third config also as ONE Config object run on the table and then on "
                "a second table with an axis dropped; compared as multisets of canonical ContextResult records against "
                "direct calls on the rows selected by IoosQc.specMask; non-trivial = a window that excludes at least one row; "
                "PLUS end-to-end: typed configurations of the real tests (gross, valid, spike, roc, flat line, attenuated(range), density, pressure, "
                "climatology, location, speed) run through every front end and collected (list + dict form), compared with the single model value "
                "IoosQc.systemRun (grouped contexts -> window rows -> Call.run binding -> test MODEL -> collection)")
    rng = gen.rng_for(out.seed, "C05")
    for it in range(n):
        if tab_ok := True:
            run_qcconfig(out, drv, gen.rng_for(out.seed, "C05", "qcconfig", it), maxn)
        tab = sc.gen_table(rng, maxn, allow_nat=True)
        ctxs = sc.gen_config(rng, tab)
        cfg = sc.config_dict(ctxs)
        wins = [[c["window"][0], c["window"][1]] for c in ctxs]
        masks = sc.spec_masks(drv, tab, wins)
        exp = expected_records(tab, ctxs, masks)
        exp_probe = sorted(json.dumps(p, sort_keys=True) for r in exp if r["probe"] for p in r["probe"])
        exp_keys = sorted(key(r) for r in exp)
        if it % 3 == 0 and tab["n"] > 0:
            run_config_reuse(out, drv, rng, tab, ctxs, cfg, frontends[it // 3 % len(frontends)])
        fes = list(frontends)
        if tab["n"] > 0 and (out.tier == "thorough" or it % 2 == 0):
            fes += ["xarray_obs", "netcdf_obs"]
        if tab["n"] > 0 and (out.tier == "thorough" or it % 2 == 1):
            fes += ["pandas_named", "xarray_named", "netcdf_named"]
        if tab["n"] > 0 and (out.tier == "thorough" or it % 5 == 0) and not tab["nat"]:
            # (a NaT cannot be stored in the numeric time variable of the netCDF3 file)
            fes += ["netcdf_file", "xarray_file"]
        for fe in fes:
            case = {"frontend": fe, "table": tab, "contexts": ctxs}
            nontriv = any(not all(m) for m in masks)
            try:
                obs, probe = observed_records(fe, tab, cfg)
                err = None
            except Exception as e:  # noqa: BLE001
                obs, probe, err = [], [], f"{type(e).__name__}: {e}"
            out.record(case, nontriv, [f"fe:{fe}", f"ctx:{len(ctxs)}", f"index:{tab['index_kind']}",
                                       "partial-window" if nontriv else "all-rows"] + (["NaT-rows"] if tab["nat"] else []))
            if err is not None:
                out.violation(f"{WHAT}: {fe} stream raised {err}", {"case": jsonable(case), "observed": err},
                              known_id=classify(fe, tab, ctxs, masks, err))
                continue
            obs_keys = sorted(key(r) for r in obs)
            obs_probe = sorted(json.dumps(p, sort_keys=True) for p in probe)
            if obs_keys != exp_keys or obs_probe != exp_probe:
                diff_o = [json.loads(k) for k in obs_keys if k not in exp_keys][:3]
                diff_e = [json.loads(k) for k in exp_keys if k not in obs_keys][:3]
                out.violation(f"{WHAT}: {fe} stream results differ from direct calls on the window rows",
                              {"case": jsonable(case), "observed_only": diff_o, "expected_only": diff_e,
                               "probe_observed": obs_probe[:3], "probe_expected": exp_probe[:3]},
                              known_id=classify(fe, tab, ctxs, masks, None))
    run_e2e(out, drv)


def run_e2e(out, drv):
    """Complete real runs (Config -> front end -> collect_results) against the one model value IoosQc.systemRun."""
    e2e.run(out, drv, n=40 if out.tier == "quick" else 600, maxn=9 if out.tier == "quick" else 24)


def run_qcconfig(out, drv, rng, maxn):
    """The fifth front end: the single-stream QcConfig.run (dict form, UNKNOWN on uncovered rows)."""
    import warnings

    from ioos_qc.config import QcConfig

    tab = sc.gen_table(rng, maxn, streams=("_stream",), allow_nat=True)
    ctxs = sc.gen_config(rng, tab, tests=[t for t in sc.usable_tests(tab) if t != "probe"])
    cfg = sc.config_dict(ctxs)
    wins = [[c["window"][0], c["window"][1]] for c in ctxs]
    masks = sc.spec_masks(drv, tab, wins)
    exp = expected_records(tab, ctxs, masks)
    want = {}
    for r in exp:
        for t in r["tests"]:
            arr = want.setdefault((t["package"], t["test"]), [2] * tab["n"])
            pos = [i for i, m in enumerate(r["mask"]) if m]
            for i, f in zip(pos, t["flags"]):
                arr[i] = f
    case = {"frontend": "qcconfig", "table": tab, "contexts": ctxs}
    nontriv = any(not all(m) for m in masks)
    out.record(case, nontriv, ["fe:qcconfig", f"ctx:{len(ctxs)}"])
    container = rng.choice(["nan_array", "masked_junk", "list"])
    conv = {"nan_array": sc.fl, "masked_junk": sc.fl_masked, "list": lambda v: [float("nan") if x is None else float(x) for x in v]}[container]
    case["container"] = container
    out.tags[f"qcconfig-container:{container}"] += 1
    kw = {"inp": conv(tab["cols"]["_stream"]), "tinp": sc.times_ns(tab)}
    if "z" in tab["axes"]:
        kw["zinp"] = conv(tab["axes"]["z"])
    if "lat" in tab["axes"]:
        kw["lat"] = conv(tab["axes"]["lat"])
        kw["lon"] = conv(tab["axes"]["lon"])
    try:
        with warnings.catch_warnings():
            warnings.simplefilter("ignore")
            with np.errstate(all="ignore"):
                res = QcConfig(cfg).run(**kw)
    except Exception as e:  # noqa: BLE001
        if want:
            out.violation(f"{WHAT}: QcConfig.run raised {type(e).__name__}: {e}", {"case": jsonable(case)})
        return
    got = {(pkg, tst): [int(v) for v in np.ma.getdata(fl).reshape(-1).tolist()] for pkg, tests in res.items() for tst, fl in tests.items()}
    if got != want:
        out.violation(f"{WHAT}: QcConfig.run results differ from direct calls on the window rows",
                      {"case": jsonable(case), "observed": {f"{k[0]}.{k[1]}": v for k, v in got.items()},
                       "expected": {f"{k[0]}.{k[1]}": v for k, v in want.items()}})


def run_config_reuse(out, drv, rng, tab, ctxs, cfg, fe):
    """ONE Config object run on the table and then on a second table that offers fewer inputs (an axis dropped, other
    values): the second run must be what direct calls on the second table give — nothing remembered from the first."""
    import copy

    from ioos_qc.config import Config

    tab2 = copy.deepcopy(tab)
    dropped = [a for a in list(tab2["axes"]) if rng.random() < 0.6]
    if "lat" in dropped or "lon" in dropped:
        dropped = sorted(set(dropped) | {"lat", "lon"} & set(tab2["axes"]))
    for a in dropped:
        tab2["axes"].pop(a, None)
    for sid, col in tab2["cols"].items():
        tab2["cols"][sid] = [None if v is None else v + 1 for v in col]
    wins = [[c["window"][0], c["window"][1]] for c in ctxs]
    masks = sc.spec_masks(drv, tab2, wins)
    case = {"frontend": fe, "table": tab2, "contexts": ctxs, "same_Config_object_first_run_on": tab, "dropped_axes": dropped}
    try:
        with warnings.catch_warnings():
            warnings.simplefilter("ignore")
            cobj = Config(cfg)
        if len(tab["cols"]) >= 2 and rng.random() < 0.6:
            # ... and before that on a table that LACKS one of the configured streams, through a front end of its own
            # (a stream skips the calls of a column it does not have; the Config object must not remember that)
            tab0 = copy.deepcopy(tab)
            gone = rng.choice(sorted(tab0["cols"]))
            del tab0["cols"][gone]
            fe0 = rng.choice(sc.FRONTENDS)
            case["before_that_run_on_a_table_without_stream"] = {"stream": gone, "frontend": fe0}
            observed_records(fe0, tab0, cobj)
        observed_records(fe, tab, cobj)
        exp = expected_records(tab2, ctxs, masks)
        obs, probe = observed_records(fe, tab2, cobj)
    except Exception as e:  # noqa: BLE001
        out.record(case, True, [f"fe:{fe}", "config-reuse", "error"])
        out.violation(f"{WHAT}: {fe} stream raised {type(e).__name__}: {e} when one Config object was run on a second table",
                      {"case": jsonable(case)})
        return
    # the same STREAM object (and Config object) run twice gives the same records twice
    try:
        r1, r2 = sc.run_frontend(fe, tab, cobj, twice=True)
        k1 = sorted(key(sc.canon_ctx_result(r)) for r in r1)
        k2 = sorted(key(sc.canon_ctx_result(r)) for r in r2)
        if k1 != k2:
            out.violation(f"{WHAT}: running the same {fe} stream object a second time gives different results",
                          {"case": jsonable(dict(case, table=tab)), "first_only": [json.loads(k) for k in k1 if k not in k2][:3],
                           "second_only": [json.loads(k) for k in k2 if k not in k1][:3]})
    except Exception as e:  # noqa: BLE001
        out.violation(f"{WHAT}: {fe} stream raised {type(e).__name__}: {e} when run a second time", {"case": jsonable(case)})
    # the same STREAM object that first ran ANOTHER configuration (the same windows, only the first configured stream): nothing
    # of that run may show in the next one
    try:
        import copy as _copy
        sids = []
        for c in cfg.get("contexts", []):
            for sid in c.get("streams", {}):
                if sid not in sids:
                    sids.append(sid)
        if len(sids) >= 2:
            small = _copy.deepcopy(cfg)
            for c in small["contexts"]:
                c["streams"] = {k: v for k, v in c["streams"].items() if k == sids[0]}
            small["contexts"] = [c for c in small["contexts"] if c["streams"]]
            fresh = sorted(key(sc.canon_ctx_result(r)) for r in sc.run_frontend(fe, tab, cfg))
            reused = sorted(key(sc.canon_ctx_result(r)) for r in sc.run_frontend(fe, tab, cfg, warmup=small))
            if fresh != reused:
                out.violation(f"{WHAT}: a {fe} stream object that first ran another configuration (only stream {sids[0]!r}, same windows) "
                              f"gives different results for this one than a fresh stream object",
                              {"case": jsonable(dict(case, table=tab)), "fresh_only": [json.loads(k) for k in fresh if k not in reused][:3],
                               "reused_only": [json.loads(k) for k in reused if k not in fresh][:3]})
    except Exception as e:  # noqa: BLE001
        out.violation(f"{WHAT}: {fe} stream raised {type(e).__name__}: {e} when its object was re-used for a second configuration",
                      {"case": jsonable(case)})
    out.record(case, True, [f"fe:{fe}", "config-reuse", f"dropped:{len(dropped)}"])
    exp_keys, obs_keys = sorted(key(r) for r in exp), sorted(key(r) for r in obs)
    if exp_keys != obs_keys:
        out.violation(f"{WHAT}: a Config object already run on another table gives, on {fe}, results that differ from direct calls "
                      f"on the window rows of the second table",
                      {"case": jsonable(case), "observed_only": [json.loads(k) for k in obs_keys if k not in exp_keys][:3],
                       "expected_only": [json.loads(k) for k in exp_keys if k not in obs_keys][:3]})


def classify(fe, tab, ctxs, masks, err):
    return None
