"""Correspondence of the array-level transcriptions with the RUNNING code at the level of intermediate arrays: the local variables
`diff` (spike_test), `roc` (rate_of_change_test), `delta` (density_inversion_test) and `speed` (speed_test) of the real functions
— captured at the function's return with sys.setprofile, no source hook — are compared, raw data AND mask, with the arrays the
transcriptions of lean/IoosQc/Model/Np.lean / NpSrc.lean compute at the same place.  The primitive correspondence (np_prims) checks
every numpy operation in isolation; this checks their COMPOSITION in context, including what sits under a mask (e.g. `diff` holds
|x| under the mask next to a missing neighbour).  A function whose body no longer has the local (a refactoring) is skipped."""
from __future__ import annotations

import sys
import warnings
from fractions import Fraction as F

import numpy as np

import gen
import sut
from engine import jsonable
from props.np_prims import canon_ma
from proto import enc

WHAT = "intermediate arrays of the array-level transcriptions (Model/Np, NpSrc) vs the locals of the running functions"
PLAN = {"C09": ["spike"], "C10": ["roc", "speed"], "C13": ["density"]}


def run_with_locals(f, kw):
    code = getattr(f, "__wrapped__", f).__code__
    snap = {}

    def prof(frame, event, _arg):
        if event == "return" and frame.f_code is code:
            snap.update(frame.f_locals)

    sys.setprofile(prof)
    try:
        with warnings.catch_warnings():
            warnings.simplefilter("ignore")
            with np.errstate(all="ignore"):
                f(**kw)
    finally:
        sys.setprofile(None)
    return snap


def pow2_steps(t):
    return all((b - a) > 0 and ((b - a) & (b - a - 1)) == 0 for a, b in zip(t, t[1:]))


def request(case):
    """(wire request, name of the local) or None when the case is outside what is compared exactly."""
    fn = case["fn"]
    if fn == "spike" and case.get("method") in ("average", "differential") and len(case["inp"]) >= 1:
        return {"kind": "np_mid", "what": f"spike.diff.{case['method']}", "inp": enc(case["inp"])}, "diff"
    if fn == "roc" and len(case["inp"]) == len(case["t"]) and len(case["inp"]) >= 1 and pow2_steps(case["t"]):
        return {"kind": "np_mid", "what": "roc.roc", "inp": enc(case["inp"]), "t": [int(x) for x in case["t"]]}, "roc"
    if fn == "density" and len(case["inp"]) == len(case["z"]) and len(case["inp"]) >= 2:
        return {"kind": "np_mid", "what": "density.delta", "inp": enc(case["inp"]), "z": enc(case["z"])}, "delta"
    if fn == "speed" and len(case["lon"]) == len(case["lat"]) == len(case["t"]) and len(case["lon"]) >= 2 and pow2_steps(case["t"]):
        # the quotient distance / dt is exact only for power-of-two steps; the distances themselves are the model's input
        return {"kind": "np_mid", "what": "speed.speed", "inp": [], "hops": enc(case["hops"]), "t": [int(x) for x in case["t"]],
                "n": len(case["lon"])}, "speed"
    return None


def run(out, drv, prop, n=150):
    for fn in PLAN.get(prop, []):
        rng = gen.rng_for(out.seed, "NPMID", fn)
        reqs, meta = [], []
        tries = 0
        while len(reqs) < n and tries < 6 * n:
            tries += 1
            case = gen.GENERATORS[fn](rng, 9)
            if case.get("decimal_f32"):
                continue
            rq = request(case)
            if rq is None:
                continue
            carrier = rng.choice(["nd_f8", "list_none", "ma_junk", "ma_nan"])
            try:
                f, kw = sut.build_call(case, carrier, "dt64ns", "list")
                snap = run_with_locals(f, kw)
            except Exception:  # noqa: BLE001  (rejected parameters etc.: the functional run judges those)
                continue
            if rq[1] not in snap or not isinstance(snap[rq[1]], np.ndarray):
                out.tags[f"npmid:{fn}:local-not-found"] += 1
                continue
            reqs.append(rq[0])
            meta.append((case, carrier, rq[1], canon_ma(snap[rq[1]])))
        for (case, carrier, name, want), a in zip(meta, drv.run(reqs)):
            out.tags[f"npmid:{fn}"] += 1
            if a["out"] != want:
                out.corr_break(f"{WHAT}: local `{name}` of {fn} differs — running code {want} vs transcription {a['out']}",
                               {"case": jsonable(case), "carrier": carrier, "local": name, "python": want, "model": a["out"]})
