from __future__ import annotations

import json

from props import functional_props

FUNCTIONAL = set(functional_props.PLAN)
OTHERS = {"C04", "C01", "C02", "C20", "C05", "C16", "C17", "C15", "C06", "C19", "C07", "C18"}
ALL = FUNCTIONAL | OTHERS


def run(prop, out, drv):
    if prop in FUNCTIONAL:
        return functional_props.run(out, drv, prop)
    if prop == "C04":
        from props import c04
        return c04.run(out, drv)
    if prop == "C01":
        from props import c01
        return c01.run(out, drv)
    if prop == "C02":
        from props import c02
        return c02.run(out, drv)
    if prop == "C20":
        from props import c20
        return c20.run(out, drv)
    if prop == "C05":
        from props import c05
        return c05.run(out, drv)
    if prop == "C16":
        from props import c16
        return c16.run(out, drv)
    if prop == "C17":
        from props import c17
        return c17.run(out, drv)
    if prop == "C15":
        from props import c15
        return c15.run(out, drv)
    if prop == "C06":
        from props import c06
        return c06.run(out, drv)
    if prop == "C19":
        from props import c19
        return c19.run(out, drv)
    if prop == "C07":
        from props import c07
        return c07.run(out, drv)
    if prop == "C18":
        from props import c18
        return c18.run(out, drv)
    raise SystemExit(f"unknown property {prop}")


def _unjson(x):
    """Fractions were written as 'n/d' or 'n' strings by engine.jsonable."""
    import re
    from fractions import Fraction as F

    if isinstance(x, str) and re.fullmatch(r"-?\d+(/\d+)?", x):
        return F(x)
    if isinstance(x, list):
        return [_unjson(v) for v in x]
    if isinstance(x, dict):
        return {k: (v if k in ("fn", "method", "check_type", "period", "tkind") else _unjson(v)) for k, v in x.items()}
    return x


def replay(prop, path, drv):
    """Re-run a stored violation against the current tree."""
    import functional as fx

    data = json.load(open(path))
    print(f"replay of {path}: {data.get('what', data.get('no_longer_checks', ''))[:400]}")
    case = data.get("case")
    if isinstance(case, dict) and "fn" in case and "carriers" in data:
        c = _unjson(case)
        c["fn"] = case["fn"]
        (obs, ans), = fx.evaluate(drv, [(c, *data["carriers"])], want_spec=True)
        print("observed now :", obs)
        print("model        :", ans.get("model"))
        print("spec         :", ans.get("spec"))
        print("verdicts     :", {k: ans[k] for k in ("in_dom", "spec_ok", "c01_ok", "c02_ok", "model_eq") if k in ans})
        bad = ans["in_dom"] and not (ans["spec_ok"] and ans["c02_ok"] and (ans["c01_ok"] or not ans["valid_params"]))
        print("still failing" if bad else "no longer failing")
        return 1 if bad else 0
    print(json.dumps(data, indent=1)[:6000])
    print("(structured replay is available for single-call cases; for this case re-run the check with the recorded seed)")
    return 0
