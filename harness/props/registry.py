from __future__ import annotations

import json

from props import functional_props

FUNCTIONAL = set(functional_props.PLAN)
OTHERS = {"C04", "C01", "C02", "C20", "C05", "C16", "C17", "C15"}
ALL = FUNCTIONAL | OTHERS


def run(prop, out, drv):
    if prop in FUNCTIONAL:
        return functional_props.run(out, drv, prop)
    if prop == "C04":
        from props import c04
        return c04.run(out, drv)
    if prop == "C01":
        from props import c01
        return c01.run(out, drv)
    if prop == "C02":
        from props import c02
        return c02.run(out, drv)
    if prop == "C20":
        from props import c20
        return c20.run(out, drv)
    if prop == "C05":
        from props import c05
        return c05.run(out, drv)
    if prop == "C16":
        from props import c16
        return c16.run(out, drv)
    if prop == "C17":
        from props import c17
        return c17.run(out, drv)
    if prop == "C15":
        from props import c15
        return c15.run(out, drv)
    raise SystemExit(f"unknown property {prop}")


def replay(prop, path, drv):
    import functional as fx
    import sut
    from fractions import Fraction as F

    data = json.load(open(path))
    print(json.dumps(data, indent=1)[:4000])
    return 0
