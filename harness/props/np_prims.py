"""Correspondence of the array-level numpy model (lean/IoosQc/Model/Np.lean) with the installed numpy: every primitive the
array-level transcriptions of the QC tests are written in is run on the same random cells (raw data AND mask bit) in numpy
and in Lean; data (NaN-aware) and mask are compared exactly.  A disagreement means the model of numpy.ma no longer describes
the numpy the code runs on — reported as a broken correspondence of the properties whose theorems go through that model
(C03, C09, C10, C13, C14)."""
from __future__ import annotations

from fractions import Fraction as F

import numpy as np

import gen
from engine import jsonable
from proto import enc

WHAT = "IoosQc.Np primitives (Model/Np: numpy.ma data-under-mask semantics) vs the installed numpy"


_RW = []


def rolling_window_fn():
    """`rolling_window` as /repo's flat_line_test defines it now (a nested function: compiled from the source text)."""
    if not _RW:
        import ast
        import os
        from pathlib import Path
        _RW.append(None)
        try:
            tree = ast.parse((Path(os.environ.get("VERIF_REPO", "/repo")) / "ioos_qc/qartod.py").read_text())
            fl = next(n for n in tree.body if isinstance(n, ast.FunctionDef) and n.name == "flat_line_test")
            rw = next(n for n in fl.body if isinstance(n, ast.FunctionDef) and n.name == "rolling_window")
            ns = {"np": np}
            exec(compile(ast.Module(body=[rw], type_ignores=[]), "<rolling_window>", "exec"), ns)  # noqa: S102
            _RW[0] = ns["rolling_window"]
        except Exception:  # noqa: BLE001
            # the helper is no longer a nested function of that name (a refactoring): the primitive `rollingWindow` is then not
            # compared (exactly when the translated pin of flat_line_test is "unavailable"); nothing is claimed, nothing alarmed
            pass
    return _RW[0]


def rand_cells(rng, n, p_nan=0.2, p_mask=0.3):
    """[(data Fraction|None(=NaN), mask bool)]: masked cells hold NaN or a finite number, unmasked cells may hold NaN."""
    out = []
    for _ in range(n):
        d = None if rng.random() < p_nan else F(rng.randint(-12, 12), rng.choice([1, 1, 2, 4]))
        out.append((d, rng.random() < p_mask))
    return out


def to_ma(cells):
    return np.ma.array([np.nan if d is None else float(d) for d, _ in cells], mask=[m for _, m in cells], dtype="float64")


def wire_cells(cells):
    return [[enc(d), bool(m)] for d, m in cells]


def canon_ma(a):
    data = np.asarray(np.ma.getdata(a), dtype="float64").reshape(-1)
    mask = np.ma.getmaskarray(a).reshape(-1)
    return [[None if v != v else enc(F(float(v))), bool(m)] for v, m in zip(data.tolist(), mask.tolist())]


def canon_b(a):
    return [[bool(v), bool(m)] for v, m in zip(np.asarray(np.ma.getdata(a)).reshape(-1).tolist(), np.ma.getmaskarray(a).reshape(-1).tolist())]


def to_b(bc):
    return np.ma.array([d for d, _ in bc], mask=[m for _, m in bc], dtype=bool)


def one(rng):
    """(request, numpy result in canonical form) for one random primitive application."""
    n = rng.choice([0, 1, 2, 3, 5, 8])
    a, b = rand_cells(rng, n), rand_cells(rng, n)
    A, B = to_ma(a), to_ma(b)
    r = F(rng.randint(-6, 6), rng.choice([1, 2]))
    op = rng.choice(["add", "sub", "mul", "divS", "divArr", "abs", "minimum", "diff", "masked_invalid", "set_inner_zeros", "set_tail_zeros",
                     "gt", "lt", "ge", "or", "set_where_b", "set_where", "set_zero_where_b", "set_first_last", "of_input",
                     "sign", "le", "eq_true", "any", "view_init_set", "view_tail_set", "view_tail_set_bools", "set_at0", "mask_or",
                     "mask_and_xor", "filled", "of_input_junk", "pdiff", "mean_sign", "mul_s", "where_le_plus1", "set_idx", "great_circle", "rolling", "where_eq", "empty_fill", "and_mb", "and_pb", "not_b", "none_unmasked", "z_idx_nodepth"])
    req = {"kind": "np", "op": op, "a": wire_cells(a), "b": wire_cells(b), "r": enc(r)}
    with np.errstate(all="ignore"):
        if op == "add":
            return req, canon_ma(A + B)
        if op == "sub":
            return req, canon_ma(A - B)
        if op == "mul":
            return req, canon_ma(A * B)
        if op == "divS":
            r = F(rng.choice([2, -2, 4, 1, F(1, 2), 8]))       # powers of two: the float64 quotient is exact
            req["r"] = enc(r)
            return req, canon_ma(A / float(r))
        if op == "divArr":
            d = [F(rng.choice([1, 2, 4, 64, 4096])) for _ in range(n)]     # powers of two: exact quotients
            req["d"] = enc(d)
            return req, canon_ma(A / np.array([float(x) for x in d]))
        if op == "abs":
            return req, canon_ma(np.abs(A))
        if op == "minimum":
            return req, canon_ma(np.minimum(A, B))
        if op == "diff":
            want = np.ma.diff(A) if rng.random() < 0.5 else np.diff(A)
            return req, canon_ma(want) if n else []
        if op == "masked_invalid":
            return req, canon_ma(np.ma.masked_invalid(A))
        if op == "set_inner_zeros":
            z = np.ma.zeros(n + 2, dtype=np.float64)
            z[1:-1] = A
            return req, canon_ma(z)
        if op == "set_tail_zeros":
            z = np.ma.zeros(n + 1, dtype="float")
            z[1:] = A
            return req, canon_ma(z)
        if op in ("gt", "lt", "ge", "le"):
            res = {"gt": A > float(r), "lt": A < float(r), "ge": A >= float(r), "le": A <= float(r)}[op]
            return req, canon_b(res)
        if op == "none_unmasked":
            from ioos_qc.utils import isnan as q_isnan
            Z = np.ma.masked_invalid(A)
            req["a"] = [[d, bool(m) or d is None] for d, m in req["a"]]          # as the function sees it: NaN cells are masked
            return req, bool(not Z.count() or q_isnan(Z.any()))
        if op == "z_idx_nodepth":
            return req, canon_b(np.ma.array(data=~np.isnan(A.data), mask=np.ma.getmaskarray(A), fill_value=999999)) if n else []
        if op == "sign":
            return req, canon_ma(np.sign(A))
        if op == "mask_or":
            return req, [bool(x) for x in (np.ma.getmaskarray(A) | np.ma.getmaskarray(B)).tolist()]
        if op == "mask_and_xor":
            ma, mb = np.ma.getmaskarray(A), np.ma.getmaskarray(B)
            return req, [[bool(x) for x in (ma & mb).tolist()], [bool(x) for x in (ma != mb).tolist()]]
        if op in ("pdiff", "mean_sign", "mul_s", "where_le_plus1"):
            P = np.asarray(np.ma.getdata(A), dtype="float64")            # a PLAIN array: the raw data, NaN included
            if op == "pdiff":
                return req, [None if v != v else enc(F(float(v))) for v in np.diff(P).tolist()]
            if op == "mean_sign":
                import warnings
                with warnings.catch_warnings():
                    warnings.simplefilter("ignore")
                    v = float(np.sign(np.mean(P)))                       # dyadic data: the sum is exact, so the sign is
                return req, None if v != v else enc(F(v))
            if op == "mul_s":
                sc = rng.choice([-1.0, 1.0, 0.0, float("nan")])
                req["s"] = None if sc != sc else enc(F(sc))
                return req, [None if v != v else enc(F(float(v))) for v in (np.float64(sc) * P).tolist()]
            return req, [int(i) for i in (np.where(P <= float(r))[0] + 1).tolist()]
        if op in ("filled", "of_input_junk"):
            v = [None if rng.random() < 0.3 else F(rng.randint(-9, 9), rng.choice([1, 2])) for _ in range(n)]
            req["v"] = enc(v)
            carrier = rng.choice(["none_list", "nan_array", "masked_junk"])
            junk = [None] * n
            if carrier == "none_list":
                inp = np.array([np.nan if x is None else float(x) for x in v], dtype="float64") if op == "of_input_junk" else [None if x is None else float(x) for x in v]
            elif carrier == "nan_array":
                inp = np.array([np.nan if x is None else float(x) for x in v], dtype="float64")
            else:
                junk = [None if x is not None else F(rng.randint(-40, 40), 4) for x in v]
                inp = np.ma.array([float(j) if x is None else float(x) for x, j in zip(v, junk)], mask=[x is None for x in v], dtype="float64")
            if op == "filled":
                got = np.ma.filled(np.ma.masked_invalid(np.ma.array(inp).astype(np.float64)), np.nan)
                return req, [None if x != x else enc(F(float(x))) for x in np.asarray(got, dtype="float64").reshape(-1).tolist()]
            req["junk"] = enc(junk)
            return req, canon_ma(np.ma.masked_invalid(np.ma.array(inp, dtype=np.float64))) if n else []
        if op == "rolling":
            # the nested helper `rolling_window` of flat_line_test, compiled from /repo's CURRENT source, and the statements of
            # `run_test` around it: row minima / maxima of the strided window, `np.ma.filled(… < tolerance, False)`, `np.insert`
            w = rng.randint(0, n + 1)
            req["w"] = w
            rw = rolling_window_fn()
            if rw is None:
                req["op"] = "abs"
                return req, canon_ma(np.abs(A))
            win = rw(A, w)
            mn, mx = np.min(win, 1), np.max(win, 1)
            tr = np.ma.filled(np.abs(mx - mn) < float(r), fill_value=False)
            tr = np.insert(tr, 0, np.full((min(len(A), w),), False))
            hide = lambda c: [[None, True] if m else [d, m] for d, m in c]  # noqa: E731  (the datum under a masked minimum is unspecified)
            return req, [hide(canon_ma(mn)) if len(mn) else [], hide(canon_ma(mx)) if len(mx) else [], [bool(x) for x in np.asarray(tr).tolist()]]
        if op == "where_eq":
            # `np.where(v == p)[0]` for a vector of flags / non-flag numbers / masked entries (a flag value under the mask)
            cells = [rng.choice([1, 2, 3, 4, 9, 0, 7, 257, None]) for _ in range(n)]
            p_ = rng.choice([1, 2, 3, 4, 9])
            req["vec"], req["p"] = cells, p_
            if any(c is None for c in cells) or rng.random() < 0.5:
                v = np.ma.array([p_ if c is None else c for c in cells], mask=[c is None for c in cells], dtype="int64")
            else:
                v = np.array(cells, dtype="int64")
            return req, [int(i) for i in np.where(v == p_)[0].tolist()]
        if op == "empty_fill":
            shapes = [n] * rng.randint(0, 3)
            req["shapes"] = shapes
            try:
                res = np.ma.empty(shapes[0])
            except IndexError:
                return req, "IndexError"
            res.fill(9)
            return req, [int(x) for x in res.astype("uint8").tolist()]
        if op == "great_circle":
            from ioos_qc.utils import great_circle_distance
            n1 = max(n, 2)          # a single position is never handed to great_circle_distance (np.vectorize rejects size-0 inputs)
            lat = [None if rng.random() < 0.25 else F(rng.randint(-60, 60), 2) for _ in range(n1)]
            lon = [None if rng.random() < 0.25 else F(rng.randint(-170, 170), 2) for _ in range(n1)]
            norm = lambda xs: np.ma.masked_invalid(np.ma.array([None if x is None else float(x) for x in xs]).astype(np.float64).filled(np.nan))  # noqa: E731
            import warnings
            with warnings.catch_warnings():
                warnings.simplefilter("ignore")
                d = great_circle_distance(norm(lat), norm(lon))
            dd = np.asarray(np.ma.getdata(d), dtype="float64")
            hops = [None if dd[i + 1] != dd[i + 1] else F(float(dd[i + 1])) for i in range(n1 - 1)]
            req["hops"], req["n"] = enc(hops), n1
            return req, canon_ma(d)
        c1 = [(rng.random() < 0.5, rng.random() < 0.3) for _ in range(n)]
        c2 = [(rng.random() < 0.5, rng.random() < 0.3) for _ in range(n)]
        flags = [rng.choice([1, 2, 3, 4, 9]) for _ in range(n)]
        req.update({"c1": [[bool(d), bool(m)] for d, m in c1], "c2": [[bool(d), bool(m)] for d, m in c2], "flags": flags})
        if op == "or":
            return req, canon_b(to_b(c1) | to_b(c2))
        if op == "and_mb":
            return req, canon_b(to_b(c1) & to_b(c2)) if n else []
        if op == "and_pb":
            return req, canon_b(np.array([d for d, _ in c1], dtype=bool) & to_b(c2)) if n else []
        if op == "not_b":
            return req, canon_b(~to_b(c1)) if n else []
        if op == "eq_true":
            return req, canon_b(to_b(c1) == True) if n else []  # noqa: E712
        if op == "any":
            return req, bool(any(to_b(c1)))
        if op in ("view_init_set", "view_tail_set", "view_tail_set_bools"):
            flags1 = flags + [rng.choice([1, 2, 3, 4, 9])]
            req["flags1"] = flags1
            f = 1 * np.ma.array(flags1, dtype="uint8")
            if op == "view_init_set":
                f[:-1][to_b(c1) == True] = 4  # noqa: E712
                req["c1"] = canon_b(to_b(c1) == True) if n else []  # noqa: E712
            elif op == "view_tail_set":
                f[1:][to_b(c1) == True] = 4  # noqa: E712
                req["c1"] = canon_b(to_b(c1) == True) if n else []  # noqa: E712
            else:
                f[1:][np.ma.getmaskarray(A)] = 9
            return req, [int(v) for v in np.ma.getdata(f).tolist()]
        if op == "set_at0":
            f = 1 * np.ma.array(flags, dtype="uint8")
            try:
                f[0] = 2
            except IndexError:
                return req, "IndexError"
            return req, [int(v) for v in np.ma.getdata(f).tolist()]
        if op == "set_idx":
            idx = sorted({rng.randrange(n) for _ in range(rng.randint(0, n))}) if n else []
            req["idx"] = idx
            f = np.array(flags, dtype="uint8")
            f[np.array(idx, dtype=int)] = 3
            return req, [int(v) for v in f.tolist()]
        if op == "set_where_b":
            f = np.ma.array(flags, dtype="uint8")
            if n:
                f[to_b(c1)] = 4
            return req, [int(v) for v in np.ma.getdata(f).tolist()]
        if op == "set_where":
            f = np.ma.array(flags, dtype="uint8")
            if n:
                f[A.mask] = 9
            return req, [int(v) for v in np.ma.getdata(f).tolist()]
        if op == "set_zero_where_b":
            # a write through a view of a masked array, as in `diff[1:-1][cond] = 0`
            z = np.ma.zeros(n + 2, dtype=np.float64)
            z[1:-1] = A
            if n:
                z[1:-1][to_b(c1)] = 0
            return req, canon_ma(z[1:-1])
        if op == "set_first_last":
            f = np.ma.array(flags, dtype="uint8")
            f[:1] = 2
            f[-1:] = 2
            return req, [int(v) for v in np.ma.getdata(f).tolist()]
        if op == "of_input":
            v = [None if rng.random() < 0.3 else F(rng.randint(-9, 9), rng.choice([1, 2])) for _ in range(n)]
            req["v"] = enc(v)
            carrier = rng.choice(["none_list", "nan_array", "masked_junk"])
            if carrier == "none_list":
                inp = [None if x is None else float(x) for x in v]
            elif carrier == "nan_array":
                inp = np.array([np.nan if x is None else float(x) for x in v], dtype="float64")
            else:
                inp = np.ma.array([7.25 if x is None else float(x) for x in v], mask=[x is None for x in v], dtype="float64")
            return req, canon_ma(np.ma.masked_invalid(np.ma.array(inp).astype(np.float64).filled(np.nan))) if n else []
    raise ValueError(op)


def run(out, drv, n=400):
    rng = gen.rng_for(out.seed, "NP", out.prop)
    reqs, want = [], []
    for _ in range(n):
        try:
            rq, w = one(rng)
        except Exception as e:  # noqa: BLE001
            out.corr_break(f"{WHAT}: numpy raised {type(e).__name__}: {e} on a primitive the model defines", {"case": {}})
            continue
        reqs.append(rq)
        want.append(w)
    for rq, w, a in zip(reqs, want, drv.run(reqs)):
        out.tags[f"np:{rq['op']}"] += 1
        if a["out"] != w:
            out.corr_break(f"{WHAT}: `{rq['op']}` differs — numpy {w} vs model {a['out']}",
                           {"case": jsonable({k: v for k, v in rq.items() if k != 'kind'}), "numpy": w, "model": a["out"]})
