"""C04 — aggregation.  Real calls: qartod.qartod_compare, qartod.aggregate, PandasStore.compute_aggregate."""
from __future__ import annotations

import itertools

import numpy as np

import gen
import sut
from engine import Outcome, jsonable
from ioos_qc import qartod
from ioos_qc.results import CollectedResult
from ioos_qc.stores import PandasStore

ALPHA = [1, 2, 3, 4, 9, 0, None]     # flags, a non-flag value, masked
WHAT = "IoosQc.C04_main (C04.holds = conforms (worst flag per position))"


PACKAGES = ["qartod", "axds", "argo", "my_module"]


def collected(vs, style):
    """The vectors as collected results of tests from several packages and streams (the roll-up is over ALL of them)."""
    return [CollectedResult(stream_id=["s", "t"][(i + style) % 2], package=PACKAGES[(i * 3 + style) % 4 if style % 2 else 0],
                            test=f"t{i}", function=None, results=v) for i, v in enumerate(vs)]


def wire_vec(cells):
    """A number that is not one of the five codes is `junk` in the model whatever it is: fractional values go over the wire as one."""
    return [c if c is None or isinstance(c, int) else 1000003 for c in cells]


def mk_vector(cells, style):
    """cells: ints or None (masked); or, with fractional non-flag values, floats (a float64 vector)."""
    has_mask = any(c is None for c in cells)
    if any(isinstance(c, float) for c in cells):
        data = np.array([4.0 if c is None else float(c) for c in cells], dtype="float64")
        return np.ma.array(data, mask=[c is None for c in cells]) if has_mask or style % 2 else data
    if not has_mask and style % 3 == 0:
        return np.array(cells, dtype="uint8" if all(0 <= c < 256 for c in cells) else "int64")
    if not has_mask and style % 3 == 1:
        return np.ma.array(cells, dtype="int64")
    if style % 3 == 0:
        # masked_all: uninitialised memory under the mask
        v = np.ma.masked_all(len(cells), dtype="uint8" if all(c is None or 0 <= c < 256 for c in cells) else "int64")
        for i, c in enumerate(cells):
            if c is not None:
                v[i] = c
        return v
    # explicit junk (a flag value!) under the mask
    data = np.array([4 if c is None else c for c in cells], dtype="int64")
    if style % 3 == 1:
        return np.ma.array(data, mask=[c is None for c in cells])
    # ... and a flag as the array's fill_value (what a collector that pre-fills with UNKNOWN would hand over)
    return np.ma.array(data, mask=[c is None for c in cells], fill_value=(2, 4, 3, 1)[(style // 3) % 4])


def observe(vectors, style, via):
    try:
        vs = [mk_vector(v, style + i) for i, v in enumerate(vectors)]
        before = [(np.ma.getdata(v).tobytes(), np.ma.getmaskarray(v).tobytes()) for v in vs]
        r = None
        if via == "compare":
            r = qartod.qartod_compare(vs)
        elif via == "aggregate":
            crs = collected(vs, style)
            r = qartod.aggregate(crs)
        else:
            st = PandasStore([])
            st.collected_results = collected(vs, style)
            st.compute_aggregate()
            r = st.collected_results[-1].results
        o = sut.canon_result(r)
        after = [(np.ma.getdata(v).tobytes(), np.ma.getmaskarray(v).tobytes()) for v in vs]
        changed = [i for i, (b, a) in enumerate(zip(before, after)) if a != b]
        if changed:
            o["inputs_modified"] = changed
        return o
    except Exception as e:  # noqa: BLE001
        return sut.err_obs(e)


def run(out: Outcome, drv):
    out.rule = ("all columns of height <= 3 over the 7-symbol cell alphabet {1,2,3,4,9,non-flag,masked} (exhaustive, packed into "
                "vectors), random k<=6 vectors of length <=30, masked cells built with masked_all, with flag-valued junk "
                "under the mask and with a flag as fill_value, every case also permuted / duplicated / regrouped on the real qartod_compare, and run through "
                "aggregate() and PandasStore.compute_aggregate() as collected results of tests from several packages (qartod, axds, argo, a user module) and streams, input vectors compared byte for byte before / after the call; non-trivial = result has >= 2 distinct flags")
    # the numpy primitives the translated `qartod_compare` (Model/NpAgg, C04_src_compare) is written in, against the installed numpy
    from props import np_prims
    np_prims.run(out, drv, 300 if out.tier == "quick" else 4000)
    cases = []
    # exhaustive columns of height 1..3
    for h in (1, 2, 3):
        cols = list(itertools.product(ALPHA, repeat=h))
        vectors = [[c[r] for c in cols] for r in range(h)]
        cases.append((vectors, h, "compare"))
        cases.append((vectors, h + 1, "aggregate"))
        cases.append((vectors, h, "store"))
    out.exhaustive = False
    rng = gen.rng_for(out.seed, "C04")
    n = 1200 if out.tier == "quick" else 30000
    for _ in range(n):
        k = rng.randint(1, 6)
        ln = rng.choice([0, 1, 2, 5, 12, 30])
        w = rng.choice([[1, 1, 1, 1, 2, 3, 4, 9, 0, None], [1, 2, 3, 4, 9, 7, None, None], [9, 2, None, 0],
                        # non-flag values a narrowing cast would turn into flags: fractional floats, integers = a flag mod 256
                        [1, 1, 2.5, 3.9, 4.5, 1.5, 9.25, None], [1, 2, 257, 260, 265, -252, 258, 3, None], [1, 9, 2.5, 1e3, -3.0]])
        vectors = [[rng.choice(w) for _ in range(ln)] for _ in range(k)]
        cases.append((vectors, rng.randint(0, 11), rng.choice(["compare", "compare", "aggregate", "store"])))
    obs = [observe(v, s, via) for v, s, via in cases]
    ans = drv.run([{"kind": "agg", "vectors": [wire_vec(x) for x in v], "obs": sut.wire_obs(o)} for (v, s, via), o in zip(cases, obs)])
    for (v, s, via), o, a in zip(cases, obs, ans):
        case = {"vectors": v, "style": s, "via": via}
        out.record(case, "flags" in o and len(set(o["flags"])) >= 2, [f"via:{via}", f"k:{len(v)}"])
        if o.get("inputs_modified"):
            out.violation(f"{WHAT}: the aggregation wrote into its input vector(s) {o['inputs_modified']} — aggregating any other "
                          "grouping of the same arrays afterwards (C04_assoc / C04_perm) no longer reports their flags",
                          {"case": jsonable(case), "observed": o})
        if not a["holds"] or o.get("masked"):
            out.violation(f"{WHAT}: observed {o} vs worst-flag spec {a['spec']}",
                          {"case": jsonable(case), "observed": o, "model": a["model"], "spec": a["spec"]})
    # relational part on the real code: permutation, duplication, grouping
    m = 300 if out.tier == "quick" else 5000
    for _ in range(m):
        k = rng.randint(2, 5)
        ln = rng.randint(1, 10)
        vectors = [[rng.choice([1, 2, 3, 4, 9, 0, None]) for _ in range(ln)] for _ in range(k)]
        base = observe(vectors, 0, "compare")
        perm = vectors[:]
        rng.shuffle(perm)
        o_perm = observe(perm, 1, "compare")
        o_dup = observe(vectors + [rng.choice(vectors)], 2, "compare")
        cut = rng.randint(1, k - 1)
        left = observe(vectors[:cut], 0, "compare")
        o_grp = observe([left["flags"]] + vectors[cut:], 0, "compare") if "flags" in left else {"error": "Exception"}
        case = {"vectors": vectors, "perm": perm, "cut": cut}
        out.record(case, "flags" in base and len(set(base["flags"])) >= 2, ["relational"])
        for name, o in (("permutation (C04_perm)", o_perm), ("duplication (C04_dup)", o_dup), ("grouping (C04_assoc)", o_grp)):
            if o.get("flags") != base.get("flags") or "error" in o:
                out.violation(f"{WHAT}: aggregate changed under {name}: {base} vs {o}",
                              {"case": jsonable(case), "observed": o, "base": base})
