"""C20 — limit expressions: correct arithmetic, history independence, validator, creator."""
from __future__ import annotations

import os
import shutil
import tempfile
from fractions import Fraction as F

import numpy as np

import gen
import sut  # noqa: F401  (sets sys.path to /repo)
from engine import Outcome, jsonable
from proto import enc

from ioos_qc.config_creator import fx_parser
from ioos_qc.config_creator.config_creator import CreatorConfig, QcConfigCreator, QcVariableConfig

WHAT_EVAL = "IoosQc.C20_main / C20_eval_history (C20.holdsEval)"
WHAT_VALID = "IoosQc.C20 validator (C20.holdsValid = accepted iff validFx)"
STATS = ["min", "max", "mean", "std"]
OPS = ["+", "-", "*", "/"]


def dyadic_ok(v: F) -> bool:
    d = v.denominator
    return (d & (d - 1)) == 0 and d <= 2**20 and abs(v.numerator) < 2**45


def gen_expr(rng, depth, stats):
    """Random expression tree whose exact evaluation stays on the float-exact lattice.
    Returns (tree, value or None for a division by zero)."""
    for _ in range(200):
        t = _gen(rng, depth)
        ok, v = _eval(t, stats)
        if ok:
            return t, v
    return {"num": F(1)}, F(1)


def _gen(rng, depth):
    r = rng.random()
    if depth == 0 or r < 0.25:
        if rng.random() < 0.4:
            return {"stat": rng.choice(STATS)}
        return {"num": rng.choice([F(0), F(1), F(2), F(3), F(4), F(8), F(10), F(1, 2), F(1, 4), F(5, 2), F(25, 100), F(7)])}
    if r < 0.4:
        return {"neg": _gen(rng, depth - 1)}
    return {"op": rng.choice(OPS), "a": _gen(rng, depth - 1), "b": _gen(rng, depth - 1)}


def _eval(t, stats):
    """(exact?, value|None): exact? False when an intermediate leaves the float-exact lattice."""
    if "num" in t:
        return True, t["num"]
    if "stat" in t:
        return True, stats[t["stat"]]
    if "neg" in t:
        ok, v = _eval(t["neg"], stats)
        return ok, (None if v is None else -v)
    oka, a = _eval(t["a"], stats)
    okb, b = _eval(t["b"], stats)
    if not (oka and okb):
        return False, None
    if a is None or b is None:
        return True, None            # error propagates (division by zero below)
    o = t["op"]
    if o == "/":
        if b == 0:
            return True, None
        v = a / b
    else:
        v = {"+": a + b, "-": a - b, "*": a * b}[o]
    return dyadic_ok(v), v


def num_str(rng, q: F) -> str:
    assert q >= 0
    if q.denominator == 1:
        return rng.choice([str(q.numerator), f"{q.numerator}.0", f"{q.numerator}.", f"{q.numerator}e0"]) if rng.random() < 0.4 else str(q.numerator)
    # exact decimal expansion of a dyadic
    s = f"{float(q):.20f}".rstrip("0")
    assert F(s) == q
    if rng.random() < 0.15:
        k = len(s.split(".")[1])
        return f"{int(q * 10**k)}e-{k}"
    return s


PREC = {"+": 1, "-": 1, "*": 2, "/": 2}


def render(rng, t, parent_prec=0, right=False):
    sp = lambda: rng.choice([" ", " ", "", "  "])  # noqa: E731
    if "num" in t:
        s = num_str(rng, t["num"])
    elif "stat" in t:
        s = t["stat"]
    elif "neg" in t:
        # stacked signs without parentheses ("- - mean", "--3") are part of the grammar
        stacked = "neg" in t["neg"] and rng.random() < 0.6
        inner = render(rng, t["neg"], 0 if stacked else 3)
        # "- x": a space keeps "--" readable; the grammar takes any number of leading signs
        s = "-" + rng.choice(["", " "]) + inner
        if parent_prec >= 3:
            s = "(" + sp() + s + sp() + ")"
        return s
    else:
        p = PREC[t["op"]]
        a = render(rng, t["a"], p, False)
        b = render(rng, t["b"], p, True)
        s = a + sp() + t["op"] + sp() + b
        need = p < parent_prec or (p == parent_prec and right) or parent_prec >= 3
        if need:
            s = "(" + sp() + s + sp() + ")"
        return s
    if rng.random() < 0.12:
        s = "(" + sp() + s + sp() + ")"
    return s


def wire_expr(t):
    if "num" in t:
        return {"num": enc(t["num"])}
    if "stat" in t:
        return {"stat": t["stat"]}
    if "neg" in t:
        return {"neg": wire_expr(t["neg"])}
    return {"op": t["op"], "a": wire_expr(t["a"]), "b": wire_expr(t["b"])}


def call_eval(fx, stats):
    try:
        v = fx_parser.eval_fx(fx, {k: float(v) for k, v in stats.items()})
        fv = float(v)
        if fv != fv or fv in (float("inf"), float("-inf")):
            return {"error": "Exception", "error_type": "nonfinite"}
        return {"value": F(fv)}
    except Exception as e:  # noqa: BLE001
        n = type(e).__name__
        return {"error": n if n in sut.ERR_NAMES else "Exception", "error_type": n}


BROKEN = ["( 1 + 2", "1 +", "* 3", "1 2", ")", "mean + * 2", "", "3 / ( 2", "max min"]
BAD_IDENT = ["foo + 1", "mean + bar", "stdev", "2 * minimum", "x"]


def run_eval(out: Outcome, drv):
    n_hist = 250 if out.tier == "quick" else 6000
    depth = 4 if out.tier == "quick" else 6
    rng = gen.rng_for(out.seed, "C20", "eval")
    reqs, meta, rejected = [], [], []
    for h in range(n_hist):
        stats = {k: rng.choice([F(0), F(1), F(2), F(5, 2), F(-3), F(10), F(1, 4)]) for k in STATS}
        steps = rng.randint(1, 6)
        hist = []
        for s in range(steps):
            r = rng.random()
            if r < 0.2:
                fx = rng.choice(BROKEN)
                o = call_eval(fx, stats)
                hist.append(["broken", fx, o.get("error_type")])
                rejected.append((fx, stats, o))
                continue
            if r < 0.35:
                fx = rng.choice(BAD_IDENT)
                o = call_eval(fx, stats)
                hist.append(["bad-ident", fx, o.get("error_type")])
                rejected.append((fx, stats, o))
                continue
            t, v = gen_expr(rng, rng.randint(0, depth), stats)
            fx = render(rng, t)
            pre = list(fx_parser.exprStack)[-12:]
            o = call_eval(fx, stats)
            hist.append(["expr", fx, None])
            case = {"stats": stats, "fx": fx, "history": [list(x) for x in hist[:-1]][-6:]}
            reqs.append({"kind": "fx_eval", "stats": enc(stats), "expr": wire_expr(t),
                         "pre": [str(x) if not isinstance(x, tuple) else str(x[0]) for x in pre],
                         "obs": {"error": o["error"]} if "error" in o else {"value": enc(o["value"])}})
            meta.append((case, o, v))
    ans = drv.run(reqs)
    # the same strings through the Lean model of the GRAMMAR (IoosQc.parseString, theorems C20_parse_min / _full)
    preqs = [{"kind": "fx_parse", "stats": r["stats"], "fx": case["fx"], "obs": r["obs"]} for r, (case, o, v) in zip(reqs, meta)]
    for (case, o, v), a in zip(meta, drv.run(preqs)):
        out.tags["grammar:parsed" if a["parsed"] else "grammar:rejected"] += 1
        if not a["holds"]:
            out.violation(f"IoosQc.parseString / C20_parse_min: eval_fx({case['fx']!r}) gave {o}; the grammar model "
                          f"{'parses it to value ' + str(a['model']) if a['parsed'] else 'rejects it'}",
                          {"case": jsonable(case), "observed": jsonable(o), "model": a["model"]})
    rj = [{"kind": "fx_parse", "stats": enc(st), "fx": fx, "obs": {"error": o["error"]} if "error" in o else {"value": enc(o["value"])}}
          for fx, st, o in rejected]
    for (fx, st, o), a in zip(rejected, drv.run(rj)):
        out.record({"rejected_fx": fx, "stats": jsonable(st)}, True, ["rejected-expression"])
        if not a["holds"]:
            out.violation(f"IoosQc.parseString: eval_fx({fx!r}) returned {o} for a string outside the grammar",
                          {"case": {"fx": fx}, "observed": jsonable(o), "model": a["model"]})
    for (case, o, v), a in zip(meta, ans):
        out.record(case, len(case["fx"]) > 3, ["eval", "error" if "error" in o else "value", f"hist:{len(case['history'])}"])
        if not a["holds"]:
            out.violation(f"{WHAT_EVAL}: eval_fx({case['fx']!r}) after history {case['history']} gave {o}, arithmetic value {v}",
                          {"case": jsonable(case), "observed": jsonable(o), "model": a["model"],
                           "python": f"from ioos_qc.config_creator import fx_parser; [try_(h) for h in history]; fx_parser.eval_fx({case['fx']!r}, stats)"})


TOKENS = ["min", "max", "mean", "std", "+", "-", "*", "/", "(", ")", "1", "2.5", "-3", "1e3", ".5", "5.", "1_0", "nan", "inf",
          "-inf", "Infinity", "NaN", "1e", "e1", "1__0", "_1", "1_", "0x10", "mins", "Mean", "std+1", "(min", "2)", "**", "//",
          "", "^", "sin", "exp", "PI", "E", "__import__('os')", "1.2.3", "+-1", "--1", "1e+5", "1e-", "+", "1.e1", "0_0.0_1e0_1"]


def call_valid(spec):
    cfg = {"variable": "v", "bbox": [0, 0, 1, 1], "start_time": "2020-01-01", "end_time": "2020-02-01",
           "tests": {"gross_range_test": {"suspect_min": "1", "suspect_max": spec, "fail_min": "min", "fail_max": "max"}}}
    try:
        QcVariableConfig(cfg)
        return True, None
    except Exception as e:  # noqa: BLE001
        n = type(e).__name__
        return False, (n if n in sut.ERR_NAMES else "Exception")


def run_valid(out: Outcome, drv):
    rng = gen.rng_for(out.seed, "C20", "valid")
    n = 1500 if out.tier == "quick" else 30000
    specs = []
    for t in TOKENS:
        specs.append(t)
        specs.append("mean + " + t)
    for _ in range(n):
        k = rng.randint(1, 6)
        toks = [rng.choice(TOKENS) if rng.random() < 0.35 else rng.choice(TOKENS[:14]) for _ in range(k)]
        sep = " " if rng.random() < 0.9 else rng.choice(["  ", "", " "])
        s = sep.join(toks)
        if rng.random() < 0.05:
            s = " " + s
        if rng.random() < 0.05:
            s = s + " "
        specs.append(s)
    obs = [call_valid(s) for s in specs]
    ans = drv.run([{"kind": "fx_valid", "spec": s, "accepted": acc, "error": err} for s, (acc, err) in zip(specs, obs)])
    for s, (acc, err), a in zip(specs, obs, ans):
        case = {"spec": s}
        out.record(case, True, ["valid", "accepted" if acc else f"rejected:{err}"])
        if not a["holds"]:
            out.violation(f"{WHAT_VALID}: QcVariableConfig spec {s!r}: accepted={acc} error={err}, token rule says accept={a['model_accepts']}",
                          {"case": case, "observed": {"accepted": acc, "error": err}, "model": a["model_accepts"]})


def run_creator_request(out, drv, rng, creator, cc, cells, wire_cells, bbox, start, exprs, before, var="temp", bbox_obj=None):
    """One create_config request on a (possibly already used) creator object, judged against the Lean creator model."""
    import pandas as pd

    # expected statistics and spans come from the Lean model of the creator (Model/Creator.lean:
    # inclusive box, NaN cells dropped, days irrelevant for a time-constant climatology)
    end = {"2020-01-01": "2020-02-01", "2020-03-10": "2020-05-01", "2020-06-01": "2020-06-20", "2020-11-20": "2021-01-10"}[start]
    days = (pd.Timestamp(end) - pd.Timestamp(start)).days
    pre, = drv.run([{"kind": "creator", "cells": wire_cells, "bbox": enc(bbox), "days": days}])
    # the bbox list OBJECT is shared by all requests of the history that name the same box (a settings dict re-used by the caller)
    shared = bbox_obj if bbox_obj is not None else [float(b) for b in bbox]
    # ... and a repeated request re-uses its QcVariableConfig OBJECT
    cache = getattr(creator, "_verif_vc_cache", None)
    if cache is None:
        cache = creator._verif_vc_cache = {}
    ck = (var, id(shared), start, id(exprs))
    if ck not in cache:
        cache[ck] = QcVariableConfig({"variable": var, "bbox": shared, "start_time": start, "end_time": end,
                                      "tests": {"gross_range_test": exprs}})
    vc = cache[ck]
    if pre["stats"] is None or pre["stats"]["mean"][0] == 0:
        # nothing inside: the real code starts padding the box, which is outside the property — the request is made all
        # the same (it is part of the history the later requests must not depend on) but not judged
        try:
            creator.create_config(vc)
        except Exception:  # noqa: BLE001
            pass
        out.tags["creator-padded-request-not-judged"] += 1
        return
    case = {"variable": var, "cells": cells, "bbox": bbox, "start": start, "end": end, "exprs": exprs,
            "requests_before_on_same_creator": before}
    try:
        got = creator.create_config(vc)[var]["qartod"]["gross_range_test"]
        stats_used = QcConfigCreator(cc)._get_stats(QcVariableConfig({"variable": var, "bbox": [float(b) for b in bbox], "start_time": start,
                                                                      "end_time": end, "tests": {"gross_range_test": exprs}}))
    except Exception as e:  # noqa: BLE001
        out.record(case, True, ["creator", "error"])
        out.violation(f"C20 creator: create_config raised {type(e).__name__}: {e}", {"case": jsonable(case)})
        return
    a, = drv.run([{"kind": "creator", "cells": wire_cells, "bbox": enc(bbox), "days": days, "std": enc(F(float(stats_used["std"]))),
                   "exprs": [[exprs["suspect_min"], exprs["suspect_max"]], [exprs["fail_min"], exprs["fail_max"]]]}])
    fr = lambda p: F(p[0], p[1])  # noqa: E731
    st = {k: fr(v) for k, v in a["stats"].items()}
    one = {k: fr(v) for k, v in a["stats_one_day"].items()}
    bad = []
    if st != one:
        bad.append("model: statistics depend on the number of days (C20_stats_replicate violated?)")
    close = lambda x, y: abs(F(float(x)) - y) <= F(1, 10**9) * max(1, abs(y))  # noqa: E731
    for k in ("min", "max", "mean"):
        if not close(stats_used[k], st[k]):
            bad.append(f"{k}: {stats_used[k]} vs {float(st[k])}")
    if not close(float(stats_used["std"]) ** 2, st["var"]):
        bad.append(f"std {stats_used['std']} vs exact variance {float(st['var'])}")
    for name, sp in zip(("suspect_span", "fail_span"), a["spans"]):
        if sp is None:
            bad.append(f"{name}: the grammar model could not evaluate the expressions")
            continue
        for x, y in zip(got[name], sp):
            if not close(x, fr(y)):
                bad.append(f"{name}: got {got[name]} want {[float(fr(v)) for v in sp]}")
    repeat = any(b["bbox"] == bbox and b["start"] == start and b.get("variable") == var for b in before)
    out.record(case, True, ["creator", f"cells:{a['n_inside']}", f"creator-step:{len(before)}"] + (["creator-repeat-request"] if repeat else []))
    if bad:
        out.violation("C20 creator (IoosQc.creatorSpan / C20_span_days_irrelevant: spans = expressions on min/max/mean/std of the "
                      "cells inside the inclusive bbox): " + "; ".join(bad),
                      {"case": jsonable(case), "observed": jsonable(got), "model": a})


def run_creator(out: Outcome, drv):
    """Synthetic climatology constant in time; spans must equal the expressions evaluated on the
    nan-statistics of the cells inside the inclusive bounding box."""
    import xarray as xr
    import pandas as pd

    n = 60 if out.tier == "quick" else 300
    rng = gen.rng_for(out.seed, "C20", "creator")
    tmp = tempfile.mkdtemp(prefix="verif_c20_")
    try:
        for it in range(n):
            nlat, nlon = rng.randint(2, 5), rng.randint(2, 5)
            lats = [F(10 + i) for i in range(nlat)]
            lons = [F(-70 + j) for j in range(nlon)]
            cells = [[(None if rng.random() < 0.15 else F(rng.randint(1, 40), rng.choice([1, 2, 4]))) for _ in lons] for _ in lats]
            months = pd.DatetimeIndex([f"2019-{mm:02d}-15" for mm in range(1, 13)])
            # a second variable on the same grid with many more empty cells (boxes empty for it but not for the first)
            cells_sal = [[(None if rng.random() < 0.55 else F(rng.randint(60, 80), rng.choice([1, 2]))) for _ in lons] for _ in lats]
            # the order in which the file stores its axes is the dataset's business (north-to-south latitude is common):
            # the logical grid is the same
            lat_order = list(range(nlat))[::-1] if rng.random() < 0.3 else list(range(nlat))
            lon_order = list(range(nlon))[::-1] if rng.random() < 0.15 else list(range(nlon))
            mk = lambda cs: np.array([[[np.nan if cs[i][j] is None else float(cs[i][j]) for j in lon_order] for i in lat_order]] * 12,  # noqa: E731
                                     dtype="float64")
            ds = xr.Dataset({"temp": (("time", "lat", "lon"), mk(cells)), "sal": (("time", "lat", "lon"), mk(cells_sal))},
                            coords={"time": months, "lat": [float(lats[i]) for i in lat_order], "lon": [float(lons[j]) for j in lon_order]})
            out.tags["creator:lat-descending" if lat_order[0] != 0 else "creator:lat-ascending"] += 1
            path = os.path.join(tmp, f"clim{it}.nc")
            ds.to_netcdf(path, engine="scipy")
            cc = CreatorConfig({"datasets": [{"name": "d", "file_path": path, "variables": {"temp": "temp", "sal": "sal"}}]})
            by_var = {"temp": cells, "sal": cells_sal}
            wire = {v: [{"lat": enc(lats[i]), "lon": enc(lons[j]), "value": enc(cs[i][j])} for i in range(nlat) for j in range(nlon)]
                    for v, cs in by_var.items()}

            def gen_box():
                i0, i1 = sorted(rng.sample(range(nlat), 2)) if nlat > 1 and rng.random() < 0.8 else (0, nlat - 1)
                j0, j1 = sorted(rng.sample(range(nlon), 2)) if nlon > 1 and rng.random() < 0.8 else (0, nlon - 1)
                edge = rng.choice([F(0), F(0), F(1, 4), -F(1, 4)])   # on the cell coordinate, just outside, just inside
                return [lons[j0] + edge, lats[i0] + edge, lons[j1] - edge, lats[i1] - edge]
            # one creator object serves a history of requests: a small pool of boxes / periods / expression sets, so that
            # requests repeat (X, Y, X) and share expression texts whose values differ between boxes ("statelessly")
            boxes = [gen_box() for _ in range(rng.randint(1, 3))]
            starts = rng.sample(["2020-01-01", "2020-03-10", "2020-06-01", "2020-11-20"], rng.randint(1, 2))
            expr_sets = [{"suspect_min": "mean - 1", "suspect_max": "mean + 2 * 1", "fail_min": "min - ( max - min ) / 2", "fail_max": "max * 2"},
                         {"suspect_min": "min", "suspect_max": "max", "fail_min": "mean - 3 * std", "fail_max": "mean + 3 * std"}]
            history = [(rng.randrange(len(boxes)), rng.choice(starts), expr_sets[0] if rng.random() < 0.7 else expr_sets[1],
                        "sal" if rng.random() < 0.35 else "temp") for _ in range(rng.randint(1, 5))]
            box_objs = [[float(b) for b in bx] for bx in boxes]       # one list object per box for the whole history
            creator = QcConfigCreator(cc)
            for step, (bi, start, exprs, var) in enumerate(history):
                run_creator_request(out, drv, rng, creator, cc, by_var[var], wire[var], boxes[bi], start, exprs,
                                    [{"variable": v_, "bbox": boxes[b], "start": st_} for b, st_, _, v_ in history[:step]],
                                    var=var, bbox_obj=box_objs[bi])
            os.remove(path)
    finally:
        shutil.rmtree(tmp, ignore_errors=True)

WHAT_SRC = "IoosQc.NpFx.C20_src_eval / C20_src_history (the transcription NpSrc.eval_fx of evaluate_stack, run on the raw stack)"
ODD_ENTRIES = ["", "+-", "*/", "^", "PI", "E", "pi", "foo", "inf", "nan", "Mean", "unary -", "unary", "-2", ".5", "1_0", " 3", "3 ", "2.", "1e1",
               "0x10", "1__0", "é", "٣", "sin", "abs", "sgn", "mean", "min", "max", "std", "+", "-", "*", ("sin", 1), ("abs", 1), ("mean", 1),
               ("max", 0), ("foo", 2), ("+", 0), ("unary -", 0), ("3", 0)]
FN_EXPRS = ["abs(mean)", "abs(0 - 3)", "sgn(min) * 2", "round(2.5) + 1", "trunc(2.5)", "mean(3)", "PI * 2", "E", "2 ^ 3", "2 ^ 3 ^ 2", "exp(0)"]


def _gen_nodiv(rng, depth):
    t = _gen(rng, depth)

    def strip(t):
        if "op" in t:
            return {"op": "*" if t["op"] == "/" else t["op"], "a": strip(t["a"]), "b": strip(t["b"])}
        if "neg" in t:
            return {"neg": strip(t["neg"])}
        return t
    return strip(t)


def _postfix(rng, t):
    """what the parse actions push for the tree (numbers in one of their spellings)"""
    if "num" in t:
        return [num_str(rng, t["num"])]
    if "stat" in t:
        return [t["stat"]]
    if "neg" in t:
        return _postfix(rng, t["neg"]) + ["unary -"]
    return _postfix(rng, t["a"]) + _postfix(rng, t["b"]) + [t["op"]]


def _py_float(x):
    try:
        v = float(x)
    except Exception:  # noqa: BLE001
        return "raises", None
    if v != v or v in (float("inf"), float("-inf")):
        return "nonfinite", None
    return "ok", F(v)


def run_src(out: Outcome, drv):
    """The transcription of evaluate_stack (regenerated from the source, pinned) against the REAL evaluate_stack on raw stacks:
    the real persistent stack after a history of eval_fx calls, and synthetic stacks with odd entries."""
    n = 400 if out.tier == "quick" else 8000
    rng = gen.rng_for(out.seed, "C20", "src")
    reqs, meta = [], []
    # the comparison is exact, so everything this sub-check leaves on the stack is free of "/" (a quotient that is not a dyadic
    # number is rounded by the real code); what run_eval left there is dropped first
    del fx_parser.exprStack[:]
    for i in range(n):
        stats = {k: rng.choice([F(0), F(1), F(2), F(5, 2), F(-3), F(10), F(1, 4)]) for k in STATS}
        fstats = {k: float(v) for k, v in stats.items()}
        if i % 2 == 0:
            mode = "real-stack"
            for _ in range(rng.randint(1, 4)):
                r = rng.random()
                if r < 0.2:
                    fx = rng.choice(BROKEN)
                elif r < 0.35:
                    fx = rng.choice(BAD_IDENT)
                elif r < 0.5:
                    fx = rng.choice(FN_EXPRS)
                else:
                    t = {"num": F(1)}
                    for _try in range(50):
                        c = _gen_nodiv(rng, rng.randint(0, 4))
                        if _eval(c, stats)[0]:
                            t = c
                            break
                    fx = render(rng, t)
                call_eval(fx, stats)
            stack = list(fx_parser.exprStack)[-40:]
        else:
            mode = "synthetic"
            stack = [rng.choice(ODD_ENTRIES) for _ in range(rng.randint(0, 3))] + _postfix(rng, _gen_nodiv(rng, rng.randint(0, 3)))
            for _ in range(rng.choice([0, 1, 1, 2])):
                if stack:
                    k = rng.randrange(len(stack))
                    r = rng.random()
                    if r < 0.6:
                        stack[k] = rng.choice(ODD_ENTRIES)
                    elif r < 0.8:
                        del stack[k]
                    else:
                        stack.insert(k, rng.choice(ODD_ENTRIES))
        floats, skip = [], False
        for x in sorted({e if isinstance(e, str) else e[0] for e in stack}):
            kind, v = _py_float(x)
            if kind == "nonfinite" and not (x[:1].isalpha()):
                skip = True
            floats.append({"s": x, "v": enc(v) if v is not None else None})
        if skip:
            continue
        try:
            val = fx_parser.evaluate_stack(list(stack), fstats)
            fv = float(val)
            obs = {"out": "nonfinite"} if (fv != fv or fv in (float("inf"), float("-inf"))) else {"out": "ok", "value": F(fv)}
        except Exception as e:  # noqa: BLE001
            obs = {"out": "raised", "error_type": type(e).__name__}
        reqs.append({"kind": "fx_src", "stats": enc(stats), "floats": floats,
                     "stack": [{"s": e} if isinstance(e, str) else {"name": e[0], "nargs": e[1]} for e in stack]})
        meta.append((mode, stack, stats, obs))
    for (mode, stack, stats, obs), a in zip(meta, drv.run(reqs)):
        case = {"stack": [list(e) if isinstance(e, tuple) else e for e in stack], "stats": stats}
        out.record(case, len(stack) > 1, ["src", mode, "model:" + a["out"], "real:" + obs["out"]])
        if a["out"] == "unmodelled":
            continue                        # PI, E, ^, a function call: a value outside ℚ, nothing is claimed
        ok = a["out"] == obs["out"] and (a["out"] != "ok" or F(a["value"][0], a["value"][1]) == obs["value"])
        if not ok:
            out.violation(f"{WHAT_SRC}: evaluate_stack on the stack {case['stack']} gave {obs}; the transcription gives {a}",
                          {"case": jsonable(case), "observed": jsonable(obs), "model": a,
                           "python": f"from ioos_qc.config_creator import fx_parser; fx_parser.evaluate_stack({stack!r}, {{k: float(v) for k, v in stats.items()}})"})


def run(out: Outcome, drv):
    out.rule = ("(a) histories of 1..6 eval_fx calls mixing grammar-generated expressions (depth <= 4 quick / 6 thorough, numbers and "
                "statistics on a float-exact lattice, random redundant parentheses / spacing / number spellings), unparsable strings and "
                "invalid identifiers; every expression evaluation is one case, judged by C20.holdsEval against exact rational arithmetic; "
                "(b) validator: token strings over a 50-token alphabet incl. Python float() oddities; (c) creator: synthetic monthly "
                "climatologies constant in time written as netCDF3, random inclusive bounding boxes on / beside cell coordinates, "
                "two variables with different empty cells, histories of 1..5 requests on ONE creator object drawn from <= 3 boxes (one shared "
                "list object per box), <= 2 periods, 2 expression sets and both variables (repeats X,Y,X; boxes empty for one variable). "
                "All cases are counted non-trivial except one-token expressions; (d) raw stacks: the real persistent exprStack after histories that "
                "also use functions, PI, E and ^, and synthetic stacks with odd entries (empty string, pieces of '+-*/^', tuples, float() "
                "oddities, non-ASCII letters and digits), evaluated by the real evaluate_stack and by its regenerated transcription")
    run_eval(out, drv)
    run_src(out, drv)
    run_valid(out, drv)
    run_creator(out, drv)
