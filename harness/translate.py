"""Translator: the bodies of three QC test functions of /repo's CURRENT source -> Lean definitions over the array-level
numpy primitives of lean/IoosQc/Model/Np.lean.

    python function                      Lean `do` block
    -----------------------------------  ------------------------------------------------------------
    one statement                        one line
    first assignment of a local          `let mut v := …`   (re-binding of a parameter: `let v := …`)
    later assignment                     `v := …`
    `if x is not None:`                  `if let some x := x then`
    `if method == "s": … elif … else:`   `if method = "s" then … else if … else …`
    `raise ValueError(…)`                `throw .value`
    `assert isfixedlength(x, n)`         `fixedLength x n`
    numpy / numpy.ma expression          primitive of Model/Np (table below)

The translator is total on nothing: any statement or expression outside its vocabulary raises `Untranslatable`, and the
source pin that uses it is then "unavailable" for that run (nothing is claimed from it).  It never guesses.

Dropped statements (no effect on the logical domain — 1-D series, carriers normalised; C15 is about those):
`original_shape = x.shape`, `x = x.flatten()`, `….reshape(original_shape)`, `tinp = mapdates(tinp).flatten()`, `msg = …`,
docstrings, `warnings.simplefilter(…)`; `with warnings.catch_warnings():` and `with np.errstate(…):` are transparent.
"""
from __future__ import annotations

import ast
import re
import os
from pathlib import Path

REPO = Path(os.environ.get("VERIF_REPO", "/repo"))
FLAG = {"GOOD": ".good", "UNKNOWN": ".unknown", "SUSPECT": ".suspect", "FAIL": ".fail", "MISSING": ".missing"}
FUNCS = {"gross_range_test": "ioos_qc/qartod.py", "spike_test": "ioos_qc/qartod.py", "rate_of_change_test": "ioos_qc/qartod.py",
         "location_test": "ioos_qc/qartod.py", "density_inversion_test": "ioos_qc/qartod.py",
         "flat_line_test": "ioos_qc/qartod.py", "climatology_test": "ioos_qc/qartod.py", "attenuated_signal_test": "ioos_qc/qartod.py", "save": "ioos_qc/stores.py", "collect_results_dict": "ioos_qc/results.py", "Call_run": "ioos_qc/config.py", "ContextConfig_calls": "ioos_qc/config.py", "qartod_compare": "ioos_qc/qartod.py", "speed_test": "ioos_qc/argo.py", "pressure_increasing_test": "ioos_qc/argo.py", "valid_range_test": "ioos_qc/axds.py"}


class Untranslatable(Exception):
    pass


def src(node):
    return ast.unparse(node)


def is_call(node, dotted):
    """node is a call of the dotted name (e.g. 'np.ma.zeros')."""
    return isinstance(node, ast.Call) and src(node.func) == dotted


NORMALISE = "np.ma.masked_invalid(np.ma.array({0}).astype(np.float64).filled(np.nan))"
NORMALISE_FILLED = "np.ma.filled(np.ma.masked_invalid(np.ma.array({0}).astype(np.float64)), np.nan)"      # a PLAIN array, NaN at missing values
NORMALISE_JUNK = "np.ma.masked_invalid(np.ma.array({0}, dtype=dtype))"                                    # raw data under the mask kept


# The helper `rolling_window` of flat_line_test is read as ONE primitive (`rollingWindow`, Model/Np) — only in exactly this form.
ROLLING_WINDOW = ast.unparse(ast.parse('''
def rolling_window(a, window):
    """https://rigtorp.se/2011/01/01/rolling-statistics-numpy.html."""
    if len(a) < window:
        return np.ma.MaskedArray(np.empty((0, window + 1)))
    shape = a.shape[:-1] + (a.shape[-1] - window + 1, window + 1)
    strides = (*a.strides, a.strides[-1])
    arr = np.lib.stride_tricks.as_strided(a, shape=shape, strides=strides)
    return np.ma.masked_invalid(arr[:-1, :])
''').body[0])


class Tr:
    def __init__(self, fn: ast.FunctionDef):
        self.fn = fn
        self.params = [a.arg for a in fn.args.args]
        defaults = [None] * (len(self.params) - len(fn.args.defaults)) + list(fn.args.defaults)
        self.optional = {p for p, d in zip(self.params, defaults) if isinstance(d, ast.Constant) and d.value is None}
        self.declared = set(self.params)          # names bound so far on the current path
        self.kind = {}                            # local name -> "marr" | "flags" | "span"
        self.lines = []

    # ---- types of the parameters --------------------------------------------------------------------------------------
    def param_type(self, p):
        if p == "vectors":
            return "List (List IoosQc.Cell)"
        if p in ("inp", "lon", "lat", "zinp"):
            t = "List V"
        elif p == "valid_span":
            return "V × V"
        elif p in ("start_inclusive", "end_inclusive"):
            return "Bool"
        elif p == "bbox":
            return "SeqArg"
        elif p in ("range_max", "tolerance"):
            t = "Rat"
        elif p == "tinp":
            t = "List Int"
        elif p.endswith("_span"):
            t = "SeqArg"
        elif p.endswith("threshold"):
            t = "Rat"
        elif p == "method":
            t = "String"
        else:
            raise Untranslatable(f"parameter {p}")
        return f"Option {t}" if p in self.optional else t

    # ---- expressions --------------------------------------------------------------------------------------------------
    def scalar(self, e):
        if isinstance(e, ast.Attribute) and isinstance(e.value, ast.Name) and self.kind.get(e.value.id) == "span" and e.attr in ("minv", "maxv"):
            return f"{e.value.id}.{1 if e.attr == 'minv' else 2}"
        if isinstance(e, ast.Name) and e.id in self.params and (e.id.endswith("threshold") or e.id in ("range_max", "tolerance")):
            return e.id
        if isinstance(e, ast.Attribute) and isinstance(e.value, ast.Name) and self.kind.get(e.value.id) == "box" \
                and e.attr in ("minx", "miny", "maxx", "maxy"):
            return f"{e.value.id}.{e.attr}"
        if isinstance(e, ast.Constant) and isinstance(e.value, int) and not isinstance(e.value, bool):
            return str(e.value)
        if isinstance(e, ast.Subscript) and src(e) in getattr(self, "bound_elems", {}):
            return self.bound_elems[src(e)]
        raise Untranslatable(f"scalar {src(e)}")

    def slice_of(self, e):
        """a[lo:hi] for the four slices the code uses -> primitive name."""
        if not (isinstance(e, ast.Subscript) and isinstance(e.slice, ast.Slice) and e.slice.step is None):
            return None
        lo = None if e.slice.lower is None else src(e.slice.lower)
        hi = None if e.slice.upper is None else src(e.slice.upper)
        name = {("0", "-2"): "init2", (None, "-2"): "init2", ("2", None): "tail2", (None, "-1"): "init1", ("0", "-1"): "init1",
                ("1", None): "tail1"}.get((lo, hi))
        if name is None:
            return ("1", "-1") == (lo, hi) and "inner" or None
        return name

    def aexpr(self, e):
        if isinstance(e, ast.Name) and (self.kind.get(e.id) == "marr"):
            return e.id
        sl = self.slice_of(e)
        if sl in ("init1", "init2", "tail1", "tail2"):
            return f"{sl} {self.atom(e.value)}"
        if isinstance(e, ast.BinOp):
            if isinstance(e.op, ast.Div):
                if isinstance(e.right, ast.Constant) and isinstance(e.right.value, int):
                    return f"maDivS {self.atom(e.left)} {e.right.value}"
                # np.diff(t).astype("timedelta64[s]").astype(float): elapsed whole seconds
                r = e.right
                if (isinstance(r, ast.Call) and src(r.func).endswith(".astype") and src(r.args[0]) == "float"
                        and isinstance(r.func.value, ast.Call) and src(r.func.value.func).endswith(".astype")
                        and src(r.func.value.args[0]) == "'timedelta64[s]'" and is_call(r.func.value.func.value, "np.diff")
                        and isinstance(r.func.value.func.value.args[0], ast.Name) and r.func.value.func.value.args[0].id == "tinp"):
                    return f"maDivArr {self.atom(e.left)} (dtSeconds tinp)"
                raise Untranslatable(f"division {src(e)}")
            op = {ast.Add: "Fl.add", ast.Sub: "Fl.sub", ast.Mult: "Fl.mul"}.get(type(e.op))
            if op:
                return f"maBin {op} {self.atom(e.left)} {self.atom(e.right)}"
        if is_call(e, "np.abs") and len(e.args) == 1:
            return f"uf1 Fl.abs {self.atom(e.args[0])}"
        if is_call(e, "np.sign") and len(e.args) == 1:
            return f"uf1 Fl.sign {self.atom(e.args[0])}"
        if is_call(e, "np.minimum") and len(e.args) == 2:
            return f"uf2 Fl.min {self.atom(e.args[0])} {self.atom(e.args[1])}"
        if (is_call(e, "np.ma.diff") or is_call(e, "np.diff")) and len(e.args) == 1 and not e.keywords:
            return f"maDiff {self.atom(e.args[0])}"
        if is_call(e, "np.ma.masked_invalid") and len(e.args) == 1 and not e.keywords:
            return f"maskedInvalid {self.atom(e.args[0])}"
        if is_call(e, "np.ma.zeros") and len(e.args) == 1 and src(e.args[0]).endswith(".size"):
            return f"zeros {src(e.args[0])[:-5]}.length"
        raise Untranslatable(f"array expression {src(e)}")

    def atom(self, e):
        t = self.aexpr(e)
        return t if " " not in t else f"({t})"

    def bexpr(self, e):
        if isinstance(e, ast.Compare) and len(e.ops) == 1:
            if isinstance(e.ops[0], ast.Eq) and isinstance(e.left, ast.Name) and self.kind.get(e.left.id) == "barr" \
                    and isinstance(e.comparators[0], ast.Constant) and e.comparators[0].value is True:
                return f"eqTrue {e.left.id}"
            op = {ast.Lt: "ltS", ast.Gt: "gtS", ast.GtE: "geS", ast.LtE: "leS"}.get(type(e.ops[0]))
            if op:
                return f"{op} {self.atom(e.left)} {self.scalar(e.comparators[0])}"
        if isinstance(e, ast.BinOp) and isinstance(e.op, ast.BitOr):
            return f"bor ({self.bexpr(e.left)}) ({self.bexpr(e.right)})"
        raise Untranslatable(f"boolean array expression {src(e)}")

    def flag(self, e):
        if isinstance(e, ast.Name) and self.kind.get(e.id) == "flagvar":
            return e.id
        if isinstance(e, ast.Attribute) and src(e.value) in ("QartodFlags", "FLAGS") and e.attr in FLAG:
            return FLAG[e.attr]
        raise Untranslatable(f"flag {src(e)}")

    def is_mask(self, e):
        return isinstance(e, ast.Attribute) and e.attr == "mask" and isinstance(e.value, ast.Name) and self.kind.get(e.value.id) == "marr"

    # ---- statements ---------------------------------------------------------------------------------------------------
    def emit(self, ind, text):
        self.lines.append("  " * ind + text)

    def bind(self, ind, name, rhs, kind):
        self.kind[name] = kind
        if getattr(self, "pure_mode", False):            # inside a local function: plain (shadowing) lets
            return self.emit(ind, f"let {name} := {rhs}")
        if name in self.params and name not in getattr(self, "rebound", set()):
            self.rebound = getattr(self, "rebound", set()) | {name}
            self.emit(ind, f"let {name} := {rhs}")
        elif name in self.declared and name not in self.params:
            self.emit(ind, f"{name} := {rhs}")
        else:
            self.declared.add(name)
            self.emit(ind, f"let mut {name} := {rhs}")

    def assigned_in(self, stmts):
        out = []
        for st in stmts:
            for n in ast.walk(st):
                if isinstance(n, ast.Assign) and isinstance(n.targets[0], ast.Name) and n.targets[0].id not in out:
                    out.append(n.targets[0].id)
        return out

    def block(self, stmts, ind):
        for st in stmts:
            self.stmt(st, ind)

    def stmt(self, st, ind):  # noqa: C901, PLR0912
        if isinstance(st, ast.Expr) and isinstance(st.value, ast.Constant) and isinstance(st.value.value, str):
            return                                                           # docstring
        if isinstance(st, ast.Expr) and is_call(st.value, "warnings.simplefilter"):
            return
        if isinstance(st, ast.With):
            ctx = [src(i.context_expr) for i in st.items]
            if all(c == "warnings.catch_warnings()" or c.startswith("np.errstate(") for c in ctx):
                return self.block(st.body, ind)
            raise Untranslatable(f"with {ctx}")
        if isinstance(st, ast.Assert) and src(st.test) == "all((s == shapes[0] for s in shapes))" and self.kind.get("shapes") == "shapes":
            self.emit(ind, "if !(shapes.all fun s => some s == shapes[0]?) then")
            return self.emit(ind + 1, "throw .assertion")
        if isinstance(st, ast.Assert) and src(st.test) == "all((v.ndim == 1 for v in vectors))":
            return None                                                     # one-dimensional vectors: the logical domain
        if isinstance(st, ast.Expr) and is_call(st.value, "result.fill") and len(st.value.args) == 1 and self.kind.get("result") == "flags":
            return self.emit(ind, f"result := fillWith result {self.flag(st.value.args[0])}")
        if isinstance(st, ast.For) and isinstance(st.target, ast.Name) and isinstance(st.iter, ast.Name) and not st.orelse \
                and (self.kind.get(st.iter.id) == "flaglist" or st.iter.id == "vectors"):
            self.kind[st.target.id] = "flagvar" if self.kind.get(st.iter.id) == "flaglist" else "vector"
            self.emit(ind, f"for {st.target.id} in {st.iter.id} do")
            return self.block(st.body, ind + 1)
        if isinstance(st, ast.Assert):
            t = st.test
            if is_call(t, "isfixedlength") and isinstance(t.args[0], ast.Name) and isinstance(t.args[1], ast.Constant):
                return self.emit(ind, f"fixedLength {t.args[0].id} {t.args[1].value}")
            raise Untranslatable(f"assert {src(t)}")
        if isinstance(st, ast.Raise):
            if is_call(st.exc, "ValueError"):
                return self.emit(ind, "throw .value")
            raise Untranslatable(f"raise {src(st.exc)}")
        if isinstance(st, ast.Return):
            v = st.value
            if is_call(v, f"{src(v.func.value) if isinstance(v, ast.Call) and isinstance(v.func, ast.Attribute) else ''}.reshape") \
                    and src(v.args[0]) == "original_shape" and isinstance(v.func.value, ast.Name):
                return self.emit(ind, f"return {v.func.value.id}")
            if isinstance(v, ast.Name) and self.kind.get(v.id) == "flags":
                return self.emit(ind, f"return {v.id}")
            if src(v) == "result.astype('uint8')" and self.kind.get("result") == "flags":
                return self.emit(ind, "return result")
            if src(v) == "np.ma.masked_array([])":
                return self.emit(ind, "return []")
            raise Untranslatable(f"return {src(v)}")
        if isinstance(st, ast.If):
            return self.if_stmt(st, ind)
        if isinstance(st, ast.FunctionDef):
            return self.local_def(st, ind)
        if isinstance(st, ast.Expr) and isinstance(st.value, ast.Call) and isinstance(st.value.func, ast.Name) \
                and st.value.func.id in getattr(self, "local_funcs", {}):
            # a call of a local function that assigns into the enclosing `flag_arr`: the array is threaded through
            tgt, nargs = self.local_funcs[st.value.func.id]
            args = st.value.args
            if len(args) != nargs or st.value.keywords:
                raise Untranslatable(f"call {src(st.value)}")
            return self.emit(ind, f"{tgt} := {st.value.func.id} {tgt} {self.scalar(args[0])} {self.flag(args[1])}")
        if isinstance(st, ast.Assign) and len(st.targets) == 1:
            return self.assign(st.targets[0], st.value, ind)
        raise Untranslatable(f"statement {src(st)[:80]}")

    def local_def(self, fn, ind):
        if fn.name == "rolling_window":
            if ast.unparse(fn) != ROLLING_WINDOW:
                raise Untranslatable("rolling_window is not in the form read as the primitive rollingWindow")
            self.prims = {**getattr(self, "prims", {}), "rolling_window": "rollingWindow"}
            return None
        # def run_test(test_threshold, flag_value) -> None: … flag_arr[test_results] = flag_value
        args = [a.arg for a in fn.args.args]
        last = fn.body[-1]
        if not (args == ["test_threshold", "flag_value"] and isinstance(last, ast.Assign) and isinstance(last.targets[0], ast.Subscript)
                and isinstance(last.targets[0].value, ast.Name) and self.kind.get(last.targets[0].value.id) == "flags"
                and isinstance(last.targets[0].slice, ast.Name) and src(last.value) == "flag_value"):
            raise Untranslatable(f"local function {fn.name}")
        tgt = last.targets[0].value.id
        self.emit(ind, f"let {fn.name} := fun ({tgt} : List Flag) (test_threshold : Rat) (flag_value : Flag) =>")
        saved = (self.params, dict(self.kind), set(self.declared))
        self.params = [*self.params, "test_threshold"]
        self.pure_mode = True
        try:
            self.block(fn.body[:-1], ind + 1)
            if self.kind.get(last.targets[0].slice.id) != "bools":
                raise Untranslatable(f"index {src(last.targets[0].slice)}")
            self.emit(ind + 1, f"setWhere {tgt} {last.targets[0].slice.id} flag_value")
        finally:
            self.pure_mode = False
            self.params, self.kind, self.declared = saved
        self.local_funcs = {**getattr(self, "local_funcs", {}), fn.name: (tgt, 2)}
        return None

    def assign(self, tgt, val, ind):  # noqa: C901, PLR0912
        if isinstance(tgt, ast.Name):
            name = tgt.id
            if name == "original_shape" and (src(val).endswith(".shape") or is_call(val, "np.shape")):
                return
            if name == "msg" or is_call(val, "namedtuple"):
                return
            if name == "tinp" and src(val) == "mapdates(tinp)":
                return
            if src(val) == "[v.shape[0] for v in vectors]":
                return self.bind(ind, name, "vectors.map fun v => v.length", "shapes")
            if src(val) == "np.ma.empty(shapes[0])" and self.kind.get("shapes") == "shapes":
                self.kind[name] = "flags"
                self.declared.add(name)
                return self.emit(ind, f"let mut {name} ← maEmpty shapes[0]?")
            if isinstance(val, ast.List) and val.elts and all(isinstance(e, ast.Attribute) and src(e.value) == "QartodFlags" and e.attr in FLAG for e in val.elts):
                return self.bind(ind, name, "[" + ", ".join("Flag" + FLAG[e.attr] for e in val.elts) + "]", "flaglist")
            if isinstance(val, ast.Subscript) and src(val.slice) == "0" and is_call(val.value, "np.where") and len(val.value.args) == 1 \
                    and isinstance(val.value.args[0], ast.Compare) and isinstance(val.value.args[0].ops[0], ast.Eq) \
                    and isinstance(val.value.args[0].left, ast.Name) and self.kind.get(val.value.args[0].left.id) == "vector" \
                    and isinstance(val.value.args[0].comparators[0], ast.Name) and self.kind.get(val.value.args[0].comparators[0].id) == "flagvar":
                return self.bind(ind, name, f"whereEq {val.value.args[0].left.id} {val.value.args[0].comparators[0].id}", "idx")
            if src(val) == "np.median(np.diff(tinp)).astype('timedelta64[s]').astype(float)":
                return self.bind(ind, name, "medianStep tinp", "int")
            if src(val) == "(int(test_threshold) / time_interval).astype(int)" and self.kind.get("time_interval") == "int":
                return self.bind(ind, name, "flatCount test_threshold time_interval", "nat")
            if isinstance(val, ast.Call) and isinstance(val.func, ast.Name) and val.func.id in getattr(self, "prims", {}) and len(val.args) == 2 \
                    and all(isinstance(a, ast.Name) for a in val.args) and self.kind.get(val.args[0].id) == "marr" and self.kind.get(val.args[1].id) == "nat":
                return self.bind(ind, name, f"{self.prims[val.func.id]} {val.args[0].id} {val.args[1].id}", "win")
            if (is_call(val, "np.min") or is_call(val, "np.max")) and len(val.args) == 2 and isinstance(val.args[0], ast.Name) \
                    and self.kind.get(val.args[0].id) == "win" and src(val.args[1]) == "1" and not val.keywords:
                return self.bind(ind, name, f"{'rowMin' if is_call(val, 'np.min') else 'rowMax'} {val.args[0].id}", "marr")
            if is_call(val, "np.ma.filled") and len(val.args) == 1 and [(k.arg, src(k.value)) for k in val.keywords] == [("fill_value", "False")]:
                return self.bind(ind, name, f"filledFalse ({self.bexpr(val.args[0])})", "bools")
            if is_call(val, "min") and len(val.args) == 2 and is_call(val.args[0], "len") and isinstance(val.args[0].args[0], ast.Name) \
                    and self.kind.get(val.args[0].args[0].id) == "marr" and isinstance(val.args[1], ast.Name) and self.kind.get(val.args[1].id) == "nat":
                return self.bind(ind, name, f"min {val.args[0].args[0].id}.length {val.args[1].id}", "nat")
            if is_call(val, "np.insert") and len(val.args) == 3 and isinstance(val.args[0], ast.Name) and self.kind.get(val.args[0].id) == "bools" \
                    and src(val.args[1]) == "0" and is_call(val.args[2], "np.full") and len(val.args[2].args) == 2 and src(val.args[2].args[1]) == "False" \
                    and isinstance(val.args[2].args[0], ast.Tuple) and len(val.args[2].args[0].elts) == 1 and isinstance(val.args[2].args[0].elts[0], ast.Name) \
                    and self.kind.get(val.args[2].args[0].elts[0].id) == "nat":
                return self.bind(ind, name, f"insertFalse {val.args[2].args[0].elts[0].id} {val.args[0].id}", "bools")
            if is_call(val, "np.full") and len(val.args) == 2 and src(val.args[1]) == "QartodFlags.GOOD" and isinstance(val.args[0], ast.Tuple) \
                    and len(val.args[0].elts) == 1 and src(val.args[0].elts[0]).endswith(".size"):
                return self.bind(ind, name, f"ones {src(val.args[0].elts[0])[:-5]}.length", "flags")
            if name == "span_dtype" or (name == "valid_span" and src(val) == "np.ma.masked_invalid(np.array(valid_span, dtype=span_dtype))"):
                return          # the span is a pair of possibly-missing bounds on the logical domain
            if src(val) == NORMALISE_FILLED.format(name):
                return self.bind(ind, name, f"ofInputFilled {name}", "farr")
            if src(val) == NORMALISE_JUNK.format(name):
                self.uses_junk = True
                return self.bind(ind, name, f"ofInputJunk {name} junk", "marr")
            if src(val) in ("QartodFlags.GOOD * np.ma.ones({0}.size, dtype='uint8')".format(x) for x in self.kind if self.kind[x] == "marr"):
                return self.bind(ind, name, f"ones {src(val.right.args[0])[:-5]}.length", "flags")
            if src(val) in ("np.ones_like({0}, dtype='uint8') * QartodFlags.GOOD".format(x) for x in self.kind if self.kind[x] == "farr"):
                return self.bind(ind, name, f"ones {src(val.left.args[0])}.length", "flags")
            if isinstance(val, ast.Compare):
                return self.bind(ind, name, self.bexpr(val), "barr")
            if isinstance(val, ast.BinOp) and isinstance(val.op, ast.BitOr) and self.is_mask(val.left) and self.is_mask(val.right):
                return self.bind(ind, name, f"bor2 (maskOf {val.left.value.id}) (maskOf {val.right.value.id})", "bools")
            if is_call(val, "np.diff") and len(val.args) == 1 and not val.keywords and isinstance(val.args[0], ast.Name) \
                    and self.kind.get(val.args[0].id) == "farr":
                return self.bind(ind, name, f"npDiff {val.args[0].id}", "farr")
            if is_call(val, "np.sign") and len(val.args) == 1 and is_call(val.args[0], "np.mean") and len(val.args[0].args) == 1 \
                    and isinstance(val.args[0].args[0], ast.Name) and self.kind.get(val.args[0].args[0].id) == "farr":
                return self.bind(ind, name, f"Fl.sign (npMean {val.args[0].args[0].id})", "fl")
            if isinstance(val, ast.BinOp) and isinstance(val.op, ast.Mult) and isinstance(val.left, ast.Name) and isinstance(val.right, ast.Name) \
                    and self.kind.get(val.left.id) == "fl" and self.kind.get(val.right.id) == "farr":
                return self.bind(ind, name, f"npMulS {val.left.id} {val.right.id}", "farr")
            # np.where(a <= 0)[0] + 1
            if isinstance(val, ast.BinOp) and isinstance(val.op, ast.Add) and isinstance(val.right, ast.Constant) and val.right.value == 1 \
                    and isinstance(val.left, ast.Subscript) and src(val.left.slice) == "0" and is_call(val.left.value, "np.where") \
                    and len(val.left.value.args) == 1 and isinstance(val.left.value.args[0], ast.Compare):
                c = val.left.value.args[0]
                if isinstance(c.ops[0], ast.LtE) and isinstance(c.left, ast.Name) and self.kind.get(c.left.id) == "farr" and src(c.comparators[0]) == "0":
                    return self.bind(ind, name, f"(npWhere (npLeS {c.left.id} 0)).map (· + 1)", "idx")
                raise Untranslatable(f"np.where {src(val)}")
            if name == "bbox" and is_call(val, "bboxnt") and len(val.args) == 1 and isinstance(val.args[0], ast.Starred) \
                    and src(val.args[0].value) == "bbox":
                self.kind["bbox"] = "box"
                return self.emit(ind, "let bbox ← boxOf bbox")
            if isinstance(val, ast.BinOp) and isinstance(val.op, ast.BitAnd) and self.is_mask(val.left) and self.is_mask(val.right):
                return self.bind(ind, name, f"band (maskOf {val.left.value.id}) (maskOf {val.right.value.id})", "bools")
            if isinstance(val, ast.Compare) and len(val.ops) == 1 and isinstance(val.ops[0], ast.NotEq) and self.is_mask(val.left) \
                    and self.is_mask(val.comparators[0]):
                return self.bind(ind, name, f"bxor (maskOf {val.left.value.id}) (maskOf {val.comparators[0].value.id})", "bools")
            if is_call(val, "great_circle_distance") and [src(a) for a in val.args] == ["lat", "lon"] and not val.keywords:
                self.uses_hops = True
                return self.bind(ind, name, "greatCircle hops lon.length", "marr")
            if src(val) == f"{name}.flatten()":
                return
            if name == "tinp" and src(val) == "mapdates(tinp).flatten()":
                return
            if src(val) == NORMALISE.format(name):
                return self.bind(ind, name, f"ofInput {name}", "marr")
            if is_call(val, "span") and len(val.args) == 1 and isinstance(val.args[0], ast.Starred) and is_call(val.args[0].value, "sorted") \
                    and isinstance(val.args[0].value.args[0], ast.Name):
                self.kind[name] = "span"
                self.declared.add(name)
                return self.emit(ind, f"let {name} ← sortedSpan {val.args[0].value.args[0].id}")
            if is_call(val, "np.ma.ones") and src(val.args[0]).endswith(".size"):
                return self.bind(ind, name, f"ones {src(val.args[0])[:-5]}.length", "flags")
            return self.bind(ind, name, self.aexpr(val), "marr")
        if isinstance(tgt, ast.Subscript) and isinstance(tgt.value, ast.Name):
            a = tgt.value.id
            k = self.kind.get(a)
            sl = tgt.slice
            if k == "flags":
                f = self.flag(val)
                if isinstance(sl, ast.Attribute) and sl.attr == "mask" and isinstance(sl.value, ast.Name) and self.kind.get(sl.value.id) == "marr":
                    return self.emit(ind, f"{a} := setWhere {a} (maskOf {sl.value.id}) {f}")
                if isinstance(sl, ast.Name) and self.kind.get(sl.id) == "bools":
                    return self.emit(ind, f"{a} := setWhere {a} {sl.id} {f}")
                if isinstance(sl, ast.Name) and self.kind.get(sl.id) == "idx":
                    return self.emit(ind, f"{a} := setIdx {a} {sl.id} {f}")
                if isinstance(sl, ast.Constant) and sl.value == 0 and not isinstance(sl.value, bool):
                    return self.emit(ind, f"{a} ← setAt0 {a} {f}")
                if isinstance(sl, ast.Slice):
                    lo = None if sl.lower is None else src(sl.lower)
                    hi = None if sl.upper is None else src(sl.upper)
                    if (lo, hi) == (None, "1"):
                        return self.emit(ind, f"{a} := setFirst {a} {f}")
                    if (lo, hi) == ("-1", None):
                        return self.emit(ind, f"{a} := setLast {a} {f}")
                    raise Untranslatable(f"flag slice {src(tgt)}")
                return self.emit(ind, f"{a} := setWhereB {a} ({self.bexpr(sl)}) {f}")
            if k == "marr" and isinstance(sl, ast.Slice):
                lo = None if sl.lower is None else src(sl.lower)
                hi = None if sl.upper is None else src(sl.upper)
                if (lo, hi) == ("1", "-1"):
                    return self.emit(ind, f"{a} := setInner {a} {self.atom(val)}")
                if (lo, hi) == ("1", None):
                    return self.emit(ind, f"{a} := setTail {a} {self.atom(val)}")
                raise Untranslatable(f"array slice {src(tgt)}")
        # flag_arr[:-1][cond] = X / flag_arr[1:][cond] = X : writes through a view of the flag array
        if isinstance(tgt, ast.Subscript) and isinstance(tgt.value, ast.Subscript) and isinstance(tgt.value.value, ast.Name) \
                and self.kind.get(tgt.value.value.id) == "flags" and self.slice_of(tgt.value) in ("init1", "tail1"):
            a, view, f = tgt.value.value.id, self.slice_of(tgt.value), self.flag(val)
            back = {"init1": "setInit1", "tail1": "setTail"}[view]
            c = tgt.slice
            if self.slice_of(c) in ("init1", "tail1") and isinstance(c.value, ast.Name) and self.kind.get(c.value.id) == "bools":
                return self.emit(ind, f"{a} := {back} {a} (setWhere ({view} {a}) ({self.slice_of(c)} {c.value.id}) {f})")
            return self.emit(ind, f"{a} := {back} {a} (setWhereB ({view} {a}) ({self.bexpr(c)}) {f})")
        # diff[1:-1][cond] = 0 : a write through a view
        if isinstance(tgt, ast.Subscript) and isinstance(tgt.value, ast.Subscript) and isinstance(tgt.value.value, ast.Name) \
                and self.kind.get(tgt.value.value.id) == "marr" and self.slice_of(tgt.value) == "inner" \
                and isinstance(val, ast.Constant) and val.value == 0:
            a = tgt.value.value.id
            return self.emit(ind, f"{a} := setInner {a} (setZeroWhereB (tail1 (init1 {a})) ({self.bexpr(tgt.slice)}))")
        raise Untranslatable(f"assignment {src(tgt)} = {src(val)[:60]}")

    def if_stmt(self, st, ind):  # noqa: C901, PLR0911, PLR0912
        t = st.test
        # --- valid_range_test: the dtype of the carrier.  `if dtype is None and hasattr(...): dtype = ... elif ...: dtype = ...` only
        # determines `dtype`; `if dtype is None: <guess the type> else: <body>` — the model's carriers have a dtype: the else branch.
        if src(t).startswith("dtype is None and hasattr("):
            node, ok = st, True
            while True:
                ok = ok and all(isinstance(b, ast.Assign) and src(b.targets[0]) == "dtype" for b in node.body)
                if len(node.orelse) == 1 and isinstance(node.orelse[0], ast.If) and src(node.orelse[0].test).startswith("dtype is None and hasattr("):
                    node = node.orelse[0]
                else:
                    ok = ok and not node.orelse
                    break
            if ok:
                return None
            raise Untranslatable("dtype determination")
        if src(t) == "dtype is None" and st.orelse:
            return self.block(st.orelse, ind)
        # if a.size == 0: / if a.size < 2:
        if isinstance(t, ast.Compare) and len(t.ops) == 1 and type(t.ops[0]) in (ast.Eq, ast.Lt) and src(t.left).endswith(".size") \
                and isinstance(t.comparators[0], ast.Constant) and isinstance(t.comparators[0].value, int) and not st.orelse:
            self.emit(ind, f"if {src(t.left)[:-5]}.length {'==' if isinstance(t.ops[0], ast.Eq) else '<'} {t.comparators[0].value} then")
            return self.block(st.body, ind + 1)
        # if len(a) < k:
        if isinstance(t, ast.Compare) and len(t.ops) == 1 and isinstance(t.ops[0], ast.Lt) and is_call(t.left, "len") and isinstance(t.left.args[0], ast.Name) \
                and self.kind.get(t.left.args[0].id) == "marr" and isinstance(t.comparators[0], ast.Constant) and not st.orelse:
            self.emit(ind, f"if {t.left.args[0].id}.length < {t.comparators[0].value} then")
            return self.block(st.body, ind + 1)
        # if any(c):
        if is_call(t, "any") and len(t.args) == 1 and isinstance(t.args[0], ast.Name) and self.kind.get(t.args[0].id) == "barr" and not st.orelse:
            self.emit(ind, f"if anyB {t.args[0].id} then")
            return self.block(st.body, ind + 1)
        # if sign < 0:  (a float scalar)
        if isinstance(t, ast.Compare) and len(t.ops) == 1 and isinstance(t.ops[0], ast.Lt) and isinstance(t.left, ast.Name) \
                and self.kind.get(t.left.id) == "fl" and src(t.comparators[0]) == "0" and not st.orelse:
            self.emit(ind, f"if {t.left.id}.ltS 0 then")
            return self.block(st.body, ind + 1)
        # if not isnan(valid_span[k]):
        if isinstance(t, ast.UnaryOp) and isinstance(t.op, ast.Not) and is_call(t.operand, "isnan") and len(t.operand.args) == 1 and not st.orelse:
            e = t.operand.args[0]
            if isinstance(e, ast.Subscript) and src(e.value) == "valid_span" and src(e.slice) in ("0", "1"):
                k = src(e.slice)
                self.bound_elems = {**getattr(self, "bound_elems", {}), src(e): f"valid_span_{k}"}
                self.emit(ind, f"if let some valid_span_{k} := valid_span.{int(k) + 1} then")
                return self.block(st.body, ind + 1)
            raise Untranslatable(f"if {src(t)}")
        # if flag is True: ... else: ...
        if isinstance(t, ast.Compare) and len(t.ops) == 1 and isinstance(t.ops[0], ast.Is) and isinstance(t.left, ast.Name) \
                and t.left.id in ("start_inclusive", "end_inclusive") and src(t.comparators[0]) == "True" and st.orelse:
            self.emit(ind, f"if {t.left.id} = true then")
            self.block(st.body, ind + 1)
            self.emit(ind, "else")
            return self.block(st.orelse, ind + 1)
        # if a.shape != b.shape or a.shape != c.shape: raise
        if isinstance(t, ast.BoolOp) and isinstance(t.op, ast.Or) and not st.orelse and all(
                isinstance(c, ast.Compare) and len(c.ops) == 1 and isinstance(c.ops[0], ast.NotEq) and src(c.left).endswith(".shape")
                and src(c.comparators[0]).endswith(".shape") for c in t.values):
            self.emit(ind, "if " + " || ".join(f"{src(c.left)[:-6]}.length != {src(c.comparators[0])[:-6]}.length" for c in t.values) + " then")
            return self.block(st.body, ind + 1)
        # if x is not None:
        if isinstance(t, ast.Compare) and isinstance(t.ops[0], ast.IsNot) and isinstance(t.left, ast.Name) and src(t.comparators[0]) == "None" \
                and t.left.id in self.optional and not st.orelse:
            self.emit(ind, f"if let some {t.left.id} := {t.left.id} then")
            return self.block(st.body, ind + 1)
        # if bbox is not None:  (the default is a tuple; an explicit None is outside the model's domain) -> inlined
        if isinstance(t, ast.Compare) and isinstance(t.ops[0], ast.IsNot) and src(t.left) == "bbox" and src(t.comparators[0]) == "None" \
                and "bbox" not in self.optional and not st.orelse:
            return self.block(st.body, ind)
        # if a.shape != b.shape: raise
        if isinstance(t, ast.Compare) and isinstance(t.ops[0], ast.NotEq) and src(t.left).endswith(".shape") and src(t.comparators[0]).endswith(".shape") \
                and not st.orelse:
            self.emit(ind, f"if {src(t.left)[:-6]}.length != {src(t.comparators[0])[:-6]}.length then")
            return self.block(st.body, ind + 1)
        # if x is not None and a.size > 1:
        if isinstance(t, ast.BoolOp) and isinstance(t.op, ast.And) and len(t.values) == 2 and not st.orelse:
            c0, c1 = t.values
            if (isinstance(c0, ast.Compare) and isinstance(c0.ops[0], ast.IsNot) and isinstance(c0.left, ast.Name) and c0.left.id in self.optional
                    and src(c0.comparators[0]) == "None" and isinstance(c1, ast.Compare) and isinstance(c1.ops[0], ast.Gt)
                    and src(c1.left).endswith(".size") and isinstance(c1.comparators[0], ast.Constant)):
                self.emit(ind, f"if let some {c0.left.id} := {c0.left.id} then")
                self.emit(ind + 1, f"if {src(c1.left)[:-5]}.length > {c1.comparators[0].value} then")
                return self.block(st.body, ind + 2)
            raise Untranslatable(f"if {src(t)}")
        # if a.size != b.size: raise
        if isinstance(t, ast.Compare) and isinstance(t.ops[0], ast.NotEq) and src(t.left).endswith(".size") and src(t.comparators[0]).endswith(".size") \
                and not st.orelse:
            self.emit(ind, f"if {src(t.left)[:-5]}.length != {src(t.comparators[0])[:-5]}.length then")
            return self.block(st.body, ind + 1)
        # if <span comparison> or <span comparison>: raise
        if isinstance(t, ast.BoolOp) and isinstance(t.op, ast.Or) and not st.orelse:
            parts = []
            for c in t.values:
                if not (isinstance(c, ast.Compare) and len(c.ops) == 1 and type(c.ops[0]) in (ast.Lt, ast.Gt)):
                    raise Untranslatable(f"condition {src(c)}")
                parts.append(f"{self.scalar(c.left)} {'<' if isinstance(c.ops[0], ast.Lt) else '>'} {self.scalar(c.comparators[0])}")
            self.emit(ind, f"if {' || '.join(parts)} then")
            return self.block(st.body, ind + 1)
        # if method == "...": ... elif ...: ... else: ...
        if isinstance(t, ast.Compare) and isinstance(t.ops[0], ast.Eq) and isinstance(t.left, ast.Name) and t.left.id == "method" \
                and isinstance(t.comparators[0], ast.Constant) and isinstance(t.comparators[0].value, str):
            # locals first assigned inside the branches are declared before the `if`
            chain, node = [], st
            while True:
                chain.append(node)
                if len(node.orelse) == 1 and isinstance(node.orelse[0], ast.If):
                    node = node.orelse[0]
                else:
                    break
            fresh = []
            for nd in chain:
                for v in self.assigned_in(nd.body):
                    if v not in self.declared and v not in fresh:
                        fresh.append(v)
            for v in fresh:
                self.declared.add(v)
                self.kind[v] = "marr"
                self.emit(ind, f"let mut {v} : MArr := []")
            for i, nd in enumerate(chain):
                tt = nd.test
                if not (isinstance(tt, ast.Compare) and isinstance(tt.ops[0], ast.Eq) and src(tt.left) == "method"
                        and isinstance(tt.comparators[0], ast.Constant)):
                    raise Untranslatable(f"elif {src(tt)}")
                self.emit(ind, f'{"if" if i == 0 else "else if"} method = "{tt.comparators[0].value}" then')
                self.block(nd.body, ind + 1)
            if chain[-1].orelse:
                self.emit(ind, "else")
                self.block(chain[-1].orelse, ind + 1)
            return None
        raise Untranslatable(f"if {src(t)}")

    def run(self):
        self.uses_hops = False
        self.uses_junk = False
        self.block(self.fn.body, 1)
        sig = " ".join(f"({p} : {self.param_type(p)})" for p in self.params if p != "dtype") + (" (hops : List V)" if self.uses_hops else "") \
            + (" (junk : List Fl)" if self.uses_junk else "")
        head = f"def {self.fn.name} {sig} : Res := do"
        return head + "\n" + "\n".join(self.lines) + "\n"


# ------------------------------------------------------------------------------------------------------------------------------
# ClimatologyConfig.check + climatology_test: a `for` loop over the members with a `continue`, masked / plain boolean index algebra
# ------------------------------------------------------------------------------------------------------------------------------
class TrClim:
    """kinds: "rats" (a time / period column), "marr", "pb" (plain bool array), "mb" (masked bool array), "flags"."""

    SPANS = {"tspan", "vspan", "fspan", "zspan"}

    def __init__(self, tree):
        self.tree = tree
        self.lines = []
        self.kind = {"tinp": "times", "inp": "marr", "zinp": "marr"}
        self.opt = {}                      # span name -> local name bound by `if let some`
        self.declared = set()

    def emit(self, ind, text):
        self.lines.append("  " * ind + text)

    def scalar(self, e):
        # m.<span>.minv / .maxv
        if isinstance(e, ast.Attribute) and e.attr in ("minv", "maxv") and isinstance(e.value, ast.Attribute) and src(e.value.value) == "m" \
                and e.value.attr in self.SPANS:
            sp = e.value.attr
            base = self.opt.get(sp) if sp in ("fspan", "zspan") else f"m.{sp}"
            if base is None:
                raise Untranslatable(f"{src(e)} outside `if not isnan(m.{sp})`")
            return f"{base}.{1 if e.attr == 'minv' else 2}"
        raise Untranslatable(f"scalar {src(e)}")

    def bexpr(self, e):
        """-> (lean text, kind in {"pb", "mb"})"""
        if isinstance(e, ast.Name) and self.kind.get(e.id) in ("pb", "mb"):
            return e.id, self.kind[e.id]
        if isinstance(e, ast.UnaryOp) and isinstance(e.op, ast.Invert):
            if isinstance(e.operand, ast.Attribute) and e.operand.attr == "mask" and self.kind.get(src(e.operand.value)) == "marr":
                return f"notP (maskOf {src(e.operand.value)})", "pb"
            if is_call(e.operand, "np.isnan") and src(e.operand.args[0]).endswith(".data") and self.kind.get(src(e.operand.args[0])[:-5]) == "marr":
                return f"notP (isnanData {src(e.operand.args[0])[:-5]})", "pb"
            t, k = self.bexpr(e.operand)
            return (f"notP ({t})", "pb") if k == "pb" else (f"notB {self.par(t)}", "mb")
        if isinstance(e, ast.Compare) and len(e.ops) == 1 and isinstance(e.left, ast.Name):
            k = self.kind.get(e.left.id)
            if k == "rats":
                op = {ast.GtE: "geR", ast.LtE: "leR"}.get(type(e.ops[0]))
                if op:
                    return f"{op} {e.left.id} {self.scalar(e.comparators[0])}", "pb"
            if k == "marr":
                op = {ast.Lt: "ltS", ast.Gt: "gtS", ast.GtE: "geS", ast.LtE: "leS"}.get(type(e.ops[0]))
                if op:
                    return f"{op} {e.left.id} {self.scalar(e.comparators[0])}", "mb"
        if isinstance(e, ast.BinOp) and isinstance(e.op, (ast.BitAnd, ast.BitOr)):
            (a, ka), (b, kb) = self.bexpr(e.left), self.bexpr(e.right)
            if isinstance(e.op, ast.BitAnd):
                if ka == kb == "pb":
                    return f"band {self.par(a)} {self.par(b)}", "pb"
                a = a if ka == "mb" else f"plainB {self.par(a)}"
                b = b if kb == "mb" else f"plainB {self.par(b)}"
                return f"andB {self.par(a)} {self.par(b)}", "mb"
            if ka == kb == "mb":
                return f"bor {self.par(a)} {self.par(b)}", "mb"
        if is_call(e, "np.ma.array") and not e.args and {k.arg for k in e.keywords} == {"data", "mask", "fill_value"}:
            kw = {k.arg: k.value for k in e.keywords}
            d, kd = self.bexpr(kw["data"])
            if kd == "pb" and isinstance(kw["mask"], ast.Attribute) and kw["mask"].attr == "mask" and self.kind.get(src(kw["mask"].value)) == "marr":
                return f"zipMask {self.par(d)} (maskOf {src(kw['mask'].value)})", "mb"
        if is_call(e, "np.zeros") and len(e.args) == 1 and src(e.args[0]).endswith(".size") and [(k.arg, src(k.value)) for k in e.keywords] == [("dtype", "bool")]:
            return f"List.replicate {src(e.args[0])[:-5]}.length false", "pb"
        raise Untranslatable(f"boolean expression {src(e)}")

    @staticmethod
    def par(t):
        return t if " " not in t else f"({t})"

    def flag(self, e):
        if isinstance(e, ast.Attribute) and src(e.value) in ("QartodFlags", "FLAGS") and e.attr in FLAG:
            return FLAG[e.attr]
        raise Untranslatable(f"flag {src(e)}")

    def not_isnan_span(self, t):
        """`not isnan(m.<span>)` -> span name"""
        if isinstance(t, ast.UnaryOp) and isinstance(t.op, ast.Not) and is_call(t.operand, "isnan") and len(t.operand.args) == 1:
            a = t.operand.args[0]
            if isinstance(a, ast.Attribute) and src(a.value) == "m" and a.attr in ("fspan", "zspan"):
                return a.attr
        return None

    def assign_both(self, st, ind, name, lean_type):
        """if/else whose branches each assign `name` (possibly nested): declare first, then assign in the branches."""
        self.emit(ind, f"let mut {name} : {lean_type} := []")
        self.declared.add(name)

    def block(self, stmts, ind):
        for st in stmts:
            self.stmt(st, ind)

    def set_var(self, ind, name, text, kind):
        want = self.kind.get(name)
        if name in self.declared:
            if want == "mb" and kind == "pb":
                text = f"plainB {self.par(text)}"
            return self.emit(ind, f"{name} := {text}")
        self.kind[name] = kind
        self.declared.add(name)
        return self.emit(ind, f"let mut {name} := {text}")

    def stmt(self, st, ind):  # noqa: C901, PLR0911, PLR0912
        if isinstance(st, ast.With) and all(src(i.context_expr).startswith("np.errstate(") for i in st.items):
            return self.block(st.body, ind)
        if isinstance(st, ast.Continue):
            return self.emit(ind, "continue")
        if isinstance(st, ast.Return) and isinstance(st.value, ast.Name) and self.kind.get(st.value.id) == "flags":
            return self.emit(ind, f"return {st.value.id}")
        if isinstance(st, ast.Expr) and is_call(st.value, "flag_arr.fill") and len(st.value.args) == 1:
            return self.emit(ind, f"flag_arr := fillFlags flag_arr {self.flag(st.value.args[0])}")
        if isinstance(st, ast.For) and src(st.target) == "m" and src(st.iter) == "self._members" and not st.orelse:
            self.emit(ind, "for m in members do")
            return self.block(st.body, ind + 1)
        if isinstance(st, ast.Assign) and len(st.targets) == 1:
            tgt, val = st.targets[0], st.value
            if isinstance(tgt, ast.Name):
                name = tgt.id
                if src(val) == "np.ma.empty(inp.size, dtype='uint8')":
                    self.kind[name] = "flags"
                    self.declared.add(name)
                    return self.emit(ind, f"let mut {name} := emptyFlags inp.length")
                if name == "tinp_copy":
                    if src(val) == "pd.Index(tinp.isocalendar().week, dtype='int64')":
                        return self.emit(ind, "tinp_copy := isoWeekOf periodOf tinp")
                    if src(val) == "getattr(tinp, m.period).to_numpy()" and self.opt.get("period"):
                        return self.emit(ind, f"tinp_copy := attrOf periodOf {self.opt['period']} tinp")
                    if src(val) == "tinp":
                        return self.emit(ind, "tinp_copy := asInstants tinp")
                    raise Untranslatable(f"tinp_copy = {src(val)}")
                t, k = self.bexpr(val)
                return self.set_var(ind, name, t, k)
            if isinstance(tgt, ast.Subscript) and isinstance(tgt.value, ast.Name) and self.kind.get(tgt.value.id) == "flags":
                a, sl = tgt.value.id, tgt.slice
                if isinstance(sl, ast.Attribute) and sl.attr == "mask" and self.kind.get(src(sl.value)) == "marr":
                    return self.emit(ind, f"{a} := setWhere {a} (maskOf {src(sl.value)}) {self.flag(val)}")
                t, k = self.bexpr(sl)
                if k != "mb":
                    raise Untranslatable(f"index {src(sl)}")
                return self.emit(ind, f"{a} := setWhereB {a} {self.par(t)} {self.flag(val)}")
        if isinstance(st, ast.If):
            t = st.test
            # if m.period is not None: <week / attribute> else: tinp_copy = tinp
            if src(t) == "m.period is not None" and st.orelse:
                self.emit(ind, "let mut tinp_copy : List Rat := []")
                self.kind["tinp_copy"] = "rats"
                self.declared.add("tinp_copy")
                self.opt["period"] = "period"
                self.emit(ind, "if let some period := m.period then")
                self.block(st.body, ind + 1)
                self.opt.pop("period")
                self.emit(ind, "else")
                return self.block(st.orelse, ind + 1)
            if src(t) == "m.period in WEEK_PERIODS" and st.orelse and self.opt.get("period"):
                self.check_week_periods()
                self.emit(ind, "if period = Period.week then")
                self.block(st.body, ind + 1)
                self.emit(ind, "else")
                return self.block(st.orelse, ind + 1)
            if src(t) == "not isnan(m.zspan) and (not zinp.count() or isnan(zinp.any()))" and not st.orelse:
                self.emit(ind, "if m.zspan.isSome && noneUnmasked zinp then")
                return self.block(st.body, ind + 1)
            sp = self.not_isnan_span(t)
            if sp and st.orelse:
                # both branches assign one masked-boolean variable
                names = {src(n.targets[0]) for b in (st.body, st.orelse) for n in ast.walk(ast.Module(body=b, type_ignores=[]))
                         if isinstance(n, ast.Assign)}
                if len(names) != 1:
                    raise Untranslatable(f"if {src(t)}: assigns {names}")
                name = names.pop()
                self.emit(ind, f"let mut {name} : BArr := []")
                self.kind[name] = "mb"
                self.declared.add(name)
                self.opt[sp] = sp
                self.emit(ind, f"if let some {sp} := m.{sp} then")
                self.block(st.body, ind + 1)
                self.opt.pop(sp)
                self.emit(ind, "else")
                return self.block(st.orelse, ind + 1)
        raise Untranslatable(f"statement {src(st)[:80]}")

    def check_week_periods(self):
        for n in self.tree.body:
            if isinstance(n, ast.Assign) and src(n.targets[0]) == "WEEK_PERIODS":
                if sorted(ast.literal_eval(n.value)) == ["week", "weekofyear"]:
                    return
        raise Untranslatable("WEEK_PERIODS is not ['week', 'weekofyear'] (the two spellings the model reads as Period.week)")

    def run(self):
        cls = next(n for n in self.tree.body if isinstance(n, ast.ClassDef) and n.name == "ClimatologyConfig")
        chk = next(n for n in cls.body if isinstance(n, ast.FunctionDef) and n.name == "check")
        if [a.arg for a in chk.args.args] != ["self", "tinp", "inp", "zinp"]:
            raise Untranslatable("signature of ClimatologyConfig.check")
        self.block([s_ for s_ in chk.body if not (isinstance(s_, ast.Expr) and isinstance(s_.value, ast.Constant))], 1)
        head = ("def climatology_check (periodOf : Period → Int → Int) (members : List Member) (tinp : List Int) (inp : MArr) (zinp : MArr)"
                " : Res := do")
        check = head + "\n" + "\n".join(self.lines) + "\n"
        # the wrapper: conversions of the carriers are dropped (C15's subject); `config.check(...)` is the method above
        fn = next(n for n in self.tree.body if isinstance(n, ast.FunctionDef) and n.name == "climatology_test")
        if [a.arg for a in fn.args.args] != ["config", "inp", "tinp", "zinp"]:
            raise Untranslatable("signature of climatology_test")
        out = []
        for st in fn.body:
            t = src(st)
            if isinstance(st, ast.Expr) and isinstance(st.value, ast.Constant):
                continue
            if t in ("config = ClimatologyConfig.convert(config)", "tinp = mapdates(tinp)", "original_shape = inp.shape",
                     "tinp = pd.DatetimeIndex(tinp.flatten())", "inp = inp.flatten()", "zinp = zinp.flatten()"):
                continue
            if isinstance(st, ast.With) and src(st.items[0].context_expr) == "warnings.catch_warnings()":
                for b in st.body:
                    tb = src(b)
                    if tb == "warnings.simplefilter('ignore')":
                        continue
                    for v in ("inp", "zinp"):
                        if tb == f"{v} = " + NORMALISE.format(v):
                            out.append(f"  let {v} := ofInput {v}")
                            break
                    else:
                        raise Untranslatable(f"climatology_test: {tb[:60]}")
                continue
            if t == "flag_arr = config.check(tinp, inp, zinp)":
                out.append("  let mut flag_arr ← climatology_check periodOf config tinp inp zinp")
                continue
            if t == "return flag_arr.reshape(original_shape)":
                out.append("  return flag_arr")
                continue
            raise Untranslatable(f"climatology_test: {t[:60]}")
        head2 = ("def climatology_test (periodOf : Period → Int → Int) (config : List Member) (inp : List V) (tinp : List Int) (zinp : List V)"
                 " : Res := do")
        return check + "\n" + head2 + "\n" + "\n".join(out) + "\n"


# ------------------------------------------------------------------------------------------------------------------------------
# attenuated_signal_test: dispatch on check_type / test_period / min_obs / min_period; five ordered assignments on the statistics
# ------------------------------------------------------------------------------------------------------------------------------
WINDOW_FUNC_PTP = ast.unparse(ast.parse('''
def window_func(w):
    try:
        return w.apply(np.ptp, raw=True, engine="numba")
    except (ImportError, TypeError, NumbaTypeError):
        return w.apply(np.ptp, raw=True)
''').body[0])
MEDIAN_STEP = "np.median(np.diff(tinp)).astype('timedelta64[s]').astype(float)"


class TrAtten:
    def __init__(self, fn):
        self.fn = fn
        self.lines = []

    def emit(self, ind, text):
        self.lines.append("  " * ind + text)

    def flag(self, e):
        if isinstance(e, ast.Attribute) and src(e.value) in ("QartodFlags", "FLAGS") and e.attr in FLAG:
            return FLAG[e.attr]
        raise Untranslatable(f"flag {src(e)}")

    def func_branch(self, body, ind):
        """the statements that choose window_func / check_func in one branch of the check_type dispatch"""
        for st in body:
            if isinstance(st, ast.Assign) and src(st.targets[0]) == "window_func" and src(st.value) == "lambda x: x.std()":
                self.emit(ind, "window_func := WinFunc.std")
            elif isinstance(st, ast.FunctionDef) and st.name == "window_func":
                if ast.unparse(ast.FunctionDef(name=st.name, args=st.args, body=[b for b in st.body if not (isinstance(b, ast.Expr) and isinstance(b.value, ast.Constant))],
                                               decorator_list=[], returns=None, type_comment=None, lineno=0, col_offset=0, **({"type_params": []} if hasattr(st, "type_params") else {}))) != WINDOW_FUNC_PTP:
                    raise Untranslatable("window_func (range) is not in the form read as WinFunc.ptp")
                self.emit(ind, "window_func := WinFunc.ptp")
            elif isinstance(st, ast.Assign) and src(st.targets[0]) == "check_func" and src(st.value) in ("np.std", "np.ptp"):
                self.emit(ind, f"check_func := CheckFunc.{src(st.value)[3:]}")
            elif isinstance(st, ast.Assign) and src(st.targets[0]) == "msg":
                continue
            elif isinstance(st, ast.Raise) and is_call(st.exc, "ValueError"):
                self.emit(ind, "throw .value")
            else:
                raise Untranslatable(f"check_type branch: {src(st)[:60]}")

    def run(self):  # noqa: C901, PLR0912, PLR0915
        want = ["inp", "tinp", "suspect_threshold", "fail_threshold", "test_period", "min_obs", "min_period", "check_type"]
        if [a.arg for a in self.fn.args.args] != want or [src(d) for d in self.fn.args.defaults[:3]] != ["None", "None", "None"]:
            raise Untranslatable("signature of attenuated_signal_test")
        body = [s_ for s_ in self.fn.body if not (isinstance(s_, ast.Expr) and isinstance(s_.value, ast.Constant))]
        it = iter(body)
        st = next(it)
        # 1. dispatch on check_type
        if not (isinstance(st, ast.If) and src(st.test) == "check_type == 'std'" and len(st.orelse) == 1 and isinstance(st.orelse[0], ast.If)
                and src(st.orelse[0].test) == "check_type == 'range'" and st.orelse[0].orelse):
            raise Untranslatable("check_type dispatch")
        self.emit(1, "let mut window_func := WinFunc.std")
        self.emit(1, "let mut check_func := CheckFunc.std")
        self.emit(1, 'if check_type = "std" then')
        self.func_branch(st.body, 2)
        self.emit(1, 'else if check_type = "range" then')
        self.func_branch(st.orelse[0].body, 2)
        self.emit(1, "else")
        self.func_branch(st.orelse[0].orelse, 2)
        for st in it:
            t = src(st)
            if t in ("tinp = mapdates(tinp)", "original_shape = inp.shape"):
                continue
            if isinstance(st, ast.With) and src(st.items[0].context_expr) == "warnings.catch_warnings()":
                rest = [src(b) for b in st.body if src(b) != "warnings.simplefilter('ignore')"]
                if rest != ["inp = " + NORMALISE.format("inp")]:
                    raise Untranslatable(f"normalisation: {rest}")
                self.emit(1, "let inp := ofInput inp")
                continue
            if t == "flag_arr = np.full((inp.size,), QartodFlags.UNKNOWN)":
                self.emit(1, "let mut flag_arr := List.replicate inp.length Flag.unknown")
                continue
            if isinstance(st, ast.If) and src(st.test) == "inp.size == 0" and not st.orelse and [src(b) for b in st.body] == ["return flag_arr.reshape(original_shape)"]:
                self.emit(1, "if inp.length == 0 then")
                self.emit(2, "return flag_arr")
                continue
            if isinstance(st, ast.If) and src(st.test) == "test_period" and st.orelse:
                self.emit(1, "let mut check_val : List Stat := []")
                self.emit(1, "if let some test_period := test_period then")
                self.windowed(st.body, 2)
                self.emit(1, "else")
                rest = [src(b) for b in st.orelse]
                if rest != ["series = inp.flatten()", "check_val = np.ones_like(flag_arr) * check_func(series)"]:
                    raise Untranslatable(f"whole-series branch: {rest}")
                self.emit(2, "check_val := List.replicate flag_arr.length (wholeApply check_func inp)")
                continue
            if isinstance(st, ast.Assign) and isinstance(st.targets[0], ast.Subscript) and src(st.targets[0].value) == "flag_arr":
                sl, f = st.targets[0].slice, self.flag(st.value)
                if isinstance(sl, ast.Compare) and len(sl.ops) == 1 and src(sl.left) == "check_val" and isinstance(sl.comparators[0], ast.Name) \
                        and sl.comparators[0].id in ("suspect_threshold", "fail_threshold") and type(sl.ops[0]) in (ast.GtE, ast.Lt):
                    self.emit(1, f"flag_arr := setWhere flag_arr ({'statGe' if isinstance(sl.ops[0], ast.GtE) else 'statLt'} check_val {sl.comparators[0].id}) {f}")
                    continue
                if src(sl) == "np.isnan(check_val)":
                    self.emit(1, f"flag_arr := setWhere flag_arr (statIsNan check_val) {f}")
                    continue
                if src(sl) == "inp.mask":
                    self.emit(1, f"flag_arr := setWhere flag_arr (maskOf inp) {f}")
                    continue
            if t == "return flag_arr.reshape(original_shape)":
                self.emit(1, "return flag_arr")
                continue
            raise Untranslatable(f"statement {t[:80]}")
        head = ("def attenuated_signal_test (inp : List V) (tinp : List Int) (suspect_threshold : Rat) (fail_threshold : Rat) "
                "(test_period : Option Rat) (min_obs : Option Nat) (min_period : Option Rat) (check_type : String) : Res := do")
        return head + "\n" + "\n".join(self.lines) + "\n"

    def windowed(self, body, ind):
        st = body[0]
        if not (isinstance(st, ast.If) and src(st.test) == "min_obs is not None" and [src(b) for b in st.body] == ["min_periods = min_obs"]
                and len(st.orelse) == 1 and isinstance(st.orelse[0], ast.If) and src(st.orelse[0].test) == "min_period is not None"
                and [src(b) for b in st.orelse[0].body] == ["time_interval = " + MEDIAN_STEP, "min_periods = (min_period / time_interval).astype(int)"]
                and [src(b) for b in st.orelse[0].orelse] == ["min_periods = None"]):
            raise Untranslatable("min_periods dispatch")
        self.emit(ind, "let mut min_periods : Option Nat := none")
        self.emit(ind, "if let some min_obs := min_obs then")
        self.emit(ind + 1, "min_periods := some min_obs")
        self.emit(ind, "else if let some min_period := min_period then")
        self.emit(ind + 1, "let mut time_interval := medianStep tinp")
        self.emit(ind + 1, "min_periods := some (ratioFloor min_period time_interval)")
        self.emit(ind, "else")
        self.emit(ind + 1, "min_periods := none")
        rest = [src(b) for b in body[1:]]
        if rest != ["series = pd.Series(inp.flatten(), index=tinp.flatten())", "windows = series.rolling(f'{test_period}s', min_periods=min_periods)",
                    "check_val = window_func(windows)"]:
            raise Untranslatable(f"rolling window: {rest}")
        self.emit(ind, "check_val := rollingApply window_func min_periods inp tinp test_period")


# ------------------------------------------------------------------------------------------------------------------------------
# stores.column_from_collected_result + PandasStore.save: a loop whose body only re-binds the frame -> a fold, one `let` per statement
# ------------------------------------------------------------------------------------------------------------------------------
class TrStore:
    FIELD = {"stream_id": "stream", "package": "package", "test": "test", "function": "fn", "results": "results", "data": "data",
             "tinp": "tinp", "zinp": "zinp", "lon": "lon", "lat": "lat"}

    def __init__(self, tree):
        self.tree = tree

    def column_fn(self):
        fn = next(n for n in self.tree.body if isinstance(n, ast.FunctionDef) and n.name == "column_from_collected_result")
        body = [src(b) for b in fn.body if not (isinstance(b, ast.Expr) and isinstance(b.value, ast.Constant))]
        want = ["stream_label = f'{cr.stream_id}.' if cr.stream_id else ''", "package_label = f'{cr.package}.' if cr.package else ''",
                "test_label = f'{cr.test}' if cr.test else ''", "return cf_safe_name(f'{stream_label}{package_label}{test_label}')"]
        if [a.arg for a in fn.args.args] != ["cr"] or body != want:
            raise Untranslatable(f"column_from_collected_result: {body}")
        return ("def column_from_collected_result (cr : StoreRes) : String :=\n"
                "  let stream_label := dotted cr.stream\n"
                "  let package_label := dotted cr.package\n"
                "  let test_label := cr.test\n"
                "  String.ofList (cfSafeName (stream_label ++ package_label ++ test_label).toList)\n")

    def run(self):  # noqa: C901
        cls = next(n for n in self.tree.body if isinstance(n, ast.ClassDef) and n.name == "PandasStore")
        fn = next(n for n in cls.body if isinstance(n, ast.FunctionDef) and n.name == "save")
        if [a.arg for a in fn.args.args] != ["self", "write_data", "write_axes", "include", "exclude"]:
            raise Untranslatable("signature of PandasStore.save")
        body = [b for b in fn.body if not (isinstance(b, ast.Expr) and isinstance(b.value, ast.Constant))]
        if not (len(body) == 3 and src(body[0]) == "df = pd.DataFrame()" and isinstance(body[1], ast.For) and src(body[1].target) == "cr"
                and src(body[1].iter) == "self.collected_results" and not body[1].orelse and src(body[2]) == "return df"):
            raise Untranslatable("shape of PandasStore.save")
        out = []
        for st in body[1].body:
            t = src(st.test) if isinstance(st, ast.If) else None
            stmts = [src(b) for b in getattr(st, "body", []) if not is_call(getattr(b, "value", None), "L.info")]
            m = t and re.fullmatch(r"write_axes is True and self\.axes\['(\w)'\] not in df and \(cr\.(\w+) is not None\) and \(cr\.(\w+)\.size != 0\)", t)
            if m and m.group(2) == m.group(3) and m.group(2) in ("tinp", "zinp", "lon", "lat") and not st.orelse \
                    and stmts == [f"df[self.axes['{m.group(1)}']] = cr.{m.group(2)}"]:
                k, a = m.group(1), m.group(2)
                out += [f"    let df := match cr.{a} with",
                        f"      | some {a} => if write_axes = true && !(df.has axes.{k}) then setCol df axes.{k} {a} else df",
                        "      | none => df"]
                continue
            if t == "include is not None and (cr.function not in include and cr.stream_id not in include and (cr.test not in include))" \
                    and [src(b) for b in st.body] == ["continue"] and not st.orelse:
                out += ["    if (match include_ with",
                        "        | some include_ => !(include_.contains cr.fn) && !(include_.contains cr.stream) && !(include_.contains cr.test)",
                        "        | none => false) then df       -- continue", "    else"]
                continue
            if t == "exclude is not None and (cr.function in exclude or cr.stream_id in exclude or cr.test in exclude)" \
                    and [src(b) for b in st.body] == ["continue"] and not st.orelse:
                out += ["    if (match exclude_ with",
                        "        | some exclude_ => exclude_.contains cr.fn || exclude_.contains cr.stream || exclude_.contains cr.test",
                        "        | none => false) then df       -- continue", "    else"]
                continue
            if t == "write_data and cr.stream_id not in df and cr.stream_id" and stmts == ["df[cr.stream_id] = cr.data"] and not st.orelse:
                out.append('    let df := if write_data && !(df.has cr.stream) && cr.stream != "" then setCol df cr.stream cr.data else df')
                continue
            if src(st) == "column_name = column_from_collected_result(cr)":
                out.append("    let column_name := column_from_collected_result cr")
                continue
            if t == "column_name not in df" and stmts == ["df[column_name] = cr.results"] \
                    and all(is_call(getattr(b, "value", None), "L.warning") for b in st.orelse):
                out.append("    let df := if !(df.has column_name) then setCol df column_name cr.results else df")
                continue
            raise Untranslatable(f"PandasStore.save: {src(st)[:80]}")
        head = ("def save (collected_results : List StoreRes) (axes : Axes) (write_data : Bool) (write_axes : Bool) "
                "(include_ : Option (List String)) (exclude_ : Option (List String)) : Frame :=\n  collected_results.foldl (fun df cr =>\n")
        return self.column_fn() + "\n" + head + "\n".join(out) + "\n    df) []\n"


# ------------------------------------------------------------------------------------------------------------------------------
# results.collect_results_dict: two nested loops filling a nested dict keyed by (stream id, package, test)
# ------------------------------------------------------------------------------------------------------------------------------
def translate_collect_dict():
    tree = ast.parse((REPO / "ioos_qc/results.py").read_text())
    fn = next(n for n in tree.body if isinstance(n, ast.FunctionDef) and n.name == "collect_results_dict")
    body = [b for b in fn.body if not (isinstance(b, ast.Expr) and isinstance(b.value, ast.Constant))]
    if not (len(body) == 3 and src(body[0]) == "collected = defaultdict(lambda: defaultdict(odict))" and isinstance(body[1], ast.For)
            and src(body[1].target) == "r" and src(body[1].iter) == "results" and src(body[2]) == "return collected"):
        raise Untranslatable("shape of collect_results_dict")
    # the code of QartodFlags.UNKNOWN, read from the class
    qt = ast.parse((REPO / "ioos_qc/qartod.py").read_text())
    cls = next(n for n in qt.body if isinstance(n, ast.ClassDef) and n.name == "QartodFlags")
    unknown = next((ast.literal_eval(n.value) for n in cls.body if isinstance(n, ast.Assign) and src(n.targets[0]) == "UNKNOWN"), None)
    if not isinstance(unknown, int):
        raise Untranslatable("QartodFlags.UNKNOWN")
    out = ["  let mut collected : DState := []", "  for r in results do"]
    key = "(r.stream, testpackage, testname)"
    pending_empty = False
    for st in body[1].body:
        t = src(st)
        if isinstance(st, ast.If) and src(st.test) == "isinstance(r, CallResult)" and src(st.body[-1]) == "continue" and not st.orelse:
            continue                         # results of QcConfig.run handed over directly: outside the stream pipeline
        if t == "flag_arr = np.ma.empty_like(r.subset_indexes, dtype='uint8')":
            pending_empty = True
            continue
        if t == "flag_arr.fill(QartodFlags.UNKNOWN)" and pending_empty:
            out.append(f"    let flag_arr := emptyLikeFilled r.subset {unknown}")
            pending_empty = False
            continue
        if isinstance(st, ast.For) and src(st.target) == "tr" and src(st.iter) == "r.results" and not st.orelse:
            out.append("    for tr in r.results do")
            for s2 in st.body:
                t2 = src(s2)
                if t2 in ("testpackage = tr.package", "testname = tr.test", "testresults = tr.results"):
                    out.append(f"      let {t2.split(' = ')[0]} := {t2.split(' = ')[1]}")
                elif isinstance(s2, ast.If) and src(s2.test) == "testname not in collected[r.stream_id][testpackage]" and not s2.orelse \
                        and [src(b) for b in s2.body] == ["collected[r.stream_id][testpackage][testname] = np.copy(flag_arr)"]:
                    out.append(f"      if !(dhas collected {key}) then")
                    out.append(f"        collected := dset collected {key} flag_arr")
                elif t2 == "collected[r.stream_id][testpackage][testname][r.subset_indexes] = testresults":
                    out.append(f"      collected := dset collected {key} (scatter (dget collected {key}) r.subset testresults)")
                else:
                    raise Untranslatable(f"collect_results_dict: {t2[:70]}")
            continue
        raise Untranslatable(f"collect_results_dict: {t[:70]}")
    out.append("  return collected")
    return "def collect_results_dict (results : List CR) : DState := Id.run do\n" + "\n".join(out) + "\n"


# ------------------------------------------------------------------------------------------------------------------------------
# config.Call.run: merge of the configured and the passed keywords, filter by the signature, try / except around the call
# ------------------------------------------------------------------------------------------------------------------------------
def translate_call_run():
    tree = ast.parse((REPO / "ioos_qc/config.py").read_text())
    cls = next(n for n in tree.body if isinstance(n, ast.ClassDef) and n.name == "Call")
    fn = next(n for n in cls.body if isinstance(n, ast.FunctionDef) and n.name == "run")
    if [a.arg for a in fn.args.args] != ["self"] or fn.args.kwarg is None or fn.args.kwarg.arg != "passedkwargs":
        raise Untranslatable("signature of Call.run")
    body = [b for b in fn.body if not (isinstance(b, ast.Expr) and isinstance(b.value, ast.Constant))]
    out = []
    for st in body:
        t = src(st)
        if t == "results = []":
            out.append("  let results : List β := []")
        elif t == "testkwargs = deepcopy(passedkwargs)":
            out.append("  let testkwargs := passedkwargs")
        elif t == "testkwargs = odict({**self.kwargs, **testkwargs})":
            out.append("  let testkwargs := dictMerge self_kwargs testkwargs")
        elif t == "sig = signature(self.func)":
            continue                                   # with the next statement: `valid_keywords` is a parameter of the model
        elif t == "valid_keywords = [p.name for p in sig.parameters.values() if p.kind == p.POSITIONAL_OR_KEYWORD]":
            continue
        elif t == "testkwargs = {k: v for k, v in testkwargs.items() if k in valid_keywords}":
            out.append("  let testkwargs := testkwargs.filter fun kv => valid_keywords.contains kv.1")
        elif isinstance(st, ast.Try) and len(st.handlers) == 1 and src(st.handlers[0].type) == "Exception" and not st.orelse and not st.finalbody:
            tb = [src(b) for b in st.body]
            want = "results.append(CallResult(package=self.module, test=self.method, function=self.func, results=self.func(**testkwargs)))"
            hb = st.handlers[0].body
            if tb != [want] or not all(isinstance(b, ast.Expr) and is_call(b.value, "L.error") for b in hb):
                raise Untranslatable(f"Call.run try block: {tb}")
            # the handler only logs; a log message built from plain attributes and the exception cannot raise
            for b in hb:
                for n in ast.walk(b):
                    if isinstance(n, (ast.Subscript, ast.Call)) and not is_call(n, "L.error"):
                        raise Untranslatable("Call.run: the except handler computes something besides the log message")
            out += ["  match self_func testkwargs with", "  | .ok r => results ++ [r]", "  | .error _ => results"]
        elif t == "return results":
            continue
        else:
            raise Untranslatable(f"Call.run: {t[:70]}")
    if src(body[-1]) != "return results" or not out[-1].startswith("  | .error"):
        raise Untranslatable("Call.run: shape")
    head = ("def Call_run {β : Type} (self_kwargs : KwArgs) (passedkwargs : KwArgs) (valid_keywords : List String) "
            "(self_func : KwArgs → Except Err β) : List β :=")
    return head + "\n" + "\n".join(out) + "\n"


# ------------------------------------------------------------------------------------------------------------------------------
# config.ContextConfig.__init__: the stream / package / test loops that extract the calls
# ------------------------------------------------------------------------------------------------------------------------------
def translate_context_calls():
    tree = ast.parse((REPO / "ioos_qc/config.py").read_text())
    cls = next(n for n in tree.body if isinstance(n, ast.ClassDef) and n.name == "ContextConfig")
    fn = next(n for n in cls.body if isinstance(n, ast.FunctionDef) and n.name == "__init__")
    loop = next((n for n in fn.body if isinstance(n, ast.For) and src(n.iter) == "self.config['streams'].items()"), None)
    if loop is None or src(loop.target) != "(stream_id, sc)" or loop.orelse or src(fn.body[-1]) != src(loop):
        raise Untranslatable("ContextConfig.__init__: the streams loop")
    out = ["  let mut calls : List CallSpec := []", "  for (stream_id, sc) in streamsOf config do"]
    if not (len(loop.body) == 1 and isinstance(loop.body[0], ast.For) and src(loop.body[0].target) == "(package, modules)"
            and src(loop.body[0].iter) == "sc.items()" and not loop.body[0].orelse):
        raise Untranslatable("ContextConfig.__init__: the package loop")
    out.append("    for (package, modules) in sc.items do")
    pb = loop.body[0].body
    if not (len(pb) == 2 and isinstance(pb[0], ast.Try) and [src(b) for b in pb[0].body] == ["testpackage = import_module(f'ioos_qc.{package}')"]
            and len(pb[0].handlers) == 1 and src(pb[0].handlers[0].type) == "ImportError" and src(pb[0].handlers[0].body[-1]) == "continue"
            and all(is_call(getattr(b, "value", None), "L.warning") for b in pb[0].handlers[0].body[:-1]) and not pb[0].orelse and not pb[0].finalbody):
        raise Untranslatable("ContextConfig.__init__: the import of the package")
    out += ["      if !(knownMod package) then", "        continue"]
    tl = pb[1]
    if not (isinstance(tl, ast.For) and src(tl.target) == "(testname, kwargs)" and src(tl.iter) == "modules.items()" and not tl.orelse):
        raise Untranslatable("ContextConfig.__init__: the test loop")
    out.append("      for (testname, kwargs) in modules.items do")
    for st in tl.body:
        t = src(st)
        if t == "kwargs = kwargs or {}":
            out.append("        let kwargs := orEmpty kwargs")
        elif isinstance(st, ast.If) and src(st.test) == "not hasattr(testpackage, testname)" and src(st.body[-1]) == "continue" and not st.orelse \
                and all(is_call(getattr(b, "value", None), "L.warning") for b in st.body[:-1]):
            out += ["        if !(known package testname) then", "          continue"]
        elif t == "runfunc = getattr(testpackage, testname)":
            continue
        elif t == "self._calls.append(Call(stream_id=stream_id, context=self.context, call=partial(runfunc, (), **kwargs), attrs=getattr(sc, 'attrs', {})))":
            out.append("        calls := calls ++ [⟨stream_id, package, testname, kwargs, window, region⟩]")
        else:
            raise Untranslatable(f"ContextConfig.__init__: {t[:70]}")
    out.append("  return calls")
    head = ("def ContextConfig_calls (knownMod : String → Bool) (known : String → String → Bool) (config : J) (window : J) (region : J) "
            ": List CallSpec := Id.run do")
    return head + "\n" + "\n".join(out) + "\n"

# ------------------------------------------------------------------------------------------------------------------------------
# config_creator.fx_parser: evaluate_stack (recursive, pops a list) and the evaluation half of eval_fx
# ------------------------------------------------------------------------------------------------------------------------------
FX_STATS = ("mean", "min", "max", "std")


def _lean_str(v):
    if not (isinstance(v, str) and v.isascii() and '"' not in v and "\\" not in v and v.isprintable()):
        raise Untranslatable(f"string literal {v!r}")
    return '"' + v + '"'


def translate_eval_fx():  # noqa: C901, PLR0912, PLR0915
    tree = ast.parse((REPO / "ioos_qc/config_creator/fx_parser.py").read_text())
    top = {n.name: n for n in tree.body if isinstance(n, ast.FunctionDef)}
    assigns = {src(n.targets[0]): n.value for n in tree.body if isinstance(n, ast.Assign) and len(n.targets) == 1}
    # the tables `opn` and `fn`
    opn, fnd = assigns.get("opn"), assigns.get("fn")
    if not (isinstance(opn, ast.Dict) and isinstance(fnd, ast.Dict)):
        raise Untranslatable("fx_parser: opn / fn tables")
    ops = []
    for k, v in zip(opn.keys, opn.values):
        if not (isinstance(k, ast.Constant) and isinstance(v, ast.Attribute) and src(v.value) == "operator"
                and v.attr in ("add", "sub", "mul", "truediv", "pow")):
            raise Untranslatable(f"opn entry {src(k)}: {src(v)}")
        ops.append(f"({_lean_str(k.value)}, .{v.attr})")
    if not all(isinstance(k, ast.Constant) for k in fnd.keys):
        raise Untranslatable("fn keys")
    fn_names = [_lean_str(k.value) for k in fnd.keys]
    if src(assigns.get("exprStack", ast.Constant(0))) != "[]":
        raise Untranslatable("exprStack")

    f = top.get("evaluate_stack")
    if f is None or [a.arg for a in f.args.args] != ["s", "stats"] or f.args.vararg or f.args.kwarg or f.args.defaults:
        raise Untranslatable("signature of evaluate_stack")
    rec = "self s"
    body = [b for b in f.body if not (isinstance(b, ast.Expr) and isinstance(b.value, ast.Constant))]
    out = []

    def cond(t):
        """an `if` test on the popped string"""
        if isinstance(t, ast.Compare) and len(t.ops) == 1 and src(t.left) == "op" and isinstance(t.comparators[0], ast.Constant) \
                and isinstance(t.comparators[0].value, str):
            lit = _lean_str(t.comparators[0].value)
            if isinstance(t.ops[0], ast.Eq):
                return f"op == {lit}"
            if isinstance(t.ops[0], ast.In):
                return f"strIn op {lit}"
        if src(t) == "op in fn":
            return "fnNames.contains op"
        if src(t) == "op[0].isalpha()":
            return "(← alpha0 op)"
        raise Untranslatable(f"evaluate_stack: test {src(t)[:60]}")

    def branch(stmts, ind):
        """the body of one branch"""
        pad = " " * ind
        names = []
        for st in stmts[:-1]:
            if isinstance(st, ast.Assign) and len(st.targets) == 1 and isinstance(st.targets[0], ast.Name) \
                    and src(st.value) == "evaluate_stack(s, stats)" and st.targets[0].id not in ("s", "stats", "op", "fuel"):
                names.append(st.targets[0].id)
                out.append(f"{pad}let ({st.targets[0].id}, s) ← {rec}")
            elif src(st) == "args = reversed([evaluate_stack(s, stats) for _ in range(num_args)])":
                names.append("args")                    # the arguments of a function call: a value outside ℚ follows
            else:
                raise Untranslatable(f"evaluate_stack: {src(st)[:70]}")
        last = stmts[-1]
        if isinstance(last, ast.Raise):
            out.append(f"{pad}.error .raised")
            return
        if not isinstance(last, ast.Return) or last.value is None:
            raise Untranslatable(f"evaluate_stack: {src(last)[:70]}")
        v = last.value
        t = src(v)
        if t == "-evaluate_stack(s, stats)" and not names:
            out.append(f"{pad}let (v, s) ← {rec}")
            out.append(f"{pad}return (-v, s)")
        elif isinstance(v, ast.Call) and src(v.func) == "opn[op]" and len(v.args) == 2 and not v.keywords \
                and all(isinstance(a, ast.Name) and a.id in names for a in v.args) and sorted(a.id for a in v.args) == sorted(names):
            out.append(f"{pad}let v ← (← lookupOp opn op).app {v.args[0].id} {v.args[1].id}")
            out.append(f"{pad}return (v, s)")
        elif t in ("math.pi", "math.e") and not names:
            out.append(f"{pad}.error .unmodelled")
        elif t == "fn[op](*args)" and names == ["args"]:
            out.append(f"{pad}.error .unmodelled")
        elif isinstance(v, ast.Subscript) and src(v.value) == "stats" and isinstance(v.slice, ast.Constant) and v.slice.value in FX_STATS and not names:
            out.append(f"{pad}return (stats .{v.slice.value}, s)")
        elif t == "float(op)" and not names:
            out.append(f"{pad}let v ← fromFloat (pyFloat op)")
            out.append(f"{pad}return (v, s)")
        else:
            raise Untranslatable(f"evaluate_stack: return {t[:60]}")

    def chain(st, ind, first=True):
        pad = " " * ind
        out.append(f"{pad}{'if' if first else 'else if'} {cond(st.test)} then")
        branch(st.body, ind + 2)
        if not st.orelse:
            if not first:
                raise Untranslatable("evaluate_stack: an elif chain without a final else")
            return
        if len(st.orelse) == 1 and isinstance(st.orelse[0], ast.If):
            chain(st.orelse[0], ind, first=False)
        else:
            out.append(f"{pad}else")
            branch(st.orelse, ind + 2)

    if len(body) < 3 or src(body[0]) != "op, num_args = (s.pop(), 0)":
        raise Untranslatable("evaluate_stack: the pop")
    if not (isinstance(body[1], ast.If) and src(body[1].test) == "isinstance(op, tuple)" and not body[1].orelse
            and [src(b) for b in body[1].body] == ["op, num_args = op"]):
        raise Untranslatable("evaluate_stack: the tuple test")
    out.append("    let (op, s) ← pop s")
    out.append("    let (op, num_args) := untuple op")
    rest = body[2:]
    for i, st in enumerate(rest):
        if not isinstance(st, ast.If):
            raise Untranslatable(f"evaluate_stack: {src(st)[:70]}")
        if st.orelse and i != len(rest) - 1:
            raise Untranslatable("evaluate_stack: an if / else before the last statement")
        if not st.orelse and not isinstance(st.body[-1], (ast.Return, ast.Raise)):
            raise Untranslatable("evaluate_stack: a branch that falls through")
        chain(st, 4)
    if not rest[-1].orelse:
        raise Untranslatable("evaluate_stack: falls off the end")

    e = top.get("eval_fx")
    eb = [b for b in (e.body if e else []) if not (isinstance(b, ast.Expr) and isinstance(b.value, ast.Constant))]
    if e is None or [a.arg for a in e.args.args] != ["fx", "stats"] or [src(b) for b in eb] != [
            "_ = BNF().parseString(fx, parseAll=True)", "val = evaluate_stack(exprStack[:], stats)", "return val"]:
        raise Untranslatable("eval_fx")
    return (f"def opn : List (String × Op2) := [{', '.join(ops)}]\n\n"
            f"def fnNames : List String := [{', '.join(fn_names)}]\n\n"
            "def evaluate_stack (pyFloat : String → Option Rat) (stats : StatName → Rat)\n"
            "    (self : List SE → FxR (Rat × List SE)) (s : List SE) : FxR (Rat × List SE) := do\n" + "\n".join(o[2:] for o in out) + "\n\n"
            "def eval_fx (pyFloat : String → Option Rat) (stats : StatName → Rat) (exprStack : List SE) : FxR Rat := do\n"
            "  let (val, _) ← tie (evaluate_stack pyFloat stats) (exprStack.length + 1) exprStack.reverse\n"
            "  return val\n")


def translate(name: str) -> str:
    if name == "eval_fx":
        return translate_eval_fx()
    if name == "ContextConfig_calls":
        return translate_context_calls()
    if name == "Call_run":
        return translate_call_run()
    if name == "collect_results_dict":
        return translate_collect_dict()
    if name == "save":
        return TrStore(ast.parse((REPO / "ioos_qc/stores.py").read_text())).run()
    if name == "attenuated_signal_test":
        tree = ast.parse((REPO / "ioos_qc/qartod.py").read_text())
        return TrAtten(next(n for n in tree.body if isinstance(n, ast.FunctionDef) and n.name == name)).run()
    if name == "climatology_test":
        return TrClim(ast.parse((REPO / "ioos_qc/qartod.py").read_text())).run()
    tree = ast.parse((REPO / FUNCS[name]).read_text())
    for node in tree.body:
        if isinstance(node, ast.FunctionDef) and node.name == name:
            return Tr(node).run()
    raise Untranslatable(f"function {name} not found")


if __name__ == "__main__":
    import sys

    for f in sys.argv[1:] or list(FUNCS):
        try:
            print(translate(f))
        except Untranslatable as e:
            print(f"-- {f}: untranslatable: {e}")
