/-
  C17 (second half) — locality: changing one observation changes only the flags inside the
  test's neighbourhood (`nbhd`): the point itself for the range, climatology and bounding-box
  tests, the point and its two neighbours for spike and density inversion, the point and its
  successor for rate of change, speed and hop distance, the points whose trailing window
  contains it for flat line and the windowed attenuated-signal test.
-/
import IoosQc.Lemmas.Basic
import IoosQc.Props.C17
import IoosQc.Lemmas.C17bHelpers
import IoosQc.Theorems.C03
import IoosQc.Theorems.C08
import IoosQc.Theorems.C12
set_option linter.unusedSimpArgs false
set_option linter.unusedVariables false

namespace IoosQc

/-! ### gross range, valid range -/

/-- Valid parameters ⇒ `gross_range_test` does not raise and maps a fixed pointwise function. -/
theorem c17b_gross_run (periodOf : Period → Int → Int) (fail : SeqArg) (suspect : Option SeqArg)
    (inp : List V) (hv : (TestCall.gross fail suspect inp).validParams periodOf = true) :
    ∃ g : V → Flag, ∀ inp' : List V, grossRange fail suspect inp' = .ok (inp'.map g) := by
  simp only [TestCall.validParams, TestCall.spec, grossSpec] at hv
  cases hseq : fail.isSeq <;> simp [hseq] at hv
  match hfv : fail.vals with
  | [] => simp [hfv] at hv
  | [_] => simp [hfv] at hv
  | _ :: _ :: _ :: _ => simp [hfv] at hv
  | [fa, fb] =>
    simp only [hfv] at hv
    cases suspect with
    | none =>
      refine ⟨grossAt (sort2 fa fb) none, fun inp' => ?_⟩
      simp [grossRange, fixedLength, hseq, hfv, bind, Except.bind, pure, Except.pure]
    | some s =>
      simp only [] at hv
      cases hs : s.isSeq <;> simp [hs] at hv
      match hsv : s.vals with
      | [] => simp [hsv] at hv
      | [_] => simp [hsv] at hv
      | _ :: _ :: _ :: _ => simp [hsv] at hv
      | [sa, sb] =>
        simp only [hsv] at hv
        have hc : ¬ (lo2 sa sb < lo2 fa fb ∨ hi2 fa fb < hi2 sa sb) := by
          intro h; simp [h] at hv
        refine ⟨grossAt (sort2 fa fb) (some (sort2 sa sb)), fun inp' => ?_⟩
        simp [grossRange, fixedLength, hseq, hfv, hs, hsv, sort2_eq, hc, bind, Except.bind, pure,
          Except.pure]

theorem C17_local_gross (periodOf : Period → Int → Int) (fail : SeqArg) (suspect : Option SeqArg)
    (inp : List V) (j : Nat) (v : V)
    (hv : (TestCall.gross fail suspect inp).validParams periodOf = true) :
    C17.holds (.perturb j v) (.gross fail suspect inp)
      ((TestCall.gross fail suspect inp).run periodOf).toObs
      ((TestCall.gross fail suspect (inp.set j v)).run periodOf).toObs = true := by
  obtain ⟨g, hg⟩ := c17b_gross_run periodOf fail suspect inp hv
  simp only [TestCall.run, hg]
  exact c17b_holds_map _ j _ rfl inp v g (by intro i h; simpa [nbhd] using h)

theorem C17_local_valid (periodOf : Period → Int → Int) (lo hi : V) (si ei : Bool)
    (inp : List V) (j : Nat) (v : V) :
    C17.holds (.perturb j v) (.valid lo hi si ei inp)
      ((TestCall.valid lo hi si ei inp).run periodOf).toObs
      ((TestCall.valid lo hi si ei (inp.set j v)).run periodOf).toObs = true := by
  simp only [TestCall.run, validRange]
  exact c17b_holds_map _ j _ rfl inp v _ (by intro i h; simpa [nbhd] using h)

/-! ### climatology -/

/-- The `noDepth` switch of the code is invisible at a point: a depth-banded member never
    matches a missing depth, skipped or not. -/
theorem c17b_climAt_noDepth (periodOf : Period → Int → Int) (ms : List Member) (nd1 nd2 : Bool)
    (t : Int) (x z : V) (h1 : nd1 = true → z = none) (h2 : nd2 = true → z = none) :
    climAt periodOf ms nd1 t x z = climAt periodOf ms nd2 t x z := by
  cases x with
  | none => rw [climAt_missing, climAt_missing]
  | some v => rw [climAt_present _ _ _ _ _ _ h1, climAt_present _ _ _ _ _ _ h2]

/-- Climatology, both perturbations: the value at `j` (`perturb`) and the depth at `j`
    (`perturbAux`; this one may flip the code's global `noDepth` switch). -/
theorem C17_local_climatology (periodOf : Period → Int → Int) (ms : List Member)
    (inp : List V) (t : List Int) (z : List V) (j : Nat) (v : V) :
    C17.holds (.perturb j v) (.climatology ms inp t z)
      ((TestCall.climatology ms inp t z).run periodOf).toObs
      ((TestCall.climatology ms (inp.set j v) t z).run periodOf).toObs = true ∧
    C17.holds (.perturbAux j v) (.climatology ms inp t z)
      ((TestCall.climatology ms inp t z).run periodOf).toObs
      ((TestCall.climatology ms inp t (z.set j v)).run periodOf).toObs = true := by
  constructor
  · simp only [TestCall.run, climatologyTest, List.length_set]
    refine c17b_holds_range _ j _ rfl _ _ _ (fun i hi hn => ?_)
    have hne : i ≠ j := by simpa [nbhd] using hn
    simp only [c17b_getV_set_ne inp j i v hne]
  · simp only [TestCall.run, climatologyTest]
    refine c17b_holds_range _ j _ rfl _ _ _ (fun i hi hn => ?_)
    have hne : i ≠ j := by simpa [nbhd] using hn
    simp only [c17b_getV_set_ne z j i v hne]
    exact c17b_climAt_noDepth periodOf ms _ _ _ _ _
      (fun hall => getV_of_all_none z i hall)
      (fun hall => by rw [← c17b_getV_set_ne z j i v hne]; exact getV_of_all_none _ i hall)

/-! ### spike -/

theorem c17b_spike_run (periodOf : Period → Int → Int) (method : String) (sus fail : Option Rat)
    (inp : List V) (hv : (TestCall.spike method sus fail inp).validParams periodOf = true) :
    ∃ m : SpikeMethod, ∀ inp' : List V,
      spikeTest method sus fail inp' = .ok ((List.range inp'.length).map (spikeAt m sus fail inp')) := by
  simp only [TestCall.validParams, TestCall.spec, spikeSpec] at hv
  unfold spikeTest
  by_cases h1 : method = "average"
  · exact ⟨.average, fun _ => by simp [h1]; rfl⟩
  · by_cases h2 : method = "differential"
    · exact ⟨.differential, fun _ => by simp [h1, h2]; rfl⟩
    · simp [h1, h2] at hv

theorem c17b_spikeAt_set (m : SpikeMethod) (sus fail : Option Rat) (xs : List V) (j i : Nat) (v : V)
    (h : ¬ (j ≤ i + 1 ∧ i ≤ j + 1)) :
    spikeAt m sus fail (xs.set j v) i = spikeAt m sus fail xs i := by
  unfold spikeAt spikeDiff
  simp only [List.length_set, c17b_getV_set_ne xs j i v (by omega),
    c17b_getV_set_ne xs j (i - 1) v (by omega), c17b_getV_set_ne xs j (i + 1) v (by omega)]

theorem C17_local_spike (periodOf : Period → Int → Int) (method : String) (sus fail : Option Rat)
    (inp : List V) (j : Nat) (v : V)
    (hv : (TestCall.spike method sus fail inp).validParams periodOf = true) :
    C17.holds (.perturb j v) (.spike method sus fail inp)
      ((TestCall.spike method sus fail inp).run periodOf).toObs
      ((TestCall.spike method sus fail (inp.set j v)).run periodOf).toObs = true := by
  obtain ⟨m, hm⟩ := c17b_spike_run periodOf method sus fail inp hv
  simp only [TestCall.run, hm, List.length_set]
  refine c17b_holds_range _ j _ rfl _ _ _ (fun i hi hn => ?_)
  have hne : ¬ (j ≤ i + 1 ∧ i ≤ j + 1) := by simpa [nbhd] using hn
  exact (c17b_spikeAt_set m sus fail inp j i v hne).symm

/-! ### rate of change -/

theorem c17b_rocAt_set (thr : Rat) (xs : List V) (ts : List Int) (j i : Nat) (v : V)
    (h1 : i ≠ j) (h2 : i ≠ j + 1) :
    rocAt thr (xs.set j v) ts i = rocAt thr xs ts i := by
  unfold rocAt rocRate
  simp only [c17b_getV_set_ne xs j i v h1, c17b_getV_set_ne xs j (i - 1) v (by omega)]

theorem C17_local_roc (periodOf : Period → Int → Int) (inp : List V) (t : List Int) (thr : Rat)
    (j : Nat) (v : V)
    (hv : (TestCall.roc inp t thr).validParams periodOf = true) :
    C17.holds (.perturb j v) (.roc inp t thr)
      ((TestCall.roc inp t thr).run periodOf).toObs
      ((TestCall.roc (inp.set j v) t thr).run periodOf).toObs = true := by
  have hlen : inp.length = t.length := by
    simp only [TestCall.validParams, TestCall.spec, rocSpec] at hv
    by_cases h : inp.length = t.length
    · exact h
    · simp [h] at hv
  simp only [TestCall.run, rocTest, List.length_set, hlen, bne_self_eq_false, Bool.false_eq_true,
    if_false]
  refine c17b_holds_range _ j _ rfl _ _ _ (fun i hi hn => ?_)
  have hne : i ≠ j ∧ i ≠ j + 1 := by simpa [nbhd] using hn
  exact (c17b_rocAt_set thr inp t j i v hne.1 hne.2).symm

/-! ### flat line -/

theorem c17b_flatHit_set (xs : List V) (k : Nat) (tol : Rat) (j i : Nat) (v : V)
    (h : i < j ∨ j + k < i) :
    flatHit (xs.set j v) k tol i = flatHit xs k tol i := by
  unfold flatHit
  by_cases hk : k ≤ i
  · rw [c17b_windowEnding_set xs j i k v hk h]
  · simp [hk]

theorem c17b_flatAt_set (ks kf : Nat) (tol : Rat) (xs : List V) (j i : Nat) (v : V)
    (h : i < j ∨ j + max ks kf < i) :
    flatAt ks kf tol (xs.set j v) i = flatAt ks kf tol xs i := by
  unfold flatAt
  rw [c17b_flatHit_set xs ks tol j i v (by omega), c17b_flatHit_set xs kf tol j i v (by omega),
    c17b_getV_set_ne xs j i v (by omega)]

theorem C17_local_flat (periodOf : Period → Int → Int) (inp : List V) (t : List Int)
    (sus fail tol : Rat) (j : Nat) (v : V) :
    C17.holds (.perturb j v) (.flatLine inp t sus fail tol)
      ((TestCall.flatLine inp t sus fail tol).run periodOf).toObs
      ((TestCall.flatLine (inp.set j v) t sus fail tol).run periodOf).toObs = true := by
  simp only [TestCall.run, flatLineTest, List.length_set]
  by_cases hn3 : inp.length < 3
  · simp only [hn3, if_true]
    exact c17b_holds_map _ j _ rfl inp v _ (by intro i h; simpa [nbhd, hn3] using h)
  · simp only [hn3, if_false]
    refine c17b_holds_range _ j _ rfl _ _ _ (fun i hi hn => ?_)
    have hne : ¬ (j ≤ i ∧ i ≤ j + max (flatCount sus (medianStep t)) (flatCount fail (medianStep t))) := by
      simpa [nbhd, hn3] using hn
    exact (c17b_flatAt_set _ _ tol inp j i v (by omega)).symm

/-! ### attenuated signal (windowed) -/

theorem c17b_windowStat_set (ct : CheckType) (minp : Nat) (xs : List V) (ts : List Int) (P : Rat)
    (j i : Nat) (v : V) (h : j ∉ trailing ts P i) :
    windowStat ct minp (xs.set j v) ts P i = windowStat ct minp xs ts P i := by
  unfold windowStat
  rw [c17b_getV_set_all xs j v _ h]

theorem c17b_atten_run (periodOf : Period → Int → Int) (checkType : String) (inp : List V)
    (ts : List Int) (sus fail P : Rat) (minObs : Option Nat) (minPeriod : Option Rat)
    (hv : (TestCall.attenuated checkType inp ts sus fail (some P) minObs minPeriod).validParams
            periodOf = true) :
    ∃ ct : CheckType, ∀ inp' : List V,
      attenuatedTest checkType inp' ts sus fail (some P) minObs minPeriod =
        .ok ((List.range inp'.length).map fun i =>
          attenAt (windowStat ct (max (attenMinp minObs minPeriod ts) 1) inp' ts P i) sus fail
            (getV inp' i)) := by
  simp only [TestCall.validParams, TestCall.spec, attenSpec] at hv
  unfold attenuatedTest
  by_cases h1 : checkType = "std"
  · exact ⟨.std, fun _ => by simp [h1]; rfl⟩
  · by_cases h2 : checkType = "range"
    · exact ⟨.range, fun _ => by simp [h1, h2]; rfl⟩
    · simp [h1, h2] at hv

/-- Windowed attenuated signal.  Needs `0 < P` (guaranteed by `inDom`): with `P ≤ 0` the
    trailing window `(t_i − P, t_i]` is empty, `nbhd` is empty, yet the flag at `i` still reads
    `x_i` (MISSING) — see `c17b_atten_needs_pos`. -/
theorem C17_local_atten (periodOf : Period → Int → Int) (checkType : String) (inp : List V)
    (t : List Int) (sus fail P : Rat) (minObs : Option Nat) (minPeriod : Option Rat)
    (j : Nat) (v : V) (hP : 0 < P)
    (hv : (TestCall.attenuated checkType inp t sus fail (some P) minObs minPeriod).validParams periodOf
            = true) :
    C17.holds (.perturb j v) (.attenuated checkType inp t sus fail (some P) minObs minPeriod)
      ((TestCall.attenuated checkType inp t sus fail (some P) minObs minPeriod).run periodOf).toObs
      ((TestCall.attenuated checkType (inp.set j v) t sus fail (some P) minObs minPeriod).run
        periodOf).toObs = true := by
  obtain ⟨ct, hct⟩ := c17b_atten_run periodOf checkType inp t sus fail P minObs minPeriod hv
  simp only [TestCall.run, hct, List.length_set]
  refine c17b_holds_range _ j _ rfl _ _ _ (fun i hi hn => ?_)
  have hnot : j ∉ trailing t P i := by simpa [nbhd] using hn
  have hne : i ≠ j := fun e => hnot (e ▸ trailing_self t P i hP)
  simp only [c17b_windowStat_set ct _ inp t P j i v hnot, c17b_getV_set_ne inp j i v hne]

/-- Machine-checked counterexample for `P ≤ 0` (outside `inDom`, but `validParams` holds):
    window empty ⇒ neighbourhood empty, but setting `x_0` to missing turns UNKNOWN into MISSING. -/
theorem c17b_atten_needs_pos :
    (TestCall.attenuated "range" [some 0, some 1] [0, 60] 1 (1/2) (some 0) none none).validParams
        IoosQc.periodOf = true ∧
    (TestCall.attenuated "range" [some 0, some 1] [0, 60] 1 (1/2) (some 0) none none).inDom = false ∧
    C17.holds (.perturb 0 none)
      (.attenuated "range" [some 0, some 1] [0, 60] 1 (1/2) (some 0) none none)
      ((TestCall.attenuated "range" [some 0, some 1] [0, 60] 1 (1/2) (some 0) none none).run
        IoosQc.periodOf).toObs
      ((TestCall.attenuated "range" ([some 0, some 1].set 0 none) [0, 60] 1 (1/2) (some 0) none
        none).run IoosQc.periodOf).toObs = false := by
  decide +kernel

/-! ### density inversion -/

theorem c17b_densDelta_set_rho (rho z : List V) (j k : Nat) (v : V) (h1 : k ≠ j) (h2 : k + 1 ≠ j) :
    densDelta (rho.set j v) z k = densDelta rho z k := by
  unfold densDelta
  rw [c17b_getV_set_ne rho j k v h1, c17b_getV_set_ne rho j (k + 1) v h2]

theorem c17b_densDelta_set_z (rho z : List V) (j k : Nat) (v : V) (h1 : k ≠ j) (h2 : k + 1 ≠ j) :
    densDelta rho (z.set j v) k = densDelta rho z k := by
  unfold densDelta
  rw [c17b_getV_set_ne z j k v h1, c17b_getV_set_ne z j (k + 1) v h2]

theorem c17b_densAt_set_rho (sus fail : Option Rat) (rho z : List V) (j i : Nat) (v : V)
    (h : ¬ (j ≤ i + 1 ∧ i ≤ j + 1)) :
    densAt sus fail (rho.set j v) z i = densAt sus fail rho z i := by
  unfold densAt densPairBelow recMissing
  simp only [List.length_set, c17b_densDelta_set_rho rho z j i v (by omega) (by omega),
    c17b_densDelta_set_rho rho z j (i - 1) v (by omega) (by omega),
    c17b_getV_set_ne rho j i v (by omega), c17b_getV_set_ne rho j (i - 1) v (by omega)]

theorem c17b_densAt_set_z (sus fail : Option Rat) (rho z : List V) (j i : Nat) (v : V)
    (h : ¬ (j ≤ i + 1 ∧ i ≤ j + 1)) :
    densAt sus fail rho (z.set j v) i = densAt sus fail rho z i := by
  unfold densAt densPairBelow recMissing
  simp only [c17b_densDelta_set_z rho z j i v (by omega) (by omega),
    c17b_densDelta_set_z rho z j (i - 1) v (by omega) (by omega),
    c17b_getV_set_ne z j i v (by omega), c17b_getV_set_ne z j (i - 1) v (by omega)]

/-- Density inversion, both perturbations: the density at `j` (`perturb`) and the depth at `j`
    (`perturbAux`). -/
theorem C17_local_density (periodOf : Period → Int → Int) (rho z : List V) (sus fail : Option Rat)
    (j : Nat) (v : V)
    (hv : (TestCall.density rho z sus fail).validParams periodOf = true) :
    C17.holds (.perturb j v) (.density rho z sus fail)
      ((TestCall.density rho z sus fail).run periodOf).toObs
      ((TestCall.density (rho.set j v) z sus fail).run periodOf).toObs = true ∧
    C17.holds (.perturbAux j v) (.density rho z sus fail)
      ((TestCall.density rho z sus fail).run periodOf).toObs
      ((TestCall.density rho (z.set j v) sus fail).run periodOf).toObs = true := by
  have hlen : rho.length = z.length := by
    simp only [TestCall.validParams, TestCall.spec, densSpec] at hv
    by_cases h : rho.length = z.length
    · exact h
    · simp [h] at hv
  constructor
  · simp only [TestCall.run, densityTest, List.length_set, hlen, bne_self_eq_false,
      Bool.false_eq_true, if_false]
    by_cases h0 : z.length = 0
    · simp only [hlen, h0, if_true]; exact c17b_holds_refl (.perturb j v) j _ rfl _
    · by_cases h1 : z.length < 2
      · simp only [hlen, h0, h1, if_true, if_false]; exact c17b_holds_refl (.perturb j v) j _ rfl _
      · simp only [hlen, h0, h1, if_false]
        refine c17b_holds_range (.perturb j v) j _ rfl _ _ _ (fun i hi hn => ?_)
        have hne : ¬ (j ≤ i + 1 ∧ i ≤ j + 1) := by simpa [nbhd] using hn
        exact (c17b_densAt_set_rho sus fail rho z j i v hne).symm
  · simp only [TestCall.run, densityTest, List.length_set, hlen, bne_self_eq_false,
      Bool.false_eq_true, if_false]
    by_cases h0 : z.length = 0
    · simp only [hlen, h0, if_true]; exact c17b_holds_refl (.perturbAux j v) j _ rfl _
    · by_cases h1 : z.length < 2
      · simp only [hlen, h0, h1, if_true, if_false]; exact c17b_holds_refl (.perturbAux j v) j _ rfl _
      · simp only [hlen, h0, h1, if_false]
        refine c17b_holds_range (.perturbAux j v) j _ rfl _ _ _ (fun i hi hn => ?_)
        have hne : ¬ (j ≤ i + 1 ∧ i ≤ j + 1) := by simpa [nbhd] using hn
        exact (c17b_densAt_set_z sus fail rho z j i v hne).symm

/-! ### location, speed -/

theorem c17b_location_run (periodOf : Period → Int → Int) (lon lat : List V) (bbox : SeqArg)
    (r : Option Rat) (hops : List V)
    (hv : (TestCall.location lon lat bbox r hops).validParams periodOf = true) :
    lon.length = lat.length ∧ ∃ b : Box, ∀ lon' lat' hops' : List V, lon'.length = lat'.length →
      locationTest lon' lat' bbox r hops' =
        .ok ((List.range lon'.length).map fun i =>
          locationAt b r lon'.length (getV lon' i) (getV lat' i) (hopAt hops' i)) := by
  simp only [TestCall.validParams, TestCall.spec, locSpec] at hv
  cases hseq : bbox.isSeq <;> simp [hseq] at hv
  match hbv : bbox.vals with
  | [] => simp [hbv] at hv
  | [_] => simp [hbv] at hv
  | [_, _] => simp [hbv] at hv
  | [_, _, _] => simp [hbv] at hv
  | _ :: _ :: _ :: _ :: _ :: _ => simp [hbv] at hv
  | [x0, y0, x1, y1] =>
    simp only [hbv] at hv
    have hlen : lon.length = lat.length := by
      by_cases h : lon.length = lat.length
      · exact h
      · simp [h] at hv
    refine ⟨hlen, ⟨x0, y0, x1, y1⟩, fun lon' lat' hops' hl => ?_⟩
    simp [locationTest, fixedLength, hseq, hbv, hl, bind, Except.bind, pure, Except.pure]

/-- Bounding box / hop distance: a new position at `j` together with a hop list that agrees with
    the old one except on the two hops touching `j`. -/
theorem C17_local_location (periodOf : Period → Int → Int) (lon lat : List V) (bbox : SeqArg)
    (r : Option Rat) (hops : List V) (j : Nat) (x y : V) (hops' : List V)
    (ha : hopsAgreeExcept j hops hops' = true)
    (hv : (TestCall.location lon lat bbox r hops).validParams periodOf = true) :
    C17.holds (.perturbPos j x y hops') (.location lon lat bbox r hops)
      ((TestCall.location lon lat bbox r hops).run periodOf).toObs
      ((TestCall.location (lon.set j x) (lat.set j y) bbox r hops').run periodOf).toObs = true := by
  obtain ⟨hlen, b, hb⟩ := c17b_location_run periodOf lon lat bbox r hops hv
  simp only [TestCall.run, hb lon lat hops hlen,
    hb (lon.set j x) (lat.set j y) hops' (by simp [hlen]), List.length_set]
  refine c17b_holds_range (.perturbPos j x y hops') j _ rfl _ _ _ (fun i hi hn => ?_)
  have hne : i ≠ j ∧ i ≠ j + 1 := by simpa [nbhd] using hn
  simp only [c17b_getV_set_ne lon j i x hne.1, c17b_getV_set_ne lat j i y hne.1,
    c17b_hopAt_agree j hops hops' ha i hn]

theorem c17b_speedAt_set (sus fail : Rat) (lon lat : List V) (ts : List Int) (hops hops' : List V)
    (j i : Nat) (x y : V) (ha : hopsAgreeExcept j hops hops' = true)
    (hn : nbhd (.roc [] [] 0) j i = false) :
    speedAt sus fail (lon.set j x) (lat.set j y) ts hops' i = speedAt sus fail lon lat ts hops i := by
  have hne : i ≠ j ∧ i ≠ j + 1 := by simpa [nbhd] using hn
  unfold speedAt
  simp only [c17b_getV_set_ne lon j i x hne.1, c17b_getV_set_ne lat j i y hne.1,
    c17b_hopAt_agree j hops hops' ha i hn]

/-- Speed: the same perturbation as for location. -/
theorem C17_local_speed (periodOf : Period → Int → Int) (lon lat : List V) (t : List Int)
    (sus fail : Rat) (hops : List V) (j : Nat) (x y : V) (hops' : List V)
    (ha : hopsAgreeExcept j hops hops' = true)
    (hv : (TestCall.speed lon lat t sus fail hops).validParams periodOf = true) :
    C17.holds (.perturbPos j x y hops') (.speed lon lat t sus fail hops)
      ((TestCall.speed lon lat t sus fail hops).run periodOf).toObs
      ((TestCall.speed (lon.set j x) (lat.set j y) t sus fail hops').run periodOf).toObs = true := by
  have hlen : lon.length = lat.length ∧ lon.length = t.length := by
    simp only [TestCall.validParams, TestCall.spec, speedSpec] at hv
    by_cases h : lon.length = lat.length ∧ lon.length = t.length
    · exact h
    · have : (lon.length != lat.length || lon.length != t.length) = true := by
        simp only [Bool.or_eq_true, bne_iff_ne]; omega
      simp [this] at hv
  have hg : (lat.length != lat.length || lat.length != t.length) = false := by
    simp [← hlen.1, hlen.2]
  simp only [TestCall.run, speedTest, List.length_set, hlen.1, hg, Bool.false_eq_true, if_false]
  by_cases h0 : lat.length = 0
  · simp only [h0, if_true]; exact c17b_holds_refl (.perturbPos j x y hops') j _ rfl _
  · by_cases h1 : lat.length < 2
    · simp only [h0, h1, if_true, if_false]
      exact c17b_holds_refl (.perturbPos j x y hops') j _ rfl _
    · simp only [h0, h1, if_false]
      refine c17b_holds_range (.perturbPos j x y hops') j _ rfl _ _ _ (fun i hi hn => ?_)
      exact (c17b_speedAt_set sus fail lon lat t hops hops' j i x y ha hn).symm

/-! ### All tests -/

/-- The one side condition locality needs beyond valid parameters: a windowed attenuated-signal
    test has a positive window (`test_period > 0`).  `inDom` implies it. -/
def c17b_periodPos : TestCall → Bool
  | .attenuated _ _ _ _ _ (some P) _ _ => decide (0 < P)
  | _ => true

theorem c17b_periodPos_of_inDom (c : TestCall) (hd : c.inDom = true) : c17b_periodPos c = true := by
  cases c with
  | attenuated ct inp t s f p mo mp =>
    cases p with
    | none => rfl
    | some P =>
      simp only [TestCall.inDom, Bool.and_eq_true] at hd
      simpa [c17b_periodPos] using hd.1.2
  | _ => rfl

/-- C17 locality: for every perturbation transform `t` (perturb / perturbAux / perturbPos), every
    call `c` for which it is defined, with valid parameters and — for the windowed
    attenuated-signal test — a positive window, the model's flags outside the neighbourhood are
    unchanged.  (`c17b_atten_needs_pos`: the statement is false for a window `P ≤ 0`.) -/
theorem C17_locality_of_periodPos (periodOf : Period → Int → Int) (t : Transform) (j : Nat)
    (c c' : TestCall)
    (hp : isPerturb t = some j) (ht : applyT t c = some c')
    (hv : c.validParams periodOf = true) (hpos : c17b_periodPos c = true) :
    C17.holds t c (c.run periodOf).toObs (c'.run periodOf).toObs = true := by
  cases t with
  | perturb j' v =>
    cases c with
    | gross f s inp =>
      simp only [applyT, Option.some.injEq] at ht; subst ht
      exact C17_local_gross periodOf f s inp j' v hv
    | valid lo hi si ei inp =>
      simp only [applyT, Option.some.injEq] at ht; subst ht
      exact C17_local_valid periodOf lo hi si ei inp j' v
    | climatology ms inp ts z =>
      simp only [applyT, Option.some.injEq] at ht; subst ht
      exact (C17_local_climatology periodOf ms inp ts z j' v).1
    | spike m s f inp =>
      simp only [applyT, Option.some.injEq] at ht; subst ht
      exact C17_local_spike periodOf m s f inp j' v hv
    | roc inp ts thr =>
      simp only [applyT, Option.some.injEq] at ht; subst ht
      exact C17_local_roc periodOf inp ts thr j' v hv
    | flatLine inp ts s f tol =>
      simp only [applyT, Option.some.injEq] at ht; subst ht
      exact C17_local_flat periodOf inp ts s f tol j' v
    | attenuated ct inp ts s f p mo mp =>
      cases p with
      | none => simp [applyT] at ht
      | some P =>
        simp only [applyT, Option.some.injEq] at ht; subst ht
        exact C17_local_atten periodOf ct inp ts s f P mo mp j' v
          (by simpa [c17b_periodPos] using hpos) hv
    | density rho z s f =>
      simp only [applyT, Option.some.injEq] at ht; subst ht
      exact (C17_local_density periodOf rho z s f j' v hv).1
    | location lon lat b r h => simp [applyT] at ht
    | pressure p => simp [applyT] at ht
    | speed lon lat ts s f h => simp [applyT] at ht
  | perturbAux j' v =>
    cases c with
    | climatology ms inp ts z =>
      simp only [applyT, Option.some.injEq] at ht; subst ht
      exact (C17_local_climatology periodOf ms inp ts z j' v).2
    | density rho z s f =>
      simp only [applyT, Option.some.injEq] at ht; subst ht
      exact (C17_local_density periodOf rho z s f j' v hv).2
    | _ => simp [applyT] at ht
  | perturbPos j' x y h' =>
    cases c with
    | location lon lat b r h =>
      simp only [applyT] at ht
      by_cases ha : hopsAgreeExcept j' h h' = true
      · simp only [ha, if_true, Option.some.injEq] at ht; subst ht
        exact C17_local_location periodOf lon lat b r h j' x y h' ha hv
      · simp [ha] at ht
    | speed lon lat ts s f h =>
      simp only [applyT] at ht
      by_cases ha : hopsAgreeExcept j' h h' = true
      · simp only [ha, if_true, Option.some.injEq] at ht; subst ht
        exact C17_local_speed periodOf lon lat ts s f h j' x y h' ha hv
      · simp [ha] at ht
    | _ => simp [applyT] at ht
  | _ => simp [isPerturb] at hp

/-- C17 locality on the input domain (`inDom` gives the positive window). -/
theorem C17_locality (periodOf : Period → Int → Int) (t : Transform) (j : Nat) (c c' : TestCall)
    (hp : isPerturb t = some j) (ht : applyT t c = some c')
    (hv : c.validParams periodOf = true) (hd : c.inDom = true) :
    C17.holds t c (c.run periodOf).toObs (c'.run periodOf).toObs = true :=
  C17_locality_of_periodPos periodOf t j c c' hp ht hv (c17b_periodPos_of_inDom c hd)

/-! ### Non-vacuity -/

/-- Spike: perturbing position 3 of a 7-point series changes the flags exactly at 2..4
    (GOOD → FAIL / SUSPECT there), nothing at 0, 1, 5, 6; the hypotheses of `C17_locality` hold
    on that call. -/
example :
    let c := TestCall.spike "average" (some 1) (some 3) [some 0, some 0, some 0, some 0, some 0, some 0, some 0]
    applyT (.perturb 3 (some 8)) c
        = some (.spike "average" (some 1) (some 3) [some 0, some 0, some 0, some 8, some 0, some 0, some 0]) ∧
    c.validParams IoosQc.periodOf = true ∧ c.inDom = true ∧
    (c.run IoosQc.periodOf).toObs = .flags [2, 1, 1, 1, 1, 1, 2] ∧
    ((TestCall.spike "average" (some 1) (some 3)
        [some 0, some 0, some 0, some 8, some 0, some 0, some 0]).run IoosQc.periodOf).toObs
      = .flags [2, 1, 4, 4, 4, 1, 2] ∧
    (List.range 7).map (nbhd c 3) = [false, false, true, true, true, false, false] := by
  decide +kernel

/-- The predicate is not trivially true: the same two outputs do NOT satisfy `C17.holds` for a
    perturbation claimed at position 0 (whose neighbourhood is {0, 1}). -/
example :
    C17.holds (.perturb 0 (some 8))
      (.spike "average" (some 1) (some 3) [some 0, some 0, some 0, some 0, some 0, some 0, some 0])
      (.flags [2, 1, 1, 1, 1, 1, 2]) (.flags [2, 1, 4, 4, 4, 1, 2]) = false ∧
    C17.holds (.perturb 3 (some 8))
      (.spike "average" (some 1) (some 3) [some 0, some 0, some 0, some 0, some 0, some 0, some 0])
      (.flags [2, 1, 1, 1, 1, 1, 2]) (.flags [2, 1, 4, 4, 4, 1, 2]) = true := by
  decide +kernel

/-- Windowed attenuated signal (window 120 s = two points): perturbing position 2 changes the
    flags at 2 and 3 only; `nbhd` is exactly {2, 3}. -/
example :
    let c := TestCall.attenuated "range" [some 0, some 2, some 0, some 2, some 0, some 2]
      [0, 60, 120, 180, 240, 300] 1 (1/2) (some 120) none none
    c.validParams IoosQc.periodOf = true ∧ c.inDom = true ∧
    (c.run IoosQc.periodOf).toObs = .flags [4, 1, 1, 1, 1, 1] ∧
    ((TestCall.attenuated "range" [some 0, some 2, some 2, some 2, some 0, some 2]
      [0, 60, 120, 180, 240, 300] 1 (1/2) (some 120) none none).run IoosQc.periodOf).toObs
      = .flags [4, 1, 4, 4, 1, 1] ∧
    (List.range 6).map (nbhd c 2) = [false, false, true, true, false, false] := by
  decide +kernel

end IoosQc
