/-
  IoosQc.Theorems.NpSrc4 — `qartod_compare`: the source-shaped transcription (two nested `for`
  loops writing through `np.where` index arrays) equals the model `qartodCompare` of
  `Model/Aggregate.lean` (about which C04's theorems are proved).

    C04_src_compare    NpSrc.qartod_compare = qartodCompare
-/
import IoosQc.Model.NpAgg
import IoosQc.Theorems.NpSrc2
set_option linter.unusedSimpArgs false
set_option linter.unusedVariables false

namespace IoosQc.NpSrc
open IoosQc.Np

theorem mem_whereEq (v : List IoosQc.Cell) (p : Flag) (i : Nat) :
    i ∈ whereEq v p ↔ v.getD i .masked = .flag p := by
  simp only [whereEq, List.mem_filter, List.mem_range, beq_iff_eq]
  constructor
  · exact fun h => h.2
  · intro h
    refine ⟨?_, h⟩
    by_cases hl : i < v.length
    · exact hl
    · have : v.getD i .masked = .masked := by
        rw [List.getD_eq_getElem?_getD]
        have : v[i]? = none := by simp; omega
        simp [this]
      rw [this] at h; cases h

/-- the inner loop for one priority, at one position -/
theorem getElem?_inner (vs : List (List IoosQc.Cell)) (p : Flag) (r : List Flag) (i : Nat) :
    (vs.foldl (fun r v => setIdx r (whereEq v p) p) r)[i]? = (r[i]?).map fun a => passFor p a (column vs i) := by
  induction vs generalizing r with
  | nil => simp [passFor, column]
  | cons v vs ih =>
    simp only [List.foldl_cons, ih, getElem?_setIdx, mem_whereEq, passFor, column, List.map_cons, List.foldl_cons]
    cases r[i]? <;> simp

theorem getElem?_outer (vs : List (List IoosQc.Cell)) (ps : List Flag) (r : List Flag) (i : Nat) :
    (ps.foldl (fun r p => vs.foldl (fun r v => setIdx r (whereEq v p) p) r) r)[i]?
      = (r[i]?).map fun a => ps.foldl (fun acc p => passFor p acc (column vs i)) a := by
  induction ps generalizing r with
  | nil => simp
  | cons p ps ih =>
    simp only [List.foldl_cons, ih, getElem?_inner]
    cases r[i]? <;> simp

/-- The translator's `qartod_compare` is the model the aggregation theorems (C04) are about. -/
theorem C04_src_compare (vs : List (List IoosQc.Cell)) : qartod_compare vs = qartodCompare vs := by
  unfold qartod_compare qartodCompare
  cases vs with
  | nil => simp [maEmpty, bind, Except.bind, throw, throwThe, MonadExceptOf.throw]
  | cons v rest =>
    by_cases hall : rest.all (fun w => w.length == v.length) = true
    · have hall' : (List.map (fun v => v.length) (v :: rest)).all (fun s => some s == (List.map (fun v => v.length) (v :: rest))[0]?) = true := by
        simp only [List.all_eq_true, List.mem_map] at hall ⊢
        rintro x ⟨w, hw, rfl⟩
        rcases List.mem_cons.mp hw with rfl | hw
        · simp
        · have := hall w hw; simp at this; simp [this]
      simp only [hall', Bool.not_true, Bool.false_eq_true, if_false, pure_bind, hall, if_true]
      simp only [List.map_cons, List.getElem?_cons_zero, maEmpty, pure_bind, List.forIn_pure_yield_eq_foldl, bind_pure_comp,
        map_pure, fillWith]
      simp only [pure, Except.pure]
      congr 1
      apply List.ext_getElem?
      intro i
      have h5 := getElem?_outer (v :: rest) [Flag.missing, Flag.unknown, Flag.good, Flag.suspect, Flag.fail]
        (List.map (fun _ => Flag.missing) (List.replicate v.length Flag.good)) i
      simp only [List.foldl_cons, List.foldl_nil] at h5 ⊢
      rw [h5]
      by_cases hi : i < v.length
      · simp [List.getElem?_replicate, hi, List.getElem?_range hi, compareAt, priorities]
      · have : ((List.range v.length).map fun i => compareAt (column (v :: rest) i))[i]? = none := by simp; omega
        simp [List.getElem?_replicate, hi, this]
    · have hall' : (List.map (fun v => v.length) (v :: rest)).all (fun s => some s == (List.map (fun v => v.length) (v :: rest))[0]?) = false := by
        rw [Bool.eq_false_iff]
        intro hc
        apply hall
        simp only [List.all_eq_true, List.mem_map] at hc ⊢
        intro w hw
        have := hc w.length ⟨w, List.mem_cons_of_mem _ hw, rfl⟩
        simpa using this
      simp only [hall', Bool.not_false, if_true]
      simp [hall, bind, Except.bind, throw, throwThe, MonadExceptOf.throw]

end IoosQc.NpSrc
