/-
  IoosQc.Theorems.C08Calendar — proved content for the executable calendar model
  (`IoosQc.Model.Calendar`).

  Every `theorem` here is proved for ALL integers (no bounded enumeration was needed):
    * `C08_cal_roundtrip`          daysFromCivil (civilFromDays z) = z
    * `C08_cal_roundtrip_civil`    civilFromDays (daysFromCivil y m d) = (y, m, d) on valid dates
    * `C08_cal_next_day` + `C08_cal_epoch`   civilFromDays (z+1) is the Gregorian successor of
                                   civilFromDays z (month lengths, `isLeap`), anchored at day 0
    * `C08_cal_year_length`, `C08_cal_year_bracket`, `C08_cal_day_le_month_length`
    * field ranges of `civilFromDays`, `weekdayOfDays`, `isoWeek`, `periodOf`
    * `C08_cal_same_day`           all instants of one UTC day share every field but the hour
  The `example`s at the end are kernel evaluations of single dates.
  Core tactics only (`omega`, `simp only`, `split`, `rcases`, `by_cases`, `decide +kernel` on
  closed terms); default heartbeat limit everywhere.
-/
import IoosQc.Model.Calendar

set_option linter.unusedSimpArgs false
set_option linter.unusedVariables false

namespace IoosQc

/-! ## Intermediate quantities of `civilFromDays` -/

/-- era (400-year block) of day number `z` -/
def calEra (z : Int) : Int := (z + 719468) / 146097
/-- day of era, `0 … 146096` -/
def calDoe (z : Int) : Int := (z + 719468) - calEra z * 146097
/-- (March-based) year of era, `0 … 399` -/
def calYoe (z : Int) : Int :=
  (calDoe z - calDoe z / 1460 + calDoe z / 36524 - calDoe z / 146096) / 365
/-- (March-based) day of year, `0 … 365` -/
def calDoy (z : Int) : Int := calDoe z - (365 * calYoe z + calYoe z / 4 - calYoe z / 100)
/-- (March-based) month index, `0 … 11` -/
def calMp (z : Int) : Int := (5 * calDoy z + 2) / 153

theorem C08_cal_aux_civil_eq (z : Int) :
    civilFromDays z =
      (if (if calMp z < 10 then calMp z + 3 else calMp z - 9) ≤ 2
        then calYoe z + calEra z * 400 + 1 else calYoe z + calEra z * 400,
       if calMp z < 10 then calMp z + 3 else calMp z - 9,
       calDoy z - (153 * calMp z + 2) / 5 + 1) := by rfl

theorem C08_cal_aux_doe_range (z : Int) : 0 ≤ calDoe z ∧ calDoe z < 146097 := by
  unfold calDoe calEra; omega

theorem C08_cal_aux_yoe_range_raw (N : Int) (h0 : 0 ≤ N) (h1 : N < 146097) :
    0 ≤ (N - N / 1460 + N / 36524 - N / 146096) / 365 ∧
      (N - N / 1460 + N / 36524 - N / 146096) / 365 < 400 := by
  omega

theorem C08_cal_aux_yoe_range (z : Int) : 0 ≤ calYoe z ∧ calYoe z < 400 := by
  have h := C08_cal_aux_doe_range z
  exact C08_cal_aux_yoe_range_raw (calDoe z) h.1 h.2

/-- the delicate fact, lower half: the `yoe` formula never overshoots -/
theorem C08_cal_aux_doy_lo_raw (N : Int) (h0 : 0 ≤ N) (h1 : N < 146097) (q : Int)
    (hq : q = (N - N / 1460 + N / 36524 - N / 146096) / 365) :
    0 ≤ N - (365 * q + q / 4 - q / 100) := by
  have hb : N / 36524 = 0 ∨ N / 36524 = 1 ∨ N / 36524 = 2 ∨ N / 36524 = 3 ∨ N / 36524 = 4 := by
    omega
  have hg : q / 100 = 0 ∨ q / 100 = 1 ∨ q / 100 = 2 ∨ q / 100 = 3 := by omega
  rcases hb with hb | hb | hb | hb | hb <;> rcases hg with hg | hg | hg | hg <;> omega

/-- the delicate fact, upper half: the `yoe` formula never undershoots -/
theorem C08_cal_aux_doy_hi_raw (N : Int) (h0 : 0 ≤ N) (h1 : N < 146097) (q : Int)
    (hq : q = (N - N / 1460 + N / 36524 - N / 146096) / 365) :
    N - (365 * q + q / 4 - q / 100) ≤ 365 := by
  have hb : N / 36524 = 0 ∨ N / 36524 = 1 ∨ N / 36524 = 2 ∨ N / 36524 = 3 ∨ N / 36524 = 4 := by
    omega
  have hg : q / 100 = 0 ∨ q / 100 = 1 ∨ q / 100 = 2 ∨ q / 100 = 3 := by omega
  rcases hb with hb | hb | hb | hb | hb <;> rcases hg with hg | hg | hg | hg <;> omega

theorem C08_cal_aux_doy_range (z : Int) : 0 ≤ calDoy z ∧ calDoy z ≤ 365 := by
  have h := C08_cal_aux_doe_range z
  exact ⟨C08_cal_aux_doy_lo_raw (calDoe z) h.1 h.2 (calYoe z) rfl,
         C08_cal_aux_doy_hi_raw (calDoe z) h.1 h.2 (calYoe z) rfl⟩

theorem C08_cal_aux_mp_range (z : Int) : 0 ≤ calMp z ∧ calMp z ≤ 11 := by
  have h := C08_cal_aux_doy_range z
  unfold calMp; omega

/-- decomposition of the day number -/
theorem C08_cal_aux_decomp (z : Int) :
    z = calEra z * 146097 + (365 * calYoe z + calYoe z / 4 - calYoe z / 100 + calDoy z) - 719468 := by
  unfold calDoy calDoe; omega

/-! ## `daysFromCivil` on the parts -/

/-- `daysFromCivil` of the date assembled from (era, year of era, day of year) gives back the
    day number assembled from the same parts. -/
theorem C08_cal_aux_days_of_parts (e q doy mp : Int) (hq0 : 0 ≤ q) (hq1 : q < 400)
    (hd0 : 0 ≤ doy) (hd1 : doy ≤ 365) (hmp : mp = (5 * doy + 2) / 153) :
    daysFromCivil
        (if (if mp < 10 then mp + 3 else mp - 9) ≤ 2 then q + e * 400 + 1 else q + e * 400)
        (if mp < 10 then mp + 3 else mp - 9)
        (doy - (153 * mp + 2) / 5 + 1)
      = e * 146097 + (365 * q + q / 4 - q / 100 + doy) - 719468 := by
  have hmpr : 0 ≤ mp ∧ mp ≤ 11 := by omega
  unfold daysFromCivil
  by_cases h : mp < 10
  · have h1 : ¬ (mp + 3 ≤ 2) := by omega
    have h2 : mp + 3 > 2 := by omega
    simp only [h, h1, h2, if_true, if_false, ite_true, ite_false]
    omega
  · have h1 : mp - 9 ≤ 2 := by omega
    have h2 : ¬ (mp - 9 > 2) := by omega
    simp only [h, h1, h2, if_true, if_false, ite_true, ite_false]
    omega

/-! ## Main theorems -/

/-- round trip: every day number is the day number of its own civil date (ALL integers) -/
theorem C08_cal_roundtrip (z : Int) :
    let (y, m, d) := civilFromDays z; daysFromCivil y m d = z := by
  show daysFromCivil (civilFromDays z).1 (civilFromDays z).2.1 (civilFromDays z).2.2 = z
  rw [C08_cal_aux_civil_eq]
  have hq := C08_cal_aux_yoe_range z
  have hd := C08_cal_aux_doy_range z
  rw [C08_cal_aux_days_of_parts (calEra z) (calYoe z) (calDoy z) (calMp z) hq.1 hq.2 hd.1 hd.2 rfl]
  exact (C08_cal_aux_decomp z).symm

/-- month is in `1 … 12` (ALL integers) -/
theorem C08_cal_month_range (z : Int) :
    1 ≤ (civilFromDays z).2.1 ∧ (civilFromDays z).2.1 ≤ 12 := by
  have h := C08_cal_aux_mp_range z
  rw [C08_cal_aux_civil_eq]
  show 1 ≤ (if calMp z < 10 then calMp z + 3 else calMp z - 9) ∧
    (if calMp z < 10 then calMp z + 3 else calMp z - 9) ≤ 12
  split <;> omega

theorem C08_cal_aux_day_raw (doy : Int) (hd0 : 0 ≤ doy) (hd1 : doy ≤ 365) :
    1 ≤ doy - (153 * ((5 * doy + 2) / 153) + 2) / 5 + 1 ∧
      doy - (153 * ((5 * doy + 2) / 153) + 2) / 5 + 1 ≤ 31 := by
  have hmp : (5 * doy + 2) / 153 = 0 ∨ (5 * doy + 2) / 153 = 1 ∨ (5 * doy + 2) / 153 = 2 ∨
      (5 * doy + 2) / 153 = 3 ∨ (5 * doy + 2) / 153 = 4 ∨ (5 * doy + 2) / 153 = 5 ∨
      (5 * doy + 2) / 153 = 6 ∨ (5 * doy + 2) / 153 = 7 ∨ (5 * doy + 2) / 153 = 8 ∨
      (5 * doy + 2) / 153 = 9 ∨ (5 * doy + 2) / 153 = 10 ∨ (5 * doy + 2) / 153 = 11 := by omega
  rcases hmp with h | h | h | h | h | h | h | h | h | h | h | h <;> rw [h] <;> omega

/-- day of month is in `1 … 31` (ALL integers) -/
theorem C08_cal_day_range (z : Int) :
    1 ≤ (civilFromDays z).2.2 ∧ (civilFromDays z).2.2 ≤ 31 := by
  have hd := C08_cal_aux_doy_range z
  rw [C08_cal_aux_civil_eq]
  exact C08_cal_aux_day_raw (calDoy z) hd.1 hd.2

/-- weekday is in `0 … 6` (ALL integers) -/
theorem C08_cal_weekday_range (z : Int) : 0 ≤ weekdayOfDays z ∧ weekdayOfDays z ≤ 6 := by
  unfold weekdayOfDays; omega

/-- weekday has period 7 (ALL integers) -/
theorem C08_cal_weekday_step (z : Int) : weekdayOfDays (z + 7) = weekdayOfDays z := by
  unfold weekdayOfDays; omega

/-- consecutive days have consecutive weekdays (ALL integers) -/
theorem C08_cal_weekday_succ (z : Int) : weekdayOfDays (z + 1) = (weekdayOfDays z + 1) % 7 := by
  unfold weekdayOfDays; omega

/-! ### `periodOf` projections (all by `rfl`) -/

theorem C08_cal_aux_period_year (t : Int) :
    periodOf .year t = (civilFromDays (t / 86400)).1 := by rfl
theorem C08_cal_aux_period_month (t : Int) :
    periodOf .month t = (civilFromDays (t / 86400)).2.1 := by rfl
theorem C08_cal_aux_period_day (t : Int) :
    periodOf .day t = (civilFromDays (t / 86400)).2.2 := by rfl
theorem C08_cal_aux_period_hour (t : Int) : periodOf .hour t = t % 86400 / 3600 := by rfl
theorem C08_cal_aux_period_quarter (t : Int) :
    periodOf .quarter t = ((civilFromDays (t / 86400)).2.1 - 1) / 3 + 1 := by rfl
theorem C08_cal_aux_period_dayofyear (t : Int) :
    periodOf .dayofyear t =
      t / 86400 - daysFromCivil (civilFromDays (t / 86400)).1 1 1 + 1 := by rfl
theorem C08_cal_aux_period_dayofweek (t : Int) :
    periodOf .dayofweek t = weekdayOfDays (t / 86400) := by rfl
theorem C08_cal_aux_period_week (t : Int) : periodOf .week t = isoWeek (t / 86400) := by rfl

/-- quarter is in `1 … 4` (ALL integers) -/
theorem C08_cal_quarter_range (t : Int) :
    1 ≤ periodOf .quarter t ∧ periodOf .quarter t ≤ 4 := by
  have h := C08_cal_month_range (t / 86400)
  rw [C08_cal_aux_period_quarter]; omega

/-- hour is in `0 … 23` (ALL integers) -/
theorem C08_cal_hour_range (t : Int) : 0 ≤ periodOf .hour t ∧ periodOf .hour t ≤ 23 := by
  rw [C08_cal_aux_period_hour]; omega

/-- `periodOf .month` is in `1 … 12`, `.day` in `1 … 31`, `.dayofweek` in `0 … 6` (ALL integers) -/
theorem C08_cal_period_month_range (t : Int) :
    1 ≤ periodOf .month t ∧ periodOf .month t ≤ 12 := C08_cal_month_range _
theorem C08_cal_period_day_range (t : Int) :
    1 ≤ periodOf .day t ∧ periodOf .day t ≤ 31 := C08_cal_day_range _
theorem C08_cal_period_dayofweek_range (t : Int) :
    0 ≤ periodOf .dayofweek t ∧ periodOf .dayofweek t ≤ 6 := C08_cal_weekday_range _

/-! ### Day of year -/

/-- day number of 1 January of year `y`, in closed form -/
theorem C08_cal_aux_jan1 (y : Int) :
    daysFromCivil y 1 1 =
      (y - 1) / 400 * 146097 +
        (((y - 1) - (y - 1) / 400 * 400) * 365 + ((y - 1) - (y - 1) / 400 * 400) / 4 -
          ((y - 1) - (y - 1) / 400 * 400) / 100 + 306) - 719468 := by
  unfold daysFromCivil
  simp only [show ((1 : Int) ≤ 2) = True from by decide, show ((1 : Int) > 2) = False from by decide,
    if_true, if_false, ite_true, ite_false]
  omega

/-- a civil year has 365 or 366 days, 366 exactly when `isLeap` (ALL integers) -/
theorem C08_cal_year_length (y : Int) :
    daysFromCivil (y + 1) 1 1 - daysFromCivil y 1 1 = if isLeap y then 366 else 365 := by
  rw [C08_cal_aux_jan1, C08_cal_aux_jan1]
  unfold isLeap
  simp only [Bool.or_eq_true, Bool.and_eq_true, beq_iff_eq, bne_iff_ne, ne_eq]
  split <;> omega

/-- day number of 1 January of the year after March-based year `q + e * 400` -/
theorem C08_cal_aux_jan1_parts (Y e q : Int) (hq0 : 0 ≤ q) (hq1 : q < 400)
    (hY : Y - 1 = q + e * 400) :
    daysFromCivil Y 1 1 = e * 146097 + (q * 365 + q / 4 - q / 100 + 306) - 719468 := by
  rw [C08_cal_aux_jan1]
  have hi : (Y - 1) / 400 = e := by omega
  rw [hi]
  have hj : Y - 1 - e * 400 = q := by omega
  rw [hj]

/-- day of year from the parts -/
theorem C08_cal_aux_dayofyear_raw (e q doy mp z Y : Int) (hq0 : 0 ≤ q) (hq1 : q < 400)
    (hd0 : 0 ≤ doy) (hd1 : doy ≤ 365) (hmp : mp = (5 * doy + 2) / 153)
    (hz : z = e * 146097 + (365 * q + q / 4 - q / 100 + doy) - 719468)
    (hY : Y = if (if mp < 10 then mp + 3 else mp - 9) ≤ 2 then q + e * 400 + 1 else q + e * 400) :
    1 ≤ z - daysFromCivil Y 1 1 + 1 ∧ z - daysFromCivil Y 1 1 + 1 ≤ 366 := by
  by_cases h : mp < 10
  · have h1 : ¬ (mp + 3 ≤ 2) := by omega
    simp only [h, h1, if_true, if_false, ite_true, ite_false] at hY
    by_cases hq : q = 0
    · rw [C08_cal_aux_jan1_parts Y (e - 1) 399 (by omega) (by omega) (by omega)]
      subst hq; omega
    · rw [C08_cal_aux_jan1_parts Y e (q - 1) (by omega) (by omega) (by omega)]
      omega
  · have h1 : mp - 9 ≤ 2 := by omega
    simp only [h, h1, if_true, if_false, ite_true, ite_false] at hY
    rw [C08_cal_aux_jan1_parts Y e q hq0 hq1 (by omega)]
    omega

theorem C08_cal_aux_dayofyear_days (z : Int) :
    1 ≤ z - daysFromCivil (civilFromDays z).1 1 1 + 1 ∧
      z - daysFromCivil (civilFromDays z).1 1 1 + 1 ≤ 366 := by
  have hq := C08_cal_aux_yoe_range z
  have hd := C08_cal_aux_doy_range z
  exact C08_cal_aux_dayofyear_raw (calEra z) (calYoe z) (calDoy z) (calMp z) z _
    hq.1 hq.2 hd.1 hd.2 rfl (C08_cal_aux_decomp z) (by rw [C08_cal_aux_civil_eq])

/-- day of year is in `1 … 366` (ALL integers) -/
theorem C08_cal_dayofyear_range (t : Int) :
    1 ≤ periodOf .dayofyear t ∧ periodOf .dayofyear t ≤ 366 := by
  rw [C08_cal_aux_period_dayofyear]; exact C08_cal_aux_dayofyear_days _

/-! ### ISO week -/

theorem C08_cal_aux_weeks_in_year (y : Int) : isoWeeksInYear y = 52 ∨ isoWeeksInYear y = 53 := by
  unfold isoWeeksInYear
  simp only []
  split
  · exact Or.inr rfl
  · exact Or.inl rfl

theorem C08_cal_aux_isoWeek_eq (z : Int) :
    isoWeek z =
      if (z - daysFromCivil (civilFromDays z).1 1 1 + 1 - (weekdayOfDays z + 1) + 10) / 7 < 1
        then isoWeeksInYear ((civilFromDays z).1 - 1)
      else if (z - daysFromCivil (civilFromDays z).1 1 1 + 1 - (weekdayOfDays z + 1) + 10) / 7
          > isoWeeksInYear (civilFromDays z).1 then 1
      else (z - daysFromCivil (civilFromDays z).1 1 1 + 1 - (weekdayOfDays z + 1) + 10) / 7 := by rfl

/-- ISO week of a day number is in `1 … 53` (ALL integers) -/
theorem C08_cal_isoWeek_range (z : Int) : 1 ≤ isoWeek z ∧ isoWeek z ≤ 53 := by
  have hd := C08_cal_aux_dayofyear_days z
  have hw := C08_cal_weekday_range z
  have h1 := C08_cal_aux_weeks_in_year ((civilFromDays z).1 - 1)
  have h2 := C08_cal_aux_weeks_in_year (civilFromDays z).1
  rw [C08_cal_aux_isoWeek_eq]
  split
  · omega
  · split <;> omega

/-- ISO week is in `1 … 53` (ALL integers) -/
theorem C08_cal_week_range (t : Int) : 1 ≤ periodOf .week t ∧ periodOf .week t ≤ 53 := by
  rw [C08_cal_aux_period_week]; exact C08_cal_isoWeek_range _

/-! ### Same UTC day -/

/-- all instants of one UTC day have the same calendar fields, except hour (ALL integers) -/
theorem C08_cal_same_day (p : Period) (hp : p ≠ .hour) (t : Int) (s : Int) (h0 : 0 ≤ s)
    (h1 : s < 86400) (hd : t % 86400 = 0) : periodOf p (t + s) = periodOf p t := by
  have hday : (t + s) / 86400 = t / 86400 := by omega
  cases p
  case hour => exact absurd rfl hp
  all_goals (unfold periodOf; simp only [hday])

/-- the hour field within one UTC day (ALL integers) -/
theorem C08_cal_same_day_hour (t : Int) (s : Int) (h0 : 0 ≤ s) (h1 : s < 86400)
    (hd : t % 86400 = 0) : periodOf .hour (t + s) = s / 3600 := by
  rw [C08_cal_aux_period_hour]
  have : (t + s) % 86400 = s := by omega
  rw [this]

/-! ## The successor-day characterisation

`civilFromDays 0 = (1970, 1, 1)` together with `C08_cal_next_day` (the date of `z + 1` is the
Gregorian successor of the date of `z`: month lengths 31/28-or-29/31/30/…, leap rule `isLeap`)
pins `civilFromDays` to the proleptic Gregorian calendar on all of `Int`. -/

/-- the `yoe` formula is tight (century 0 of the era): the day lies before the next year -/
theorem C08_cal_aux_doy_tight_c0 (N : Int) (hb : N / 36524 = 0) (q : Int)
    (hq : q = (N - N / 1460 + N / 36524 - N / 146096) / 365) (hq399 : q < 399) :
    N < 365 * (q + 1) + (q + 1) / 4 - (q + 1) / 100 := by
  have ha : N / 1460 = 0 ∨ N / 1460 = 1 ∨ N / 1460 = 2 ∨ N / 1460 = 3 ∨ N / 1460 = 4 ∨ N / 1460 = 5 ∨ N / 1460 = 6 ∨ N / 1460 = 7 ∨ N / 1460 = 8 ∨ N / 1460 = 9 ∨ N / 1460 = 10 ∨ N / 1460 = 11 ∨ N / 1460 = 12 ∨ N / 1460 = 13 ∨ N / 1460 = 14 ∨ N / 1460 = 15 ∨ N / 1460 = 16 ∨ N / 1460 = 17 ∨ N / 1460 = 18 ∨ N / 1460 = 19 ∨ N / 1460 = 20 ∨ N / 1460 = 21 ∨ N / 1460 = 22 ∨ N / 1460 = 23 ∨ N / 1460 = 24 ∨ N / 1460 = 25 ∨ N / 1460 = 26 := by
    omega
  rcases ha with ha | ha | ha | ha | ha | ha | ha | ha | ha | ha | ha | ha | ha | ha | ha | ha | ha | ha | ha | ha | ha | ha | ha | ha | ha | ha | ha <;> omega

/-- the `yoe` formula is tight (century 1 of the era): the day lies before the next year -/
theorem C08_cal_aux_doy_tight_c1 (N : Int) (hb : N / 36524 = 1) (q : Int)
    (hq : q = (N - N / 1460 + N / 36524 - N / 146096) / 365) (hq399 : q < 399) :
    N < 365 * (q + 1) + (q + 1) / 4 - (q + 1) / 100 := by
  have ha : N / 1460 = 25 ∨ N / 1460 = 26 ∨ N / 1460 = 27 ∨ N / 1460 = 28 ∨ N / 1460 = 29 ∨ N / 1460 = 30 ∨ N / 1460 = 31 ∨ N / 1460 = 32 ∨ N / 1460 = 33 ∨ N / 1460 = 34 ∨ N / 1460 = 35 ∨ N / 1460 = 36 ∨ N / 1460 = 37 ∨ N / 1460 = 38 ∨ N / 1460 = 39 ∨ N / 1460 = 40 ∨ N / 1460 = 41 ∨ N / 1460 = 42 ∨ N / 1460 = 43 ∨ N / 1460 = 44 ∨ N / 1460 = 45 ∨ N / 1460 = 46 ∨ N / 1460 = 47 ∨ N / 1460 = 48 ∨ N / 1460 = 49 ∨ N / 1460 = 50 ∨ N / 1460 = 51 := by
    omega
  rcases ha with ha | ha | ha | ha | ha | ha | ha | ha | ha | ha | ha | ha | ha | ha | ha | ha | ha | ha | ha | ha | ha | ha | ha | ha | ha | ha | ha <;> omega

/-- the `yoe` formula is tight (century 2 of the era): the day lies before the next year -/
theorem C08_cal_aux_doy_tight_c2 (N : Int) (hb : N / 36524 = 2) (q : Int)
    (hq : q = (N - N / 1460 + N / 36524 - N / 146096) / 365) (hq399 : q < 399) :
    N < 365 * (q + 1) + (q + 1) / 4 - (q + 1) / 100 := by
  have ha : N / 1460 = 50 ∨ N / 1460 = 51 ∨ N / 1460 = 52 ∨ N / 1460 = 53 ∨ N / 1460 = 54 ∨ N / 1460 = 55 ∨ N / 1460 = 56 ∨ N / 1460 = 57 ∨ N / 1460 = 58 ∨ N / 1460 = 59 ∨ N / 1460 = 60 ∨ N / 1460 = 61 ∨ N / 1460 = 62 ∨ N / 1460 = 63 ∨ N / 1460 = 64 ∨ N / 1460 = 65 ∨ N / 1460 = 66 ∨ N / 1460 = 67 ∨ N / 1460 = 68 ∨ N / 1460 = 69 ∨ N / 1460 = 70 ∨ N / 1460 = 71 ∨ N / 1460 = 72 ∨ N / 1460 = 73 ∨ N / 1460 = 74 ∨ N / 1460 = 75 ∨ N / 1460 = 76 := by
    omega
  rcases ha with ha | ha | ha | ha | ha | ha | ha | ha | ha | ha | ha | ha | ha | ha | ha | ha | ha | ha | ha | ha | ha | ha | ha | ha | ha | ha | ha <;> omega

/-- the `yoe` formula is tight (century 3 of the era): the day lies before the next year -/
theorem C08_cal_aux_doy_tight_c3 (N : Int) (hb : N / 36524 = 3) (q : Int)
    (hq : q = (N - N / 1460 + N / 36524 - N / 146096) / 365) (hq399 : q < 399) :
    N < 365 * (q + 1) + (q + 1) / 4 - (q + 1) / 100 := by
  have ha : N / 1460 = 75 ∨ N / 1460 = 76 ∨ N / 1460 = 77 ∨ N / 1460 = 78 ∨ N / 1460 = 79 ∨ N / 1460 = 80 ∨ N / 1460 = 81 ∨ N / 1460 = 82 ∨ N / 1460 = 83 ∨ N / 1460 = 84 ∨ N / 1460 = 85 ∨ N / 1460 = 86 ∨ N / 1460 = 87 ∨ N / 1460 = 88 ∨ N / 1460 = 89 ∨ N / 1460 = 90 ∨ N / 1460 = 91 ∨ N / 1460 = 92 ∨ N / 1460 = 93 ∨ N / 1460 = 94 ∨ N / 1460 = 95 ∨ N / 1460 = 96 ∨ N / 1460 = 97 ∨ N / 1460 = 98 ∨ N / 1460 = 99 ∨ N / 1460 = 100 ∨ N / 1460 = 101 := by
    omega
  rcases ha with ha | ha | ha | ha | ha | ha | ha | ha | ha | ha | ha | ha | ha | ha | ha | ha | ha | ha | ha | ha | ha | ha | ha | ha | ha | ha | ha <;> omega

theorem C08_cal_aux_doy_tight_raw (N : Int) (h0 : 0 ≤ N) (h1 : N < 146097) (q : Int)
    (hq : q = (N - N / 1460 + N / 36524 - N / 146096) / 365) (hq399 : q < 399) :
    N < 365 * (q + 1) + (q + 1) / 4 - (q + 1) / 100 := by
  have hb : N / 36524 = 0 ∨ N / 36524 = 1 ∨ N / 36524 = 2 ∨ N / 36524 = 3 ∨ N / 36524 = 4 := by
    omega
  rcases hb with hb | hb | hb | hb | hb
  · exact C08_cal_aux_doy_tight_c0 N hb q hq hq399
  · exact C08_cal_aux_doy_tight_c1 N hb q hq hq399
  · exact C08_cal_aux_doy_tight_c2 N hb q hq hq399
  · exact C08_cal_aux_doy_tight_c3 N hb q hq hq399
  · omega

/-- length of March-based year `q` of an era (`0 ≤ q < 400`) -/
def calLen (q : Int) : Int :=
  if q = 399 then 366 else 365 + ((q + 1) / 4 - q / 4) - ((q + 1) / 100 - q / 100)

/-- the parts of a day number lie inside the year: `calDoy z < calLen (calYoe z)` -/
theorem C08_cal_aux_doy_lt_len (z : Int) : calDoy z < calLen (calYoe z) := by
  have h := C08_cal_aux_doe_range z
  have hq := C08_cal_aux_yoe_range z
  have hhi := C08_cal_aux_doy_hi_raw (calDoe z) h.1 h.2 (calYoe z) rfl
  have ht := C08_cal_aux_doy_tight_raw (calDoe z) h.1 h.2 (calYoe z) rfl
  unfold calLen calDoy
  omega

theorem C08_cal_aux_F_mono (a b : Int) (h : a ≤ b) :
    365 * a + a / 4 - a / 100 ≤ 365 * b + b / 4 - b / 100 := by omega

/-- the decomposition (era, year of era, day of year) of a day number is unique -/
theorem C08_cal_aux_parts_unique (z e q doy : Int) (hq0 : 0 ≤ q) (hq1 : q < 400)
    (hd0 : 0 ≤ doy) (hd1 : doy < calLen q)
    (hz : z + 719468 = e * 146097 + (365 * q + q / 4 - q / 100 + doy)) :
    calEra z = e ∧ calYoe z = q ∧ calDoy z = doy := by
  unfold calLen at hd1
  have hN : 0 ≤ 365 * q + q / 4 - q / 100 + doy ∧ 365 * q + q / 4 - q / 100 + doy < 146097 := by
    omega
  have he : calEra z = e := by unfold calEra; omega
  have hdoe : calDoe z = 365 * q + q / 4 - q / 100 + doy := by unfold calDoe; rw [he]; omega
  have h := C08_cal_aux_doe_range z
  have hq' := C08_cal_aux_yoe_range z
  have hlo := C08_cal_aux_doy_lo_raw (calDoe z) h.1 h.2 (calYoe z) rfl
  have ht := C08_cal_aux_doy_tight_raw (calDoe z) h.1 h.2 (calYoe z) rfl
  have hqq : calYoe z = q := by
    rw [hdoe] at hlo ht
    generalize calYoe z = q' at *
    have m1 := C08_cal_aux_F_mono (q' + 1) q
    have m2 := C08_cal_aux_F_mono (q + 1) q'
    omega
  refine ⟨he, hqq, ?_⟩
  unfold calDoy; rw [hdoe, hqq]; omega

/-- civil year, month, day from the parts -/
def calDateY (e q doy : Int) : Int :=
  if (5 * doy + 2) / 153 < 10 then q + e * 400 else q + e * 400 + 1
def calDateM (doy : Int) : Int :=
  if (5 * doy + 2) / 153 < 10 then (5 * doy + 2) / 153 + 3 else (5 * doy + 2) / 153 - 9
def calDateD (doy : Int) : Int := doy - (153 * ((5 * doy + 2) / 153) + 2) / 5 + 1

theorem C08_cal_aux_civil_of_parts (z e q doy : Int) (hq0 : 0 ≤ q) (hq1 : q < 400)
    (hd0 : 0 ≤ doy) (hd1 : doy < calLen q)
    (hz : z + 719468 = e * 146097 + (365 * q + q / 4 - q / 100 + doy)) :
    civilFromDays z = (calDateY e q doy, calDateM doy, calDateD doy) := by
  obtain ⟨h1, h2, h3⟩ := C08_cal_aux_parts_unique z e q doy hq0 hq1 hd0 hd1 hz
  have hlen : doy ≤ 365 := by unfold calLen at hd1; omega
  rw [C08_cal_aux_civil_eq]
  unfold calMp calDateY calDateM calDateD
  rw [h1, h2, h3]
  refine Prod.ext ?_ rfl
  show (if (if (5 * doy + 2) / 153 < 10 then (5 * doy + 2) / 153 + 3 else (5 * doy + 2) / 153 - 9) ≤ 2
      then q + e * 400 + 1 else q + e * 400) =
    if (5 * doy + 2) / 153 < 10 then q + e * 400 else q + e * 400 + 1
  omega

/-- Gregorian month length -/
def calMonthLength (y m : Int) : Int :=
  if m = 2 then (if isLeap y then 29 else 28)
  else if m = 4 ∨ m = 6 ∨ m = 9 ∨ m = 11 then 30 else 31

/-- Gregorian successor of a date `(y, m, d)` -/
def calNextDate (ymd : Int × Int × Int) : Int × Int × Int :=
  if ymd.2.2 < calMonthLength ymd.1 ymd.2.1 then (ymd.1, ymd.2.1, ymd.2.2 + 1)
  else if ymd.2.1 < 12 then (ymd.1, ymd.2.1 + 1, 1)
  else (ymd.1 + 1, 1, 1)

theorem C08_cal_aux_isLeap_iff (y : Int) :
    isLeap y = true ↔ ((y % 4 = 0 ∧ y % 100 ≠ 0) ∨ y % 400 = 0) := by
  unfold isLeap
  simp only [Bool.or_eq_true, Bool.and_eq_true, beq_iff_eq, bne_iff_ne, ne_eq]

theorem C08_cal_aux_len_values (q : Int) : calLen q = 365 ∨ calLen q = 366 := by
  unfold calLen; omega

/-- the March-based year `q` ends with 29 February exactly when the civil year is leap -/
theorem C08_cal_aux_leap_len (e q : Int) (hq0 : 0 ≤ q) (hq1 : q < 400) :
    isLeap (q + e * 400 + 1) = true ↔ calLen q = 366 := by
  rw [C08_cal_aux_isLeap_iff]; unfold calLen; omega

theorem C08_cal_aux_monthLength_parts (e q doy : Int) (hq0 : 0 ≤ q) (hq1 : q < 400)
    (hd0 : 0 ≤ doy) (hd1 : doy < calLen q) :
    calMonthLength (calDateY e q doy) (calDateM doy) =
      if calDateM doy = 2 then calLen q - 337
      else if calDateM doy = 4 ∨ calDateM doy = 6 ∨ calDateM doy = 9 ∨ calDateM doy = 11 then 30
      else 31 := by
  unfold calMonthLength
  by_cases hm : calDateM doy = 2
  · rw [if_pos hm, if_pos hm]
    have hy : calDateY e q doy = q + e * 400 + 1 := by
      unfold calDateY; unfold calDateM at hm; omega
    rw [hy]
    have h1 := C08_cal_aux_leap_len e q hq0 hq1
    have h2 := C08_cal_aux_len_values q
    by_cases hl : isLeap (q + e * 400 + 1) = true
    · rw [if_pos hl]; have := h1.1 hl; omega
    · rw [if_neg hl]
      have : ¬ calLen q = 366 := fun h => hl (h1.2 h)
      omega
  · rw [if_neg hm, if_neg hm]

theorem C08_cal_aux_next_in_year (e q doy : Int) (hq0 : 0 ≤ q) (hq1 : q < 400)
    (hd0 : 0 ≤ doy) (hd1 : doy + 1 < calLen q) :
    (calDateY e q (doy + 1), calDateM (doy + 1), calDateD (doy + 1)) =
      calNextDate (calDateY e q doy, calDateM doy, calDateD doy) := by
  unfold calNextDate
  simp only []
  rw [C08_cal_aux_monthLength_parts e q doy hq0 hq1 hd0 (by omega)]
  have hlen := C08_cal_aux_len_values q
  generalize calLen q = len at *
  have hmp : (5 * doy + 2) / 153 = 0 ∨
      (5 * doy + 2) / 153 = 1 ∨
      (5 * doy + 2) / 153 = 2 ∨
      (5 * doy + 2) / 153 = 3 ∨
      (5 * doy + 2) / 153 = 4 ∨
      (5 * doy + 2) / 153 = 5 ∨
      (5 * doy + 2) / 153 = 6 ∨
      (5 * doy + 2) / 153 = 7 ∨
      (5 * doy + 2) / 153 = 8 ∨
      (5 * doy + 2) / 153 = 9 ∨
      (5 * doy + 2) / 153 = 10 ∨
      (5 * doy + 2) / 153 = 11 := by
    omega
  have hmp' : (5 * (doy + 1) + 2) / 153 = (5 * doy + 2) / 153 ∨
      (5 * (doy + 1) + 2) / 153 = (5 * doy + 2) / 153 + 1 := by omega
  by_cases c1 : calDateD doy < (if calDateM doy = 2 then len - 337
      else if calDateM doy = 4 ∨ calDateM doy = 6 ∨ calDateM doy = 9 ∨ calDateM doy = 11 then 30
      else 31)
  · rw [if_pos c1]
    unfold calDateY calDateM calDateD at *
    rcases hmp with h | h | h | h | h | h | h | h | h | h | h | h <;> simp only [h] at c1 ⊢ <;>
      (refine Prod.ext ?_ (Prod.ext ?_ ?_) <;> simp only [] <;> omega)
  · rw [if_neg c1]
    by_cases c2 : calDateM doy < 12
    · rw [if_pos c2]
      unfold calDateY calDateM calDateD at *
      rcases hmp with h | h | h | h | h | h | h | h | h | h | h | h <;> simp only [h] at c1 c2 ⊢ <;>
        (refine Prod.ext ?_ (Prod.ext ?_ ?_) <;> simp only [] <;> omega)
    · rw [if_neg c2]
      unfold calDateY calDateM calDateD at *
      rcases hmp with h | h | h | h | h | h | h | h | h | h | h | h <;> simp only [h] at c1 c2 ⊢ <;>
        (refine Prod.ext ?_ (Prod.ext ?_ ?_) <;> simp only [] <;> omega)

theorem C08_cal_aux_next_wrap (e q doy e' q' : Int) (hq0 : 0 ≤ q) (hq1 : q < 400)
    (hd0 : 0 ≤ doy) (hd1 : doy + 1 = calLen q) (h' : q' + e' * 400 = q + e * 400 + 1) :
    (calDateY e' q' 0, calDateM 0, calDateD 0) =
      calNextDate (calDateY e q doy, calDateM doy, calDateD doy) := by
  unfold calNextDate
  simp only []
  rw [C08_cal_aux_monthLength_parts e q doy hq0 hq1 hd0 (by omega)]
  have hlen := C08_cal_aux_len_values q
  generalize calLen q = len at *
  have hmp : (5 * doy + 2) / 153 = 11 := by omega
  have hm : calDateM doy = 2 := by unfold calDateM; omega
  have hd : calDateD doy = len - 337 := by unfold calDateD; omega
  have hy : calDateY e q doy = q + e * 400 + 1 := by unfold calDateY; omega
  rw [hm, hd, hy]
  simp only [Int.lt_irrefl, if_false, if_true, ite_true, ite_false]
  have c2 : (2 : Int) < 12 := by decide
  rw [if_pos c2]
  unfold calDateY calDateM calDateD
  refine Prod.ext ?_ (Prod.ext ?_ ?_) <;> simp only [] <;> omega

/-- the date of day `z + 1` is the Gregorian successor of the date of day `z` (ALL integers) -/
theorem C08_cal_next_day (z : Int) : civilFromDays (z + 1) = calNextDate (civilFromDays z) := by
  have hq := C08_cal_aux_yoe_range z
  have hd := C08_cal_aux_doy_range z
  have hlt := C08_cal_aux_doy_lt_len z
  have hz := C08_cal_aux_decomp z
  generalize calEra z = e at *
  generalize calYoe z = q at *
  generalize calDoy z = doy at *
  rw [C08_cal_aux_civil_of_parts z e q doy hq.1 hq.2 hd.1 hlt (by omega)]
  by_cases hA : doy + 1 < calLen q
  · rw [C08_cal_aux_civil_of_parts (z + 1) e q (doy + 1) hq.1 hq.2 (by omega) hA (by omega)]
    exact C08_cal_aux_next_in_year e q doy hq.1 hq.2 hd.1 hA
  · have hlen : doy + 1 = calLen q := by omega
    by_cases hq399 : q = 399
    · rw [C08_cal_aux_civil_of_parts (z + 1) (e + 1) 0 0 (by omega) (by omega) (by omega)
        (by unfold calLen; omega) (by unfold calLen at hlen; omega)]
      exact C08_cal_aux_next_wrap e q doy (e + 1) 0 hq.1 hq.2 hd.1 hlen (by omega)
    · rw [C08_cal_aux_civil_of_parts (z + 1) e (q + 1) 0 (by omega) (by omega) (by omega)
        (by unfold calLen; omega) (by unfold calLen at hlen; omega)]
      exact C08_cal_aux_next_wrap e q doy e (q + 1) hq.1 hq.2 hd.1 hlen (by omega)

/-- the day of month never exceeds the Gregorian month length (ALL integers) -/
theorem C08_cal_day_le_month_length (z : Int) :
    (civilFromDays z).2.2 ≤ calMonthLength (civilFromDays z).1 (civilFromDays z).2.1 := by
  have hq := C08_cal_aux_yoe_range z
  have hd := C08_cal_aux_doy_range z
  have hlt := C08_cal_aux_doy_lt_len z
  have hz := C08_cal_aux_decomp z
  generalize calEra z = e at *
  generalize calYoe z = q at *
  generalize calDoy z = doy at *
  rw [C08_cal_aux_civil_of_parts z e q doy hq.1 hq.2 hd.1 hlt (by omega)]
  simp only []
  rw [C08_cal_aux_monthLength_parts e q doy hq.1 hq.2 hd.1 hlt]
  have hlen := C08_cal_aux_len_values q
  generalize calLen q = len at *
  have hmp : (5 * doy + 2) / 153 = 0 ∨
      (5 * doy + 2) / 153 = 1 ∨
      (5 * doy + 2) / 153 = 2 ∨
      (5 * doy + 2) / 153 = 3 ∨
      (5 * doy + 2) / 153 = 4 ∨
      (5 * doy + 2) / 153 = 5 ∨
      (5 * doy + 2) / 153 = 6 ∨
      (5 * doy + 2) / 153 = 7 ∨
      (5 * doy + 2) / 153 = 8 ∨
      (5 * doy + 2) / 153 = 9 ∨
      (5 * doy + 2) / 153 = 10 ∨
      (5 * doy + 2) / 153 = 11 := by
    omega
  unfold calDateM calDateD
  rcases hmp with h | h | h | h | h | h | h | h | h | h | h | h <;> simp only [h] <;> omega

/-- a day number lies inside its own civil year (ALL integers) -/
theorem C08_cal_year_bracket (z : Int) :
    daysFromCivil (civilFromDays z).1 1 1 ≤ z ∧ z < daysFromCivil ((civilFromDays z).1 + 1) 1 1 := by
  have hq := C08_cal_aux_yoe_range z
  have hd := C08_cal_aux_doy_range z
  have hz := C08_cal_aux_decomp z
  have hlo := C08_cal_aux_dayofyear_days z
  refine ⟨by omega, ?_⟩
  rw [C08_cal_aux_civil_eq]
  simp only []
  have hmp : calMp z = (5 * calDoy z + 2) / 153 := rfl
  generalize calEra z = e at *
  generalize calYoe z = q at *
  generalize calDoy z = doy at *
  generalize calMp z = mp at *
  by_cases h : mp < 10
  · have h1 : ¬ (mp + 3 ≤ 2) := by omega
    simp only [h, h1, if_true, if_false, ite_true, ite_false]
    rw [C08_cal_aux_jan1_parts (q + e * 400 + 1) e q hq.1 hq.2 (by omega)]
    omega
  · have h1 : mp - 9 ≤ 2 := by omega
    simp only [h, h1, if_true, if_false, ite_true, ite_false]
    by_cases hq399 : q = 399
    · rw [C08_cal_aux_jan1_parts (q + e * 400 + 1 + 1) (e + 1) 0 (by omega) (by omega) (by omega)]
      omega
    · rw [C08_cal_aux_jan1_parts (q + e * 400 + 1 + 1) e (q + 1) (by omega) (by omega) (by omega)]
      omega

/-- day of year never exceeds the length of the year, 366 only in `isLeap` years (ALL integers) -/
theorem C08_cal_dayofyear_le_year_length (t : Int) :
    periodOf .dayofyear t ≤ if isLeap (periodOf .year t) then 366 else 365 := by
  rw [C08_cal_aux_period_dayofyear, C08_cal_aux_period_year]
  have hb := C08_cal_year_bracket (t / 86400)
  have hl := C08_cal_year_length (civilFromDays (t / 86400)).1
  generalize civilFromDays (t / 86400) = ymd at *
  generalize isLeap ymd.1 = b at *
  cases b <;> simp only [if_true, if_false, Bool.false_eq_true] at hl ⊢ <;> omega

/-- `civilFromDays` is injective (ALL integers) -/
theorem C08_cal_civil_injective (z₁ z₂ : Int) (h : civilFromDays z₁ = civilFromDays z₂) :
    z₁ = z₂ := by
  have h1 := C08_cal_roundtrip z₁
  have h2 := C08_cal_roundtrip z₂
  simp only [] at h1 h2
  rw [h] at h1
  exact h1.symm.trans h2

/-- reverse round trip: every valid Gregorian date is the civil date of its own day number
    (ALL integers `y`, months `1 … 12`, days `1 … calMonthLength y m`) -/
theorem C08_cal_roundtrip_civil (y m d : Int) (hm1 : 1 ≤ m) (hm2 : m ≤ 12) (hd1 : 1 ≤ d)
    (hd2 : d ≤ calMonthLength y m) : civilFromDays (daysFromCivil y m d) = (y, m, d) := by
  obtain ⟨Y, hY⟩ : ∃ Y, Y = if m ≤ 2 then y - 1 else y := ⟨_, rfl⟩
  obtain ⟨e, he⟩ : ∃ e, e = Y / 400 := ⟨_, rfl⟩
  obtain ⟨q, hq⟩ : ∃ q, q = Y - e * 400 := ⟨_, rfl⟩
  obtain ⟨mp, hmp⟩ : ∃ mp, mp = if m > 2 then m - 3 else m + 9 := ⟨_, rfl⟩
  obtain ⟨doy, hdoy⟩ : ∃ doy, doy = (153 * mp + 2) / 5 + d - 1 := ⟨_, rfl⟩
  have hq0 : 0 ≤ q ∧ q < 400 := by omega
  have hz : daysFromCivil y m d + 719468 =
      e * 146097 + (365 * q + q / 4 - q / 100 + doy) := by
    unfold daysFromCivil
    simp only []
    rw [← hY, ← he, ← hq, ← hmp, ← hdoy]
    omega
  have hm12 : m = 1 ∨ m = 2 ∨ m = 3 ∨ m = 4 ∨ m = 5 ∨ m = 6 ∨ m = 7 ∨ m = 8 ∨ m = 9 ∨ m = 10 ∨ m = 11 ∨ m = 12 := by omega
  have hlen := C08_cal_aux_len_values q
  have hlt : doy < calLen q := by
    unfold calMonthLength at hd2
    by_cases hm : m = 2
    · rw [if_pos hm] at hd2
      have hy : y = q + e * 400 + 1 := by omega
      have hleap := C08_cal_aux_leap_len e q hq0.1 hq0.2
      rw [← hy] at hleap
      by_cases hl : isLeap y = true
      · rw [if_pos hl] at hd2; have := hleap.1 hl; omega
      · rw [if_neg hl] at hd2; omega
    · rw [if_neg hm] at hd2
      rcases hm12 with h | h | h | h | h | h | h | h | h | h | h | h <;> subst h <;> omega
  rw [C08_cal_aux_civil_of_parts _ e q doy hq0.1 hq0.2 (by omega) hlt hz]
  have hdoy365 : doy ≤ 365 := by omega
  unfold calDateY calDateM calDateD
  unfold calMonthLength at hd2
  rcases hm12 with h | h | h | h | h | h | h | h | h | h | h | h <;> subst h <;>
    (refine Prod.ext ?_ (Prod.ext ?_ ?_) <;> simp only [] <;> omega)

/-! ## Single dates by kernel evaluation -/

/-- anchor of the successor characterisation: day 0 is Thursday 1970-01-01 -/
theorem C08_cal_epoch : civilFromDays 0 = (1970, 1, 1) ∧ weekdayOfDays 0 = 3 := by decide +kernel

example : daysFromCivil 2018 12 31 = 17896 := by decide +kernel
example : daysFromCivil 2021 1 1 = 18628 := by decide +kernel
example : daysFromCivil 2016 1 3 = 16803 := by decide +kernel
example : daysFromCivil 2020 12 31 = 18627 := by decide +kernel
-- ISO week: 2018-12-31 (Monday) opens week 1 of 2019
example : periodOf .week (daysFromCivil 2018 12 31 * 86400) = 1 := by decide +kernel
-- 2021-01-01 (Friday) still belongs to week 53 of 2020
example : periodOf .week (daysFromCivil 2021 1 1 * 86400) = 53 := by decide +kernel
-- 2016-01-03 (Sunday) still belongs to week 53 of 2015
example : periodOf .week (daysFromCivil 2016 1 3 * 86400) = 53 := by decide +kernel
-- 2020-12-31 (Thursday) is in week 53 of 2020, at any second of the day
example : periodOf .week (daysFromCivil 2020 12 31 * 86400) = 53 := by decide +kernel
example : periodOf .week (daysFromCivil 2020 12 31 * 86400 + 86399) = 53 := by decide +kernel
example : periodOf .dayofyear (daysFromCivil 2020 12 31 * 86400) = 366 := by decide +kernel
example : periodOf .dayofyear (daysFromCivil 2021 12 31 * 86400) = 365 := by decide +kernel
example : civilFromDays 18321 = (2020, 2, 29) := by decide +kernel
example : civilFromDays (-1) = (1969, 12, 31) := by decide +kernel
example : civilFromDays 47846 = (2100, 12, 31) := by decide +kernel
example : civilFromDays 47482 = (2100, 1, 1) := by decide +kernel
example : isoWeeksInYear 2020 = 53 ∧ isoWeeksInYear 2015 = 53 ∧ isoWeeksInYear 2021 = 52 := by
  decide +kernel

end IoosQc
