/-
  IoosQc.Theorems.NpSrc8 — `collect_results_dict`: the source-shaped transcription leaves, under every
  key, the fold the model `collectDict` describes.

    C06_src_dict    dget (collect_results_dict rs) key = (pieces of that key, scattered in yield order onto an
                    all-UNKNOWN column of the first piece's length)
-/
import IoosQc.Model.NpCollect
set_option linter.unusedSimpArgs false
set_option linter.unusedVariables false

namespace IoosQc.NpSrc

theorem forIn_id_eq_foldl' {α β : Type} (l : List α) (init : β) (f : α → β → Id (ForInStep β)) (g : α → β → β)
    (h : ∀ a b, f a b = pure (ForInStep.yield (g a b))) : forIn l init f = pure (l.foldl (fun b a => g a b) init) := by
  induction l generalizing init with
  | nil => simp
  | cons a l ih => simp [List.forIn_cons, h, ih]

/-- one inner iteration: the statements for one CallResult of context `r` -/
def trStep (r : CR) (d : DState) (tr : TR) : DState :=
  let k : DKey := (r.stream, tr.package, tr.test)
  let d1 := if !(dhas d k) then dset d k (emptyLikeFilled r.subset 2) else d
  dset d1 k (scatter (dget d1 k) r.subset tr.results)

def crStep (d : DState) (r : CR) : DState := r.results.foldl (trStep r) d

theorem collect_eq_foldl (rs : List CR) : collect_results_dict rs = rs.foldl crStep [] := by
  unfold collect_results_dict
  simp only [Id.run]
  rw [forIn_id_eq_foldl' _ _ _ (fun r d => crStep d r)]
  · rfl
  · intro r d
    simp only [crStep]
    rw [forIn_id_eq_foldl' _ _ _ (fun tr d => trStep r d tr)]
    · rfl
    · intro tr d'
      simp only [trStep]
      split <;> rfl

/-! ### the mapping primitives -/

theorem dlookup_dset (d : DState) (k k' : DKey) (v : List (Option Int)) :
    dlookup (dset d k v) k' = if k' = k then some v else dlookup d k' := by
  induction d with
  | nil =>
    by_cases h : k' = k
    · subst h; simp [dset, dlookup]
    · have : ¬ k = k' := fun e => h e.symm
      simp [dset, dlookup, h, this]
  | cons p ps ih =>
    by_cases hp : p.1 = k
    · by_cases h : k' = k
      · subst h; simp [dset, dlookup, hp]
      · have h1 : ¬ k = k' := fun e => h e.symm
        have h2 : ¬ p.1 = k' := fun e => h (by rw [← e, hp])
        simp [dset, dlookup, hp, h, h1, h2]
    · by_cases h : k' = k
      · subst h
        simp only [dset, hp, if_false, dlookup, ih, if_true]
      · by_cases hq : p.1 = k'
        · simp [dset, dlookup, hp, hq, h]
        · simp only [dset, hp, if_false, dlookup, hq, ih, h]

/-- what one piece does to the column stored under a key (`none`: no column yet) -/
def extend1 (cur : Option (List (Option Int))) (mask : List Bool) (vals : List Int) : Option (List (Option Int)) :=
  some (scatter (cur.getD (emptyLikeFilled mask 2)) mask vals)

theorem dlookup_trStep (r : CR) (d : DState) (tr : TR) (k : DKey) :
    dlookup (trStep r d tr) k =
      if k = (r.stream, tr.package, tr.test) then extend1 (dlookup d k) r.subset tr.results else dlookup d k := by
  unfold trStep
  simp only []
  by_cases hk : k = (r.stream, tr.package, tr.test)
  · subst hk
    simp only [dlookup_dset, if_true, extend1, dhas, dget]
    by_cases hs : (dlookup d (r.stream, tr.package, tr.test)).isSome = true
    · obtain ⟨col, hc⟩ := Option.isSome_iff_exists.mp hs
      simp [hc]
    · have hn : dlookup d (r.stream, tr.package, tr.test) = none := by
        cases h : dlookup d (r.stream, tr.package, tr.test) with
        | none => rfl
        | some c => simp [h] at hs
      simp [hn, dlookup_dset]
  · simp only [dlookup_dset, hk, if_false, dhas]
    by_cases hs : (dlookup d (r.stream, tr.package, tr.test)).isSome = true
    · simp [hs]
    · simp [hs, dlookup_dset, hk]

/-- the pieces a list of CallResults of context `r` holds for key `k`, in order -/
def trPieces (r : CR) (k : DKey) : List Piece :=
  r.results.filterMap fun tr => if k = (r.stream, tr.package, tr.test) then some ⟨r.subset, tr.results⟩ else none

def dictPieces (rs : List CR) (k : DKey) : List Piece := rs.flatMap fun r => trPieces r k

def extend (cur : Option (List (Option Int))) (ps : List Piece) : Option (List (Option Int)) :=
  ps.foldl (fun c p => extend1 c p.mask p.vals) cur

theorem dlookup_trs (r : CR) (trs : List TR) (d : DState) (k : DKey) :
    dlookup (trs.foldl (trStep r) d) k =
      extend (dlookup d k) (trs.filterMap fun tr => if k = (r.stream, tr.package, tr.test) then some ⟨r.subset, tr.results⟩ else none) := by
  induction trs generalizing d with
  | nil => rfl
  | cons tr trs ih =>
    simp only [List.foldl_cons, ih, dlookup_trStep, List.filterMap_cons]
    by_cases hk : k = (r.stream, tr.package, tr.test)
    · simp [hk, extend]
    · simp [hk]

theorem dlookup_crs (rs : List CR) (d : DState) (k : DKey) :
    dlookup (rs.foldl crStep d) k = extend (dlookup d k) (dictPieces rs k) := by
  induction rs generalizing d with
  | nil => rfl
  | cons r rs ih =>
    simp only [List.foldl_cons, ih, crStep, dlookup_trs, dictPieces, List.flatMap_cons, trPieces, extend, List.foldl_append]

/-- Under every key the translated `collect_results_dict` holds the pieces of that key scattered, in yield order, onto an
    all-UNKNOWN column (no entry when no CallResult carries the key). -/
theorem C06_src_dict (rs : List CR) (k : DKey) :
    dlookup (collect_results_dict rs) k = extend none (dictPieces rs k) := by
  rw [collect_eq_foldl, dlookup_crs]; rfl

/-- … which is `collectDict` of `Model/Results` when all masks of the key have one length `n` (one input table). -/
theorem extend_eq_fold (n : Nat) (p : Piece) (ps : List Piece) (hp : p.mask.length = n) :
    extend none (p :: ps) = some ((p :: ps).foldl (fun acc q => scatter acc q.mask q.vals) (List.replicate n (some 2))) := by
  have hstep : ∀ (qs : List Piece) (col : List (Option Int)),
      extend (some col) qs = some (qs.foldl (fun acc q => scatter acc q.mask q.vals) col) := by
    intro qs
    induction qs with
    | nil => intro col; rfl
    | cons q qs ih => intro col; simp only [extend, List.foldl_cons, extend1, Option.getD_some] at ih ⊢; exact ih _
  have h0 : emptyLikeFilled p.mask 2 = List.replicate n (some 2) := by
    subst hp; simp [emptyLikeFilled, List.map_const']
  simp only [extend, List.foldl_cons, extend1, Option.getD_none, h0]
  exact hstep ps _

theorem C06_src_dict_collectDict (rs : List CR) (k : DKey) (n : Nat) (p : Piece) (ps : List Piece)
    (hps : dictPieces rs k = p :: ps) (hn : p.mask.length = n) :
    (dlookup (collect_results_dict rs) k).map (fun col => col.map (·.getD 2)) = some (collectDict n (p :: ps)) := by
  rw [C06_src_dict, hps, extend_eq_fold n p ps hn]; rfl

end IoosQc.NpSrc
