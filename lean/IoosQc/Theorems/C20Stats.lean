/-
  C20 (statistics side) — "for a climatology that is constant in time, create_config returns spans
  equal to the expressions evaluated on the min, max, mean and standard deviation of the grid cells
  inside the requested bounding box".

  The model (`IoosQc.Model.Creator`) pools `d` identical days of the non-NaN cells inside the
  inclusive box.  Proved here: the pooled statistics do not depend on `d ≥ 1`
  (`C20_stats_replicate`), the box is inclusive on all four edges (`C20_bbox_inclusive`), NaN
  cells never contribute (`C20_nan_dropped`), the statistics ignore the order of the cells
  (`C20_stats_perm`), and hence the spans are those of the cells (`C20_span_days_irrelevant`).

  OUTSIDE THE MODEL (not proved here, nothing below says anything about them):
  * the square root.  `GridStats.var` is the population VARIANCE; `std = √var` is taken by numpy in
    floating point and ℚ has no square roots.  The theorems show the variance is unchanged, so any
    function of it (in particular its square root) is unchanged too;
  * the periodic cubic-spline interpolation in time (`__daily_cubic_interp`).  That a spline through
    equal knots is constant is an assumption of the model: `pooled d vals` is what the spline
    returns for a time-constant climatology (up to rounding);
  * the box-padding loop taken when the subset sums to 0, and floating-point rounding.
-/
import IoosQc.Model.Creator
import IoosQc.Theorems.C17a
set_option linter.unusedSimpArgs false
set_option linter.unusedVariables false

namespace IoosQc

/-! ### min / max depend only on the set of values -/

theorem c20s_rmin_le_left (a b : Rat) : rmin a b ≤ a := by unfold rmin; split <;> grind
theorem c20s_rmin_le_right (a b : Rat) : rmin a b ≤ b := by unfold rmin; split <;> grind
theorem c20s_le_rmax_left (a b : Rat) : a ≤ rmax a b := by unfold rmax; split <;> grind
theorem c20s_le_rmax_right (a b : Rat) : b ≤ rmax a b := by unfold rmax; split <;> grind
theorem c20s_rmin_mem (a b : Rat) : rmin a b = a ∨ rmin a b = b := by unfold rmin; split <;> simp
theorem c20s_rmax_mem (a b : Rat) : rmax a b = a ∨ rmax a b = b := by unfold rmax; split <;> simp

theorem c20s_foldl_rmin_le (l : List Rat) : ∀ v, ∀ x ∈ v :: l, l.foldl rmin v ≤ x := by
  induction l with
  | nil => intro v x hx; simp at hx; subst hx; exact Rat.le_refl
  | cons a l ih =>
    intro v x hx
    simp only [List.foldl_cons]
    have h0 := ih (rmin v a) (rmin v a) (by simp)
    have h1 := c20s_rmin_le_left v a
    have h2 := c20s_rmin_le_right v a
    simp only [List.mem_cons] at hx
    rcases hx with rfl | rfl | hx
    · exact Rat.le_trans h0 h1
    · exact Rat.le_trans h0 h2
    · exact ih (rmin v a) x (by simp [hx])

theorem c20s_foldl_rmin_mem (l : List Rat) : ∀ v, l.foldl rmin v ∈ v :: l := by
  induction l with
  | nil => intro v; simp
  | cons a l ih =>
    intro v
    simp only [List.foldl_cons]
    have h := ih (rmin v a)
    simp only [List.mem_cons] at h ⊢
    rcases h with h | h
    · rcases c20s_rmin_mem v a with e | e
      · left; rw [h, e]
      · right; left; rw [h, e]
    · right; right; exact h

theorem c20s_foldl_rmax_ge (l : List Rat) : ∀ v, ∀ x ∈ v :: l, x ≤ l.foldl rmax v := by
  induction l with
  | nil => intro v x hx; simp at hx; subst hx; exact Rat.le_refl
  | cons a l ih =>
    intro v x hx
    simp only [List.foldl_cons]
    have h0 := ih (rmax v a) (rmax v a) (by simp)
    have h1 := c20s_le_rmax_left v a
    have h2 := c20s_le_rmax_right v a
    simp only [List.mem_cons] at hx
    rcases hx with rfl | rfl | hx
    · exact Rat.le_trans h1 h0
    · exact Rat.le_trans h2 h0
    · exact ih (rmax v a) x (by simp [hx])

theorem c20s_foldl_rmax_mem (l : List Rat) : ∀ v, l.foldl rmax v ∈ v :: l := by
  induction l with
  | nil => intro v; simp
  | cons a l ih =>
    intro v
    simp only [List.foldl_cons]
    have h := ih (rmax v a)
    simp only [List.mem_cons] at h ⊢
    rcases h with h | h
    · rcases c20s_rmax_mem v a with e | e
      · left; rw [h, e]
      · right; left; rw [h, e]
    · right; right; exact h

/-- `lmin` is the least element: it is characterised by the SET of values. -/
theorem c20s_lmin_spec (xs : List Rat) (m : Rat) :
    lmin xs = some m ↔ m ∈ xs ∧ ∀ x ∈ xs, m ≤ x := by
  cases xs with
  | nil => simp [lmin]
  | cons v vs =>
    simp only [lmin, Option.some.injEq]
    constructor
    · intro h; subst h
      exact ⟨c20s_foldl_rmin_mem vs v, c20s_foldl_rmin_le vs v⟩
    · intro ⟨hm, hle⟩
      exact Rat.le_antisymm (c20s_foldl_rmin_le vs v m hm) (hle _ (c20s_foldl_rmin_mem vs v))

/-- `lmax` is the greatest element. -/
theorem c20s_lmax_spec (xs : List Rat) (m : Rat) :
    lmax xs = some m ↔ m ∈ xs ∧ ∀ x ∈ xs, x ≤ m := by
  cases xs with
  | nil => simp [lmax]
  | cons v vs =>
    simp only [lmax, Option.some.injEq]
    constructor
    · intro h; subst h
      exact ⟨c20s_foldl_rmax_mem vs v, c20s_foldl_rmax_ge vs v⟩
    · intro ⟨hm, hle⟩
      exact Rat.le_antisymm (hle _ (c20s_foldl_rmax_mem vs v)) (c20s_foldl_rmax_ge vs v m hm)

theorem c20s_lmin_congr (xs ys : List Rat) (h : ∀ x, x ∈ xs ↔ x ∈ ys) : lmin xs = lmin ys := by
  cases hx : lmin xs with
  | none =>
    cases xs with
    | nil =>
      cases ys with
      | nil => rfl
      | cons y ys => exact absurd ((h y).2 (by simp)) (by simp)
    | cons x xs => simp [lmin] at hx
  | some m =>
    have := (c20s_lmin_spec xs m).1 hx
    exact ((c20s_lmin_spec ys m).2 ⟨(h m).1 this.1, fun x hx' => this.2 x ((h x).2 hx')⟩).symm

theorem c20s_lmax_congr (xs ys : List Rat) (h : ∀ x, x ∈ xs ↔ x ∈ ys) : lmax xs = lmax ys := by
  cases hx : lmax xs with
  | none =>
    cases xs with
    | nil =>
      cases ys with
      | nil => rfl
      | cons y ys => exact absurd ((h y).2 (by simp)) (by simp)
    | cons x xs => simp [lmax] at hx
  | some m =>
    have := (c20s_lmax_spec xs m).1 hx
    exact ((c20s_lmax_spec ys m).2 ⟨(h m).1 this.1, fun x hx' => this.2 x ((h x).2 hx')⟩).symm

/-! ### sums -/

theorem c20s_rsum_nil : rsum [] = 0 := rfl

theorem c20s_rsum_append (a b : List Rat) : rsum (a ++ b) = rsum a + rsum b := by
  induction a with
  | nil => simp only [List.nil_append, c20s_rsum_nil]; grind
  | cons x xs ih => simp only [List.cons_append, c17a_rsum_cons, ih]; grind

theorem c20s_rsum_perm (xs ys : List Rat) (h : xs.Perm ys) : rsum xs = rsum ys := by
  induction h with
  | nil => rfl
  | cons x _ ih => simp only [c17a_rsum_cons, ih]
  | swap x y l => simp only [c17a_rsum_cons]; grind
  | trans _ _ ih1 ih2 => exact ih1.trans ih2

/-! ### the pool -/

theorem c20s_pooled_zero (vals : List Rat) : pooled 0 vals = [] := rfl

theorem c20s_pooled_succ (d : Nat) (vals : List Rat) :
    pooled (d + 1) vals = vals ++ pooled d vals := by
  simp [pooled, List.replicate_succ]

theorem c20s_pooled_one (vals : List Rat) : pooled 1 vals = vals ++ [] := c20s_pooled_succ 0 vals

theorem c20s_mem_pooled (d : Nat) (hd : 1 ≤ d) (vals : List Rat) (x : Rat) :
    x ∈ pooled d vals ↔ x ∈ vals := by
  induction d with
  | zero => omega
  | succ d ih =>
    rw [c20s_pooled_succ, List.mem_append]
    cases d with
    | zero => simp [c20s_pooled_zero]
    | succ d => rw [ih (by omega)]; simp

theorem c20s_length_pooled (d : Nat) (vals : List Rat) :
    (pooled d vals).length = d * vals.length := by
  induction d with
  | zero => simp [c20s_pooled_zero]
  | succ d ih => rw [c20s_pooled_succ, List.length_append, ih, Nat.succ_mul]; omega

theorem c20s_rsum_pooled (d : Nat) (vals : List Rat) :
    rsum (pooled d vals) = (d : Rat) * rsum vals := by
  induction d with
  | zero => simp [c20s_pooled_zero, c20s_rsum_nil]
  | succ d ih =>
    rw [c20s_pooled_succ, c20s_rsum_append, ih, c17a_natCast_succ]; grind

theorem c20s_pooled_map (f : Rat → Rat) (d : Nat) (vals : List Rat) :
    (pooled d vals).map f = pooled d (vals.map f) := by
  induction d with
  | zero => rfl
  | succ d ih => rw [c20s_pooled_succ, c20s_pooled_succ, List.map_append, ih]

/-- The mean of the pool is the mean of the cells. -/
theorem c20s_mean_pooled (d : Nat) (hd : 1 ≤ d) (vals : List Rat) :
    rsum (pooled d vals) / ((pooled d vals).length : Rat) = rsum vals / (vals.length : Rat) := by
  rw [c20s_rsum_pooled, c20s_length_pooled, Rat.natCast_mul]
  have hd' : (d : Rat) ≠ 0 := c17a_natCast_ne_zero d (by omega)
  cases vals with
  | nil => simp [c20s_rsum_nil]
  | cons v vs =>
    have hn : (((v :: vs).length : Nat) : Rat) ≠ 0 := c17a_natCast_ne_zero _ (by simp)
    generalize (((v :: vs).length : Nat) : Rat) = n at hn
    generalize (d : Rat) = D at hd'
    generalize rsum (v :: vs) = S
    grind

/-- Every deviation from the mean is unchanged, so the sum of squares is `d` times as large. -/
theorem c20s_sqDev_pooled (d : Nat) (hd : 1 ≤ d) (vals : List Rat) :
    sqDev (pooled d vals) = (d : Rat) * sqDev vals := by
  unfold sqDev
  simp only []
  rw [c20s_mean_pooled d hd vals, c20s_pooled_map, c20s_rsum_pooled]

/-- The population variance of the pool is the population variance of the cells. -/
theorem c20s_var_pooled (d : Nat) (hd : 1 ≤ d) (vals : List Rat) :
    sqDev (pooled d vals) / ((pooled d vals).length : Rat) = sqDev vals / (vals.length : Rat) := by
  rw [c20s_sqDev_pooled d hd, c20s_length_pooled, Rat.natCast_mul]
  have hd' : (d : Rat) ≠ 0 := c17a_natCast_ne_zero d (by omega)
  cases vals with
  | nil => simp [sqDev, c20s_rsum_nil]
  | cons v vs =>
    have hn : (((v :: vs).length : Nat) : Rat) ≠ 0 := c17a_natCast_ne_zero _ (by simp)
    generalize (((v :: vs).length : Nat) : Rat) = n at hn
    generalize (d : Rat) = D at hd'
    generalize sqDev (v :: vs) = S
    grind

theorem c20s_gridStats_congr (xs ys : List Rat) (hmin : lmin xs = lmin ys) (hmax : lmax xs = lmax ys)
    (hmean : rsum xs / (xs.length : Rat) = rsum ys / (ys.length : Rat))
    (hvar : sqDev xs / (xs.length : Rat) = sqDev ys / (ys.length : Rat)) :
    gridStats xs = gridStats ys := by
  unfold gridStats
  rw [hmin, hmax, hmean, hvar]

/-! ### the four statements -/

theorem C20_min_replicate (d : Nat) (hd : 1 ≤ d) (vals : List Rat) :
    lmin (pooled d vals) = lmin vals := c20s_lmin_congr _ _ (c20s_mem_pooled d hd vals)

theorem C20_max_replicate (d : Nat) (hd : 1 ≤ d) (vals : List Rat) :
    lmax (pooled d vals) = lmax vals := c20s_lmax_congr _ _ (c20s_mem_pooled d hd vals)

/-- pooling d ≥ 1 identical days leaves min, max, mean and population variance unchanged:
    "constant in time" means the statistics are those of the cells -/
theorem C20_stats_replicate (d : Nat) (hd : 1 ≤ d) (vals : List Rat) :
    gridStats (pooled d vals) = gridStats vals :=
  c20s_gridStats_congr _ _ (C20_min_replicate d hd vals) (C20_max_replicate d hd vals)
    (c20s_mean_pooled d hd vals) (c20s_var_pooled d hd vals)

/-- the bounding box is inclusive on all four edges: a cell exactly on an edge is inside -/
theorem C20_bbox_inclusive (b : BBox) (c : GridCell) (v : Rat) (hv : c.value = some v)
    (h : (c.lat = b.miny ∨ c.lat = b.maxy ∨ (b.miny ≤ c.lat ∧ c.lat ≤ b.maxy)) ∧
         (c.lon = b.minx ∨ c.lon = b.maxx ∨ (b.minx ≤ c.lon ∧ c.lon ≤ b.maxx)))
    (hbox : b.miny ≤ b.maxy ∧ b.minx ≤ b.maxx) : insideCells b [c] = [v] := by
  have hlat : b.miny ≤ c.lat ∧ c.lat ≤ b.maxy := by
    rcases h.1 with e | e | e
    · rw [e]; exact ⟨Rat.le_refl, hbox.1⟩
    · rw [e]; exact ⟨hbox.1, Rat.le_refl⟩
    · exact e
  have hlon : b.minx ≤ c.lon ∧ c.lon ≤ b.maxx := by
    rcases h.2 with e | e | e
    · rw [e]; exact ⟨Rat.le_refl, hbox.2⟩
    · rw [e]; exact ⟨hbox.2, Rat.le_refl⟩
    · exact e
  simp [insideCells, BBox.contains, hlat.1, hlat.2, hlon.1, hlon.2, hv]

/-- NaN cells never contribute -/
theorem C20_nan_dropped (b : BBox) (c : GridCell) (h : c.value = none) (cs : List GridCell) :
    insideCells b (c :: cs) = insideCells b cs := by
  simp [insideCells, List.filterMap_cons, h]

/-- Conversely a cell strictly outside on any side never contributes (the box does select). -/
theorem C20_outside_dropped (b : BBox) (c : GridCell) (cs : List GridCell)
    (h : c.lat < b.miny ∨ b.maxy < c.lat ∨ c.lon < b.minx ∨ b.maxx < c.lon) :
    insideCells b (c :: cs) = insideCells b cs := by
  have hc : b.contains c = false := by
    unfold BBox.contains
    rcases h with h | h | h | h
    · have : ¬ b.miny ≤ c.lat := Rat.not_le.2 h
      simp [this]
    · have : ¬ c.lat ≤ b.maxy := Rat.not_le.2 h
      simp [this]
    · have : ¬ b.minx ≤ c.lon := Rat.not_le.2 h
      simp [this]
    · have : ¬ c.lon ≤ b.maxx := Rat.not_le.2 h
      simp [this]
  simp [insideCells, List.filterMap_cons, hc]

theorem C20_min_perm (xs ys : List Rat) (h : xs.Perm ys) : lmin xs = lmin ys :=
  c20s_lmin_congr _ _ (fun _ => h.mem_iff)

theorem C20_max_perm (xs ys : List Rat) (h : xs.Perm ys) : lmax xs = lmax ys :=
  c20s_lmax_congr _ _ (fun _ => h.mem_iff)

theorem C20_mean_perm (xs ys : List Rat) (h : xs.Perm ys) :
    rsum xs / (xs.length : Rat) = rsum ys / (ys.length : Rat) := by
  rw [c20s_rsum_perm xs ys h, h.length_eq]

theorem C20_var_perm (xs ys : List Rat) (h : xs.Perm ys) :
    sqDev xs / (xs.length : Rat) = sqDev ys / (ys.length : Rat) := by
  unfold sqDev
  simp only []
  rw [C20_mean_perm xs ys h, h.length_eq]
  congr 1
  exact c20s_rsum_perm _ _ (h.map _)

/-- the statistics do not depend on the order of the cells -/
theorem C20_stats_perm (xs ys : List Rat) (h : xs.Perm ys) : gridStats xs = gridStats ys :=
  c20s_gridStats_congr _ _ (C20_min_perm xs ys h) (C20_max_perm xs ys h) (C20_mean_perm xs ys h)
    (C20_var_perm xs ys h)

/-- The property itself, on the model: for a time-constant climatology the span does not depend on
    the number of days `d ≥ 1`; it is the expressions evaluated on the statistics of the cells
    inside the box (`d = 1`).  `std` is the externally supplied square root of `var`. -/
theorem C20_span_days_irrelevant (b : BBox) (cells : List GridCell) (d : Nat) (hd : 1 ≤ d)
    (std : Rat) (lo hi : Expr) :
    creatorSpan b cells d std lo hi =
      (match gridStats (insideCells b cells) with
       | some g => spanOf (g.toStats std) lo hi
       | none => none) := by
  unfold creatorSpan
  rw [C20_stats_replicate d hd]
  rfl

/-- … and not on the order in which the grid is traversed. -/
theorem C20_span_perm (b : BBox) (cells cells' : List GridCell) (h : cells.Perm cells') (d : Nat)
    (std : Rat) (lo hi : Expr) :
    creatorSpan b cells d std lo hi = creatorSpan b cells' d std lo hi := by
  unfold creatorSpan
  have hp : (insideCells b cells).Perm (insideCells b cells') := h.filterMap _
  have hpp : (pooled d (insideCells b cells)).Perm (pooled d (insideCells b cells')) := by
    induction d with
    | zero => exact List.Perm.refl _
    | succ d ih => rw [c20s_pooled_succ, c20s_pooled_succ]; exact hp.append ih
  rw [C20_stats_perm _ _ hpp]

/-! ### Non-vacuity -/

/-- A 3×3 grid (lat 10/20/30 × lon −70/−60/−50) with one NaN cell. -/
def c20sGrid : List GridCell :=
  [ ⟨10, -70, some 1⟩, ⟨10, -60, some 2⟩, ⟨10, -50, some 3⟩,
    ⟨20, -70, some 4⟩, ⟨20, -60, none⟩,   ⟨20, -50, some 6⟩,
    ⟨30, -70, some 7⟩, ⟨30, -60, some 8⟩, ⟨30, -50, some 12⟩ ]

/-- A box whose four edges lie exactly on cell coordinates: lat ∈ [20, 30], lon ∈ [−60, −50]. -/
def c20sBox : BBox := ⟨-60, 20, -50, 30⟩

/-- The edge cells are in, the NaN cell (20, −60) is dropped, the rest is out. -/
example : insideCells c20sBox c20sGrid = [6, 8, 12] := by decide +kernel

/-- The whole grid: eight values (the NaN cell is dropped). -/
example : insideCells ⟨-70, 10, -50, 30⟩ c20sGrid = [1, 2, 3, 4, 6, 7, 8, 12] := by decide +kernel

/-- A box between the grid lines selects nothing, and then there are no statistics. -/
example : insideCells ⟨-59, 11, -51, 19⟩ c20sGrid = [] ∧
    gridStats (insideCells ⟨-59, 11, -51, 19⟩ c20sGrid) = none := by decide +kernel

/-- min 6, max 12, mean 26/3, variance 56/9 (a non-trivial variance). -/
example : gridStats (insideCells c20sBox c20sGrid) = some ⟨6, 12, 26 / 3, 56 / 9⟩ := by
  decide +kernel

/-- The same cells pooled over the 31 days of a month: the same statistics. -/
example : (pooled 31 (insideCells c20sBox c20sGrid)).length = 93 ∧
    gridStats (pooled 31 (insideCells c20sBox c20sGrid)) = some ⟨6, 12, 26 / 3, 56 / 9⟩ := by
  decide +kernel

/-- `d ≥ 1` is needed: zero days give no statistics. -/
example : gridStats (pooled 0 (insideCells c20sBox c20sGrid)) = none := by decide +kernel

/-- The statistics DO depend on the multiset (not merely the set) of cells: repeating one cell
    changes mean and variance — `C20_stats_replicate` is about repeating ALL of them equally. -/
example : gridStats [6, 8, 12, 12] = some ⟨6, 12, 19 / 2, 27 / 4⟩ := by decide +kernel

/-- The span on those statistics: `mean - 2`, `max + min / 2` (std would be supplied externally). -/
example : creatorSpan c20sBox c20sGrid 31 0 (.bin .sub (.stat .mean) (.num 2))
    (.bin .add (.stat .max) (.bin .div (.stat .min) (.num 2))) = some (20 / 3, 15) := by
  decide +kernel

end IoosQc
