/-
  C16 (second group) — stricter thresholds never produce a better flag:
  rate_of_change_test, flat_line_test, attenuated_signal_test, density_inversion_test,
  argo.speed_test.

  For two calls on the same data with `stricter old new` (rate / speed thresholds not larger,
  flat-line durations not longer and tolerance not smaller, attenuation and density thresholds not
  smaller) no flag becomes less severe in GOOD < SUSPECT < FAIL and the UNKNOWN / MISSING points
  are the same (`C16.holds`).

  One hypothesis beyond the task statement is needed (counterexample below):
  * `C16_speed` needs `hopsConsistent lon lat h` (part of `inDom`): a supplied distance for a hop
    *into* a position with neither longitude nor latitude makes that position MISSING under loose
    thresholds (the first assignment survives) and SUSPECT / FAIL under strict ones.
  `C16_flat` uses of its two domain hypotheses only `0 ≤ s'`, `0 ≤ f'` (of the strict call): see
  `C16_flat_of_nonneg`.

  Mathlib-free.
-/
import IoosQc.Lemmas.Basic
import IoosQc.Lemmas.C11Helpers
import IoosQc.Props.C16
import IoosQc.Theorems.C12
set_option linter.unusedSimpArgs false
set_option linter.unusedVariables false

namespace IoosQc

/-! ### Lifting a pointwise statement to the flag lists -/

theorem c16b_holdsList_map {α : Type} (l : List α) (f g : α → Flag)
    (h : ∀ x ∈ l, C16.holdsAt ((f x).code : Int) ((g x).code : Int) = true) :
    C16.holdsList ((l.map f).map fun f => (f.code : Int)) ((l.map g).map fun f => (f.code : Int))
      = true := by
  induction l with
  | nil => rfl
  | cons x xs ih =>
    simp only [List.map_cons, C16.holdsList, Bool.and_eq_true]
    exact ⟨h x (by simp), ih (fun y hy => h y (by simp [hy]))⟩

theorem c16b_holds_map {α : Type} (l : List α) (f g : α → Flag)
    (h : ∀ x ∈ l, C16.holdsAt ((f x).code : Int) ((g x).code : Int) = true) :
    C16.holds (Res.toObs (.ok (l.map f))) (Res.toObs (.ok (l.map g))) = true := by
  simp only [C16.holds, Res.toObs]
  exact c16b_holdsList_map l f g h

theorem c16b_holdsAt_refl (f : Flag) : C16.holdsAt (f.code : Int) (f.code : Int) = true := by
  cases f <;> rfl

/-! ### rate_of_change_test -/

theorem c16b_vgt_mono (v : V) (a b : Rat) (h : b ≤ a) (hv : vgt v a = true) : vgt v b = true := by
  cases v with
  | none => simp [vgt] at hv
  | some x => simp [vgt] at hv ⊢; grind

theorem c16b_vlt_mono (v : V) (a b : Rat) (h : a ≤ b) (hv : vlt v a = true) : vlt v b = true := by
  cases v with
  | none => simp [vlt] at hv
  | some x => simp [vlt] at hv ⊢; grind

theorem c16b_roc_bool (a a' m : Bool) (h : a = true → a' = true) :
    C16.holdsAt ((overrides .good [(a, .suspect), (m, .missing)]).code : Int)
      ((overrides .good [(a', .suspect), (m, .missing)]).code : Int) = true := by
  cases a <;> cases a' <;> cases m <;> first | rfl | (exfalso; simp_all)

theorem c16b_rocAt (thr thr' : Rat) (xs : List V) (ts : List Int) (i : Nat) (h : thr' ≤ thr) :
    C16.holdsAt ((rocAt thr xs ts i).code : Int) ((rocAt thr' xs ts i).code : Int) = true := by
  unfold rocAt
  exact c16b_roc_bool _ _ _ (c16b_vgt_mono _ _ _ h)

theorem C16_roc (inp : List V) (t : List Int) (thr : Rat) (inp' : List V) (t' : List Int) (thr' : Rat)
    (hs : stricter (.roc inp t thr) (.roc inp' t' thr') = true)
    (hl : inp.length = t.length) :
    C16.holds (rocTest inp t thr).toObs (rocTest inp' t' thr').toObs = true := by
  simp only [stricter, Bool.and_eq_true, decide_eq_true_eq] at hs
  obtain ⟨⟨h1, h2⟩, h3⟩ := hs
  subst h1 h2
  unfold rocTest
  simp only [hl, bne_self_eq_false, Bool.false_eq_true, ↓reduceIte, pure, Except.pure]
  exact c16b_holds_map _ _ _ (fun i _ => c16b_rocAt thr thr' inp t i h3)

/-! ### argo.speed_test -/

theorem c16b_speed_bool (m0 a b a' b' z dn : Bool) (ha : a = true → a' = true)
    (hb : b = true → b' = true) (hm : m0 = true → z = true ∨ dn = true) :
    C16.holdsAt
      ((overrides .good [(m0, .missing), (a, .suspect), (b, .fail), (z, .unknown), (dn, .missing)]).code : Int)
      ((overrides .good [(m0, .missing), (a', .suspect), (b', .fail), (z, .unknown), (dn, .missing)]).code : Int)
      = true := by
  cases m0 <;> cases a <;> cases a' <;> cases b <;> cases b' <;> cases z <;> cases dn <;>
    first | rfl | (exfalso; simp_all)

/-- Pointwise; `hmiss`: the hop into a position with neither coordinate is missing. -/
theorem c16b_speedAt (s f s' f' : Rat) (lon lat : List V) (ts : List Int) (hops : List V) (i : Nat)
    (h1 : s' ≤ s) (h2 : f' ≤ f)
    (hmiss : 0 < i → getV lon i = none → getV lat i = none → getV hops (i - 1) = none) :
    C16.holdsAt ((speedAt s f lon lat ts hops i).code : Int)
      ((speedAt s' f' lon lat ts hops i).code : Int) = true := by
  unfold speedAt
  simp only []
  apply c16b_speed_bool
  · exact c16b_vgt_mono _ _ _ h1
  · exact c16b_vgt_mono _ _ _ h2
  · intro hm
    by_cases hi : i = 0
    · left; simp [hi]
    · right
      simp only [Bool.and_eq_true, Option.isNone_iff_eq_none] at hm
      have := hmiss (by omega) hm.1 hm.2
      simp [hopAt, hi, this]

/-- C16 for `argo.speed_test`.  `hcons` (a conjunct of `inDom`) is the extra hypothesis. -/
theorem C16_speed (lon lat : List V) (t : List Int) (s f : Rat) (h : List V)
    (lon' lat' : List V) (t' : List Int) (s' f' : Rat) (h' : List V)
    (hs : stricter (.speed lon lat t s f h) (.speed lon' lat' t' s' f' h') = true)
    (hl : lon.length = lat.length ∧ lon.length = t.length)
    (hcons : hopsConsistent lon lat h = true) :
    C16.holds (speedTest lon lat t s f h).toObs (speedTest lon' lat' t' s' f' h').toObs = true := by
  simp only [stricter, Bool.and_eq_true, decide_eq_true_eq] at hs
  obtain ⟨⟨⟨⟨⟨e1, e2⟩, e3⟩, e4⟩, h1⟩, h2⟩ := hs
  subst e1 e2 e3 e4
  have hc := hcons_of_consistent lon lat h hcons
  have hcond : (lon.length != lat.length || lon.length != t.length) = false := by
    simp [← hl.1, ← hl.2]
  unfold speedTest
  rw [hcond]
  simp only [Bool.false_eq_true, ↓reduceIte]
  by_cases h0 : lon.length = 0
  · simp [h0, C16.holds, Res.toObs, C16.holdsList, pure, Except.pure]
  · by_cases hlt : lon.length < 2
    · simp only [h0, hlt, ↓reduceIte, pure, Except.pure]
      rfl
    · simp only [h0, hlt, ↓reduceIte, pure, Except.pure]
      apply c16b_holds_map
      intro i _
      apply c16b_speedAt _ _ _ _ _ _ _ _ _ h1 h2
      intro hi hlo hla
      have := hc (i - 1)
      have e : i - 1 + 1 = i := by omega
      rw [e] at this
      exact this (Or.inr (Or.inr (Or.inl (by simp [hlo]))))

/-- The same with the domain predicate of the loose call as hypothesis. -/
theorem C16_speed_inDom (lon lat : List V) (t : List Int) (s f : Rat) (h : List V)
    (lon' lat' : List V) (t' : List Int) (s' f' : Rat) (h' : List V)
    (hs : stricter (.speed lon lat t s f h) (.speed lon' lat' t' s' f' h') = true)
    (hl : lon.length = lat.length ∧ lon.length = t.length)
    (hd : (TestCall.speed lon lat t s f h).inDom = true) :
    C16.holds (speedTest lon lat t s f h).toObs (speedTest lon' lat' t' s' f' h').toObs = true :=
  C16_speed lon lat t s f h lon' lat' t' s' f' h' hs hl (by
    simp only [TestCall.inDom, Bool.and_eq_true] at hd; exact hd.2)

/-- Why `hcons` is needed: `C16_speed` as first stated (without it) is false.  A distance is
    supplied for the hop into a position without coordinates; threshold 10 leaves that position
    MISSING, the stricter threshold 1 turns it SUSPECT. -/
example :
    stricter (.speed [some 0, none] [some 0, none] [0, 1] 10 20 [some 5])
             (.speed [some 0, none] [some 0, none] [0, 1] 1 20 [some 5]) = true ∧
    (speedTest [some 0, none] [some 0, none] [0, 1] 10 20 [some 5]).toObs = .flags [2, 9] ∧
    (speedTest [some 0, none] [some 0, none] [0, 1] 1 20 [some 5]).toObs = .flags [2, 3] ∧
    C16.holds (speedTest [some 0, none] [some 0, none] [0, 1] 10 20 [some 5]).toObs
              (speedTest [some 0, none] [some 0, none] [0, 1] 1 20 [some 5]).toObs = false ∧
    hopsConsistent [some 0, none] [some 0, none] [some 5] = false := by
  decide +kernel

/-! ### density_inversion_test -/

theorem c16b_dens_bool (a b a' b' m1 m2 : Bool) (ha : a = true → a' = true)
    (hb : b = true → b' = true) :
    C16.holdsAt
      ((overrides .good [(a, .suspect), (b, .fail), (m1, .missing), (m2, .missing)]).code : Int)
      ((overrides .good [(a', .suspect), (b', .fail), (m1, .missing), (m2, .missing)]).code : Int)
      = true := by
  cases a <;> cases a' <;> cases b <;> cases b' <;> cases m1 <;> cases m2 <;>
    first | rfl | (exfalso; simp_all)

theorem c16b_densPairBelow_mono (rho z : List V) (a b : Rat) (i : Nat) (h : a ≤ b)
    (hv : densPairBelow rho z a i = true) : densPairBelow rho z b i = true := by
  unfold densPairBelow at hv ⊢
  simp only [Bool.or_eq_true, Bool.and_eq_true] at hv ⊢
  rcases hv with ⟨h1, h2⟩ | ⟨h1, h2⟩
  · exact Or.inl ⟨h1, c16b_vlt_mono _ _ _ h h2⟩
  · exact Or.inr ⟨h1, c16b_vlt_mono _ _ _ h h2⟩

theorem c16b_optBelow_mono (rho z : List V) (o n : Option Rat) (i : Nat) :
    optGe n o = true →
    (match o with | some s => densPairBelow rho z s i | none => false) = true →
    (match n with | some s => densPairBelow rho z s i | none => false) = true := by
  intro h hv
  cases o with
  | none => simp at hv
  | some a =>
    cases n with
    | none => simp [optGe] at h
    | some b =>
      simp only [optGe, decide_eq_true_eq] at h
      exact c16b_densPairBelow_mono rho z a b i h hv

theorem c16b_densAt (s f s' f' : Option Rat) (rho z : List V) (i : Nat)
    (h1 : optGe s' s = true) (h2 : optGe f' f = true) :
    C16.holdsAt ((densAt s f rho z i).code : Int) ((densAt s' f' rho z i).code : Int) = true := by
  unfold densAt
  exact c16b_dens_bool _ _ _ _ _ _ (c16b_optBelow_mono rho z s s' i h1) (c16b_optBelow_mono rho z f f' i h2)

theorem C16_density (rho z : List V) (s f : Option Rat) (rho' z' : List V) (s' f' : Option Rat)
    (hs : stricter (.density rho z s f) (.density rho' z' s' f') = true)
    (hl : rho.length = z.length) :
    C16.holds (densityTest rho z s f).toObs (densityTest rho' z' s' f').toObs = true := by
  simp only [stricter, Bool.and_eq_true, decide_eq_true_eq] at hs
  obtain ⟨⟨⟨e1, e2⟩, h1⟩, h2⟩ := hs
  subst e1 e2
  unfold densityTest
  simp only [hl, bne_self_eq_false, Bool.false_eq_true, ↓reduceIte]
  by_cases h0 : z.length = 0
  · simp [h0, C16.holds, Res.toObs, C16.holdsList, pure, Except.pure]
  · by_cases hlt : z.length < 2
    · simp only [h0, hlt, ↓reduceIte, pure, Except.pure]
      rfl
    · simp only [h0, hlt, ↓reduceIte, pure, Except.pure]
      exact c16b_holds_map _ _ _ (fun i _ => c16b_densAt s f s' f' rho z i h1 h2)

/-! ### attenuated_signal_test -/

/-- Squaring is monotone on the positives, so `stat < θ` survives raising `θ`. -/
theorem c16b_Stat_lt_mono (st : Stat) (a b : Rat) (h : a ≤ b) (hv : st.lt a = true) :
    st.lt b = true := by
  cases st with
  | undef => simp [Stat.lt] at hv
  | lin v => simp [Stat.lt] at hv ⊢; grind
  | var v =>
    simp only [Stat.lt, Bool.and_eq_true, decide_eq_true_eq] at hv ⊢
    obtain ⟨h0, hlt⟩ := hv
    have hb : 0 < b := by grind
    have e1 : a * a ≤ a * b := Rat.mul_le_mul_of_nonneg_left h (Rat.le_of_lt h0)
    have e2 : a * b ≤ b * b := Rat.mul_le_mul_of_nonneg_right h (Rat.le_of_lt hb)
    exact ⟨hb, by grind⟩

theorem c16b_atten_bool (a b a' b' : Bool) (ha : a = true → a' = true) (hb : b = true → b' = true) :
    C16.holdsAt
      ((overrides .unknown [(!a, .good), (a, .suspect), (false, .unknown), (b, .fail),
        (false, .missing)]).code : Int)
      ((overrides .unknown [(!a', .good), (a', .suspect), (false, .unknown), (b', .fail),
        (false, .missing)]).code : Int) = true := by
  cases a <;> cases a' <;> cases b <;> cases b' <;> first | rfl | (exfalso; simp_all)

theorem c16b_attenAt (st : Stat) (s f s' f' : Rat) (x : V) (h1 : s ≤ s') (h2 : f ≤ f') :
    C16.holdsAt ((attenAt st s f x).code : Int) ((attenAt st s' f' x).code : Int) = true := by
  cases x with
  | none => simp [attenAt, overrides]; rfl
  | some v =>
    cases hu : st.isUndef with
    | true =>
      cases st <;> simp [Stat.isUndef] at hu
      simp [attenAt, overrides, Stat.isUndef, Stat.lt, Stat.ge]; rfl
    | false =>
      unfold attenAt
      rw [Stat.ge_eq_not_lt st s hu, Stat.ge_eq_not_lt st s' hu, hu]
      exact c16b_atten_bool _ _ _ _ (c16b_Stat_lt_mono st s s' h1) (c16b_Stat_lt_mono st f f' h2)

theorem C16_atten (ct : String) (inp : List V) (t : List Int) (s f : Rat) (p : Option Rat)
    (mo : Option Nat) (mp : Option Rat)
    (ct' : String) (inp' : List V) (t' : List Int) (s' f' : Rat) (p' : Option Rat)
    (mo' : Option Nat) (mp' : Option Rat)
    (hs : stricter (.attenuated ct inp t s f p mo mp) (.attenuated ct' inp' t' s' f' p' mo' mp') = true)
    (hc : ct = "std" ∨ ct = "range") :
    C16.holds (attenuatedTest ct inp t s f p mo mp).toObs
      (attenuatedTest ct' inp' t' s' f' p' mo' mp').toObs = true := by
  simp only [stricter, Bool.and_eq_true, decide_eq_true_eq] at hs
  obtain ⟨⟨⟨⟨⟨⟨⟨e1, e2⟩, e3⟩, e4⟩, e5⟩, e6⟩, h1⟩, h2⟩ := hs
  subst e1 e2 e3 e4 e5 e6
  unfold attenuatedTest
  rcases hc with hc | hc <;> subst hc <;> simp only [↓reduceIte, String.reduceEq] <;>
    cases p <;> simp only [pure, Except.pure] <;>
    exact c16b_holds_map _ _ _ (fun _ _ => c16b_attenAt _ s f s' f' _ h1 h2)

/-! ### flat_line_test -/

/-- Fewer steps for a shorter duration: `⌊s'⌋ / D ≤ ⌊s⌋ / D` for `D > 0`; for `D ≤ 0` the
    strict count is 0 because `0 ≤ ⌊s'⌋`. -/
theorem c16b_flatCount_mono (s s' : Rat) (D : Int) (h0 : 0 ≤ s') (h : s' ≤ s) :
    flatCount s' D ≤ flatCount s D := by
  unfold flatCount
  have hf : s'.floor ≤ s.floor := Rat.floor_monotone h
  have h0f : 0 ≤ s'.floor := Rat.le_floor_iff.2 (by simpa using h0)
  by_cases hD : 0 < D
  · have := Int.ediv_le_ediv hD hf
    omega
  · have := Int.ediv_nonpos_of_nonneg_of_nonpos h0f (by omega : D ≤ 0)
    omega

theorem c16b_foldl_rmax_mem (vs : List Rat) : ∀ a : Rat, vs.foldl rmax a ∈ a :: vs := by
  induction vs with
  | nil => intro a; simp
  | cons x xs ih =>
    intro a
    simp only [List.foldl_cons]
    have := ih (rmax a x)
    have h2 : rmax a x = a ∨ rmax a x = x := by unfold rmax; split <;> simp
    simp only [List.mem_cons] at this ⊢
    grind

theorem c16b_foldl_rmin_mem (vs : List Rat) : ∀ a : Rat, vs.foldl rmin a ∈ a :: vs := by
  induction vs with
  | nil => intro a; simp
  | cons x xs ih =>
    intro a
    simp only [List.foldl_cons]
    have := ih (rmin a x)
    have h2 : rmin a x = a ∨ rmin a x = x := by unfold rmin; split <;> simp
    simp only [List.mem_cons] at this ⊢
    grind

theorem c16b_le_foldl_rmax (vs : List Rat) : ∀ a : Rat, ∀ x ∈ a :: vs, x ≤ vs.foldl rmax a := by
  induction vs with
  | nil => intro a x hx; simp at hx; subst hx; simp
  | cons y ys ih =>
    intro a x hx
    simp only [List.foldl_cons]
    have h1 : a ≤ rmax a y ∧ y ≤ rmax a y := by unfold rmax; split <;> grind
    have h2 := le_foldl_rmax ys (rmax a y)
    simp only [List.mem_cons] at hx
    rcases hx with hx | hx | hx
    · grind
    · grind
    · exact ih (rmax a y) x (by simp [hx])

theorem c16b_foldl_rmin_le (vs : List Rat) : ∀ a : Rat, ∀ x ∈ a :: vs, vs.foldl rmin a ≤ x := by
  induction vs with
  | nil => intro a x hx; simp at hx; subst hx; simp
  | cons y ys ih =>
    intro a x hx
    simp only [List.foldl_cons]
    have h1 : rmin a y ≤ a ∧ rmin a y ≤ y := by unfold rmin; split <;> grind
    have h2 := foldl_rmin_le ys (rmin a y)
    simp only [List.mem_cons] at hx
    rcases hx with hx | hx | hx
    · grind
    · grind
    · exact ih (rmin a y) x (by simp [hx])

/-- The spread of a non-empty sub-collection is at most the spread of the collection. -/
theorem c16b_spread_sub (p p' : List Rat) (hsub : ∀ x ∈ p', x ∈ p) (hne : p' ≠ []) (r : Rat)
    (h : spread p = some r) : ∃ r', spread p' = some r' ∧ r' ≤ r := by
  cases p' with
  | nil => exact absurd rfl hne
  | cons v' vs' =>
    cases p with
    | nil => exact absurd (hsub v' (by simp)) (by simp)
    | cons v vs =>
      rw [spread_cons] at h ⊢
      refine ⟨_, rfl, ?_⟩
      have hM := c16b_le_foldl_rmax vs v _ (hsub _ (c16b_foldl_rmax_mem vs' v'))
      have hm := c16b_foldl_rmin_le vs v _ (hsub _ (c16b_foldl_rmin_mem vs' v'))
      simp only [Option.some.injEq] at h
      grind

/-- Membership in the `k+1` points ending at `i`. -/
theorem c16b_mem_window (xs : List V) (i k : Nat) (x : V) :
    x ∈ windowEnding xs i k ↔ ∃ j, j < k + 1 ∧ xs[i - k + j]? = some x := by
  unfold windowEnding
  rw [List.mem_iff_getElem?]
  constructor
  · rintro ⟨j, hj⟩
    rw [List.getElem?_take] at hj
    split at hj
    · rw [List.getElem?_drop] at hj
      exact ⟨j, by omega, hj⟩
    · simp at hj
  · rintro ⟨j, hj, hx⟩
    refine ⟨j, ?_⟩
    rw [List.getElem?_take]
    simp only [hj, if_true]
    rw [List.getElem?_drop]
    exact hx

theorem c16b_window_sub (xs : List V) (i k k' : Nat) (hk : k' ≤ k) (hki : k ≤ i) (x : V)
    (hx : x ∈ windowEnding xs i k') : x ∈ windowEnding xs i k := by
  rw [c16b_mem_window] at hx ⊢
  obtain ⟨j, hj, hx⟩ := hx
  refine ⟨k - k' + j, by omega, ?_⟩
  have : i - k + (k - k' + j) = i - k' + j := by omega
  rw [this]; exact hx

theorem c16b_self_mem_window (xs : List V) (i k : Nat) (hki : k ≤ i) (v : Rat)
    (hv : getV xs i = some v) : some v ∈ windowEnding xs i k := by
  rw [c16b_mem_window]
  refine ⟨k, by omega, ?_⟩
  have : i - k + k = i := by omega
  rw [this]
  unfold getV at hv
  rw [List.getD_eq_getElem?_getD] at hv
  cases h : xs[i]? with
  | none => simp [h] at hv
  | some y => simp [h] at hv; simp [hv]

theorem c16b_mem_present (w : List V) (v : Rat) : v ∈ present w ↔ some v ∈ w := by
  unfold present
  simp [List.mem_filterMap]

/-- The window lemma: at a present point, a flat long window with a small tolerance gives a flat
    shorter window with a larger tolerance. -/
theorem c16b_flatHit_mono (xs : List V) (i k k' : Nat) (tol tol' : Rat) (v : Rat)
    (hv : getV xs i = some v) (hk : k' ≤ k) (ht : tol ≤ tol')
    (h : flatHit xs k tol i = true) : flatHit xs k' tol' i = true := by
  unfold flatHit at h ⊢
  simp only [Bool.and_eq_true, decide_eq_true_eq] at h ⊢
  obtain ⟨hki, h⟩ := h
  refine ⟨by omega, ?_⟩
  cases hsp : spread (present (windowEnding xs i k)) with
  | none => simp [hsp] at h
  | some r =>
    simp only [hsp, decide_eq_true_eq] at h
    obtain ⟨r', hr', hle⟩ := c16b_spread_sub (present (windowEnding xs i k))
      (present (windowEnding xs i k'))
      (fun x hx => (c16b_mem_present _ _).2
        (c16b_window_sub xs i k k' hk hki _ ((c16b_mem_present _ _).1 hx)))
      (List.ne_nil_of_mem ((c16b_mem_present _ _).2 (c16b_self_mem_window xs i k' (by omega) v hv)))
      r hsp
    simp only [hr', decide_eq_true_eq]
    grind

theorem c16b_flat_bool (a b a' b' m : Bool) (ha : m = false → a = true → a' = true)
    (hb : m = false → b = true → b' = true) :
    C16.holdsAt ((overrides .good [(a, .suspect), (b, .fail), (m, .missing)]).code : Int)
      ((overrides .good [(a', .suspect), (b', .fail), (m, .missing)]).code : Int) = true := by
  cases a <;> cases a' <;> cases b <;> cases b' <;> cases m <;>
    first | rfl | (exfalso; simp_all)

theorem c16b_flatAt (ks kf ks' kf' : Nat) (tol tol' : Rat) (xs : List V) (i : Nat)
    (h1 : ks' ≤ ks) (h2 : kf' ≤ kf) (h3 : tol ≤ tol') :
    C16.holdsAt ((flatAt ks kf tol xs i).code : Int) ((flatAt ks' kf' tol' xs i).code : Int) = true := by
  unfold flatAt
  apply c16b_flat_bool
  · intro hm
    cases hv : getV xs i with
    | none => simp [hv] at hm
    | some v => exact c16b_flatHit_mono xs i ks ks' tol tol' v hv h1 h3
  · intro hm
    cases hv : getV xs i with
    | none => simp [hv] at hm
    | some v => exact c16b_flatHit_mono xs i kf kf' tol tol' v hv h2 h3

/-- C16 for `flat_line_test`, from what the proof uses of the domain: the strict durations are
    not negative.  (Whatever the time axis: the same median step divides both durations.) -/
theorem C16_flat_of_nonneg (inp : List V) (t : List Int) (s f tol : Rat)
    (inp' : List V) (t' : List Int) (s' f' tol' : Rat)
    (hs : stricter (.flatLine inp t s f tol) (.flatLine inp' t' s' f' tol') = true)
    (hs0 : 0 ≤ s') (hf0 : 0 ≤ f') :
    C16.holds (flatLineTest inp t s f tol).toObs (flatLineTest inp' t' s' f' tol').toObs = true := by
  simp only [stricter, Bool.and_eq_true, decide_eq_true_eq] at hs
  obtain ⟨⟨⟨⟨e1, e2⟩, h1⟩, h2⟩, h3⟩ := hs
  subst e1 e2
  unfold flatLineTest
  simp only []
  by_cases hn : inp.length < 3
  · simp only [hn, if_true, pure, Except.pure]
    exact c16b_holds_map _ _ _ (fun x _ => c16b_holdsAt_refl _)
  · simp only [hn, if_false, pure, Except.pure]
    exact c16b_holds_map _ _ _ (fun i _ =>
      c16b_flatAt _ _ _ _ tol tol' inp i (c16b_flatCount_mono s s' _ hs0 h1)
        (c16b_flatCount_mono f f' _ hf0 h2) h3)

theorem C16_flat (inp : List V) (t : List Int) (s f tol : Rat)
    (inp' : List V) (t' : List Int) (s' f' tol' : Rat)
    (hs : stricter (.flatLine inp t s f tol) (.flatLine inp' t' s' f' tol') = true)
    (hd : (TestCall.flatLine inp t s f tol).inDom = true)
    (hd' : (TestCall.flatLine inp' t' s' f' tol').inDom = true) :
    C16.holds (flatLineTest inp t s f tol).toObs (flatLineTest inp' t' s' f' tol').toObs = true := by
  simp only [TestCall.inDom, Bool.and_eq_true, decide_eq_true_eq] at hd'
  exact C16_flat_of_nonneg inp t s f tol inp' t' s' f' tol' hs hd'.1.2 hd'.2

/-! ### Non-vacuity: stricter pairs where a flag strictly worsens -/

/-- rate of change: threshold 1/8 → 1/16 turns the second point (rate exactly 1/8) SUSPECT. -/
example :
    stricter (.roc [some 0, some 8, some 17, none] [0, 64, 128, 192] (1/8))
             (.roc [some 0, some 8, some 17, none] [0, 64, 128, 192] (1/16)) = true ∧
    (rocTest [some 0, some 8, some 17, none] [0, 64, 128, 192] (1/8)).toObs = .flags [1, 1, 3, 9] ∧
    (rocTest [some 0, some 8, some 17, none] [0, 64, 128, 192] (1/16)).toObs = .flags [1, 3, 3, 9] ∧
    C16.holds (rocTest [some 0, some 8, some 17, none] [0, 64, 128, 192] (1/8)).toObs
              (rocTest [some 0, some 8, some 17, none] [0, 64, 128, 192] (1/16)).toObs = true := by
  decide +kernel

/-- speed: suspect threshold 20 → 5 (speed 10) turns GOOD into SUSPECT, fail 30 → 8 into FAIL. -/
example :
    stricter (.speed [some 0, some 1, some 2] [some 0, some 0, some 0] [0, 10, 20] 20 30 [some 100, some 100])
             (.speed [some 0, some 1, some 2] [some 0, some 0, some 0] [0, 10, 20] 5 8 [some 100, some 100]) = true ∧
    (speedTest [some 0, some 1, some 2] [some 0, some 0, some 0] [0, 10, 20] 20 30 [some 100, some 100]).toObs
      = .flags [2, 1, 1] ∧
    (speedTest [some 0, some 1, some 2] [some 0, some 0, some 0] [0, 10, 20] 5 8 [some 100, some 100]).toObs
      = .flags [2, 4, 4] ∧
    C16.holds
      (speedTest [some 0, some 1, some 2] [some 0, some 0, some 0] [0, 10, 20] 20 30 [some 100, some 100]).toObs
      (speedTest [some 0, some 1, some 2] [some 0, some 0, some 0] [0, 10, 20] 5 8 [some 100, some 100]).toObs
      = true := by
  decide +kernel

/-- density: adding a fail threshold and raising the suspect one. -/
example :
    stricter (.density [some 1, some 3, some 2, none, some 5] [some 0, some 1, some 2, some 3, some 4] (some (-2)) none)
             (.density [some 1, some 3, some 2, none, some 5] [some 0, some 1, some 2, some 3, some 4] (some 0) (some (-1/2))) = true ∧
    (densityTest [some 1, some 3, some 2, none, some 5] [some 0, some 1, some 2, some 3, some 4] (some (-2)) none).toObs
      = .flags [1, 1, 1, 9, 9] ∧
    (densityTest [some 1, some 3, some 2, none, some 5] [some 0, some 1, some 2, some 3, some 4] (some 0) (some (-1/2))).toObs
      = .flags [1, 4, 4, 9, 9] ∧
    C16.holds
      (densityTest [some 1, some 3, some 2, none, some 5] [some 0, some 1, some 2, some 3, some 4] (some (-2)) none).toObs
      (densityTest [some 1, some 3, some 2, none, some 5] [some 0, some 1, some 2, some 3, some 4] (some 0) (some (-1/2))).toObs
      = true := by
  decide +kernel

/-- attenuated signal (whole-series range 3): suspect threshold 2 → 4 turns GOOD into SUSPECT. -/
example :
    stricter (.attenuated "range" [some 0, some 3, none, some 1] [0, 1, 2, 3] 2 1 none none none)
             (.attenuated "range" [some 0, some 3, none, some 1] [0, 1, 2, 3] 4 1 none none none) = true ∧
    (attenuatedTest "range" [some 0, some 3, none, some 1] [0, 1, 2, 3] 2 1 none none none).toObs
      = .flags [1, 1, 9, 1] ∧
    (attenuatedTest "range" [some 0, some 3, none, some 1] [0, 1, 2, 3] 4 1 none none none).toObs
      = .flags [3, 3, 9, 3] ∧
    C16.holds (attenuatedTest "range" [some 0, some 3, none, some 1] [0, 1, 2, 3] 2 1 none none none).toObs
      (attenuatedTest "range" [some 0, some 3, none, some 1] [0, 1, 2, 3] 4 1 none none none).toObs
      = true := by
  decide +kernel

/-- … and with the variance statistic (population variance 1 < 2², not < 1²). -/
example :
    (attenuatedTest "std" [some 0, some 2] [0, 1] 1 (1/2) none none none).toObs = .flags [1, 1] ∧
    (attenuatedTest "std" [some 0, some 2] [0, 1] 2 (1/2) none none none).toObs = .flags [3, 3] ∧
    (attenuatedTest "std" [some 0, some 2] [0, 1] 2 (3/2) none none none).toObs = .flags [4, 4] := by
  decide +kernel

/-- flat line, one-minute sampling: durations 120 / 180 s → 60 / 120 s and tolerance 1/2 → 3/2.
    (The median step is rewritten first: `Array.qsort` does not evaluate in the kernel.) -/
example :
    stricter (.flatLine [some 1, some 1, some 2, some 2, none, some 2, some 5] [0, 60, 120, 180, 240, 300, 360] 120 180 (1/2))
             (.flatLine [some 1, some 1, some 2, some 2, none, some 2, some 5] [0, 60, 120, 180, 240, 300, 360] 60 120 (3/2)) = true ∧
    (flatLineTest [some 1, some 1, some 2, some 2, none, some 2, some 5] [0, 60, 120, 180, 240, 300, 360] 120 180 (1/2)).toObs
      = .flags [1, 1, 1, 1, 9, 4, 1] ∧
    (flatLineTest [some 1, some 1, some 2, some 2, none, some 2, some 5] [0, 60, 120, 180, 240, 300, 360] 60 120 (3/2)).toObs
      = .flags [1, 3, 4, 4, 9, 4, 1] := by
  have hm : medianStep [0, 60, 120, 180, 240, 300, 360] = 60 :=
    medianStep_regular _ 60 (List.replicate 5 60) (by decide +kernel) (by decide +kernel)
  unfold flatLineTest
  simp only [hm]
  decide +kernel

/-- Why `C16_flat_of_nonneg` asks for non-negative strict durations (far outside the domain: a
    decreasing time axis *and* negative durations): the median step is −1, the duration −2 gives a
    count of 2 where the duration 0 gives 0, so "stricter" lengthens the window. -/
example :
    stricter (.flatLine [some 0, some 1, some 2, some 3] [3, 2, 1, 0] 0 (-10) (1/2))
             (.flatLine [some 0, some 1, some 2, some 3] [3, 2, 1, 0] (-2) (-10) (1/2)) = true ∧
    (flatLineTest [some 0, some 1, some 2, some 3] [3, 2, 1, 0] 0 (-10) (1/2)).toObs
      = .flags [3, 3, 3, 3] ∧
    (flatLineTest [some 0, some 1, some 2, some 3] [3, 2, 1, 0] (-2) (-10) (1/2)).toObs
      = .flags [1, 1, 1, 1] := by
  have hm : medianStep [3, 2, 1, 0] = -1 :=
    medianStep_regular _ (-1) (List.replicate 2 (-1)) (by decide +kernel) (by decide +kernel)
  unfold flatLineTest
  simp only [hm]
  decide +kernel

end IoosQc
