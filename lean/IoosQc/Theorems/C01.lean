/-
  C01 — every test is total on valid parameters: it returns (no exception) exactly one flag per
  input element, each one of 1, 2, 3, 4, 9 — for every series length (0, 1, 2 included) and every
  placement of missing values.  "Valid parameters" = the property spec does not reject
  (`TestCall.validParams`).

  Structure: `C01_length` and `C01_alphabet` hold for *every* successful run (no hypothesis on
  the parameters), `C01_run_ok` shows that the model raises only where the spec rejects, and
  `C01_total` puts the three together.
-/
import IoosQc.Lemmas.Basic
import IoosQc.Theorems.C03
import IoosQc.Theorems.C09
import IoosQc.Theorems.C12
import IoosQc.Theorems.C13
set_option linter.unusedSimpArgs false
set_option linter.unusedVariables false

namespace IoosQc

/-! ### Length: one flag per element of the primary series -/

theorem grossRange_length (fail : SeqArg) (suspect : Option SeqArg) (inp : List V) (fs : List Flag)
    (h : grossRange fail suspect inp = .ok fs) : fs.length = inp.length := by
  unfold grossRange fixedLength at h
  cases hseq : fail.isSeq <;> simp [hseq, bind, Except.bind, pure, Except.pure] at h
  split at h
  · simp at h
  · split at h
    · rename_i a b _
      cases suspect with
      | none => simp at h; subst h; simp
      | some s =>
        simp at h
        cases hs : s.isSeq <;> simp [hs] at h
        split at h
        · simp at h
        · split at h
          · split at h
            · simp [throw, throwThe, MonadExceptOf.throw] at h
            · simp at h; subst h; simp
          · simp [throw, throwThe, MonadExceptOf.throw] at h
    · simp [throw, throwThe, MonadExceptOf.throw] at h

theorem locationTest_length (lon lat : List V) (bbox : SeqArg) (rangeMax : Option Rat)
    (hops : List V) (fs : List Flag)
    (h : locationTest lon lat bbox rangeMax hops = .ok fs) : fs.length = lon.length := by
  unfold locationTest fixedLength at h
  cases hseq : bbox.isSeq <;> simp [hseq, bind, Except.bind, pure, Except.pure] at h
  split at h
  · simp at h
  · split at h
    · split at h <;> simp [throw, throwThe, MonadExceptOf.throw] at h
      subst h; simp
    · simp [throw, throwThe, MonadExceptOf.throw] at h

theorem spikeTest_length (method : String) (sus fail : Option Rat) (inp : List V) (fs : List Flag)
    (h : spikeTest method sus fail inp = .ok fs) : fs.length = inp.length := by
  unfold spikeTest at h
  split at h
  · simp [throw, throwThe, MonadExceptOf.throw] at h
  · simp [pure, Except.pure] at h; subst h; simp

theorem rocTest_length (inp : List V) (ts : List Int) (thr : Rat) (fs : List Flag)
    (h : rocTest inp ts thr = .ok fs) : fs.length = inp.length := by
  unfold rocTest at h
  split at h
  · simp [throw, throwThe, MonadExceptOf.throw] at h
  · simp [pure, Except.pure] at h; subst h; simp

theorem flatLineTest_length (inp : List V) (ts : List Int) (sus fail tol : Rat) (fs : List Flag)
    (h : flatLineTest inp ts sus fail tol = .ok fs) : fs.length = inp.length := by
  unfold flatLineTest at h
  simp only [pure, Except.pure] at h
  split at h <;> (simp at h; subst h; simp)

theorem attenuatedTest_length (checkType : String) (inp : List V) (ts : List Int) (sus fail : Rat)
    (period : Option Rat) (minObs : Option Nat) (minPeriod : Option Rat) (fs : List Flag)
    (h : attenuatedTest checkType inp ts sus fail period minObs minPeriod = .ok fs) :
    fs.length = inp.length := by
  unfold attenuatedTest at h
  split at h
  · simp [throw, throwThe, MonadExceptOf.throw] at h
  · cases period <;> (simp [pure, Except.pure] at h; subst h; simp)

theorem densityTest_length (rho z : List V) (sus fail : Option Rat) (fs : List Flag)
    (h : densityTest rho z sus fail = .ok fs) : fs.length = rho.length := by
  unfold densityTest at h
  split at h
  · simp [throw, throwThe, MonadExceptOf.throw] at h
  · split at h
    · simp [pure, Except.pure] at h; subst h; simp; omega
    · split at h
      · simp [pure, Except.pure] at h; subst h; simp; omega
      · simp [pure, Except.pure] at h; subst h; simp

theorem speedTest_length (lon lat : List V) (ts : List Int) (sus fail : Rat) (hops : List V)
    (fs : List Flag) (h : speedTest lon lat ts sus fail hops = .ok fs) :
    fs.length = lon.length := by
  unfold speedTest at h
  split at h
  · simp [throw, throwThe, MonadExceptOf.throw] at h
  · split at h
    · simp [pure, Except.pure] at h; subst h; simp; omega
    · split at h
      · simp [pure, Except.pure] at h; subst h; simp; omega
      · simp [pure, Except.pure] at h; subst h; simp

/-- C01 (length): whenever a test returns, it returns exactly one flag per element of its primary
    series — every constructor, every length (the one- and zero-point special cases of density
    and speed included), no hypothesis on the parameters. -/
theorem C01_length (periodOf : Period → Int → Int) (c : TestCall) (fs : List Flag)
    (h : c.run periodOf = .ok fs) : fs.length = c.size := by
  cases c with
  | gross f s inp => exact grossRange_length f s inp fs h
  | valid lo hi si ei inp =>
    simp [TestCall.run, validRange, pure, Except.pure] at h; subst h; simp [TestCall.size]
  | location lon lat b r hp => exact locationTest_length lon lat b r hp fs h
  | climatology ms inp t z =>
    simp [TestCall.run, climatologyTest, pure, Except.pure] at h; subst h; simp [TestCall.size]
  | spike m s f inp => exact spikeTest_length m s f inp fs h
  | roc inp t thr => exact rocTest_length inp t thr fs h
  | flatLine inp t s f tol => exact flatLineTest_length inp t s f tol fs h
  | attenuated ct inp t s f p mo mp => exact attenuatedTest_length ct inp t s f p mo mp fs h
  | density rho z s f => exact densityTest_length rho z s f fs h
  | pressure p =>
    simp [TestCall.run, pressureTest, pure, Except.pure] at h; subst h; simp [TestCall.size]
  | speed lon lat t s f hp => exact speedTest_length lon lat t s f hp fs h

/-! ### Alphabet: every returned flag is one of 1, 2, 3, 4, 9 -/

/-- C01 (alphabet): the model's results are lists of `Flag`, whose codes are 1, 2, 3, 4, 9. -/
theorem C01_alphabet (periodOf : Period → Int → Int) (c : TestCall) (fs : List Flag)
    (h : c.run periodOf = .ok fs) : ∀ f ∈ fs, isFlagCode (f.code : Int) = true :=
  fun f _ => Flag.isFlagCode_code f

/-- C01 (determinism) — trivial on the model side: `run` is a function.  (That the *code* is
    deterministic and pure is observed by the harness, DESIGN.md.)  Kept for the audit table. -/
theorem C01_deterministic (periodOf : Period → Int → Int) (c : TestCall) :
    c.run periodOf = c.run periodOf := rfl

/-! ### No exception on valid parameters -/

/-- An observation conforming to a `flags` spec is not an error. -/
theorem ok_of_conforms_flags (al : List (List Flag)) (r : Res)
    (h : conforms (.flags al) r.toObs = true) : ∃ fs, r = .ok fs := by
  cases r with
  | error e => simp [conforms, Res.toObs] at h
  | ok fs => exact ⟨fs, rfl⟩

/-- If the spec does not reject and the run conforms to it, the run returned. -/
theorem ok_of_conforms (s : SpecOut) (r : Res)
    (hs : (match s with | .reject _ => false | .flags _ => true) = true)
    (h : conforms s r.toObs = true) : ∃ fs, r = .ok fs := by
  cases s with
  | reject cls => simp at hs
  | flags al => exact ok_of_conforms_flags al r h

theorem locationTest_ok (lon lat : List V) (bbox : SeqArg) (rangeMax : Option Rat) (hops : List V)
    (h : (match locSpec lon lat bbox rangeMax hops with | .reject _ => false | .flags _ => true) = true) :
    ∃ fs, locationTest lon lat bbox rangeMax hops = .ok fs := by
  unfold locSpec at h
  unfold locationTest fixedLength
  cases hseq : bbox.isSeq <;> simp [hseq] at h
  match hv : bbox.vals with
  | [] => simp [hv] at h
  | [_] => simp [hv] at h
  | [_, _] => simp [hv] at h
  | [_, _, _] => simp [hv] at h
  | _ :: _ :: _ :: _ :: _ :: _ => simp [hv] at h
  | [x0, y0, x1, y1] =>
    simp only [hv] at h
    by_cases hl : lon.length = lat.length
    · simp [hseq, hv, hl, bind, Except.bind, pure, Except.pure]
    · simp [hl] at h

theorem rocTest_ok (inp : List V) (ts : List Int) (thr : Rat)
    (h : (match rocSpec inp ts thr with | .reject _ => false | .flags _ => true) = true) :
    ∃ fs, rocTest inp ts thr = .ok fs := by
  unfold rocSpec at h
  unfold rocTest
  by_cases hl : inp.length = ts.length
  · simp [hl, pure, Except.pure]
  · simp [hl] at h

theorem speedTest_ok (lon lat : List V) (ts : List Int) (sus fail : Rat) (hops : List V)
    (h : (match speedSpec lon lat ts sus fail hops with | .reject _ => false | .flags _ => true) = true) :
    ∃ fs, speedTest lon lat ts sus fail hops = .ok fs := by
  unfold speedSpec at h
  unfold speedTest
  cases hc : (lon.length != lat.length || lon.length != ts.length)
  · simp only [Bool.false_eq_true, if_false, pure, Except.pure]
    split
    · exact ⟨_, rfl⟩
    · split <;> exact ⟨_, rfl⟩
  · simp [hc] at h

/-- The model raises only where the spec rejects: length mismatch (density, location, rate of
    change, speed), malformed spans or suspect ⊄ fail (gross range), unknown method (spike),
    unknown check type (attenuated signal), malformed bounding box (location). -/
theorem C01_run_ok (periodOf : Period → Int → Int) (c : TestCall)
    (h : c.validParams periodOf = true) : ∃ fs, c.run periodOf = .ok fs := by
  unfold TestCall.validParams at h
  cases c with
  | gross f s inp => exact ok_of_conforms _ _ h (C03_gross f s inp)
  | valid lo hi si ei inp => exact ⟨_, rfl⟩
  | location lon lat b r hp => exact locationTest_ok lon lat b r hp h
  | climatology ms inp t z => exact ⟨_, rfl⟩
  | spike m s f inp => exact ok_of_conforms _ _ h (C09_spike m s f inp)
  | roc inp t thr => exact rocTest_ok inp t thr h
  | flatLine inp t s f tol =>
    simp only [TestCall.run, flatLineTest, pure, Except.pure]
    split <;> exact ⟨_, rfl⟩
  | attenuated ct inp t s f p mo mp => exact ok_of_conforms _ _ h (C12_atten ct inp t s f p mo mp)
  | density rho z s f => exact ok_of_conforms _ _ h (C13_density rho z s f)
  | pressure p => exact ⟨_, rfl⟩
  | speed lon lat t s f hp => exact speedTest_ok lon lat t s f hp h

/-! ### C01 -/

/-- C01 (model side): with valid parameters every test returns, without raising, exactly one flag
    per input element, each one of 1,2,3,4,9 — for every series length incl. 0,1,2 and every
    placement of missing values. -/
theorem C01_total (periodOf : Period → Int → Int) (c : TestCall)
    (h : c.validParams periodOf = true) : C01.holds c (c.run periodOf).toObs = true := by
  obtain ⟨fs, hfs⟩ := C01_run_ok periodOf c h
  have hlen := C01_length periodOf c fs hfs
  rw [hfs]
  simp only [C01.holds, Res.toObs, List.length_map, Bool.and_eq_true, beq_iff_eq, List.all_eq_true]
  refine ⟨hlen, ?_⟩
  intro x hx
  obtain ⟨f, _, rfl⟩ := List.mem_map.1 hx
  exact Flag.isFlagCode_code f

/-- Conversely the hypothesis cannot be dropped: where the spec rejects, the model raises
    (so `C01.holds` is false there) — e.g. an unknown spike method. -/
example : (TestCall.spike "median" none none [some 1]).validParams (fun _ t => t) = false ∧
    C01.holds (.spike "median" none none [some 1])
      ((TestCall.spike "median" none none [some 1]).run (fun _ t => t)).toObs = false := by
  decide +kernel

/-! ### Non-vacuity: concrete calls with missing values, lengths 0, 1, 2 and more -/

example : (TestCall.spike "average" (some 1) (some 2)
      [some 1, none, some 5, some 1, none]).validParams (fun _ t => t) = true ∧
    ((TestCall.spike "average" (some 1) (some 2)
      [some 1, none, some 5, some 1, none]).run (fun _ t => t)).toObs = .flags [2, 9, 9, 9, 9] ∧
    C01.holds (.spike "average" (some 1) (some 2) [some 1, none, some 5, some 1, none])
      ((TestCall.spike "average" (some 1) (some 2)
        [some 1, none, some 5, some 1, none]).run (fun _ t => t)).toObs = true := by
  decide +kernel

/-- Density / speed on 0, 1 and 2 points (the special-cased lengths), with missing values. -/
example :
    C01.holds (.density [] [] (some 1) none)
      ((TestCall.density [] [] (some 1) none).run (fun _ t => t)).toObs = true ∧
    C01.holds (.density [none] [some 1] (some 1) none)
      ((TestCall.density [none] [some 1] (some 1) none).run (fun _ t => t)).toObs = true ∧
    C01.holds (.density [some 1, none] [none, some 2] (some 1) (some 2))
      ((TestCall.density [some 1, none] [none, some 2] (some 1) (some 2)).run (fun _ t => t)).toObs = true ∧
    C01.holds (.speed [none] [none] [0] 1 2 [])
      ((TestCall.speed [none] [none] [0] 1 2 []).run (fun _ t => t)).toObs = true ∧
    C01.holds (.speed [some 0, none] [some 0, none] [0, 1] 1 2 [none])
      ((TestCall.speed [some 0, none] [some 0, none] [0, 1] 1 2 [none]).run (fun _ t => t)).toObs = true := by
  decide +kernel

end IoosQc
