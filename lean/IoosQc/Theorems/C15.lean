/-
  C15 — carrier independence.  The theorems are about the *branch logic* of the normalisation:
  every carrier normalises to its logical series (since the repair of finding F-11 also a
  masked array with finite numbers under its mask), so any test composed with the normalisation
  factors through the denotation.  That
  numpy / pandas coercions behave as `normalize` / `mapdates` say is checked by the
  correspondence run (all carriers of one logical case on the real functions), not proved.
-/
import IoosQc.Props.C15
import IoosQc.Theorems.C01
set_option linter.unusedSimpArgs false
set_option linter.unusedVariables false

namespace IoosQc

theorem zipWith_mask_id (d : List V) (m : List Bool)
    (h : (List.zipWith (fun (x : V) b => b && x.isSome) d m).any id = false) (hl : d.length = m.length) :
    List.zipWith (fun x b => if b then none else x) d m = d := by
  induction d generalizing m with
  | nil => cases m <;> simp
  | cons x xs ih =>
    cases m with
    | nil => simp at hl
    | cons b bs =>
      simp only [List.zipWith_cons_cons, List.any_cons, id, Bool.or_eq_false_iff] at h
      simp only [List.zipWith_cons_cons, List.cons.injEq]
      refine ⟨?_, ih bs h.2 (by simpa using hl)⟩
      cases b <;> cases x <;> simp_all

/-- C15 (data): every carrier normalises to its logical series (no hypothesis: since the repair
    of F-11 the mask of a masked array is honoured whatever lies under it). -/
theorem C15_data (c : DataCarrier) : c.normalize = c.denote := by
  cases c <;> rfl

/-- The behaviour before the repair, kept as a regression witness: outside the F-11 class the old
    normalisation agreed with the logical series … -/
theorem C15_data_partial (c : DataCarrier) (hw : c.wf = true) (hb : c.Bad = false) :
    c.normalizeOld = c.denote := by
  cases c with
  | pySeq cs => rfl
  | floatArr xs => rfl
  | maskedArr d m =>
    simp only [DataCarrier.normalizeOld, DataCarrier.denote]
    simp only [DataCarrier.wf, beq_iff_eq] at hw
    exact (zipWith_mask_id d m (by simpa [DataCarrier.Bad] using hb) hw).symm

/-- … and inside it it did not: a masked cell holding 7.25 was evaluated as 7.25 (finding F-11,
    fixed in /repo by 7910c95). -/
theorem C15_data_bad_witness :
    ∃ c : DataCarrier, c.wf = true ∧ c.Bad = true ∧ c.normalizeOld ≠ c.denote ∧ c.normalize = c.denote :=
  ⟨.maskedArr [some 1, some (29/4)] [false, true], by decide +kernel, by decide +kernel, by decide +kernel,
   by decide +kernel⟩

/-- C15 (times): `mapdates` returns the instants the carrier denotes, for every carrier kind. -/
theorem C15_time (c : TimeCarrier) : c.mapdates = c.denote := by
  cases c <;> rfl

/-- Consequence: anything computed from the normalised inputs depends on the carriers only
    through what they denote — two carriers of the same logical series and instants give the same
    result (all tests, any parameters). -/
theorem C15_factor {β : Type} (f : List V → List Int → β) (d1 d2 : DataCarrier) (t1 t2 : TimeCarrier)
    (hd : d1.denote = d2.denote) (ht : t1.denote = t2.denote) :
    f d1.normalize t1.mapdates = f d2.normalize t2.mapdates := by
  rw [C15_data d1, C15_data d2, C15_time, C15_time, hd, ht]

/-- The observation-level predicate holds of the model: one logical call gives one result, which
    conforms to the specification, however many carriers deliver it. -/
theorem C15_main (periodOf : Period → Int → Int) (c : TestCall) (n : Nat)
    (hs : conforms (c.spec periodOf) (c.run periodOf).toObs = true) :
    C15.holds periodOf c (List.replicate n (c.run periodOf).toObs) = true := by
  unfold C15.holds
  simp only [Bool.and_eq_true, List.all_eq_true]
  refine ⟨fun o ho => ?_, ?_⟩
  · rw [List.eq_of_mem_replicate ho]; exact hs
  · cases n with
    | zero => simp
    | succ k =>
      simp only [List.replicate_succ, List.all_eq_true, decide_eq_true_eq]
      intro o ho
      exact List.eq_of_mem_replicate ho

example : (DataCarrier.maskedArr [some 1, none, some 3] [false, true, false]).normalize
    = (DataCarrier.pySeq [.num 1, .pyNone, .num 3]).denote := by decide +kernel

end IoosQc
