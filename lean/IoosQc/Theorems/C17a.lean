/-
  C17 (first half) — flags ignore value offsets, sign, time offsets, joint data/span offsets, and
  series reversal mirrors the spike flags.  Every statement is an equality of model outputs
  (`Res`), for every input including malformed ones (errors are preserved too).

  One hypothesis beyond the statements given: `C17_shift_atten` needs `hl : inp.length ≤ t.length`
  (as `C17_shift_climatology` already does).  The models of `attenuated_signal_test` (rolling
  window) and `climatology_test` do not reject a time axis shorter than the data and read `0`
  beyond its end; that `0` does not move with the shift.  Counterexamples at the end of the file.
  Without a window (`period = none`) no hypothesis is needed: `C17_shift_atten_whole`.
  `rocTest` / `speedTest` reject unequal lengths, `flatLineTest` reads the axis only through
  `medianStep`, so those hold unconditionally.

  Mathlib-free (`grind` settles the field identities over core `Rat`).
-/
import IoosQc.Lemmas.Basic
import IoosQc.Props.C17
set_option linter.unusedSimpArgs false
set_option linter.unusedVariables false
namespace IoosQc

/-! ### lists -/

theorem c17a_getV_map (f : V → V) (hf : f none = none) (xs : List V) (i : Nat) :
    getV (xs.map f) i = f (getV xs i) := by
  unfold getV
  rw [List.getD_eq_getElem?_getD, List.getD_eq_getElem?_getD, List.getElem?_map]
  cases xs[i]? <;> simp [hf]

theorem c17a_length_addAll (k : Rat) (xs : List V) : (addAll k xs).length = xs.length := by
  simp [addAll]

theorem c17a_length_negAll (xs : List V) : (negAll xs).length = xs.length := by
  simp [negAll]

theorem c17a_getV_addAll (k : Rat) (xs : List V) (i : Nat) :
    getV (addAll k xs) i = vadd k (getV xs i) := c17a_getV_map _ rfl _ _

theorem c17a_getV_negAll (xs : List V) (i : Nat) :
    getV (negAll xs) i = vneg (getV xs i) := c17a_getV_map _ rfl _ _

theorem c17a_isNone_vadd (k : Rat) (x : V) : (vadd k x).isNone = x.isNone := by
  cases x <;> rfl

theorem c17a_isNone_vneg (x : V) : (vneg x).isNone = x.isNone := by
  cases x <;> rfl

theorem c17a_length_shiftT (τ : Int) (ts : List Int) : (shiftT τ ts).length = ts.length := by
  simp [shiftT]

theorem c17a_getD_shiftT (τ : Int) (ts : List Int) (i : Nat) (h : i < ts.length) :
    (shiftT τ ts).getD i 0 = ts.getD i 0 + τ := by
  unfold shiftT
  rw [List.getD_eq_getElem?_getD, List.getD_eq_getElem?_getD, List.getElem?_map,
    List.getElem?_eq_getElem h]
  rfl

theorem c17a_diffs_shiftT (τ : Int) (ts : List Int) : diffs (shiftT τ ts) = diffs ts := by
  unfold diffs shiftT
  rw [← List.map_tail, List.zipWith_map]
  congr 1
  funext a b
  omega

theorem c17a_medianStep_shiftT (τ : Int) (ts : List Int) : medianStep (shiftT τ ts) = medianStep ts := by
  unfold medianStep
  rw [c17a_diffs_shiftT]

/-- Differences of two in-range entries ignore the shift. -/
theorem c17a_getD_sub_shiftT (τ : Int) (ts : List Int) (i j : Nat) (hi : i < ts.length)
    (hj : j < ts.length) :
    (shiftT τ ts).getD i 0 - (shiftT τ ts).getD j 0 = ts.getD i 0 - ts.getD j 0 := by
  rw [c17a_getD_shiftT τ ts i hi, c17a_getD_shiftT τ ts j hj]; omega

theorem c17a_trailing_shiftT (τ : Int) (ts : List Int) (P : Rat) (i : Nat) (hi : i < ts.length) :
    trailing (shiftT τ ts) P i = trailing ts P i := by
  unfold trailing
  apply List.filter_congr
  intro j hj
  have hj' : j < ts.length := by have := List.mem_range.1 hj; omega
  rw [c17a_getD_shiftT τ ts i hi, c17a_getD_shiftT τ ts j hj', Rat.intCast_add, Rat.intCast_add]
  congr 1
  apply propext
  grind

theorem c17a_rabs_neg (x : Rat) : rabs (-x) = rabs x := by unfold rabs; grind

theorem c17a_rabs_sub_comm (a b : Rat) : rabs (a - b) = rabs (b - a) := by unfold rabs; grind

/-! ### spike -/

theorem c17a_spikeMag_add (m : SpikeMethod) (k : Rat) (p x q : V) :
    spikeMag m (vadd k p) (vadd k x) (vadd k q) = spikeMag m p x q := by
  cases p <;> cases x <;> cases q <;> try rfl
  rename_i p x q
  cases m
  · simp only [spikeMag, vadd, Option.map_some]
    have : x + k - (p + k + (q + k)) / 2 = x - (p + q) / 2 := by grind
    rw [this]
  · simp only [spikeMag, vadd, Option.map_some]
    have h1 : x + k - (p + k) = x - p := by grind
    have h2 : q + k - (x + k) = q - x := by grind
    rw [h1, h2]

theorem c17a_spikeMag_neg (m : SpikeMethod) (p x q : V) :
    spikeMag m (vneg p) (vneg x) (vneg q) = spikeMag m p x q := by
  cases p <;> cases x <;> cases q <;> try rfl
  rename_i p x q
  cases m
  · simp only [spikeMag, vneg, Option.map_some]
    have : -x - (-p + -q) / 2 = -(x - (p + q) / 2) := by grind
    rw [this, c17a_rabs_neg]
  · simp only [spikeMag, vneg, Option.map_some]
    have h1 : -x - -p = -(x - p) := by grind
    have h2 : -q - -x = -(q - x) := by grind
    have h3 : -(x - p) * -(q - x) = (x - p) * (q - x) := by grind
    rw [h1, h2, h3, c17a_rabs_neg, c17a_rabs_neg]

theorem c17a_spikeMag_symm (m : SpikeMethod) (p x q : V) :
    spikeMag m q x p = spikeMag m p x q := by
  cases p <;> cases x <;> cases q <;> try rfl
  rename_i p x q
  cases m
  · simp only [spikeMag]
    have : (q + p) / 2 = (p + q) / 2 := by grind
    rw [this]
  · simp only [spikeMag]
    have h3 : (x - q) * (p - x) = (x - p) * (q - x) := by grind
    have h4 : rmin (rabs (x - q)) (rabs (p - x)) = rmin (rabs (x - p)) (rabs (q - x)) := by
      rw [c17a_rabs_sub_comm x q, c17a_rabs_sub_comm p x]
      unfold rmin; grind
    rw [h3, h4]

/-- At either end of the series the flag does not depend on the magnitude, only on its presence. -/
theorem c17a_spike_overrides_end (a b c : Bool) (p q : Prop) [Decidable p] [Decidable q] (h : p ∨ q) :
    overrides .good [(a, .suspect), (b, .fail), (decide p, .unknown), (decide q, .unknown), (c, .missing)]
      = if c then .missing else .unknown := by
  cases a <;> cases b <;> cases c <;> by_cases hp : p <;> by_cases hq : q <;>
    simp [overrides, hp, hq] <;> simp_all

theorem c17a_spikeAt_end (m : SpikeMethod) (sus fail : Option Rat) (xs : List V) (i : Nat)
    (h : i = 0 ∨ i + 1 = xs.length) :
    spikeAt m sus fail xs i =
      if ((match m with | .average => (getV xs i).isNone | .differential => false) : Bool)
      then .missing else .unknown := by
  unfold spikeAt
  simp only []
  rw [c17a_spike_overrides_end _ _ _ _ _ h]
  unfold spikeDiff
  simp only [h, if_true]
  cases m <;> simp

theorem c17a_spikeAt_map (f : V → V) (hf : f none = none) (hn : ∀ x, (f x).isNone = x.isNone)
    (hm : ∀ m p x q, spikeMag m (f p) (f x) (f q) = spikeMag m p x q)
    (m : SpikeMethod) (sus fail : Option Rat) (xs : List V) (i : Nat) :
    spikeAt m sus fail (xs.map f) i = spikeAt m sus fail xs i := by
  by_cases h : i = 0 ∨ i + 1 = xs.length
  · rw [c17a_spikeAt_end _ _ _ _ _ (by simpa using h), c17a_spikeAt_end _ _ _ _ _ h,
      c17a_getV_map f hf, hn]
  · unfold spikeAt spikeDiff
    simp only [List.length_map, h, if_false, c17a_getV_map f hf, hm]


theorem c17a_spikeTest_map (f : V → V) (hf : f none = none) (hn : ∀ x, (f x).isNone = x.isNone)
    (hm : ∀ m p x q, spikeMag m (f p) (f x) (f q) = spikeMag m p x q)
    (m : String) (s fl : Option Rat) (inp : List V) :
    spikeTest m s fl (inp.map f) = spikeTest m s fl inp := by
  unfold spikeTest
  split
  · rfl
  · rename_i m' _
    have : spikeAt m' s fl (inp.map f) = spikeAt m' s fl inp :=
      funext (c17a_spikeAt_map f hf hn hm m' s fl inp)
    rw [List.length_map, this]

theorem C17_add_spike (k : Rat) (m s f inp) : spikeTest m s f (addAll k inp) = spikeTest m s f inp :=
  c17a_spikeTest_map _ rfl (c17a_isNone_vadd k) (fun m p x q => c17a_spikeMag_add m k p x q) _ _ _ _

theorem C17_neg_spike (m s f inp) : spikeTest m s f (negAll inp) = spikeTest m s f inp :=
  c17a_spikeTest_map _ rfl c17a_isNone_vneg c17a_spikeMag_neg _ _ _ _

/-! ### rate of change -/

theorem c17a_rocRate_add (k : Rat) (xs : List V) (ts : List Int) (i : Nat) :
    rocRate (addAll k xs) ts i = rocRate xs ts i := by
  unfold rocRate
  rw [c17a_getV_addAll, c17a_getV_addAll]
  cases getV xs (i - 1) <;> cases getV xs i <;> try rfl
  rename_i a b
  simp only [vadd, Option.map_some]
  have : b + k - (a + k) = b - a := by grind
  rw [this]

theorem c17a_rocRate_neg (xs : List V) (ts : List Int) (i : Nat) :
    rocRate (negAll xs) ts i = rocRate xs ts i := by
  unfold rocRate
  rw [c17a_getV_negAll, c17a_getV_negAll]
  cases getV xs (i - 1) <;> cases getV xs i <;> try rfl
  rename_i a b
  simp only [vneg, Option.map_some]
  generalize (((ts.getD i 0 - ts.getD (i - 1) 0 : Int)) : Rat) = d
  have : (-b - -a) / d = -((b - a) / d) := by grind
  rw [this, c17a_rabs_neg]

theorem C17_add_roc (k : Rat) (inp t thr) : rocTest (addAll k inp) t thr = rocTest inp t thr := by
  unfold rocTest rocAt
  simp only [c17a_length_addAll, c17a_rocRate_add, c17a_getV_addAll, c17a_isNone_vadd]

theorem C17_neg_roc (inp t thr) : rocTest (negAll inp) t thr = rocTest inp t thr := by
  unfold rocTest rocAt
  simp only [c17a_length_negAll, c17a_rocRate_neg, c17a_getV_negAll, c17a_isNone_vneg]

theorem c17a_rocRate_shift (τ : Int) (xs : List V) (ts : List Int) (i : Nat) (hi : i < ts.length) :
    rocRate xs (shiftT τ ts) i = rocRate xs ts i := by
  unfold rocRate
  rw [c17a_getD_sub_shiftT τ ts i (i - 1) hi (by omega)]

theorem C17_shift_roc (τ : Int) (inp t thr) : rocTest inp (shiftT τ t) thr = rocTest inp t thr := by
  unfold rocTest
  rw [c17a_length_shiftT]
  by_cases hl : inp.length = t.length
  · simp only [hl, bne_self_eq_false, Bool.false_eq_true, if_false]
    congr 1
    apply List.map_congr_left
    intro i hi
    have hi' : i < t.length := List.mem_range.1 hi
    unfold rocAt
    rw [c17a_rocRate_shift τ inp t i hi']
  · simp [hl]

/-! ### flat line -/

theorem c17a_windowEnding_map (f : V → V) (xs : List V) (i k : Nat) :
    windowEnding (xs.map f) i k = (windowEnding xs i k).map f := by
  unfold windowEnding
  rw [List.map_take, List.map_drop]

theorem c17a_present_add (k : Rat) (w : List V) :
    present (w.map (vadd k)) = (present w).map (· + k) := by
  unfold present
  induction w with
  | nil => rfl
  | cons x xs ih => cases x <;> simp [vadd, List.filterMap_cons, ih]

theorem c17a_present_neg (w : List V) :
    present (w.map vneg) = (present w).map (fun v => -v) := by
  unfold present
  induction w with
  | nil => rfl
  | cons x xs ih => cases x <;> simp [vneg, List.filterMap_cons, ih]

theorem c17a_rmax_add (a b k : Rat) : rmax (a + k) (b + k) = rmax a b + k := by
  unfold rmax; split <;> split <;> grind

theorem c17a_rmin_add (a b k : Rat) : rmin (a + k) (b + k) = rmin a b + k := by
  unfold rmin; split <;> split <;> grind

theorem c17a_rmax_neg (a b : Rat) : rmax (-a) (-b) = -(rmin a b) := by
  unfold rmax rmin; split <;> split <;> grind

theorem c17a_rmin_neg (a b : Rat) : rmin (-a) (-b) = -(rmax a b) := by
  unfold rmax rmin; split <;> split <;> grind

theorem c17a_foldl_rmax_add (k : Rat) (vs : List Rat) :
    ∀ v, (vs.map (· + k)).foldl rmax (v + k) = vs.foldl rmax v + k := by
  induction vs with
  | nil => intro v; rfl
  | cons x xs ih => intro v; simp only [List.map_cons, List.foldl_cons, c17a_rmax_add, ih]

theorem c17a_foldl_rmin_add (k : Rat) (vs : List Rat) :
    ∀ v, (vs.map (· + k)).foldl rmin (v + k) = vs.foldl rmin v + k := by
  induction vs with
  | nil => intro v; rfl
  | cons x xs ih => intro v; simp only [List.map_cons, List.foldl_cons, c17a_rmin_add, ih]

theorem c17a_foldl_rmax_neg (vs : List Rat) :
    ∀ v, (vs.map (fun v => -v)).foldl rmax (-v) = -(vs.foldl rmin v) := by
  induction vs with
  | nil => intro v; rfl
  | cons x xs ih => intro v; simp only [List.map_cons, List.foldl_cons, c17a_rmax_neg, ih]

theorem c17a_foldl_rmin_neg (vs : List Rat) :
    ∀ v, (vs.map (fun v => -v)).foldl rmin (-v) = -(vs.foldl rmax v) := by
  induction vs with
  | nil => intro v; rfl
  | cons x xs ih => intro v; simp only [List.map_cons, List.foldl_cons, c17a_rmin_neg, ih]

theorem c17a_spread_add (k : Rat) (l : List Rat) : spread (l.map (· + k)) = spread l := by
  cases l with
  | nil => rfl
  | cons v vs =>
    simp only [List.map_cons, spread, lmax, lmin, c17a_foldl_rmax_add, c17a_foldl_rmin_add]
    have : vs.foldl rmax v + k - (vs.foldl rmin v + k) = vs.foldl rmax v - vs.foldl rmin v := by grind
    rw [this]

theorem c17a_spread_neg (l : List Rat) : spread (l.map (fun v => -v)) = spread l := by
  cases l with
  | nil => rfl
  | cons v vs =>
    simp only [List.map_cons, spread, lmax, lmin, c17a_foldl_rmax_neg, c17a_foldl_rmin_neg]
    have : -(vs.foldl rmin v) - -(vs.foldl rmax v) = vs.foldl rmax v - vs.foldl rmin v := by grind
    rw [this]

theorem c17a_flatHit_add (k : Rat) (xs : List V) (n : Nat) (tol : Rat) (i : Nat) :
    flatHit (addAll k xs) n tol i = flatHit xs n tol i := by
  unfold flatHit addAll
  rw [c17a_windowEnding_map, c17a_present_add, c17a_spread_add]

theorem c17a_flatHit_neg (xs : List V) (n : Nat) (tol : Rat) (i : Nat) :
    flatHit (negAll xs) n tol i = flatHit xs n tol i := by
  unfold flatHit negAll
  rw [c17a_windowEnding_map, c17a_present_neg, c17a_spread_neg]

theorem C17_add_flat (k : Rat) (inp t s f tol) :
    flatLineTest (addAll k inp) t s f tol = flatLineTest inp t s f tol := by
  unfold flatLineTest flatAt
  simp only [c17a_length_addAll, c17a_flatHit_add, c17a_getV_addAll, c17a_isNone_vadd]
  split
  · simp only [addAll, List.map_map, Function.comp_def, c17a_isNone_vadd]
  · rfl

theorem C17_neg_flat (inp t s f tol) :
    flatLineTest (negAll inp) t s f tol = flatLineTest inp t s f tol := by
  unfold flatLineTest flatAt
  simp only [c17a_length_negAll, c17a_flatHit_neg, c17a_getV_negAll, c17a_isNone_vneg]
  split
  · simp only [negAll, List.map_map, Function.comp_def, c17a_isNone_vneg]
  · rfl

theorem C17_shift_flat (τ : Int) (inp t s f tol) :
    flatLineTest inp (shiftT τ t) s f tol = flatLineTest inp t s f tol := by
  unfold flatLineTest
  rw [c17a_medianStep_shiftT]

/-! ### attenuated signal -/

theorem c17a_foldl_add (l : List Rat) : ∀ a : Rat, l.foldl (· + ·) a = a + rsum l := by
  unfold rsum
  induction l with
  | nil => intro a; simp only [List.foldl_nil]; grind
  | cons x xs ih =>
    intro a
    simp only [List.foldl_cons]
    rw [ih (a + x), ih (0 + x)]
    grind

theorem c17a_rsum_cons (x : Rat) (xs : List Rat) : rsum (x :: xs) = x + rsum xs := by
  have := c17a_foldl_add (x :: xs) 0
  have h2 := c17a_foldl_add xs (0 + x)
  unfold rsum at *
  simp only [List.foldl_cons] at *
  grind

theorem c17a_natCast_succ (n : Nat) : ((n + 1 : Nat) : Rat) = (n : Rat) + 1 := by
  simp [Rat.natCast_add]

theorem c17a_natCast_ne_zero (n : Nat) (h : n ≠ 0) : (n : Rat) ≠ 0 := by
  intro h'
  have : ((n : Nat) : Rat) = ((0 : Nat) : Rat) := by simpa using h'
  exact h (Rat.natCast_inj.1 this)

theorem c17a_rsum_map_add (k : Rat) (l : List Rat) :
    rsum (l.map (· + k)) = rsum l + (l.length : Rat) * k := by
  induction l with
  | nil => simp [rsum]; grind
  | cons x xs ih =>
    simp only [List.map_cons, c17a_rsum_cons, ih, List.length_cons, c17a_natCast_succ]
    grind

theorem c17a_rsum_map_neg (l : List Rat) : rsum (l.map (fun v => -v)) = -rsum l := by
  induction l with
  | nil => simp [rsum]
  | cons x xs ih =>
    simp only [List.map_cons, c17a_rsum_cons, ih]
    grind

theorem c17a_sqDev_add (k : Rat) (l : List Rat) : sqDev (l.map (· + k)) = sqDev l := by
  cases hl : l with
  | nil => rfl
  | cons x xs =>
    rw [← hl]
    have hne : (l.length : Rat) ≠ 0 := c17a_natCast_ne_zero _ (by rw [hl]; simp)
    unfold sqDev
    simp only [List.length_map, c17a_rsum_map_add, List.map_map]
    generalize (l.length : Rat) = d at hne
    have hμ : (rsum l + d * k) / d = rsum l / d + k := by grind
    rw [hμ]
    congr 1
    apply List.map_congr_left
    intro v _
    simp only [Function.comp]
    grind

theorem c17a_sqDev_neg (l : List Rat) : sqDev (l.map (fun v => -v)) = sqDev l := by
  unfold sqDev
  simp only [List.length_map, c17a_rsum_map_neg, List.map_map]
  generalize (l.length : Rat) = d
  have hμ : -rsum l / d = -(rsum l / d) := by grind
  rw [hμ]
  congr 1
  apply List.map_congr_left
  intro v _
  simp only [Function.comp]
  grind

theorem c17a_wholeStat_add (ct : CheckType) (k : Rat) (xs : List V) :
    wholeStat ct (addAll k xs) = wholeStat ct xs := by
  unfold wholeStat addAll
  simp only [c17a_present_add, List.isEmpty_map, List.length_map, c17a_sqDev_add, c17a_spread_add]

theorem c17a_wholeStat_neg (ct : CheckType) (xs : List V) :
    wholeStat ct (negAll xs) = wholeStat ct xs := by
  unfold wholeStat negAll
  simp only [c17a_present_neg, List.isEmpty_map, List.length_map, c17a_sqDev_neg, c17a_spread_neg]

theorem c17a_windowStat_add (ct : CheckType) (minp : Nat) (k : Rat) (xs : List V) (ts : List Int)
    (P : Rat) (i : Nat) :
    windowStat ct minp (addAll k xs) ts P i = windowStat ct minp xs ts P i := by
  unfold windowStat
  have h : getV (addAll k xs) = vadd k ∘ getV xs := funext (c17a_getV_addAll k xs)
  rw [h, ← List.map_map]
  simp only [c17a_present_add, List.length_map, c17a_sqDev_add, c17a_spread_add]

theorem c17a_windowStat_neg (ct : CheckType) (minp : Nat) (xs : List V) (ts : List Int)
    (P : Rat) (i : Nat) :
    windowStat ct minp (negAll xs) ts P i = windowStat ct minp xs ts P i := by
  unfold windowStat
  have h : getV (negAll xs) = vneg ∘ getV xs := funext (c17a_getV_negAll xs)
  rw [h, ← List.map_map]
  simp only [c17a_present_neg, List.length_map, c17a_sqDev_neg, c17a_spread_neg]

theorem c17a_attenAt_isNone (s : Stat) (sus fail : Rat) (x y : V) (h : x.isNone = y.isNone) :
    attenAt s sus fail x = attenAt s sus fail y := by
  unfold attenAt; rw [h]

theorem C17_add_atten (k : Rat) (ct inp t s f p mo mp) :
    attenuatedTest ct (addAll k inp) t s f p mo mp = attenuatedTest ct inp t s f p mo mp := by
  unfold attenuatedTest
  split
  · rfl
  · cases p with
    | none =>
      simp only [c17a_wholeStat_add]
      simp only [addAll, List.map_map]
      congr 1
      apply List.map_congr_left
      intro x _
      exact c17a_attenAt_isNone _ _ _ _ _ (c17a_isNone_vadd k x)
    | some P =>
      simp only [c17a_length_addAll, c17a_windowStat_add, c17a_getV_addAll]
      congr 1
      apply List.map_congr_left
      intro i _
      exact c17a_attenAt_isNone _ _ _ _ _ (c17a_isNone_vadd k _)

theorem C17_neg_atten (ct inp t s f p mo mp) :
    attenuatedTest ct (negAll inp) t s f p mo mp = attenuatedTest ct inp t s f p mo mp := by
  unfold attenuatedTest
  split
  · rfl
  · cases p with
    | none =>
      simp only [c17a_wholeStat_neg]
      simp only [negAll, List.map_map]
      congr 1
      apply List.map_congr_left
      intro x _
      exact c17a_attenAt_isNone _ _ _ _ _ (c17a_isNone_vneg x)
    | some P =>
      simp only [c17a_length_negAll, c17a_windowStat_neg, c17a_getV_negAll]
      congr 1
      apply List.map_congr_left
      intro i _
      exact c17a_attenAt_isNone _ _ _ _ _ (c17a_isNone_vneg _)

theorem c17a_windowStat_shift (ct : CheckType) (minp : Nat) (τ : Int) (xs : List V) (ts : List Int)
    (P : Rat) (i : Nat) (hi : i < ts.length) :
    windowStat ct minp xs (shiftT τ ts) P i = windowStat ct minp xs ts P i := by
  unfold windowStat
  rw [c17a_trailing_shiftT τ ts P i hi]

theorem c17a_attenMinp_shift (mo : Option Nat) (mp : Option Rat) (τ : Int) (ts : List Int) :
    attenMinp mo mp (shiftT τ ts) = attenMinp mo mp ts := by
  unfold attenMinp
  rw [c17a_medianStep_shiftT]

/-- Needs `hl`: the model does not reject a time axis shorter than the data, and reads `0` beyond
    its end, which is not shifted (counterexample below). -/
theorem C17_shift_atten (τ : Int) (ct inp t s f p mo mp) (hl : inp.length ≤ t.length) :
    attenuatedTest ct inp (shiftT τ t) s f p mo mp = attenuatedTest ct inp t s f p mo mp := by
  unfold attenuatedTest
  split
  · rfl
  · cases p with
    | none => rfl
    | some P =>
      simp only [c17a_attenMinp_shift]
      congr 1
      apply List.map_congr_left
      intro i hi
      have hi' : i < t.length := by have := List.mem_range.1 hi; omega
      rw [c17a_windowStat_shift _ _ τ inp t P i hi']

/-- Without a rolling window the time axis is not read at all: no hypothesis. -/
theorem C17_shift_atten_whole (τ : Int) (ct inp t s f mo mp) :
    attenuatedTest ct inp (shiftT τ t) s f none mo mp = attenuatedTest ct inp t s f none mo mp := by
  unfold attenuatedTest
  split <;> rfl

/-! ### density inversion -/

theorem c17a_densDelta_add (k : Rat) (rho z : List V) (j : Nat) :
    densDelta (addAll k rho) z j = densDelta rho z j := by
  unfold densDelta
  rw [c17a_getV_addAll, c17a_getV_addAll]
  cases getV rho j <;> cases getV rho (j + 1) <;> cases getV z j <;> cases getV z (j + 1) <;>
    try rfl
  rename_i r0 r1 z0 z1
  simp only [vadd, Option.map_some]
  have : r1 + k - (r0 + k) = r1 - r0 := by grind
  rw [this]

theorem c17a_recMissing_add (k : Rat) (rho z : List V) (i : Nat) :
    recMissing (addAll k rho) z i = recMissing rho z i := by
  unfold recMissing
  rw [c17a_getV_addAll, c17a_isNone_vadd]

theorem C17_add_density (k : Rat) (rho z s f) :
    densityTest (addAll k rho) z s f = densityTest rho z s f := by
  unfold densityTest densAt densPairBelow
  simp only [c17a_length_addAll, c17a_densDelta_add, c17a_recMissing_add]

/-! ### speed -/

theorem c17a_speedAt_shift (τ : Int) (sus fail : Rat) (lon lat : List V) (ts : List Int)
    (hops : List V) (i : Nat) (hi : i < ts.length) :
    speedAt sus fail lon lat (shiftT τ ts) hops i = speedAt sus fail lon lat ts hops i := by
  unfold speedAt
  rw [c17a_getD_sub_shiftT τ ts i (i - 1) hi (by omega)]

theorem C17_shift_speed (τ : Int) (lon lat t s f h) :
    speedTest lon lat (shiftT τ t) s f h = speedTest lon lat t s f h := by
  unfold speedTest
  rw [c17a_length_shiftT]
  by_cases hl : lon.length = t.length
  · split
    · rfl
    · split
      · rfl
      · split
        · rfl
        · congr 1
          apply List.map_congr_left
          intro i hi
          exact c17a_speedAt_shift τ s f lon lat t h i (by have := List.mem_range.1 hi; omega)
  · simp [hl]

/-! ### climatology -/

theorem c17a_inside_shift (t τ : Int) (s : Rat × Rat) :
    inside ((t + τ : Int) : Rat) (s.1 + (τ : Rat), s.2 + (τ : Rat)) = inside (t : Rat) s := by
  unfold inside
  simp only [Rat.intCast_add, Rat.add_le_add_right]

theorem c17a_memberApply_shift (τ t : Int) (m : Member) (acc : Flag) (x z : V) (nd : Bool) :
    memberApply (shiftMember τ m) acc ((t + τ : Int) : Rat) x z nd
      = memberApply m acc (t : Rat) x z nd := by
  unfold memberApply memberMatches shiftMember
  simp only [c17a_inside_shift]

theorem c17a_climAt_shift (periodOf : Period → Int → Int) (τ : Int) (ms : List Member) (nd : Bool)
    (t : Int) (x z : V) (hp : ∀ m ∈ ms, m.period = none) :
    climAt periodOf (ms.map (shiftMember τ)) nd (t + τ) x z = climAt periodOf ms nd t x z := by
  unfold climAt
  simp only []
  congr 1
  rw [List.foldl_map]
  generalize (overrides .unknown [(x.isNone, .missing)]) = acc
  induction ms generalizing acc with
  | nil => rfl
  | cons m ms ih =>
    have hm : m.period = none := hp m (by simp)
    have hm' : (shiftMember τ m).period = none := hm
    simp only [List.foldl_cons, hm, hm', c17a_memberApply_shift]
    exact ih (fun m' h => hp m' (by simp [h])) _

theorem C17_shift_climatology (periodOf) (τ : Int) (ms inp t z)
    (hp : ms.all (fun m => m.period.isNone) = true) (hl : inp.length ≤ t.length) :
    climatologyTest periodOf (ms.map (shiftMember τ)) inp (shiftT τ t) z
      = climatologyTest periodOf ms inp t z := by
  unfold climatologyTest
  have hp' : ∀ m ∈ ms, m.period = none := by
    intro m hm
    have := (List.all_eq_true.1 hp) m hm
    simpa using this
  simp only []
  congr 1
  apply List.map_congr_left
  intro i hi
  have hi' : i < t.length := by have := List.mem_range.1 hi; omega
  rw [c17a_getD_shiftT τ t i hi', c17a_climAt_shift periodOf τ ms _ _ _ _ hp']

/-! ### gross range / valid range: data and spans together -/

theorem c17a_sort2_add (a b k : Rat) :
    sort2 (a + k) (b + k) = ((sort2 a b).1 + k, (sort2 a b).2 + k) := by
  unfold sort2
  by_cases h : a ≤ b
  · have h' : a + k ≤ b + k := by grind
    simp only [h, h', if_true]
  · have h' : ¬ a + k ≤ b + k := by grind
    simp only [h, h', if_false]

theorem c17a_outside_shift (k : Rat) (x : V) (s : Rat × Rat) :
    outside (vadd k x) (s.1 + k, s.2 + k) = outside x s := by
  cases x with
  | none => rfl
  | some v => simp only [outside, vadd, Option.map_some, vlt, vgt, Rat.add_lt_add_right]

theorem c17a_grossAt_shift (k : Rat) (f : Rat × Rat) (s : Option (Rat × Rat)) (x : V) :
    grossAt (f.1 + k, f.2 + k) (s.map fun u => (u.1 + k, u.2 + k)) (vadd k x) = grossAt f s x := by
  unfold grossAt
  cases s with
  | none => simp only [Option.map_none, c17a_outside_shift, c17a_isNone_vadd]
  | some u => simp only [Option.map_some, c17a_outside_shift, c17a_isNone_vadd]

theorem c17a_gross_map (k : Rat) (f : Rat × Rat) (s : Option (Rat × Rat)) (inp : List V) :
    (addAll k inp).map (grossAt (f.1 + k, f.2 + k) (s.map fun u => (u.1 + k, u.2 + k)))
      = inp.map (grossAt f s) := by
  unfold addAll
  rw [List.map_map]
  apply List.map_congr_left
  intro x _
  exact c17a_grossAt_shift k f s x

theorem c17a_fixedLength_shift (k : Rat) (a : SeqArg) (n : Nat) :
    fixedLength (shiftSeq k a) n = fixedLength a n := by
  unfold fixedLength shiftSeq
  simp only [List.length_map]

theorem C17_both_gross (k : Rat) (f s inp) :
    grossRange (shiftSeq k f) (s.map (shiftSeq k)) (addAll k inp) = grossRange f s inp := by
  unfold grossRange
  rw [c17a_fixedLength_shift]
  cases fixedLength f 2 with
  | error e => rfl
  | ok _ =>
    obtain ⟨fq, fv⟩ := f
    rcases fv with _ | ⟨a, _ | ⟨b, _ | ⟨c, rest⟩⟩⟩ <;> try rfl
    cases s with
    | none =>
      simp only [shiftSeq, List.map_cons, List.map_nil, Option.map_none, c17a_sort2_add]
      have := c17a_gross_map k (sort2 a b) none inp
      simp only [Option.map_none] at this
      simp only [bind, Except.bind, pure, Except.pure, this]
    | some u =>
      simp only [Option.map_some, c17a_fixedLength_shift]
      cases fixedLength u 2 with
      | error e => rfl
      | ok _ =>
        obtain ⟨uq, uv⟩ := u
        rcases uv with _ | ⟨c, _ | ⟨d, _ | ⟨e, rest⟩⟩⟩ <;> try rfl
        simp only [shiftSeq, List.map_cons, List.map_nil, c17a_sort2_add]
        have := c17a_gross_map k (sort2 a b) (some (sort2 c d)) inp
        simp only [Option.map_some] at this
        simp only [bind, Except.bind, pure, Except.pure, this, Rat.add_lt_add_right]

theorem c17a_validAt_shift (k : Rat) (lo hi : V) (si ei : Bool) (x : V) :
    validAt (vadd k lo) (vadd k hi) si ei (vadd k x) = validAt lo hi si ei x := by
  unfold validAt
  cases lo <;> cases hi <;> cases x <;> cases si <;> cases ei <;>
    simp only [vadd, Option.map_some, Option.map_none, vlt, vle, vgt, vge, Rat.add_lt_add_right,
      Rat.add_le_add_right, Option.isNone_none, Option.isNone_some]

theorem C17_both_valid (k : Rat) (lo hi si ei inp) :
    validRange (vadd k lo) (vadd k hi) si ei (addAll k inp) = validRange lo hi si ei inp := by
  unfold validRange addAll
  rw [List.map_map]
  congr 1
  apply List.map_congr_left
  intro x _
  exact c17a_validAt_shift k lo hi si ei x

/-! ### reversal -/

theorem c17a_getV_reverse (xs : List V) (i : Nat) (hi : i < xs.length) :
    getV xs.reverse i = getV xs (xs.length - 1 - i) := by
  unfold getV
  rw [List.getD_eq_getElem?_getD, List.getD_eq_getElem?_getD, List.getElem?_reverse hi]

theorem c17a_spikeAt_reverse (m : SpikeMethod) (sus fail : Option Rat) (xs : List V) (i : Nat)
    (hi : i < xs.length) :
    spikeAt m sus fail xs.reverse i = spikeAt m sus fail xs (xs.length - 1 - i) := by
  by_cases h : i = 0 ∨ i + 1 = xs.length
  · have h' : xs.length - 1 - i = 0 ∨ xs.length - 1 - i + 1 = xs.length := by omega
    rw [c17a_spikeAt_end _ _ _ _ _ (by simpa using h), c17a_spikeAt_end _ _ _ _ _ h',
      c17a_getV_reverse xs i hi]
  · have h' : ¬ (xs.length - 1 - i = 0 ∨ xs.length - 1 - i + 1 = xs.length) := by omega
    have h1 : ¬ i = 0 := fun e => h (Or.inl e)
    have h2 : ¬ i + 1 = xs.length := fun e => h (Or.inr e)
    have h3 : ¬ xs.length - 1 - i = 0 := fun e => h' (Or.inl e)
    have h4 : ¬ xs.length - 1 - i + 1 = xs.length := fun e => h' (Or.inr e)
    have e1 : xs.length - 1 - (i - 1) = xs.length - 1 - i + 1 := by omega
    have e2 : xs.length - 1 - (i + 1) = xs.length - 1 - i - 1 := by omega
    unfold spikeAt spikeDiff
    simp only [List.length_reverse, h, h', h1, h2, h3, h4, if_false, decide_false]
    rw [c17a_getV_reverse xs (i - 1) (by omega), c17a_getV_reverse xs i hi,
      c17a_getV_reverse xs (i + 1) (by omega), e1, e2,
      c17a_spikeMag_symm m (getV xs (xs.length - 1 - i - 1))]

/-- Reversing a series reverses the spike flags. -/
theorem C17_reverse_spike (m s f inp) :
    spikeTest m s f inp.reverse = (spikeTest m s f inp).map List.reverse := by
  unfold spikeTest
  split
  · rfl
  · rename_i m' _
    simp only [List.length_reverse, pure, Except.pure, Except.map]
    congr 1
    apply List.ext_getElem
    · simp
    · intro i hi1 hi2
      simp only [List.length_map, List.length_range] at hi1
      simp only [List.getElem_map, List.getElem_range, List.getElem_reverse, List.length_map,
        List.length_range]
      exact c17a_spikeAt_reverse m' s f inp i hi1

/-! ### Non-vacuity and the counterexample behind `hl` -/

/-- A series with a FAIL spike, SUSPECT spikes and a missing value, and its reverse: mirrored flags. -/
example :
    (spikeTest "average" (some 1) (some 3)
      [some 0, some 5, some 0, some 1, none, some 2, some 4, some 2]).toObs
      = .flags [2, 4, 3, 9, 9, 9, 3, 2] ∧
    (spikeTest "average" (some 1) (some 3)
      [some 0, some 5, some 0, some 1, none, some 2, some 4, some 2].reverse).toObs
      = .flags [2, 3, 9, 9, 9, 3, 4, 2] := by
  decide +kernel

/-- The same series offset by 7 and negated (differential method): the same non-trivial flags. -/
example :
    (spikeTest "differential" (some 1) (some 3)
      (addAll 7 [some 0, some 5, some 0, some 1, none, some 2, some 4, some 2])).toObs
      = .flags [2, 4, 1, 9, 9, 9, 3, 2] ∧
    (spikeTest "differential" (some 1) (some 3)
      (negAll [some 0, some 5, some 0, some 1, none, some 2, some 4, some 2])).toObs
      = .flags [2, 4, 1, 9, 9, 9, 3, 2] := by
  decide +kernel

/-- Data and spans shifted together (gross range): FAIL / SUSPECT / GOOD / MISSING all occur. -/
example :
    (grossRange (shiftSeq 100 ⟨true, [0, 10]⟩) ((some ⟨true, [2, 8]⟩).map (shiftSeq 100))
      (addAll 100 [some (-1), some 1, some 5, none, some 9, some 11])).toObs
      = .flags [4, 3, 1, 9, 3, 4] := by
  decide +kernel

/-- Why `C17_shift_atten` carries `hl`: with a time axis shorter than the data the model reads the
    default `0` beyond its end, which does not move with the shift, so the trailing window of the
    last point changes (GOOD becomes UNKNOWN). -/
example :
    (attenuatedTest "std" [some 1, some 5] [0] 1 1 (some 5) (some 1) none).toObs = .flags [2, 1] ∧
    (attenuatedTest "std" [some 1, some 5] (shiftT (-10) [0]) 1 1 (some 5) (some 1) none).toObs
      = .flags [2, 2] := by
  decide +kernel

/-- The same phenomenon for climatology (hence `hl` there). -/
example :
    (climatologyTest (fun _ t => t) [⟨(0, 10), (0, 1), none, none, none⟩]
      [some 5, some 5] [3] []).toObs = .flags [3, 3] ∧
    (climatologyTest (fun _ t => t) ([⟨(0, 10), (0, 1), none, none, none⟩].map (shiftMember 100))
      [some 5, some 5] (shiftT 100 [3]) []).toObs = .flags [3, 2] := by
  decide +kernel

end IoosQc
