/-
  C10 — rate tests flag a point by its change from the previous point per elapsed second.
  `rate_of_change_test` / `argo.speed_test`: the code-shaped models (`rocTest`, `speedTest`)
  satisfy the property sentence (`rocSpec`, `speedSpec`) for every series, every strictly
  increasing whole-second time axis, every missing pattern.

  Two hypotheses beyond `inDom` are needed and are stated explicitly (counterexamples below):
  * `C10_roc`   needs `0 ≤ thr`: with a negative threshold the code flags the *first* point
    SUSPECT (its rate is the constant 0, and `0 > thr`), the property says GOOD.
  * `C10_speed` needs `hcons`: the supplied hop distance is missing whenever one of the four
    coordinates of the hop is (this is how the real code computes it; the model takes the
    distances as an input).

  Mathlib-free: core `Rat` lemmas (`Rat.inv_pos`, `Rat.mul_neg_iff_of_pos_right`, …) suffice.
-/
import IoosQc.Lemmas.Basic
set_option linter.unusedSimpArgs false
set_option linter.unusedVariables false

namespace IoosQc

/-! ### Arithmetic: dividing by a positive elapsed time -/

theorem rabs_div_pos (x d : Rat) (hd : 0 < d) : rabs (x / d) = rabs x / d := by
  have hinv : 0 < d⁻¹ := Rat.inv_pos.2 hd
  unfold rabs
  rw [Rat.div_def, Rat.div_def]
  have h1 : x * d⁻¹ < 0 ↔ x < 0 := Rat.mul_neg_iff_of_pos_right hinv
  by_cases hx : x < 0
  · simp [hx, h1.2 hx, Rat.neg_mul]
  · have : ¬ x * d⁻¹ < 0 := fun h => hx (h1.1 h)
    simp [hx, this]

theorem rabs_of_nonneg (x : Rat) (h : 0 ≤ x) : rabs x = x := by
  unfold rabs; grind

theorem rabs_nonneg (x : Rat) : 0 ≤ rabs x := by
  unfold rabs; grind

theorem div_nonneg_of_pos (m d : Rat) (hm : 0 ≤ m) (hd : 0 < d) : 0 ≤ m / d := by
  rw [Rat.div_def]
  exact Rat.mul_nonneg hm (Rat.le_of_lt (Rat.inv_pos.2 hd))

/-- "rate exceeds the threshold" without a division: `thr < y / d ↔ thr * d < y` for `d > 0`. -/
theorem lt_rate_iff (thr y d : Rat) (hd : 0 < d) : thr < y / d ↔ thr * d < y :=
  Rat.lt_div_iff hd

/-! ### Strictly increasing time axes -/

theorem increasing_lt (ts : List Int) (h : increasing ts = true) (i : Nat) (hi : 0 < i)
    (hn : i < ts.length) : ts.getD (i - 1) 0 < ts.getD i 0 := by
  induction ts generalizing i with
  | nil => simp at hn
  | cons a t ih =>
    cases t with
    | nil => simp at hn; omega
    | cons b t' =>
      have h' : (0 < b - a) ∧ increasing (b :: t') = true := by
        simpa [increasing, diffs] using h
      match i, hi with
      | 1, _ => simp; omega
      | k + 2, _ =>
        have := ih h'.2 (k + 1) (by omega) (by simpa using hn)
        simpa using this

theorem elapsed_pos (ts : List Int) (h : increasing ts = true) (i : Nat) (hi : 0 < i)
    (hn : i < ts.length) : 0 < elapsed ts i := by
  unfold elapsed
  have := increasing_lt ts h i hi hn
  rw [Rat.intCast_pos]; omega

/-! ### rate_of_change_test -/

/-- Pointwise: with a positive elapsed time (and a non-negative threshold for the first point)
    the model's flag is the one the property names. -/
theorem rocAt_spec (thr : Rat) (xs : List V) (ts : List Int) (i : Nat)
    (hthr : i = 0 → 0 ≤ thr) (hpos : 0 < i → 0 < elapsed ts i) :
    rocAt thr xs ts i ∈ rocSpecAt thr xs ts i := by
  unfold rocAt rocSpecAt rocRate overrides vgt
  by_cases hi : i = 0
  · subst hi
    have := hthr rfl
    cases h0 : getV xs 0 <;> simp [h0]
    grind
  · have hd := hpos (by omega)
    cases hb : getV xs i with
    | none => simp [hi, hb]
    | some b =>
      cases ha : getV xs (i - 1) with
      | none => simp [hi, hb, ha]
      | some a =>
        have e : rabs ((b - a) / elapsed ts i) = rabs (b - a) / elapsed ts i :=
          rabs_div_pos _ _ hd
        unfold elapsed at e hd ⊢
        simp [hi, hb, ha, e]
        split <;> simp_all

/-- C10 (rate of change): the model's output conforms to the property sentence on the whole
    domain (strictly increasing time axis) for every non-negative threshold; mismatched lengths
    are rejected with ValueError. -/
theorem C10_roc (inp : List V) (ts : List Int) (thr : Rat)
    (h : (TestCall.roc inp ts thr).inDom = true) :
    conforms (rocSpec inp ts thr) (rocTest inp ts thr).toObs = true := by
  have hthr : 0 ≤ thr := by
    simp only [TestCall.inDom, Bool.and_eq_true, decide_eq_true_eq] at h; exact h.2
  unfold rocSpec rocTest
  by_cases hl : inp.length = ts.length
  · have hinc : increasing ts = true := by
      simp only [TestCall.inDom, Bool.and_eq_true, decide_eq_true_eq] at h
      simpa [hl] using h.1
    simp only [hl, bne_self_eq_false, Bool.false_eq_true, ↓reduceIte, pure, Except.pure]
    rw [← hl]
    apply conforms_flags_range
    intro i hi
    exact rocAt_spec thr inp ts i (fun _ => hthr)
      (fun h0 => elapsed_pos ts hinc i h0 (by omega))
  · simp [hl, conforms, Res.toObs, throw, throwThe, MonadExceptOf.throw]

/-- Without the sign restriction on the threshold the conformance still holds at every position
    but the first: the statement of `C10_roc` restricted to a series whose first flag is dropped
    is not expressible with `conforms`, so we give the pointwise form. -/
theorem C10_roc_pointwise (inp : List V) (ts : List Int) (thr : Rat)
    (hl : inp.length = ts.length) (hinc : increasing ts = true) (i : Nat) (hi : 0 < i)
    (hn : i < inp.length) :
    rocAt thr inp ts i ∈ rocSpecAt thr inp ts i :=
  rocAt_spec thr inp ts i (by omega) (fun h0 => elapsed_pos ts hinc i h0 (by omega))

/-- Why `0 ≤ thr` is part of the domain: with a negative threshold the first point is SUSPECT. -/
example : (TestCall.roc [some 0] [0] (-1)).inDom = false ∧
    (rocTest [some 0] [0] (-1)).toObs = .flags [3] ∧
    conforms (rocSpec [some 0] [0] (-1)) (rocTest [some 0] [0] (-1)).toObs = false := by
  decide +kernel

/-- The deviation, in general: with a negative threshold a present first point is SUSPECT. -/
theorem C10_roc_first_negative_thr (thr : Rat) (xs : List V) (ts : List Int) (b : Rat)
    (hb : getV xs 0 = some b) (hthr : thr < 0) : rocAt thr xs ts 0 = .suspect := by
  unfold rocAt rocRate overrides vgt
  simp [hb, hthr]

/-! Consequences spelled out (each is a direct reading of the property text). -/

/-- Equality with the threshold does not flag. -/
theorem C10_roc_equality_good (thr : Rat) (xs : List V) (ts : List Int) (i : Nat) (a b : Rat)
    (hi : 0 < i) (hpos : 0 < elapsed ts i)
    (ha : getV xs (i - 1) = some a) (hb : getV xs i = some b)
    (heq : rabs (b - a) / elapsed ts i = thr) : rocAt thr xs ts i = .good := by
  have hmem := rocAt_spec thr xs ts i (by omega) (fun _ => hpos)
  unfold rocSpecAt at hmem
  have hi' : i ≠ 0 := by omega
  simp [hb, ha, hi', heq] at hmem
  have : ¬ thr < thr := by grind
  simpa [this] using hmem

/-- A present point is SUSPECT iff its predecessor is present and the rate exceeds the
    threshold — the threshold comparison written without a division. -/
theorem C10_roc_suspect_iff (thr : Rat) (xs : List V) (ts : List Int) (i : Nat) (a b : Rat)
    (hi : 0 < i) (hpos : 0 < elapsed ts i)
    (ha : getV xs (i - 1) = some a) (hb : getV xs i = some b) :
    rocAt thr xs ts i = .suspect ↔ thr * elapsed ts i < rabs (b - a) := by
  have hmem := rocAt_spec thr xs ts i (by omega) (fun _ => hpos)
  unfold rocSpecAt at hmem
  have hi' : i ≠ 0 := by omega
  simp [hb, ha, hi'] at hmem
  rw [← lt_rate_iff _ _ _ hpos]
  split at hmem <;> simp_all

/-- Mismatched lengths are rejected with ValueError. -/
theorem C10_roc_length_mismatch (inp : List V) (ts : List Int) (thr : Rat)
    (hl : inp.length ≠ ts.length) : rocTest inp ts thr = .error .value := by
  unfold rocTest
  simp [hl, throw, throwThe, MonadExceptOf.throw]

/-- The first point is GOOD when present (non-negative threshold). -/
theorem C10_roc_first_good (thr : Rat) (xs : List V) (ts : List Int) (b : Rat)
    (hb : getV xs 0 = some b) (hthr : 0 ≤ thr) : rocAt thr xs ts 0 = .good := by
  have hmem := rocAt_spec thr xs ts 0 (fun _ => hthr) (by omega)
  unfold rocSpecAt at hmem
  simpa [hb] using hmem

/-- A present point after a gap (predecessor missing) is GOOD, whatever the threshold. -/
theorem C10_roc_after_gap_good (thr : Rat) (xs : List V) (ts : List Int) (i : Nat) (b : Rat)
    (hi : 0 < i) (ha : getV xs (i - 1) = none) (hb : getV xs i = some b) :
    rocAt thr xs ts i = .good := by
  unfold rocAt rocRate overrides vgt
  have hi' : i ≠ 0 := by omega
  simp [hi', ha, hb]

/-- A missing point is MISSING. -/
theorem C10_roc_missing (thr : Rat) (xs : List V) (ts : List Int) (i : Nat)
    (hb : getV xs i = none) : rocAt thr xs ts i = .missing := by
  unfold rocAt overrides
  simp [hb]

/-! ### argo.speed_test -/

theorem hop_nonneg (n : Nat) (hops : List V) (h : hopsOk n hops = true) (j : Nat) (d : Rat)
    (hd : getV hops j = some d) : 0 ≤ d := by
  unfold hopsOk at h
  simp only [Bool.and_eq_true, List.all_eq_true] at h
  unfold getV at hd
  rw [List.getD_eq_getElem?_getD] at hd
  have hd' : hops[j]? = some (some d) := by
    cases h' : hops[j]? with
    | none => simp [h'] at hd
    | some v => simp [h'] at hd; simp [hd]
  have := h.2 _ (List.mem_of_getElem? hd')
  simpa using this

/-- The time difference inside `speedAt` is the property's `elapsed`. -/
theorem speedAt_eq (sus fail : Rat) (lon lat : List V) (ts : List Int) (hops : List V) (i : Nat) :
    speedAt sus fail lon lat ts hops i =
      overrides .good
        [ ((getV lon i).isNone && (getV lat i).isNone, .missing),
          (vgt (if i = 0 then some 0 else (hopAt hops i).map fun m => rabs (m / elapsed ts i)) sus, .suspect),
          (vgt (if i = 0 then some 0 else (hopAt hops i).map fun m => rabs (m / elapsed ts i)) fail, .fail),
          (i = 0, .unknown),
          ((hopAt hops i).isNone, .missing) ] := rfl

/-- Pointwise.  `hpos`: positive elapsed time; `hnn`: the hop distance is not negative;
    `hmiss`: the hop into a position with neither coordinate is missing. -/
theorem speedAt_spec (sus fail : Rat) (lon lat : List V) (ts : List Int) (hops : List V) (i : Nat)
    (hpos : 0 < i → 0 < elapsed ts i)
    (hnn : ∀ d, getV hops (i - 1) = some d → 0 ≤ d)
    (hmiss : 0 < i → getV lon i = none → getV lat i = none → getV hops (i - 1) = none) :
    speedAt sus fail lon lat ts hops i ∈ speedSpecAt sus fail lon lat ts hops i := by
  rw [speedAt_eq]
  unfold speedSpecAt hopAt overrides fullPos vgt anyFlag
  by_cases hi : i = 0
  · subst hi
    cases getV lon 0 <;> cases getV lat 0 <;> simp
  · have hel := hpos (by omega)
    generalize elapsed ts i = el at hel ⊢
    cases hd : getV hops (i - 1) with
    | none =>
      cases hlo : getV lon i <;> cases hla : getV lat i <;>
        cases hlo' : getV lon (i - 1) <;> cases hla' : getV lat (i - 1) <;>
          simp [hi, hd, hlo, hla, hlo', hla']
    | some d =>
      have hd0 := hnn d hd
      have e : rabs (d / el) = d / el :=
        rabs_of_nonneg _ (div_nonneg_of_pos _ _ hd0 hel)
      cases hlo : getV lon i <;> cases hla : getV lat i
      · have := hmiss (by omega) hlo hla
        simp [hd] at this
      all_goals
        cases hlo' : getV lon (i - 1) <;> cases hla' : getV lat (i - 1) <;>
          simp [hi, hd, hlo, hla, hlo', hla', e]
      all_goals (split <;> (try split) <;> simp_all)

/-- C10 (speed), with the weakest consistency hypothesis the proof uses: the hop *into* a
    position that has neither longitude nor latitude is missing. -/
theorem C10_speed_of_missing_hop (lon lat : List V) (ts : List Int) (sus fail : Rat) (hops : List V)
    (h : (TestCall.speed lon lat ts sus fail hops).inDom = true)
    (hmiss : ∀ j, getV lon (j + 1) = none → getV lat (j + 1) = none → getV hops j = none) :
    conforms (speedSpec lon lat ts sus fail hops) (speedTest lon lat ts sus fail hops).toObs = true := by
  unfold speedSpec speedTest
  by_cases hl : lon.length = lat.length ∧ lon.length = ts.length
  · obtain ⟨hl1, hl2⟩ := hl
    have hdom : increasing ts = true ∧ hopsOk lon.length hops = true := by
      have h' := h
      simp only [TestCall.inDom, Bool.or_eq_true, Bool.and_eq_true, bne_iff_ne, ne_eq] at h'
      rcases h' with (h' | h') | h'
      · exact absurd hl1 h'
      · exact absurd hl2 h'
      · exact h'
    have hcond : (lon.length != lat.length || lon.length != ts.length) = false := by
      simp [← hl1, ← hl2]
    rw [hcond]
    simp only [Bool.false_eq_true, ↓reduceIte]
    have key : ∀ i, i < lon.length →
        speedAt sus fail lon lat ts hops i ∈ speedSpecAt sus fail lon lat ts hops i := by
      intro i hi
      apply speedAt_spec
      · intro h0; exact elapsed_pos ts hdom.1 i h0 (by omega)
      · intro d hd; exact hop_nonneg _ _ hdom.2 _ d hd
      · intro h0 hlo hla
        have := hmiss (i - 1)
        have e : i - 1 + 1 = i := by omega
        rw [e] at this
        exact this hlo hla
    by_cases h0 : lon.length = 0
    · simp [h0, conforms, Res.toObs, conformsList, pure, Except.pure]
    · by_cases h1 : lon.length < 2
      · have e1 : lon.length = 1 := by omega
        have k0 := key 0 (by omega)
        have hu : speedAt sus fail lon lat ts hops 0 = .unknown := by
          unfold speedAt hopAt overrides; simp
        rw [hu] at k0
        simp [h0, h1, e1, conforms, Res.toObs, conformsList, pure, Except.pure, List.range_succ]
        exact (allowedCode_iff _ .unknown).2 k0
      · simp only [h0, h1, ↓reduceIte, pure, Except.pure]
        exact conforms_flags_range _ _ _ key
  · have hcond : (lon.length != lat.length || lon.length != ts.length) = true := by
      simp only [Bool.or_eq_true, bne_iff_ne, ne_eq]
      omega
    rw [hcond]
    simp [conforms, Res.toObs, throw, throwThe, MonadExceptOf.throw]

/-- C10 (speed): the model's output conforms to the property sentence on the whole domain,
    given distances consistent with the positions (`hcons`: a hop with a missing coordinate at
    either end is missing — what the harness / the real code guarantees). -/
theorem C10_speed (lon lat : List V) (ts : List Int) (sus fail : Rat) (hops : List V)
    (h : (TestCall.speed lon lat ts sus fail hops).inDom = true) :
    conforms (speedSpec lon lat ts sus fail hops) (speedTest lon lat ts sus fail hops).toObs = true := by
  have hcons := hcons_of_consistent lon lat hops (by
    simp only [TestCall.inDom, Bool.and_eq_true] at h; exact h.2)
  apply C10_speed_of_missing_hop _ _ _ _ _ _ h
  intro j hlo _
  exact hcons j (Or.inr (Or.inr (Or.inl (by simp [hlo]))))

/-- Why `hcons` is needed: in the domain, but a distance is supplied for a hop into a position
    that has no coordinates; the model (like the code, had it that distance) flags FAIL where the
    property allows MISSING / UNKNOWN only. -/
example : (TestCall.speed [some 0, none] [some 0, none] [0, 1] 1 2 [some 5]).inDom = false ∧
    (speedTest [some 0, none] [some 0, none] [0, 1] 1 2 [some 5]).toObs = .flags [2, 4] ∧
    conforms (speedSpec [some 0, none] [some 0, none] [0, 1] 1 2 [some 5])
      (speedTest [some 0, none] [some 0, none] [0, 1] 1 2 [some 5]).toObs = false := by
  decide +kernel

/-- Mismatched lengths are rejected with ValueError. -/
theorem C10_speed_length_mismatch (lon lat : List V) (ts : List Int) (sus fail : Rat) (hops : List V)
    (hl : lon.length ≠ lat.length ∨ lon.length ≠ ts.length) :
    speedTest lon lat ts sus fail hops = .error .value := by
  unfold speedTest
  have hcond : (lon.length != lat.length || lon.length != ts.length) = true := by
    simpa [Bool.or_eq_true, bne_iff_ne] using hl
  rw [hcond]
  simp [throw, throwThe, MonadExceptOf.throw]

/-- The first point is UNKNOWN. -/
theorem C10_speed_first_unknown (sus fail : Rat) (lon lat : List V) (ts : List Int) (hops : List V) :
    speedAt sus fail lon lat ts hops 0 = .unknown := by
  unfold speedAt hopAt overrides; simp

/-- Equality with a threshold does not flag: speed exactly `fail` is not FAIL, speed exactly
    `sus` (and not above `fail`) is GOOD. -/
theorem C10_speed_equality (sus fail : Rat) (lon lat : List V) (ts : List Int) (hops : List V)
    (i : Nat) (d : Rat) (hi : 0 < i) (hpos : 0 < elapsed ts i) (hd0 : 0 ≤ d)
    (hd : getV hops (i - 1) = some d)
    (hfull : fullPos lon lat i = true ∧ fullPos lon lat (i - 1) = true) :
    (d / elapsed ts i = fail → speedAt sus fail lon lat ts hops i ≠ .fail) ∧
    (d / elapsed ts i = sus → sus ≤ fail → speedAt sus fail lon lat ts hops i = .good) := by
  have hmem := speedAt_spec sus fail lon lat ts hops i (fun _ => hpos)
    (fun d' h' => by rw [hd] at h'; cases h'; exact hd0)
    (fun _ hlo _ => by simp [fullPos, hlo] at hfull)
  unfold speedSpecAt at hmem
  have hi' : i ≠ 0 := by omega
  simp [hi', hfull.1, hfull.2, hd] at hmem
  constructor
  · intro he
    have : ¬ fail < fail := by grind
    rw [he] at hmem
    simp [this] at hmem
    split at hmem <;> simp_all
  · intro he hle
    have h1 : ¬ fail < sus := by grind
    have h2 : ¬ sus < sus := by grind
    rw [he] at hmem
    simpa [h1, h2] using hmem

/-- Non-vacuity: the reference run of DESIGN.md App. A with a gap added — 8/64 equals the
    threshold (GOOD), 9/64 exceeds it (SUSPECT), a missing point (MISSING), a point after the
    gap (GOOD). -/
example : (rocTest [some 0, some 8, some 17, none, some 0] [0, 64, 128, 192, 256] (1/8)).toObs
    = .flags [1, 1, 3, 9, 1] := by
  decide +kernel

example : (speedTest [some 0, some 1, none, some 3] [some 0, some 0, none, some 0]
    [0, 10, 30, 40] 5 20 [some 100, none, none]).toObs = .flags [2, 3, 9, 9] := by
  decide +kernel

end IoosQc
