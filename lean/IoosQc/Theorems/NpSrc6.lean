/-
  IoosQc.Theorems.NpSrc6 — `attenuated_signal_test`: the source-shaped transcription (dispatch on
  `check_type`, `test_period`, `min_obs` / `min_period`; five ordered assignments on the array of
  statistics) equals the pointwise model `attenuatedTest`.

    C12_src_atten    NpSrc.attenuated_signal_test = attenuatedTest
-/
import IoosQc.Model.NpSrc
import IoosQc.Theorems.NpRefine
import IoosQc.Theorems.NpSrc2
set_option linter.unusedSimpArgs false
set_option linter.unusedVariables false

namespace IoosQc.NpSrc
open IoosQc.Np

theorem seriesOf_ofInput (xs : List V) : seriesOf (ofInput xs) = xs := by
  simp only [seriesOf, ofInput, List.map_map]
  conv => rhs; rw [← List.map_id xs]
  apply List.map_congr_left
  intro v _
  cases v <;> rfl

/-- the five closing assignments at one position -/
def attenBody (check_val : List Stat) (sus fail : Rat) (inp : MArr) : List Flag :=
  let fl := List.replicate inp.length Flag.unknown
  let fl := setWhere fl (statGe check_val sus) .good
  let fl := setWhere fl (statLt check_val sus) .suspect
  let fl := setWhere fl (statIsNan check_val) .unknown
  let fl := setWhere fl (statLt check_val fail) .fail
  setWhere fl (maskOf inp) .missing

theorem attenBody_eq (xs : List V) (cv : List Stat) (sus fail : Rat) (h : cv.length = xs.length) :
    attenBody cv sus fail (ofInput xs) = (List.range xs.length).map fun i => attenAt (cv.getD i .undef) sus fail (getV xs i) := by
  apply List.ext_getElem?
  intro i
  by_cases hi : i < xs.length
  · have hx := getElem?_getV xs i hi
    have hc : cv[i]? = some (cv.getD i .undef) := by
      rw [List.getD_eq_getElem?_getD]; simp [List.getElem?_eq_getElem (by omega : i < cv.length)]
    simp only [attenBody, getElem?_setWhere, statGe, statLt, statIsNan, List.getElem?_map, hc, Option.map_some, maskOf,
      getElem?_ofInput, hx, length_ofInput, List.getElem?_replicate, hi, if_true, List.getElem?_range hi]
    cases hv : getV xs i <;> simp [attenAt, overrides, cellOf]
  · have h1 : ((List.range xs.length).map fun i => attenAt (cv.getD i .undef) sus fail (getV xs i))[i]? = none := by simp; omega
    rw [h1, List.getElem?_eq_none_iff]
    simp [attenBody, length_setWhere, statGe, statLt, statIsNan, maskOf, length_ofInput, h]; omega

theorem getV_eq_getElem (xs : List V) (i : Nat) (hi : i < xs.length) : getV xs i = xs[i] := by
  have := getElem?_getV xs i hi
  rw [List.getElem?_eq_getElem hi] at this
  exact (Option.some.inj this).symm

theorem whole_case (inp : List V) (sus fail : Rat) (cf : CheckFunc) (ct : CheckType) (hc : cf.ct = ct) :
    attenBody (List.replicate inp.length (wholeApply cf (ofInput inp))) sus fail (ofInput inp)
      = inp.map (attenAt (wholeStat ct inp) sus fail) := by
  rw [attenBody_eq inp _ sus fail (by simp)]
  apply List.ext_getElem?
  intro i
  by_cases hi : i < inp.length
  · simp [List.getElem?_range hi, hi, wholeApply, seriesOf_ofInput, hc, List.getD_eq_getElem?_getD, List.getElem?_replicate,
      getV_eq_getElem inp i hi]
  · have : inp[i]? = none := by simp; omega
    simp [this]; omega

theorem window_case (inp : List V) (ts : List Int) (sus fail P : Rat) (wf : WinFunc) (ct : CheckType) (hw : wf.ct = ct)
    (mp : Option Nat) (minp : Nat) (h : max (mp.getD 1) 1 = max minp 1) :
    attenBody (rollingApply wf mp (ofInput inp) ts P) sus fail (ofInput inp)
      = (List.range inp.length).map fun i => attenAt (windowStat ct (max minp 1) inp ts P i) sus fail (getV inp i) := by
  rw [attenBody_eq inp _ sus fail (by simp [rollingApply, length_ofInput])]
  apply List.map_congr_left
  intro i hi
  have hi' : i < inp.length := by simpa using hi
  simp only [rollingApply, length_ofInput, List.getD_eq_getElem?_getD, List.getElem?_map, List.getElem?_range hi',
    Option.map_some, Option.getD_some, seriesOf_ofInput, hw, h]

/-- The translator's `attenuated_signal_test` is the pointwise model. -/
theorem C12_src_atten (inp : List V) (ts : List Int) (sus fail : Rat) (period : Option Rat) (minObs : Option Nat)
    (minPeriod : Option Rat) (checkType : String) :
    attenuated_signal_test inp ts sus fail period minObs minPeriod checkType
      = attenuatedTest checkType inp ts sus fail period minObs minPeriod := by
  unfold attenuated_signal_test attenuatedTest
  have main : ∀ (wf : WinFunc) (cf : CheckFunc) (ct : CheckType), wf.ct = ct → cf.ct = ct →
      (if (inp.length == 0) = true then (Except.ok (List.replicate inp.length Flag.unknown) : Res)
       else match period with
        | some P => (match minObs with
            | some mo => Except.ok (attenBody (rollingApply wf (some mo) (ofInput inp) ts P) sus fail (ofInput inp))
            | none => (match minPeriod with
              | some mpd => Except.ok (attenBody (rollingApply wf (some (ratioFloor mpd (medianStep ts))) (ofInput inp) ts P) sus fail (ofInput inp))
              | none => Except.ok (attenBody (rollingApply wf none (ofInput inp) ts P) sus fail (ofInput inp))))
        | none => Except.ok (attenBody (List.replicate inp.length (wholeApply cf (ofInput inp))) sus fail (ofInput inp)))
      = (match period with
        | none => (Except.ok (inp.map (attenAt (wholeStat ct inp) sus fail)) : Res)
        | some P => Except.ok ((List.range inp.length).map fun i =>
            attenAt (windowStat ct (max (attenMinp minObs minPeriod ts) 1) inp ts P i) sus fail (getV inp i))) := by
    intro wf cf ct hw hc
    by_cases h0 : inp.length = 0
    · have : inp = [] := List.eq_nil_of_length_eq_zero h0
      subst this
      cases period <;> simp
    · have h0' : (inp.length == 0) = false := by simpa using h0
      simp only [h0', Bool.false_eq_true, if_false]
      cases period with
      | none => simp only [whole_case inp sus fail cf ct hc]
      | some P =>
        cases minObs with
        | some mo => simp only [window_case inp ts sus fail P wf ct hw (some mo) (attenMinp (some mo) minPeriod ts) (by simp [attenMinp])]
        | none =>
          cases minPeriod with
          | some mpd =>
            simp only [window_case inp ts sus fail P wf ct hw (some (ratioFloor mpd (medianStep ts))) (attenMinp none (some mpd) ts)
              (by simp [attenMinp, ratioFloor])]
          | none => simp only [window_case inp ts sus fail P wf ct hw none (attenMinp none none ts) (by simp [attenMinp])]
  by_cases hs : checkType = "std"
  · have := main .std .std .std rfl rfl
    subst hs
    simp only [attenBody, length_ofInput] at this
    simp only [length_ofInput, bind, Except.bind, pure, Except.pure, if_true, List.length_replicate]
    refine Eq.trans ?_ (this.trans ?_) <;> (cases period <;> cases minObs <;> cases minPeriod <;> rfl)
  · by_cases hr : checkType = "range"
    · have := main .ptp .ptp .range rfl rfl
      subst hr
      simp only [attenBody, length_ofInput] at this
      have hne : ¬ ("range" = "std") := by decide
      simp only [length_ofInput, bind, Except.bind, pure, Except.pure, if_true, hne, if_false, List.length_replicate]
      refine Eq.trans ?_ (this.trans ?_) <;> (cases period <;> cases minObs <;> cases minPeriod <;> rfl)
    · simp [hs, hr, bind, Except.bind, throw, throwThe, MonadExceptOf.throw]

end IoosQc.NpSrc
