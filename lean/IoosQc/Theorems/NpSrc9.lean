/-
  IoosQc.Theorems.NpSrc9 — `Call.run`: the source-shaped transcription equals `callRun`.

    C05_src_call    NpSrc.Call_run configured passed sig f = callRun f configured passed sig
-/
import IoosQc.Model.NpCall
import IoosQc.Theorems.C05CallRun

namespace IoosQc.NpSrc

/-- The translator's `Call.run` is the model the keyword theorems (`C05_call_kwargs`, `C05_call_only_signature`) and
    `C18_call_run` are about. -/
theorem C05_src_call {β : Type} (configured passed : KwArgs) (sig : List String) (f : KwArgs → Except Err β) :
    Call_run configured passed sig f = callRun f configured passed sig := by
  unfold Call_run callRun callKwargs
  simp only []
  cases h : f (List.filter (fun kv => sig.contains kv.1) (dictMerge configured passed)) <;> simp

end IoosQc.NpSrc
