/-
  C05 — the refinement statement assembled from the mask theorems: whatever front end ran, the
  rows of ANY column handed to the test are exactly the rows whose time lies in the window, in
  original order, and every column is restricted alike.
-/
import IoosQc.Theorems.C05
set_option linter.unusedSimpArgs false
set_option linter.unusedVariables false

namespace IoosQc

/-- Rows of a column whose time is in the window (the specification: `table.filter inWindow`). -/
def windowRows {α : Type} (w : Window) (xs : List α) (ts : List Int) : List α :=
  ((xs.zip ts).filter fun p => inWindow w p.2).map (·.1)

theorem selectRows_spec_eq_windowRows {α : Type} (w : Window) (xs : List α) (ts : List Int)
    (h : xs.length = ts.length) : selectRows (specMask w ts) xs = windowRows w xs ts := by
  unfold selectRows specMask windowRows
  induction ts generalizing xs with
  | nil => cases xs <;> simp
  | cons t ts ih =>
    cases xs with
    | nil => simp at h
    | cons x xs =>
      have h' : xs.length = ts.length := by simpa using h
      simp only [List.map_cons, List.zip_cons_cons, List.filterMap_cons, List.filter_cons]
      cases hw : inWindow w t <;> simp [hw, ih xs h']

/-- NumpyStream / NetcdfStream / QcConfig.run. -/
theorem C05_refine_numpy {α : Type} (w : Window) (xs : List α) (ts : List Int) (h : xs.length = ts.length) :
    selectRows (numpyMask w ts) xs = windowRows w xs ts := by
  rw [C05_numpy_mask]; exact selectRows_spec_eq_windowRows w xs ts h

/-- XarrayStream. -/
theorem C05_refine_xarray {α : Type} (w : Window) (xs : List α) (ts : List Int) (h : xs.length = ts.length) :
    selectRows (xarrayMask w ts) xs = windowRows w xs ts := by
  rw [C05_xarray_mask]; exact selectRows_spec_eq_windowRows w xs ts h

/-- PandasStream, for any row index (labels may repeat). -/
theorem C05_refine_pandas {α : Type} (w : Window) (xs : List α) (rows : List (Nat × Int))
    (h : xs.length = rows.length) :
    selectRows (pandasMask w rows) xs = windowRows w xs (rows.map (·.2)) := by
  rw [C05_pandas_mask w rows]
  exact selectRows_spec_eq_windowRows w xs _ (by simpa using h)

/-- Consequently all front ends hand the same rows of every column to the test. -/
theorem C05_refine_all {α : Type} (w : Window) (xs : List α) (ts : List Int) (labels : List Nat)
    (h : xs.length = ts.length) (hl : labels.length = ts.length) :
    selectRows (numpyMask w ts) xs = selectRows (xarrayMask w ts) xs ∧
    selectRows (numpyMask w ts) xs = selectRows (pandasMask w (labels.zip ts)) xs := by
  have hz1 : (labels.zip ts).map (·.1) = labels := by
    rw [List.map_fst_zip]; omega
  have hz2 : (labels.zip ts).map (·.2) = ts := by
    rw [List.map_snd_zip]; omega
  refine ⟨by rw [C05_refine_numpy w xs ts h, C05_refine_xarray w xs ts h], ?_⟩
  rw [C05_refine_numpy w xs ts h, C05_refine_pandas w xs (labels.zip ts)
    (by simp [List.length_zip]; omega), hz2]

example : windowRows ⟨some 10, some 20⟩ ["a", "b", "c", "d", "e"] [9, 10, 15, 20, 21] = ["b", "c"] := by decide

end IoosQc
