/-
  IoosQc.Theorems.NpRefine — the array-level transcriptions of `Model/Np.lean` (raw data under
  masks, comparisons on raw data, assignments through masked boolean indexes, later repair by
  `flag_arr[….mask] = MISSING`) compute exactly what the pointwise models of `Model/Tests.lean`
  compute, for every input.

    C03_np_gross      gross_range_test        = grossRange
    C10_np_roc        rate_of_change_test     = rocTest
    C09_np_spike      spike_test (both methods) = spikeTest

  Consequently every theorem proved about the pointwise models (C01–C03, C09, C10, C15–C17) holds
  of the array-level programs, i.e. of the code as it is written — given the numpy primitives
  of `Model/Np.lean`, whose agreement with the installed numpy the correspondence run checks.
-/
import IoosQc.Model.Np
set_option linter.unusedSimpArgs false
set_option linter.unusedVariables false

namespace IoosQc.Np

/-! ## gross_range_test -/

theorem grossBody_cons (f : Rat × Rat) (u : Option (Rat × Rat)) (v : V) (vs : List V) :
    grossBody f u (ofInput (v :: vs)) = grossAt f u v :: grossBody f u (ofInput vs) := by
  cases u <;> cases v <;>
    simp [grossBody, ofInput, cellOf, ones, setWhere, setWhereB, bor, ltS, gtS, maskOf, List.replicate_succ,
      grossAt, overrides, outside, vlt, vgt, Fl.ltS, Fl.gtS] <;>
    (repeat' split) <;> simp_all

theorem grossBody_eq (f : Rat × Rat) (u : Option (Rat × Rat)) (inp : List V) :
    grossBody f u (ofInput inp) = inp.map (grossAt f u) := by
  induction inp with
  | nil => cases u <;> simp [grossBody, ofInput, cellOf, ones, setWhere, setWhereB, bor, ltS, gtS, maskOf]
  | cons v vs ih => rw [grossBody_cons, ih]; rfl

/-- The array-level `gross_range_test` is the pointwise model, errors included. -/
theorem C03_np_gross (fail : SeqArg) (suspect : Option SeqArg) (inp : List V) :
    grossArr fail suspect inp = grossRange fail suspect inp := by
  unfold grossArr grossRange
  simp only [grossBody_eq]
  rfl

/-! ## index lemmas for the array primitives -/

theorem getElem?_ofInput (xs : List V) (i : Nat) :
    (ofInput xs)[i]? = (xs[i]?).map cellOf := by
  simp [ofInput]

theorem length_ofInput (xs : List V) : (ofInput xs).length = xs.length := by simp [ofInput]

theorem getElem?_zeros (n i : Nat) : (zeros n)[i]? = if i < n then some (⟨.num 0, false⟩ : Cell) else none := by
  simp [zeros, List.getElem?_replicate]

theorem getElem?_ones (n i : Nat) : (ones n)[i]? = if i < n then some Flag.good else none := by
  simp [ones, List.getElem?_replicate]

theorem getElem?_tail1 {α : Type} (a : List α) (i : Nat) : (tail1 a)[i]? = a[i + 1]? := by
  simp [tail1, List.getElem?_drop, Nat.add_comm]

theorem getElem?_init1 {α : Type} (a : List α) (i : Nat) : (init1 a)[i]? = if i + 1 < a.length then a[i]? else none := by
  simp only [init1, List.getElem?_take]
  split <;> split <;> first | rfl | omega

theorem getElem?_setTail {α : Type} (dst src : List α) (i : Nat) (h : src.length + 1 = dst.length) :
    (setTail dst src)[i]? = if i = 0 then dst[0]? else src[i - 1]? := by
  cases dst with
  | nil => simp at h
  | cons x rest =>
    have hr : rest.length = src.length := by simpa using h.symm
    cases i with
    | zero => simp [setTail]
    | succ j =>
      simp only [setTail, List.getElem?_cons_succ, Nat.succ_ne_zero, if_false, Nat.add_sub_cancel]
      have : List.drop src.length rest = [] := by simp [hr]
      rw [this, List.append_nil]

theorem getElem?_setWhere (fl : List Flag) (c : List Bool) (x : Flag) (i : Nat) :
    (setWhere fl c x)[i]? = match fl[i]?, c[i]? with
      | some f, some b => some (if b then x else f) | _, _ => none := by
  simp only [setWhere, List.getElem?_zipWith]
  cases fl[i]? <;> cases c[i]? <;> rfl

theorem getElem?_setWhereB (fl : List Flag) (c : BArr) (x : Flag) (i : Nat) :
    (setWhereB fl c x)[i]? = match fl[i]?, c[i]? with
      | some f, some b => some (if b.d then x else f) | _, _ => none := by
  simp only [setWhereB, List.getElem?_zipWith]
  cases fl[i]? <;> cases c[i]? <;> rfl

/-! ## rate_of_change_test -/

theorem length_dtSeconds (ts : List Int) : (dtSeconds ts).length = ts.length - 1 := by
  simp [dtSeconds, tail1, init1]

theorem length_maDiff (a : MArr) : (maDiff a).length = a.length - 1 := by
  simp [maDiff, uf2, tail1, init1]

theorem getElem?_maDiff (a : MArr) (i : Nat) :
    (maDiff a)[i]? = match a[i + 1]?, a[i]? with
      | some x, some y => some ⟨Fl.sub x.d y.d, x.m || y.m⟩ | _, _ => none := by
  simp only [maDiff, uf2, List.getElem?_zipWith, getElem?_tail1, getElem?_init1]
  by_cases h : i + 1 < a.length
  · simp only [h, if_true]
    cases a[i + 1]? <;> cases a[i]? <;> rfl
  · have h1 : a[i + 1]? = none := by simp; omega
    simp [h, h1]

theorem getElem?_dtSeconds (ts : List Int) (i : Nat) (h : i + 1 < ts.length) :
    (dtSeconds ts)[i]? = some (((ts.getD (i + 1) 0 - ts.getD i 0 : Int) : Rat)) := by
  simp only [dtSeconds, List.getElem?_zipWith, getElem?_tail1, getElem?_init1, h, if_true]
  have h1 : ts[i + 1]? = some (ts.getD (i + 1) 0) := by
    rw [List.getD_eq_getElem?_getD]; simp [List.getElem?_eq_getElem h]
  have h0 : ts[i]? = some (ts.getD i 0) := by
    rw [List.getD_eq_getElem?_getD]; simp [List.getElem?_eq_getElem (by omega : i < ts.length)]
  rw [h1, h0]

theorem getElem?_getV (xs : List V) (i : Nat) (h : i < xs.length) : xs[i]? = some (getV xs i) := by
  simp [getV, List.getD_eq_getElem?_getD, List.getElem?_eq_getElem h]

/-- The cell `np.abs(np.diff(inp) / dt)` holds for the pair (j, j+1). -/
def rocQCell (x y : V) (dt : Rat) : Cell :=
  let c := divCell ⟨Fl.sub (cellOf x).d (cellOf y).d, (cellOf x).m || (cellOf y).m⟩ dt
  ⟨c.d.abs, c.m⟩

theorem getElem?_rocQ (inp : List V) (ts : List Int) (hlen : inp.length = ts.length) (j : Nat) (h : j + 1 < inp.length) :
    (uf1 Fl.abs (maDivArr (maDiff (ofInput inp)) (dtSeconds ts)))[j]? =
      some (rocQCell (getV inp (j + 1)) (getV inp j) (((ts.getD (j + 1) 0 - ts.getD j 0 : Int) : Rat))) := by
  have hdt := getElem?_dtSeconds ts j (by omega)
  have h1 := getElem?_getV inp (j + 1) h
  have h0 := getElem?_getV inp j (by omega)
  simp only [uf1, maDivArr, List.getElem?_map, List.getElem?_zipWith, getElem?_maDiff, getElem?_ofInput, h1, h0, hdt,
    Option.map_some, rocQCell]

theorem rocBody_getElem? (thr : Rat) (inp : List V) (ts : List Int) (hlen : inp.length = ts.length) (i : Nat) :
    (rocBody thr (ofInput inp) ts)[i]? = ((List.range inp.length).map (rocAt thr inp ts))[i]? := by
  by_cases hi : i < inp.length
  · have hr : ((List.range inp.length).map (rocAt thr inp ts))[i]? = some (rocAt thr inp ts i) := by
      simp [List.getElem?_range hi]
    rw [hr]
    generalize hQ : uf1 Fl.abs (maDivArr (maDiff (ofInput inp)) (dtSeconds ts)) = Q
    have hlq : Q.length + 1 = (zeros inp.length).length := by
      subst hQ
      simp [uf1, maDivArr, length_maDiff, length_dtSeconds, length_ofInput, zeros, hlen]; omega
    have hroc := getElem?_setTail (zeros inp.length) Q i hlq
    have hbody : rocBody thr (ofInput inp) ts
        = setWhere (setWhereB (ones inp.length) (gtS (setTail (zeros inp.length) Q) thr) .suspect)
            (maskOf (ofInput inp)) .missing := by
      simp only [rocBody, length_ofInput, hQ]
    have hxi := getElem?_getV inp i hi
    rw [hbody, getElem?_setWhere, getElem?_setWhereB, getElem?_ones]
    simp only [hi, if_true, gtS, maskOf, List.getElem?_map, hroc, getElem?_ofInput, hxi, Option.map_some, getElem?_zeros]
    cases i with
    | zero =>
      have h0 : 0 < inp.length := hi
      simp only [if_true, h0, Option.map_some]
      cases hv : getV inp 0 <;>
        simp [rocAt, rocRate, overrides, cellOf, hv, vgt, Fl.gtS]
    | succ j =>
      have hq := getElem?_rocQ inp ts hlen j hi
      rw [hQ] at hq
      simp only [Nat.succ_ne_zero, if_false, Nat.add_sub_cancel, hq, Option.map_some]
      cases hv : getV inp (j + 1) <;> cases hw : getV inp j <;>
        simp [rocAt, rocRate, overrides, cellOf, hv, hw, vgt, Fl.gtS, Fl.sub, Fl.lift2, Fl.divS, Fl.abs, Fl.isNan, divCell, rocQCell]
  · have h1 : ((List.range inp.length).map (rocAt thr inp ts))[i]? = none := by simp; omega
    have h2 : (rocBody thr (ofInput inp) ts)[i]? = none := by
      rw [getElem?_eq_none_iff]
      simp [rocBody, setWhere, setWhereB, maskOf, ones, length_ofInput, gtS]
      omega
    rw [h1, h2]

/-- The array-level `rate_of_change_test` is the pointwise model, errors included. -/
theorem C10_np_roc (inp : List V) (ts : List Int) (thr : Rat) : rocArr inp ts thr = rocTest inp ts thr := by
  unfold rocArr rocTest
  by_cases h : inp.length = ts.length
  · have : rocBody thr (ofInput inp) ts = (List.range inp.length).map (rocAt thr inp ts) :=
      List.ext_getElem? (rocBody_getElem? thr inp ts h)
    simp [h, this]
  · simp [h]

/-! ## spike_test -/

theorem getElem?_tail2 {α : Type} (a : List α) (i : Nat) : (tail2 a)[i]? = a[i + 2]? := by
  simp [tail2, List.getElem?_drop, Nat.add_comm]

theorem getElem?_init2 {α : Type} (a : List α) (i : Nat) : (init2 a)[i]? = if i + 2 < a.length then a[i]? else none := by
  simp only [init2, List.getElem?_take]
  split <;> split <;> first | rfl | omega

theorem getElem?_setInner {α : Type} (dst src : List α) (i : Nat) :
    (setInner dst src)[i]? =
      if dst = [] then none else if i = 0 then dst[0]? else if i - 1 < src.length then src[i - 1]? else dst[i]? := by
  cases dst with
  | nil => simp [setInner]
  | cons x rest =>
    cases i with
    | zero => simp [setInner]
    | succ j =>
      simp only [setInner, List.getElem?_cons_succ, Nat.succ_ne_zero, if_false, Nat.add_sub_cancel, List.getElem?_append,
        reduceCtorEq]
      split
      · rfl
      · rw [List.getElem?_drop]
        congr 1
        omega

theorem getElem?_setFirst (fl : List Flag) (x : Flag) (i : Nat) :
    (setFirst fl x)[i]? = if i = 0 then (fl[0]?).map (fun _ => x) else fl[i]? := by
  cases fl with
  | nil => simp [setFirst]
  | cons f r => cases i <;> simp [setFirst]

theorem length_setFirst (fl : List Flag) (x : Flag) : (setFirst fl x).length = fl.length := by
  cases fl <;> simp [setFirst]

theorem getElem?_setLast (fl : List Flag) (x : Flag) (i : Nat) :
    (setLast fl x)[i]? = if i + 1 = fl.length then some x else fl[i]? := by
  cases fl with
  | nil => simp [setLast]
  | cons f r =>
    simp only [setLast, List.getElem?_append, List.length_take, List.length_cons]
    by_cases h : i + 1 = r.length + 1
    · have : ¬ i < min (r.length + 1 - 1) (r.length + 1) := by omega
      simp [h, this]
      have : i = r.length := by omega
      subst this; simp
    · simp only [h, if_false]
      by_cases h2 : i < r.length
      · have : i < min (r.length + 1 - 1) (r.length + 1) := by omega
        simp only [this, if_true, List.getElem?_take]
        simp [h2]
      · have h3 : ¬ i < min (r.length + 1 - 1) (r.length + 1) := by omega
        have h4 : (f :: r)[i]? = none := by simp; omega
        simp only [h3, if_false, h4]
        have : i - min (r.length + 1 - 1) (r.length + 1) ≠ 0 := by omega
        cases hk : i - min (r.length + 1 - 1) (r.length + 1) with
        | zero => exact absurd hk this
        | succ k => simp

/-- The flag `spikeFlags` assigns at position `i`, from the `diff` cell there. -/
def spikeFlagOf (sus fail : Option Rat) (n i : Nat) (c : Cell) : Flag :=
  overrides .good
    [ ((match sus with | some s => c.d.gtS s | none => false), .suspect),
      ((match fail with | some f => c.d.gtS f | none => false), .fail),
      (i = 0, .unknown),
      (i + 1 = n, .unknown),
      (c.m, .missing) ]

theorem getElem?_applyThr (o : Option Rat) (fl : List Flag) (diff : MArr) (x f : Flag) (c : Cell) (i : Nat)
    (hf : fl[i]? = some f) (hc : diff[i]? = some c) :
    (applyThr o fl diff x)[i]? = some (if (match o with | some s => c.d.gtS s | none => false) then x else f) := by
  cases o with
  | none => simp [applyThr, hf]
  | some s => simp [applyThr, getElem?_setWhereB, gtS, hf, hc]

theorem length_applyThr (o : Option Rat) (fl : List Flag) (diff : MArr) (x : Flag) (h : fl.length = diff.length) :
    (applyThr o fl diff x).length = diff.length := by
  cases o <;> simp [applyThr, setWhereB, gtS, h]

theorem length_setLast (fl : List Flag) (x : Flag) : (setLast fl x).length = fl.length := by
  cases fl with
  | nil => simp [setLast]
  | cons f r => simp [setLast]

theorem getElem?_spikeFlags (sus fail : Option Rat) (diff : MArr) (i : Nat) :
    (spikeFlags sus fail diff)[i]? = (diff[i]?).map (spikeFlagOf sus fail diff.length i) := by
  by_cases hi : i < diff.length
  · obtain ⟨c, hc⟩ : ∃ c, diff[i]? = some c := ⟨diff[i], List.getElem?_eq_getElem hi⟩
    have h0 : (ones diff.length)[i]? = some Flag.good := by simp [getElem?_ones, hi]
    have h1 := getElem?_applyThr sus (ones diff.length) diff .suspect .good c i h0 hc
    have h2 := getElem?_applyThr fail _ diff .fail _ c i h1 hc
    have hl2 : (applyThr fail (applyThr sus (ones diff.length) diff .suspect) diff .fail).length = diff.length :=
      length_applyThr _ _ _ _ (length_applyThr _ _ _ _ (by simp [ones]))
    rw [hc, Option.map_some]
    simp only [spikeFlags, getElem?_setWhere, getElem?_setLast, getElem?_setFirst, length_setFirst, hl2, h2, maskOf,
      List.getElem?_map, hc, Option.map_some]
    cases i with
    | zero =>
      simp only [if_true, Option.map_some]
      by_cases hn : 0 + 1 = diff.length <;> simp [hn, h2, spikeFlagOf, overrides]
    | succ j =>
      simp only [Nat.succ_ne_zero, if_false]
      by_cases hn : j + 1 + 1 = diff.length <;> simp [hn, spikeFlagOf, overrides]
  · have h1 : diff[i]? = none := by simp; omega
    rw [h1, Option.map_none, List.getElem?_eq_none_iff]
    have hl2 : (applyThr fail (applyThr sus (ones diff.length) diff .suspect) diff .fail).length = diff.length :=
      length_applyThr _ _ _ _ (length_applyThr _ _ _ _ (by simp [ones]))
    simp [spikeFlags, setWhere, maskOf, length_setLast, length_setFirst, hl2]
    omega

/-! ### the `diff` array of the two methods, cell by cell -/

def binCell (f : Fl → Fl → Fl) (x y : Cell) : Cell := ⟨if x.m || y.m then x.d else f x.d y.d, x.m || y.m⟩

theorem getElem?_maBin (f : Fl → Fl → Fl) (a b : MArr) (i : Nat) :
    (maBin f a b)[i]? = match a[i]?, b[i]? with | some x, some y => some (binCell f x y) | _, _ => none := by
  simp only [maBin, List.getElem?_zipWith]
  cases a[i]? <;> cases b[i]? <;> rfl

theorem getElem?_uf2 (f : Fl → Fl → Fl) (a b : MArr) (i : Nat) :
    (uf2 f a b)[i]? = match a[i]?, b[i]? with | some x, some y => some ⟨f x.d y.d, x.m || y.m⟩ | _, _ => none := by
  simp only [uf2, List.getElem?_zipWith]
  cases a[i]? <;> cases b[i]? <;> rfl

theorem getElem?_uf1 (f : Fl → Fl) (a : MArr) (i : Nat) : (uf1 f a)[i]? = (a[i]?).map fun x => ⟨f x.d, x.m⟩ := by
  simp [uf1]

theorem getElem?_maDivS (a : MArr) (r : Rat) (i : Nat) : (maDivS a r)[i]? = (a[i]?).map fun x => divCell x r := by
  simp [maDivS]

theorem getElem?_maskedInvalid (a : MArr) (i : Nat) :
    (maskedInvalid a)[i]? = (a[i]?).map fun x => ⟨x.d, x.m || x.d.isNan⟩ := by
  simp [maskedInvalid]

/-- `diff[i]` of method "average" from the cells of x[i-1], x[i], x[i+1]. -/
def avgDiffCell (n i : Nat) (a b c : Cell) : Cell :=
  let r : Cell :=
    if i = 0 ∨ i + 1 = n then ⟨.num 0, false⟩
    else divCell (binCell Fl.add a c) 2
  let r : Cell := ⟨r.d, r.m || r.d.isNan⟩
  let s := binCell Fl.sub b r
  ⟨s.d.abs, s.m⟩

theorem getElem?_spikeDiffAverage (xs : List V) (i : Nat) (hi : i < xs.length) :
    (spikeDiffAverage (ofInput xs))[i]? =
      some (avgDiffCell xs.length i (cellOf (getV xs (i - 1))) (cellOf (getV xs i)) (cellOf (getV xs (i + 1)))) := by
  have hxi := getElem?_getV xs i hi
  simp only [spikeDiffAverage, getElem?_uf1, getElem?_maBin, getElem?_maskedInvalid, getElem?_setInner, getElem?_zeros,
    getElem?_ofInput, hxi, Option.map_some, length_ofInput]
  have hz : zeros xs.length ≠ [] := by
    intro h
    have h' : (zeros xs.length).length = 0 := by rw [h]; rfl
    simp only [zeros, List.length_replicate] at h'
    omega
  simp only [hz, if_false]
  have hL : (maDivS (maBin Fl.add (init2 (ofInput xs)) (tail2 (ofInput xs))) 2).length = xs.length - 2 := by
    simp [maDivS, maBin, init2, tail2, length_ofInput]
  by_cases h0 : i = 0
  · subst h0
    simp [avgDiffCell, hi]
  · by_cases hn : i + 1 = xs.length
    · have hlen : ¬ (i - 1 < (maDivS (maBin Fl.add (init2 (ofInput xs)) (tail2 (ofInput xs))) 2).length) := by
        rw [hL]; omega
      simp [h0, hn, hlen, hi, avgDiffCell]
    · have hi1 : i + 1 < xs.length := by omega
      have hi2 : i - 1 + 2 < xs.length := by omega
      have hlen : i - 1 < (maDivS (maBin Fl.add (init2 (ofInput xs)) (tail2 (ofInput xs))) 2).length := by
        rw [hL]; omega
      have ha := getElem?_getV xs (i - 1) (by omega)
      have hc := getElem?_getV xs (i + 1) (by omega)
      have hidx : i - 1 + 2 = i + 1 := by omega
      simp only [h0, hn, hlen, if_false, if_true, getElem?_maDivS, getElem?_maBin, getElem?_init2, getElem?_tail2,
        length_ofInput, hi2, hi1, getElem?_ofInput, ha, hidx, hc, Option.map_some, avgDiffCell, or_self]

/-- The cell carries the logical value `d`: masked iff `d` is missing, and holding `d` otherwise
    (what is under the mask is unconstrained — that is the "leak"). -/
def cellVal (c : Cell) (d : V) : Prop := c.m = d.isNone ∧ ∀ v, d = some v → c.d = .num v

theorem spikeFlagOf_of_cellVal (sus fail : Option Rat) (m : SpikeMethod) (xs : List V) (i : Nat) (c : Cell)
    (h : cellVal c (spikeDiff m xs i)) :
    spikeFlagOf sus fail xs.length i c = spikeAt m sus fail xs i := by
  obtain ⟨hm, hv⟩ := h
  unfold spikeFlagOf spikeAt
  cases hd : spikeDiff m xs i with
  | none =>
    have : c.m = true := by simpa [hd] using hm
    simp [overrides, this, hd]
  | some v =>
    have hcm : c.m = false := by simpa [hd] using hm
    have hcd : c.d = .num v := hv v hd
    cases sus <;> cases fail <;> simp [overrides, hcm, hcd, hd, vgt, Fl.gtS]

theorem rabs_sub_zero (x : Rat) : rabs (x - 0) = rabs x := by
  have : x - 0 = x := by grind
  rw [this]

theorem avgDiffCell_val (xs : List V) (i : Nat) (hi : i < xs.length) :
    cellVal (avgDiffCell xs.length i (cellOf (getV xs (i - 1))) (cellOf (getV xs i)) (cellOf (getV xs (i + 1))))
      (spikeDiff .average xs i) := by
  unfold spikeDiff
  by_cases hend : i = 0 ∨ i + 1 = xs.length
  · simp only [hend, if_true]
    cases hx : getV xs i <;>
      simp [cellVal, avgDiffCell, hend, binCell, cellOf, Fl.isNan, Fl.sub, Fl.lift2, Fl.abs, rabs_sub_zero]
  · simp only [hend, if_false]
    cases hp : getV xs (i - 1) <;> cases hx : getV xs i <;> cases hq : getV xs (i + 1) <;>
      simp [cellVal, avgDiffCell, hend, binCell, divCell, cellOf, Fl.isNan, Fl.sub, Fl.add, Fl.lift2, Fl.abs, Fl.divS,
        spikeMag]

/-- `diff[i]` of method "differential" from the cells of x[i-1], x[i], x[i+1]. -/
def difDiffCell (n i : Nat) (a b c : Cell) : Cell :=
  if i = 0 ∨ i + 1 = n then ⟨.num 0, false⟩
  else
    let r0 : Cell := ⟨Fl.sub b.d a.d, b.m || a.m⟩
    let r1 : Cell := ⟨Fl.sub c.d b.d, c.m || b.m⟩
    let inner : Cell := ⟨Fl.min r0.d.abs r1.d.abs, r0.m || r1.m⟩
    if (binCell Fl.mul r0 r1).d.geS 0 then ⟨.num 0, inner.m⟩ else inner

theorem getElem?_geS (a : MArr) (r : Rat) (i : Nat) : (geS a r)[i]? = (a[i]?).map fun x => ⟨x.d.geS r, x.m⟩ := by
  simp [geS]

theorem getElem?_setZeroWhereB (a : MArr) (c : BArr) (i : Nat) :
    (setZeroWhereB a c)[i]? = match a[i]?, c[i]? with
      | some x, some b => some (if b.d then ⟨.num 0, x.m⟩ else x) | _, _ => none := by
  simp only [setZeroWhereB, List.getElem?_zipWith]
  cases a[i]? <;> cases c[i]? <;> rfl

theorem getElem?_spikeDiffDifferential (xs : List V) (i : Nat) (hi : i < xs.length) :
    (spikeDiffDifferential (ofInput xs))[i]? =
      some (difDiffCell xs.length i (cellOf (getV xs (i - 1))) (cellOf (getV xs i)) (cellOf (getV xs (i + 1)))) := by
  have hz : zeros xs.length ≠ [] := by
    intro h
    have h' : (zeros xs.length).length = 0 := by rw [h]; rfl
    simp only [zeros, List.length_replicate] at h'
    omega
  generalize hR : maDiff (ofInput xs) = R
  have hRl : R.length = xs.length - 1 := by subst hR; simp [length_maDiff, length_ofInput]
  generalize hI : uf2 Fl.min (uf1 Fl.abs (init1 R)) (uf1 Fl.abs (tail1 R)) = I
  have hIl : I.length = xs.length - 2 := by
    subst hI; simp [uf2, uf1, init1, tail1, hRl]; omega
  generalize hD1 : setInner (zeros xs.length) I = D1
  have hD1z : D1 ≠ [] := by
    subst hD1
    cases hzz : zeros xs.length with
    | nil => exact absurd hzz hz
    | cons x r => simp [setInner]
  generalize hC : geS (maBin Fl.mul (init1 R) (tail1 R)) 0 = C
  have hbody : spikeDiffDifferential (ofInput xs) = setInner D1 (setZeroWhereB (tail1 (init1 D1)) C) := by
    simp only [spikeDiffDifferential, length_ofInput, hR, hI, hD1, hC]
  have hD1i : ∀ k, D1[k]? = if k = 0 then (zeros xs.length)[0]? else if k - 1 < I.length then I[k - 1]? else (zeros xs.length)[k]? := by
    intro k; subst hD1; rw [getElem?_setInner]; simp [hz]
  have hSl : (setZeroWhereB (tail1 (init1 D1)) C).length = xs.length - 2 := by
    have hD1l : D1.length = xs.length := by
      subst hD1
      cases hzz : zeros xs.length with
      | nil => exact absurd hzz hz
      | cons x r =>
        have : r.length + 1 = xs.length := by
          have := congrArg List.length hzz; simp [zeros] at this; omega
        simp [setInner, hIl]; omega
    have hCl : C.length = xs.length - 2 := by
      subst hC; simp [geS, maBin, init1, tail1, hRl]; omega
    simp [setZeroWhereB, tail1, init1, hD1l, hCl]; omega
  rw [hbody, getElem?_setInner]
  simp only [hD1z, if_false]
  by_cases h0 : i = 0
  · subst h0
    simp [hD1i, getElem?_zeros, hi, difDiffCell]
  · by_cases hn : i + 1 = xs.length
    · have : ¬ (i - 1 < (setZeroWhereB (tail1 (init1 D1)) C).length) := by rw [hSl]; omega
      have h2 : ¬ (i - 1 < I.length) := by rw [hIl]; omega
      simp [h0, hn, this, hD1i, h2, getElem?_zeros, hi, difDiffCell]
    · have hlt : i - 1 < (setZeroWhereB (tail1 (init1 D1)) C).length := by rw [hSl]; omega
      have hk : i - 1 + 1 = i := by omega
      have hIi : i - 1 < I.length := by rw [hIl]; omega
      have hD1l2 : i + 1 < D1.length := by
        have : D1.length = xs.length := by
          subst hD1
          cases hzz : zeros xs.length with
          | nil => exact absurd hzz hz
          | cons x r =>
            have : r.length + 1 = xs.length := by
              have := congrArg List.length hzz; simp [zeros] at this; omega
            simp [setInner, hIl]; omega
        omega
      have ha := getElem?_getV xs (i - 1) (by omega)
      have hb := getElem?_getV xs i hi
      have hc := getElem?_getV xs (i + 1) (by omega)
      have hR0 : R[i - 1]? = some ⟨Fl.sub (cellOf (getV xs i)).d (cellOf (getV xs (i - 1))).d,
          (cellOf (getV xs i)).m || (cellOf (getV xs (i - 1))).m⟩ := by
        subst hR; rw [getElem?_maDiff]; simp [getElem?_ofInput, hk, ha, hb]
      have hR1 : R[i]? = some ⟨Fl.sub (cellOf (getV xs (i + 1))).d (cellOf (getV xs i)).d,
          (cellOf (getV xs (i + 1))).m || (cellOf (getV xs i)).m⟩ := by
        subst hR; rw [getElem?_maDiff]; simp [getElem?_ofInput, hb, hc]
      have hRi1 : i - 1 + 1 < R.length := by rw [hRl]; omega
      have hRi : i < R.length := by rw [hRl]; omega
      have hII : I[i - 1]? = some ⟨Fl.min (Fl.sub (cellOf (getV xs i)).d (cellOf (getV xs (i - 1))).d).abs
            (Fl.sub (cellOf (getV xs (i + 1))).d (cellOf (getV xs i)).d).abs,
          ((cellOf (getV xs i)).m || (cellOf (getV xs (i - 1))).m) || ((cellOf (getV xs (i + 1))).m || (cellOf (getV xs i)).m)⟩ := by
        subst hI
        simp only [getElem?_uf2, getElem?_uf1, getElem?_init1, getElem?_tail1, hRi1, hRi, if_true, hR0, hk, hR1, Option.map_some]
      have hCC : C[i - 1]? = some ⟨(binCell Fl.mul ⟨Fl.sub (cellOf (getV xs i)).d (cellOf (getV xs (i - 1))).d,
            (cellOf (getV xs i)).m || (cellOf (getV xs (i - 1))).m⟩
          ⟨Fl.sub (cellOf (getV xs (i + 1))).d (cellOf (getV xs i)).d,
            (cellOf (getV xs (i + 1))).m || (cellOf (getV xs i)).m⟩).d.geS 0,
          (binCell Fl.mul ⟨Fl.sub (cellOf (getV xs i)).d (cellOf (getV xs (i - 1))).d,
            (cellOf (getV xs i)).m || (cellOf (getV xs (i - 1))).m⟩
          ⟨Fl.sub (cellOf (getV xs (i + 1))).d (cellOf (getV xs i)).d,
            (cellOf (getV xs (i + 1))).m || (cellOf (getV xs i)).m⟩).m⟩ := by
        subst hC
        simp only [getElem?_geS, getElem?_maBin, getElem?_init1, getElem?_tail1, hRi1, hRi, if_true, hR0, hk, hR1, Option.map_some]
      have hT : (tail1 (init1 D1))[i - 1]? = I[i - 1]? := by
        rw [getElem?_tail1, getElem?_init1, hk]
        simp only [hD1l2, if_true, hD1i, h0, if_false, hIi]
      simp only [h0, if_false, hlt, if_true, getElem?_setZeroWhereB, hT, hII, hCC, difDiffCell, hn, or_self]

theorem difDiffCell_val (xs : List V) (i : Nat) (hi : i < xs.length) :
    cellVal (difDiffCell xs.length i (cellOf (getV xs (i - 1))) (cellOf (getV xs i)) (cellOf (getV xs (i + 1))))
      (spikeDiff .differential xs i) := by
  unfold spikeDiff
  by_cases hend : i = 0 ∨ i + 1 = xs.length
  · simp [hend, cellVal, difDiffCell]
  · simp only [hend, if_false]
    cases hp : getV xs (i - 1) <;> cases hx : getV xs i <;> cases hq : getV xs (i + 1) <;>
      simp [cellVal, difDiffCell, hend, binCell, cellOf, Fl.isNan, Fl.sub, Fl.mul, Fl.min, Fl.lift2, Fl.abs, Fl.geS, spikeMag]
    · split <;> rfl
    · rename_i p x q
      by_cases hneg : (x - p) * (q - x) < 0
      · have hge : ¬ (0 ≤ (x - p) * (q - x)) := by grind
        simp [hneg, hge]
      · have hge : 0 ≤ (x - p) * (q - x) := by grind
        simp [hneg, hge]

/-- The array-level `spike_test` — `ref` / `diff` arrays with raw data under masks, comparisons on
    the raw data, the end points overwritten, `flag_arr[diff.mask] = MISSING` last — is the
    pointwise model, for both methods, every length and every placement of missing values. -/
theorem C09_np_spike (method : String) (sus fail : Option Rat) (inp : List V) :
    spikeArr method sus fail inp = spikeTest method sus fail inp := by
  unfold spikeArr spikeTest
  by_cases ha : method = "average"
  · subst ha
    simp only [if_true]
    congr 1
    apply List.ext_getElem?
    intro i
    rw [getElem?_spikeFlags]
    by_cases hi : i < inp.length
    · rw [getElem?_spikeDiffAverage inp i hi, Option.map_some]
      have hl : (spikeDiffAverage (ofInput inp)).length = inp.length := by
        have h1 := getElem?_spikeDiffAverage inp
        by_cases hlt : (spikeDiffAverage (ofInput inp)).length < inp.length
        · have := h1 (spikeDiffAverage (ofInput inp)).length hlt
          simp at this
        · by_cases hgt : inp.length < (spikeDiffAverage (ofInput inp)).length
          · exfalso
            simp [spikeDiffAverage, uf1, maBin, length_ofInput] at hgt
            omega
          · omega
      rw [hl, spikeFlagOf_of_cellVal sus fail .average inp i _ (avgDiffCell_val inp i hi)]
      simp [List.getElem?_range hi]
    · have h1 : (spikeDiffAverage (ofInput inp))[i]? = none := by
        rw [List.getElem?_eq_none_iff]
        simp [spikeDiffAverage, uf1, maBin, length_ofInput]; omega
      rw [h1, Option.map_none]; symm
      rw [List.getElem?_eq_none_iff]; simp; omega
  · by_cases hd : method = "differential"
    · subst hd
      simp only [ha, if_false, if_true]
      congr 1
      apply List.ext_getElem?
      intro i
      rw [getElem?_spikeFlags]
      have hlen : (spikeDiffDifferential (ofInput inp)).length = inp.length := by
        cases hx : inp with
        | nil => simp [spikeDiffDifferential, ofInput, zeros, setInner]
        | cons x r =>
          simp [spikeDiffDifferential, ofInput, zeros, setInner, List.replicate_succ, setZeroWhereB, geS, maBin, tail1, init1,
            maDiff, uf2, uf1]
      by_cases hi : i < inp.length
      · rw [getElem?_spikeDiffDifferential inp i hi, Option.map_some, hlen,
          spikeFlagOf_of_cellVal sus fail .differential inp i _ (difDiffCell_val inp i hi)]
        simp [List.getElem?_range hi]
      · have h1 : (spikeDiffDifferential (ofInput inp))[i]? = none := by
          rw [List.getElem?_eq_none_iff, hlen]; omega
        rw [h1, Option.map_none]; symm
        rw [List.getElem?_eq_none_iff]; simp; omega
    · simp [ha, hd]

end IoosQc.Np
