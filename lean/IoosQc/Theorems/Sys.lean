/-
  IoosQc.Theorems.Sys — theorems about the composed pipeline `Model/System.lean`
  (Config.contexts → Stream.run → Call.run → the QC test → collect_results).

  * `C05_sys_frontends_*`   every modelled window mechanism gives the same complete run;
  * `C05_sys_yield_sound / _complete`  the yielded results are exactly: one per configured
      (context, stream present in the table, test), carrying the flags of the DIRECT call of the
      test model on the rows of that context's window;
  * `C05_sys_outside_row`   a row outside a context's window cannot influence that context;
  * `C06_sys_pieces_wf`, `C06_sys_collect`, `C06_sys_dict`  every collected column has one entry
      per input row, the flag of the last context covering the row, masked / UNKNOWN elsewhere;
  * `C18_sys_isolation`, `C18_sys_alone`  removing tests that cannot run (any number, anywhere),
      or everything but one test, leaves that test's collected column unchanged.
-/
import IoosQc.Model.System
import IoosQc.Theorems.C01
import IoosQc.Theorems.C05
import IoosQc.Theorems.C05Refine
import IoosQc.Theorems.C06
set_option linter.unusedSimpArgs false
set_option linter.unusedVariables false

namespace IoosQc

/-! ## list congruences (not in core under these names) -/

theorem flatMap_congr' {α β : Type} (l : List α) (f g : α → List β) (h : ∀ a ∈ l, f a = g a) :
    l.flatMap f = l.flatMap g := by
  induction l with
  | nil => rfl
  | cons a l ih =>
    simp only [List.flatMap_cons]
    rw [h a (by simp), ih (fun b hb => h b (by simp [hb]))]

theorem filterMap_congr' {α β : Type} (l : List α) (f g : α → Option β) (h : ∀ a ∈ l, f a = g a) :
    l.filterMap f = l.filterMap g := by
  induction l with
  | nil => rfl
  | cons a l ih =>
    simp only [List.filterMap_cons]
    rw [h a (by simp), ih (fun b hb => h b (by simp [hb]))]

/-! ## contexts: grouping -/

/-- Keep only the entries satisfying `p` (the windows stay). -/
def filterEntries (p : SysEntry → Bool) (c : SysCtx) : SysCtx :=
  { c with entries := c.entries.filter p }

@[simp] theorem filterEntries_window (p : SysEntry → Bool) (c : SysCtx) :
    (filterEntries p c).window = c.window := rfl

theorem any_window_filter (p : SysEntry → Bool) (acc : List SysCtx) (c : SysCtx) :
    (acc.map (filterEntries p)).any (fun a => a.window = (filterEntries p c).window)
      = acc.any (fun a => a.window = c.window) := by
  induction acc with
  | nil => rfl
  | cons a as ih =>
    simp only [filterEntries_window] at ih
    simp only [List.map_cons, List.any_cons, filterEntries_window, ih]
    congr

theorem groupStep_filter (p : SysEntry → Bool) (acc : List SysCtx) (c : SysCtx) :
    groupStep (acc.map (filterEntries p)) (filterEntries p c) = (groupStep acc c).map (filterEntries p) := by
  unfold groupStep
  rw [any_window_filter]
  split
  · simp only [List.map_map]
    apply List.map_congr_left
    intro a _
    simp only [Function.comp, filterEntries_window]
    split
    next h => simp [h, filterEntries, List.filter_append]
    next h => simp [h, filterEntries]
  · simp [List.map_append]

theorem foldl_groupStep_filter (p : SysEntry → Bool) (cs acc : List SysCtx) :
    (cs.map (filterEntries p)).foldl groupStep (acc.map (filterEntries p))
      = (cs.foldl groupStep acc).map (filterEntries p) := by
  induction cs generalizing acc with
  | nil => rfl
  | cons c cs ih =>
    simp only [List.map_cons, List.foldl_cons]
    rw [groupStep_filter, ih]

theorem groupCtxs_filter (p : SysEntry → Bool) (cs : List SysCtx) :
    groupCtxs (cs.map (filterEntries p)) = (groupCtxs cs).map (filterEntries p) := by
  have := foldl_groupStep_filter p cs []
  simpa [groupCtxs] using this

/-- Membership through one grouping step. -/
theorem groupStep_mem (acc : List SysCtx) (c : SysCtx) (w : Window) (e : SysEntry) :
    (∃ g ∈ groupStep acc c, g.window = w ∧ e ∈ g.entries) ↔
      ((∃ g ∈ acc, g.window = w ∧ e ∈ g.entries) ∨ (c.window = w ∧ e ∈ c.entries)) := by
  unfold groupStep
  split
  next hany =>
    constructor
    · rintro ⟨g, hg, hw, he⟩
      obtain ⟨a, ha, rfl⟩ := List.mem_map.1 hg
      by_cases hac : a.window = c.window
      · simp only [hac, if_true] at hw he
        rcases List.mem_append.1 he with h | h
        · exact Or.inl ⟨a, ha, hac ▸ hw, h⟩
        · exact Or.inr ⟨hw, h⟩
      · simp only [hac, if_false] at hw he
        exact Or.inl ⟨a, ha, hw, he⟩
    · rintro (⟨g, hg, hw, he⟩ | ⟨hw, he⟩)
      · refine ⟨_, List.mem_map.2 ⟨g, hg, rfl⟩, ?_⟩
        by_cases hgc : g.window = c.window
        · simp only [hgc, if_true]; exact ⟨hgc ▸ hw, List.mem_append.2 (Or.inl he)⟩
        · simp only [hgc, if_false]; exact ⟨hw, he⟩
      · obtain ⟨a, ha, hac⟩ := List.any_eq_true.1 hany
        have hac : a.window = c.window := by simpa using hac
        refine ⟨_, List.mem_map.2 ⟨a, ha, rfl⟩, ?_⟩
        simp only [hac, if_true]
        exact ⟨hw, List.mem_append.2 (Or.inr he)⟩
  next =>
    constructor
    · rintro ⟨g, hg, hw, he⟩
      rcases List.mem_append.1 hg with h | h
      · exact Or.inl ⟨g, h, hw, he⟩
      · have : g = c := by simpa using h
        subst this; exact Or.inr ⟨hw, he⟩
    · rintro (⟨g, hg, hw, he⟩ | ⟨hw, he⟩)
      · exact ⟨g, List.mem_append.2 (Or.inl hg), hw, he⟩
      · exact ⟨c, List.mem_append.2 (Or.inr (by simp)), hw, he⟩

theorem foldl_groupStep_mem (cs acc : List SysCtx) (w : Window) (e : SysEntry) :
    (∃ g ∈ cs.foldl groupStep acc, g.window = w ∧ e ∈ g.entries) ↔
      ((∃ g ∈ acc, g.window = w ∧ e ∈ g.entries) ∨ (∃ c ∈ cs, c.window = w ∧ e ∈ c.entries)) := by
  induction cs generalizing acc with
  | nil => simp
  | cons c cs ih =>
    simp only [List.foldl_cons]
    rw [ih, groupStep_mem]
    constructor
    · rintro ((h | h) | ⟨d, hd, h⟩)
      · exact Or.inl h
      · exact Or.inr ⟨c, by simp, h⟩
      · exact Or.inr ⟨d, by simp [hd], h⟩
    · rintro (h | ⟨d, hd, h⟩)
      · exact Or.inl (Or.inl h)
      · rcases List.mem_cons.1 hd with rfl | hd
        · exact Or.inl (Or.inr h)
        · exact Or.inr ⟨d, hd, h⟩

/-- `Config.contexts` neither loses nor invents a configured (window, entry). -/
theorem C07_sys_group_mem (cs : List SysCtx) (w : Window) (e : SysEntry) :
    (∃ g ∈ groupCtxs cs, g.window = w ∧ e ∈ g.entries) ↔ (∃ c ∈ cs, c.window = w ∧ e ∈ c.entries) := by
  have := foldl_groupStep_mem cs [] w e
  simpa [groupCtxs] using this

/-! ## front ends -/

theorem C05_sys_frontends_numpy (periodOf : Period → Int → Int) (tab : Table) (cs : List SysCtx) :
    runStream periodOf numpyMask tab cs = runStream periodOf specMask tab cs := by
  have : numpyMask = specMask := by funext w ts; exact C05_numpy_mask w ts
  rw [this]

theorem C05_sys_frontends_xarray (periodOf : Period → Int → Int) (tab : Table) (cs : List SysCtx) :
    runStream periodOf xarrayMask tab cs = runStream periodOf specMask tab cs := by
  have : xarrayMask = specMask := by funext w ts; exact C05_xarray_mask w ts
  rw [this]

/-- PandasStream: rows carry labels; whatever they are (repeated ones included) the run is the specified one. -/
theorem C05_sys_frontends_pandas (periodOf : Period → Int → Int) (tab : Table) (cs : List SysCtx)
    (labels : List Nat) (hl : labels.length = tab.t.length) :
    runStream periodOf (fun w ts => pandasMask w (labels.zip ts)) tab cs
      = runStream periodOf specMask tab cs := by
  unfold runStream
  apply flatMap_congr'
  intro c _
  unfold runCtx
  have hm : pandasMask c.window (labels.zip tab.t) = specMask c.window tab.t := by
    have h := C05_pandas_mask c.window (labels.zip tab.t)
    rw [h, List.map_snd_zip (by omega)]
  simp only [hm]

/-! ## what is yielded -/

/-- The flags a configured entry produces in a context whose row mask is `mask`, when its
    stream is a column of the table. -/
def entryFlags (periodOf : Period → Int → Int) (tab : Table) (mask : List Bool) (e : SysEntry) :
    Option (Option (List Flag)) :=
  (tab.cols.lookup e.stream).map fun col => runEntry periodOf tab mask col e

theorem runCtx_eq (periodOf : Period → Int → Int) (front : Window → List Int → List Bool) (tab : Table)
    (c : SysCtx) :
    runCtx periodOf front tab c =
      c.entries.filterMap fun e =>
        (entryFlags periodOf tab (front c.window tab.t) e).map fun fl =>
          ⟨e.stream, e.key, front c.window tab.t, fl⟩ := by
  unfold runCtx entryFlags
  apply filterMap_congr'
  intro e _
  cases tab.cols.lookup e.stream <;> rfl

/-- Soundness: every yielded result is the direct call of a configured test on the rows of its
    context's window. -/
theorem C05_sys_yield_sound (periodOf : Period → Int → Int) (tab : Table) (cs : List SysCtx) (y : Yield)
    (hy : y ∈ runStream periodOf specMask tab cs) :
    ∃ c ∈ cs, ∃ e ∈ c.entries, ∃ col, tab.cols.lookup e.stream = some col ∧
      y = ⟨e.stream, e.key, specMask c.window tab.t,
           runEntry periodOf tab (specMask c.window tab.t) col e⟩ := by
  unfold runStream at hy
  obtain ⟨g, hg, hyg⟩ := List.mem_flatMap.1 hy
  rw [runCtx_eq] at hyg
  obtain ⟨e, he, hye⟩ := List.mem_filterMap.1 hyg
  obtain ⟨c, hc, hw, hec⟩ := (C07_sys_group_mem cs g.window e).1 ⟨g, hg, rfl, he⟩
  unfold entryFlags at hye
  cases hl : tab.cols.lookup e.stream with
  | none => simp [hl] at hye
  | some col =>
    simp only [hl, Option.map_some, Option.some.injEq] at hye
    exact ⟨c, hc, e, hec, col, hl, by rw [← hye, hw]⟩

/-- Completeness: every configured test on a stream the table has is run, in its window. -/
theorem C05_sys_yield_complete (periodOf : Period → Int → Int) (tab : Table) (cs : List SysCtx)
    (c : SysCtx) (hc : c ∈ cs) (e : SysEntry) (he : e ∈ c.entries) (col : List V)
    (hl : tab.cols.lookup e.stream = some col) :
    (⟨e.stream, e.key, specMask c.window tab.t,
      runEntry periodOf tab (specMask c.window tab.t) col e⟩ : Yield) ∈ runStream periodOf specMask tab cs := by
  obtain ⟨g, hg, hw, heg⟩ := (C07_sys_group_mem cs c.window e).2 ⟨c, hc, rfl, he⟩
  unfold runStream
  refine List.mem_flatMap.2 ⟨g, hg, ?_⟩
  rw [runCtx_eq]
  refine List.mem_filterMap.2 ⟨e, heg, ?_⟩
  simp [entryFlags, hl, hw]

/-- A table whose columns all have one entry per row. -/
def Table.wf (tab : Table) : Prop :=
  (∀ z, tab.z = some z → z.length = tab.t.length) ∧
  (∀ a, tab.lat = some a → a.length = tab.t.length) ∧
  (∀ a, tab.lon = some a → a.length = tab.t.length) ∧
  (∀ s col, tab.cols.lookup s = some col → col.length = tab.t.length)

/-- The rows a stream hands to a call are the rows whose time lies in the window, for the data
    and for every axis (C05's sentence). -/
theorem C05_sys_rows_window (tab : Table) (hwf : tab.wf) (w : Window) (s : String) (col : List V)
    (hl : tab.cols.lookup s = some col) :
    tab.rows col (specMask w tab.t) =
      { inp := windowRows w col tab.t, t := windowRows w tab.t tab.t,
        z := tab.z.map fun z => windowRows w z tab.t,
        lat := tab.lat.map fun a => windowRows w a tab.t,
        lon := tab.lon.map fun a => windowRows w a tab.t } := by
  obtain ⟨hz, hlat, hlon, hcols⟩ := hwf
  unfold Table.rows
  congr 1
  · exact selectRows_spec_eq_windowRows w col tab.t (hcols s col hl)
  · exact selectRows_spec_eq_windowRows w tab.t tab.t rfl
  · cases h : tab.z with
    | none => rfl
    | some z => simp [selectRows_spec_eq_windowRows w z tab.t (hz z h)]
  · cases h : tab.lat with
    | none => rfl
    | some a => simp [selectRows_spec_eq_windowRows w a tab.t (hlat a h)]
  · cases h : tab.lon with
    | none => rfl
    | some a => simp [selectRows_spec_eq_windowRows w a tab.t (hlon a h)]

/-! ## collection -/

theorem selectRows_length {α : Type} (mask : List Bool) (xs : List α) (h : xs.length = mask.length) :
    (selectRows mask xs).length = mask.count true := by
  unfold selectRows
  induction mask generalizing xs with
  | nil => simp
  | cons m ms ih =>
    cases xs with
    | nil => simp at h
    | cons x xs =>
      have h' : xs.length = ms.length := by simpa using h
      have := ih xs h'
      cases m <;> simp_all [List.zip_cons_cons, List.filterMap_cons]

/-- A call bound to rows that all have `k` entries has `k` as its size. -/
theorem bind_size (sp : TestSpec) (r : Rows) (k : Nat) (call : TestCall)
    (hinp : r.inp.length = k)
    (hlat : ∀ a, r.lat = some a → a.length = k) (hlon : ∀ a, r.lon = some a → a.length = k)
    (hb : sp.bind r = some call) : call.size = k := by
  cases sp <;> simp only [TestSpec.bind] at hb
  case gross f su => cases hb; simpa [TestCall.size] using hinp
  case valid lo hi si ei => cases hb; simpa [TestCall.size] using hinp
  case location b rm h =>
    cases hlo : r.lon <;> cases hla : r.lat <;> simp [hlo, hla] at hb
    cases hb; simpa [TestCall.size] using hlon _ hlo
  case climatology ms =>
    cases hz : r.z <;> simp [hz] at hb
    cases hb; simpa [TestCall.size] using hinp
  case spike m su f => cases hb; simpa [TestCall.size] using hinp
  case roc thr => cases hb; simpa [TestCall.size] using hinp
  case flatLine su f tol => cases hb; simpa [TestCall.size] using hinp
  case attenuated ct su f pe mo mp => cases hb; simpa [TestCall.size] using hinp
  case density su f =>
    cases hz : r.z <;> simp [hz] at hb
    cases hb; simpa [TestCall.size] using hinp
  case pressure => cases hb; simpa [TestCall.size] using hinp
  case speed su f h =>
    cases hlo : r.lon <;> cases hla : r.lat <;> simp [hlo, hla] at hb
    cases hb; simpa [TestCall.size] using hlon _ hlo
  case raiser => cases hb

/-- Whatever a call yields has one flag per row of its window. -/
theorem runEntry_length (periodOf : Period → Int → Int) (tab : Table) (hwf : tab.wf) (mask : List Bool)
    (hm : mask.length = tab.t.length) (e : SysEntry) (col : List V)
    (hl : tab.cols.lookup e.stream = some col) (fl : List Flag)
    (h : runEntry periodOf tab mask col e = some fl) : fl.length = mask.count true := by
  obtain ⟨_, hlat, hlon, hcols⟩ := hwf
  unfold runEntry at h
  cases hb : e.spec.bind (tab.rows col mask) with
  | none => simp [hb] at h
  | some call =>
    simp only [hb] at h
    cases hr : call.run periodOf with
    | error er => simp [hr] at h
    | ok fl' =>
      simp only [hr, Option.some.injEq] at h
      subst h
      rw [C01_length periodOf call fl' hr]
      refine bind_size e.spec (tab.rows col mask) _ call ?_ ?_ ?_ hb
      · exact selectRows_length mask col (by rw [hcols _ _ hl, hm])
      · intro a ha
        simp only [Table.rows] at ha
        cases hla : tab.lat with
        | none => simp [hla] at ha
        | some a' =>
          simp only [hla, Option.map_some, Option.some.injEq] at ha
          subst ha
          exact selectRows_length mask a' (by rw [hlat _ hla, hm])
      · intro a ha
        simp only [Table.rows] at ha
        cases hlo : tab.lon with
        | none => simp [hlo] at ha
        | some a' =>
          simp only [hlo, Option.map_some, Option.some.injEq] at ha
          subst ha
          exact selectRows_length mask a' (by rw [hlon _ hlo, hm])

/-- Every piece the collector meets is well formed: a mask over all input rows and one flag per
    selected row. -/
theorem C06_sys_pieces_wf (periodOf : Period → Int → Int) (tab : Table) (hwf : tab.wf) (cs : List SysCtx)
    (s k : String) :
    ∀ p ∈ sysPieces (runStream periodOf specMask tab cs) s k, p.wf tab.t.length = true := by
  intro p hp
  unfold sysPieces at hp
  obtain ⟨y, hy, hyp⟩ := List.mem_filterMap.1 hp
  obtain ⟨c, _, e, _, col, hl, rfl⟩ := C05_sys_yield_sound periodOf tab cs y hy
  split at hyp
  · simp only [Yield.piece?] at hyp
    cases hf : runEntry periodOf tab (specMask c.window tab.t) col e with
    | none => simp [hf] at hyp
    | some fl =>
      simp only [hf, Option.map_some, Option.some.injEq] at hyp
      subst hyp
      have hlen := runEntry_length periodOf tab hwf (specMask c.window tab.t) (by simp [specMask]) e col hl fl hf
      simp [Piece.wf, specMask, hlen] 
  · simp at hyp

/-- The collected list-form column of a complete run: at every input row the flag of the last
    context that covers the row and produced a result for this (stream, module.test); masked where
    there is none.  No hypothesis on the configuration. -/
theorem C06_sys_collect (periodOf : Period → Int → Int) (tab : Table) (hwf : tab.wf) (cs : List SysCtx)
    (s k : String) (i : Nat) (hi : i < tab.t.length) :
    (collectColumn tab.t.length (sysPieces (runStream periodOf specMask tab cs) s k)).getD i none
      = coveredValue (sysPieces (runStream periodOf specMask tab cs) s k) i :=
  C06_collect_spec _ _ (C06_sys_pieces_wf periodOf tab hwf cs s k) i hi

/-- … and the dict form: the same flag on covered rows, UNKNOWN (2) elsewhere. -/
theorem C06_sys_dict (periodOf : Period → Int → Int) (tab : Table) (hwf : tab.wf) (cs : List SysCtx)
    (s k : String) (i : Nat) (hi : i < tab.t.length) :
    (collectDict tab.t.length (sysPieces (runStream periodOf specMask tab cs) s k)).getD i 0
      = (coveredValue (sysPieces (runStream periodOf specMask tab cs) s k) i).getD 2 :=
  C06_dict_spec _ _ (C06_sys_pieces_wf periodOf tab hwf cs s k) i hi

/-! ## tests that cannot run -/

/-- The piece an entry contributes to the column of (s, k) in a context with row mask `mask`. -/
def entryPiece (periodOf : Period → Int → Int) (tab : Table) (mask : List Bool) (s k : String)
    (e : SysEntry) : Option Piece :=
  if e.stream = s ∧ e.key = k then
    (match entryFlags periodOf tab mask e with
     | some (some fl) => some ⟨mask, fl.map fun f => (f.code : Int)⟩
     | _ => none)
  else none

theorem sysPieces_runCtx (periodOf : Period → Int → Int) (front : Window → List Int → List Bool)
    (tab : Table) (c : SysCtx) (s k : String) :
    sysPieces (runCtx periodOf front tab c) s k
      = c.entries.filterMap (entryPiece periodOf tab (front c.window tab.t) s k) := by
  unfold sysPieces
  rw [runCtx_eq, List.filterMap_filterMap]
  apply filterMap_congr'
  intro e _
  unfold entryPiece
  cases hf : entryFlags periodOf tab (front c.window tab.t) e with
  | none => simp
  | some o =>
    cases o with
    | none => simp [Yield.piece?]
    | some fl => simp [Yield.piece?]

theorem sysPieces_runStream (periodOf : Period → Int → Int) (front : Window → List Int → List Bool)
    (tab : Table) (cs : List SysCtx) (s k : String) :
    sysPieces (runStream periodOf front tab cs) s k
      = (groupCtxs cs).flatMap fun c =>
          c.entries.filterMap (entryPiece periodOf tab (front c.window tab.t) s k) := by
  unfold runStream
  unfold sysPieces
  rw [List.filterMap_flatMap]
  apply flatMap_congr'
  intro c _
  exact sysPieces_runCtx periodOf front tab c s k

/-- **C18 at system level.**  Let `p` keep some entries and drop others, where every dropped
    entry contributes nothing to the column of (s, k) — because it cannot run (unknown to the
    table, a required input not supplied, parameters rejected, a callee that raises) or because
    it is another test.  Then the pieces collected for (s, k), hence the collected column in
    both forms, are the same with and without the dropped entries — wherever they stand, in any
    number, in any contexts. -/
theorem C18_sys_isolation (periodOf : Period → Int → Int) (front : Window → List Int → List Bool)
    (tab : Table) (cs : List SysCtx) (s k : String) (p : SysEntry → Bool)
    (hdead : ∀ e, p e = false → ∀ mask, entryPiece periodOf tab mask s k e = none) :
    sysPieces (runStream periodOf front tab (cs.map (filterEntries p))) s k
      = sysPieces (runStream periodOf front tab cs) s k := by
  rw [sysPieces_runStream, sysPieces_runStream, groupCtxs_filter, List.flatMap_map]
  apply flatMap_congr'
  intro c _
  simp only [filterEntries]
  generalize c.entries = es
  induction es with
  | nil => rfl
  | cons e es ih =>
    cases hp : p e with
    | true => simp [List.filter_cons, hp, List.filterMap_cons, ih]
    | false => simp [List.filter_cons, hp, List.filterMap_cons, ih, hdead e hp]

/-- A test's collected column is what it yields when it is configured alone. -/
theorem C18_sys_alone (periodOf : Period → Int → Int) (front : Window → List Int → List Bool)
    (tab : Table) (cs : List SysCtx) (s k : String) :
    sysPieces (runStream periodOf front tab
        (cs.map (filterEntries fun e => decide (e.stream = s ∧ e.key = k)))) s k
      = sysPieces (runStream periodOf front tab cs) s k := by
  apply C18_sys_isolation
  intro e he mask
  have : ¬ (e.stream = s ∧ e.key = k) := by simpa using he
  simp [entryPiece, this]

/-- An entry that cannot run (whatever the rows) contributes to no column. -/
theorem C18_sys_dead_entry (periodOf : Period → Int → Int) (tab : Table) (e : SysEntry)
    (h : tab.cols.lookup e.stream = none ∨ ∀ r, e.spec.bind r = none ∨
          ∃ call, e.spec.bind r = some call ∧ ∃ er, call.run periodOf = .error er) :
    ∀ s k mask, entryPiece periodOf tab mask s k e = none := by
  intro s k mask
  unfold entryPiece
  split
  · rcases h with h | h
    · simp [entryFlags, h]
    · cases hl : tab.cols.lookup e.stream with
      | none => simp [entryFlags, hl]
      | some col =>
        simp only [entryFlags, hl, Option.map_some]
        rcases h (tab.rows col mask) with hb | ⟨call, hb, er, hr⟩
        · simp [runEntry, hb]
        · simp [runEntry, hb, hr]
  · rfl

/-- Corollary in the words of the property: drop every entry that cannot run — every collected
    column is unchanged. -/
theorem C18_sys_drop_failing (periodOf : Period → Int → Int) (front : Window → List Int → List Bool)
    (tab : Table) (cs : List SysCtx) (p : SysEntry → Bool)
    (hp : ∀ e, p e = false → (tab.cols.lookup e.stream = none ∨ ∀ r, e.spec.bind r = none ∨
          ∃ call, e.spec.bind r = some call ∧ ∃ er, call.run periodOf = .error er))
    (s k : String) (n : Nat) :
    sysCollectList n (runStream periodOf front tab (cs.map (filterEntries p))) s k
        = sysCollectList n (runStream periodOf front tab cs) s k ∧
    sysCollectDict n (runStream periodOf front tab (cs.map (filterEntries p))) s k
        = sysCollectDict n (runStream periodOf front tab cs) s k := by
  have h := C18_sys_isolation periodOf front tab cs s k p
    (fun e he mask => C18_sys_dead_entry periodOf tab e (hp e he) s k mask)
  simp [sysCollectList, sysCollectDict, h]

/-! ## a row outside the window cannot matter -/

theorem selectRows_set_outside {α : Type} (mask : List Bool) (xs : List α) (j : Nat) (v : α)
    (hj : mask.getD j false = false) : selectRows mask (xs.set j v) = selectRows mask xs := by
  unfold selectRows
  induction mask generalizing xs j with
  | nil => simp
  | cons m ms ih =>
    cases xs with
    | nil => simp
    | cons x xs =>
      cases j with
      | zero =>
        have : m = false := by simpa using hj
        subst this
        simp [List.zip_cons_cons, List.filterMap_cons]
      | succ j =>
        have hj' : ms.getD j false = false := by simpa using hj
        simp only [List.set_cons_succ, List.zip_cons_cons, List.filterMap_cons]
        rw [ih xs j hj']

/-- Replacing the value of a data column at a row whose time is outside the context's window
    leaves that context's call — hence its flags — unchanged. -/
theorem C05_sys_outside_row (periodOf : Period → Int → Int) (tab : Table) (w : Window) (col : List V)
    (e : SysEntry) (j : Nat) (v : V) (hout : (specMask w tab.t).getD j false = false) :
    runEntry periodOf tab (specMask w tab.t) (col.set j v) e
      = runEntry periodOf tab (specMask w tab.t) col e := by
  unfold runEntry Table.rows
  rw [selectRows_set_outside _ _ _ _ hout]

/-! ## non-vacuity: a concrete run -/

private def exTab : Table :=
  { t := [0, 60, 120, 180], z := none, lat := none, lon := none,
    cols := [("v1", [some 1, some 50, some 2, none])] }
private def exCfg : List SysCtx :=
  [ { window := ⟨none, some 120⟩,
      entries := [⟨"v1", "qartod.gross_range_test", .gross ⟨true, [0, 10]⟩ none⟩,
                  ⟨"v1", "qartod.density_inversion_test", .density none none⟩,      -- no depth: cannot run
                  ⟨"ghost", "qartod.spike_test", .spike "average" none none⟩] },   -- stream absent
    { window := ⟨some 120, none⟩,
      entries := [⟨"v1", "qartod.gross_range_test", .gross ⟨true, [0, 10]⟩ none⟩] } ]

example : systemRun (fun _ _ => 0) exTab exCfg
    = [(("v1", "qartod.gross_range_test"), [some 1, some 4, some 1, some 9])] := by decide +kernel

end IoosQc
