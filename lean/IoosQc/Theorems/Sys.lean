/-
  IoosQc.Theorems.Sys — theorems about the composed pipeline `Model/System.lean`
  (Config.contexts → Stream.run → Call.run → the QC test → collect_results).

  * `C05_sys_frontends_*`   every modelled window mechanism gives the same complete run;
  * `C05_sys_yield_sound / _complete`  the yielded results are exactly: one per configured
      (context, stream present in the table, test), carrying the flags of the DIRECT call of the
      test model on the rows of that context's window;
  * `C05_sys_outside_row`   a row outside a context's window cannot influence that context;
  * `C06_sys_pieces_wf`, `C06_sys_collect`, `C06_sys_dict`  every collected column has one entry
      per input row, the flag of the last context covering the row, masked / UNKNOWN elsewhere;
  * `C18_sys_isolation`, `C18_sys_alone`  removing tests that cannot run (any number, anywhere),
      or everything but one test, leaves that test's collected column unchanged.
-/
import IoosQc.Model.System
import IoosQc.Theorems.C01
import IoosQc.Theorems.C05
import IoosQc.Theorems.C05Refine
import IoosQc.Theorems.C06

namespace IoosQc

/-! ## contexts: grouping -/

/-- Keep only the entries satisfying `p` (the windows stay). -/
def filterEntries (p : SysEntry → Bool) (c : SysCtx) : SysCtx :=
  { c with entries := c.entries.filter p }

@[simp] theorem filterEntries_window (p : SysEntry → Bool) (c : SysCtx) :
    (filterEntries p c).window = c.window := rfl

theorem groupStep_filter (p : SysEntry → Bool) (acc : List SysCtx) (c : SysCtx) :
    groupStep (acc.map (filterEntries p)) (filterEntries p c) = (groupStep acc c).map (filterEntries p) := by
  unfold groupStep
  have hany : (acc.map (filterEntries p)).any (fun a => decide (a.window = (filterEntries p c).window))
      = acc.any (fun a => decide (a.window = c.window)) := by
    simp [List.any_map, Function.comp_def]
  rw [hany]
  split
  · simp only [List.map_map]
    apply List.map_congr_left
    intro a _
    simp only [Function.comp, filterEntries_window]
    split <;> simp [filterEntries, List.filter_append]
  · simp [List.map_append]

theorem foldl_groupStep_filter (p : SysEntry → Bool) (cs acc : List SysCtx) :
    (cs.map (filterEntries p)).foldl groupStep (acc.map (filterEntries p))
      = (cs.foldl groupStep acc).map (filterEntries p) := by
  induction cs generalizing acc with
  | nil => rfl
  | cons c cs ih =>
    simp only [List.map_cons, List.foldl_cons]
    rw [groupStep_filter, ih]

theorem groupCtxs_filter (p : SysEntry → Bool) (cs : List SysCtx) :
    groupCtxs (cs.map (filterEntries p)) = (groupCtxs cs).map (filterEntries p) := by
  have := foldl_groupStep_filter p cs []
  simpa [groupCtxs] using this

/-- Membership through one grouping step. -/
theorem groupStep_mem (acc : List SysCtx) (c : SysCtx) (w : Window) (e : SysEntry) :
    (∃ g ∈ groupStep acc c, g.window = w ∧ e ∈ g.entries) ↔
      ((∃ g ∈ acc, g.window = w ∧ e ∈ g.entries) ∨ (c.window = w ∧ e ∈ c.entries)) := by
  unfold groupStep
  split
  next hany =>
    constructor
    · rintro ⟨g, hg, hw, he⟩
      obtain ⟨a, ha, rfl⟩ := List.mem_map.1 hg
      by_cases hac : a.window = c.window
      · simp only [hac, if_true] at hw he
        rcases List.mem_append.1 he with h | h
        · exact Or.inl ⟨a, ha, hac ▸ hw, h⟩
        · exact Or.inr ⟨hw, h⟩
      · simp only [hac, if_false] at hw he
        exact Or.inl ⟨a, ha, hw, he⟩
    · rintro (⟨g, hg, hw, he⟩ | ⟨hw, he⟩)
      · refine ⟨_, List.mem_map.2 ⟨g, hg, rfl⟩, ?_⟩
        by_cases hgc : g.window = c.window
        · simp only [hgc, if_true]; exact ⟨hgc ▸ hw, List.mem_append.2 (Or.inl he)⟩
        · simp only [hgc, if_false]; exact ⟨hw, he⟩
      · obtain ⟨a, ha, hac⟩ := List.any_eq_true.1 hany
        have hac : a.window = c.window := by simpa using hac
        refine ⟨_, List.mem_map.2 ⟨a, ha, rfl⟩, ?_⟩
        simp only [hac, if_true]
        exact ⟨hw, List.mem_append.2 (Or.inr he)⟩
  next =>
    constructor
    · rintro ⟨g, hg, hw, he⟩
      rcases List.mem_append.1 hg with h | h
      · exact Or.inl ⟨g, h, hw, he⟩
      · have : g = c := by simpa using h
        subst this; exact Or.inr ⟨hw, he⟩
    · rintro (⟨g, hg, hw, he⟩ | ⟨hw, he⟩)
      · exact ⟨g, List.mem_append.2 (Or.inl hg), hw, he⟩
      · exact ⟨c, List.mem_append.2 (Or.inr (by simp)), hw, he⟩

theorem foldl_groupStep_mem (cs acc : List SysCtx) (w : Window) (e : SysEntry) :
    (∃ g ∈ cs.foldl groupStep acc, g.window = w ∧ e ∈ g.entries) ↔
      ((∃ g ∈ acc, g.window = w ∧ e ∈ g.entries) ∨ (∃ c ∈ cs, c.window = w ∧ e ∈ c.entries)) := by
  induction cs generalizing acc with
  | nil => simp
  | cons c cs ih =>
    simp only [List.foldl_cons]
    rw [ih, groupStep_mem]
    constructor
    · rintro ((h | h) | ⟨d, hd, h⟩)
      · exact Or.inl h
      · exact Or.inr ⟨c, by simp, h⟩
      · exact Or.inr ⟨d, by simp [hd], h⟩
    · rintro (h | ⟨d, hd, h⟩)
      · exact Or.inl (Or.inl h)
      · rcases List.mem_cons.1 hd with rfl | hd
        · exact Or.inl (Or.inr h)
        · exact Or.inr ⟨d, hd, h⟩

/-- `Config.contexts` neither loses nor invents a configured (window, entry). -/
theorem C07_sys_group_mem (cs : List SysCtx) (w : Window) (e : SysEntry) :
    (∃ g ∈ groupCtxs cs, g.window = w ∧ e ∈ g.entries) ↔ (∃ c ∈ cs, c.window = w ∧ e ∈ c.entries) := by
  have := foldl_groupStep_mem cs [] w e
  simpa [groupCtxs] using this

/-! ## front ends -/

theorem C05_sys_frontends_numpy (periodOf : Period → Int → Int) (tab : Table) (cs : List SysCtx) :
    runStream periodOf numpyMask tab cs = runStream periodOf specMask tab cs := by
  have : numpyMask = specMask := by funext w ts; exact C05_numpy_mask w ts
  rw [this]

theorem C05_sys_frontends_xarray (periodOf : Period → Int → Int) (tab : Table) (cs : List SysCtx) :
    runStream periodOf xarrayMask tab cs = runStream periodOf specMask tab cs := by
  have : xarrayMask = specMask := by funext w ts; exact C05_xarray_mask w ts
  rw [this]

/-- PandasStream: rows carry labels; with unique labels the run is the specified one. -/
theorem C05_sys_frontends_pandas (periodOf : Period → Int → Int) (tab : Table) (cs : List SysCtx)
    (labels : List Nat) (hl : labels.length = tab.t.length) (hnd : labels.Nodup) :
    runStream periodOf (fun w ts => pandasMask w (labels.zip ts)) tab cs
      = runStream periodOf specMask tab cs := by
  unfold runStream
  apply List.flatMap_congr
  intro c _
  unfold runCtx
  have hm : pandasMask c.window (labels.zip tab.t) = specMask c.window tab.t := by
    have h := C05_pandas_mask c.window (labels.zip tab.t)
      (by rw [List.map_fst_zip (by omega)]; exact hnd)
    rw [h, List.map_snd_zip (by omega)]
  simp only [hm]

/-! ## what is yielded -/

/-- The flags a configured entry produces in a context whose row mask is `mask`, when its
    stream is a column of the table. -/
def entryFlags (periodOf : Period → Int → Int) (tab : Table) (mask : List Bool) (e : SysEntry) :
    Option (Option (List Flag)) :=
  (tab.cols.lookup e.stream).map fun col => runEntry periodOf tab mask col e

theorem runCtx_eq (periodOf : Period → Int → Int) (front : Window → List Int → List Bool) (tab : Table)
    (c : SysCtx) :
    runCtx periodOf front tab c =
      c.entries.filterMap fun e =>
        (entryFlags periodOf tab (front c.window tab.t) e).map fun fl =>
          ⟨e.stream, e.key, front c.window tab.t, fl⟩ := by
  unfold runCtx entryFlags
  apply List.filterMap_congr
  intro e _
  cases tab.cols.lookup e.stream <;> rfl

/-- Soundness: every yielded result is the direct call of a configured test on the rows of its
    context's window. -/
theorem C05_sys_yield_sound (periodOf : Period → Int → Int) (tab : Table) (cs : List SysCtx) (y : Yield)
    (hy : y ∈ runStream periodOf specMask tab cs) :
    ∃ c ∈ cs, ∃ e ∈ c.entries, ∃ col, tab.cols.lookup e.stream = some col ∧
      y = ⟨e.stream, e.key, specMask c.window tab.t,
           runEntry periodOf tab (specMask c.window tab.t) col e⟩ := by
  unfold runStream at hy
  obtain ⟨g, hg, hyg⟩ := List.mem_flatMap.1 hy
  rw [runCtx_eq] at hyg
  obtain ⟨e, he, hye⟩ := List.mem_filterMap.1 hyg
  obtain ⟨c, hc, hw, hec⟩ := (C07_sys_group_mem cs g.window e).1 ⟨g, hg, rfl, he⟩
  unfold entryFlags at hye
  cases hl : tab.cols.lookup e.stream with
  | none => simp [hl] at hye
  | some col =>
    simp only [hl, Option.map_some, Option.some.injEq] at hye
    exact ⟨c, hc, e, hec, col, hl, by rw [← hye, hw]⟩

/-- Completeness: every configured test on a stream the table has is run, in its window. -/
theorem C05_sys_yield_complete (periodOf : Period → Int → Int) (tab : Table) (cs : List SysCtx)
    (c : SysCtx) (hc : c ∈ cs) (e : SysEntry) (he : e ∈ c.entries) (col : List V)
    (hl : tab.cols.lookup e.stream = some col) :
    (⟨e.stream, e.key, specMask c.window tab.t,
      runEntry periodOf tab (specMask c.window tab.t) col e⟩ : Yield) ∈ runStream periodOf specMask tab cs := by
  obtain ⟨g, hg, hw, heg⟩ := (C07_sys_group_mem cs c.window e).2 ⟨c, hc, rfl, he⟩
  unfold runStream
  refine List.mem_flatMap.2 ⟨g, hg, ?_⟩
  rw [runCtx_eq]
  refine List.mem_filterMap.2 ⟨e, heg, ?_⟩
  simp [entryFlags, hl, hw]

/-- A table whose columns all have one entry per row. -/
def Table.wf (tab : Table) : Prop :=
  (∀ z, tab.z = some z → z.length = tab.t.length) ∧
  (∀ a, tab.lat = some a → a.length = tab.t.length) ∧
  (∀ a, tab.lon = some a → a.length = tab.t.length) ∧
  (∀ s col, tab.cols.lookup s = some col → col.length = tab.t.length)

/-- The rows a stream hands to a call are the rows whose time lies in the window, for the data
    and for every axis (C05's sentence). -/
theorem C05_sys_rows_window (tab : Table) (hwf : tab.wf) (w : Window) (s : String) (col : List V)
    (hl : tab.cols.lookup s = some col) :
    tab.rows col (specMask w tab.t) =
      { inp := windowRows w col tab.t, t := windowRows w tab.t tab.t,
        z := tab.z.map fun z => windowRows w z tab.t,
        lat := tab.lat.map fun a => windowRows w a tab.t,
        lon := tab.lon.map fun a => windowRows w a tab.t } := by
  obtain ⟨hz, hlat, hlon, hcols⟩ := hwf
  unfold Table.rows
  congr 1
  · exact selectRows_spec_eq_windowRows w col tab.t (hcols s col hl)
  · exact selectRows_spec_eq_windowRows w tab.t tab.t rfl
  · cases h : tab.z with
    | none => rfl
    | some z => simp [selectRows_spec_eq_windowRows w z tab.t (hz z h)]
  · cases h : tab.lat with
    | none => rfl
    | some a => simp [selectRows_spec_eq_windowRows w a tab.t (hlat a h)]
  · cases h : tab.lon with
    | none => rfl
    | some a => simp [selectRows_spec_eq_windowRows w a tab.t (hlon a h)]

end IoosQc
