/-
  C20 (parser side) — the recursive-descent grammar of `fx_parser` builds the tree of ordinary
  arithmetic: `*` `/` bind tighter than `+` `-`, all four are LEFT associative, a unary minus
  binds tighter than any binary operator.  Stated as round trips printer → parser.
-/
import IoosQc.Model.FxParse
set_option linter.unusedSimpArgs false
set_option linter.unusedVariables false

namespace IoosQc

/-! ### What may follow a complete term / expression -/

/-- The remaining input does not continue a `term` loop. -/
def noMulStart : List PTok → Prop
  | [] => True
  | t :: _ => t.mulOp? = none

/-- The remaining input does not continue an `expr` loop. -/
def noAddStart : List PTok → Prop
  | [] => True
  | t :: _ => t.addOp? = none

theorem BinOp.prec_cases (op : BinOp) : op.prec = 0 ∨ op.prec = 1 := by
  cases op <;> simp [BinOp.prec]

theorem BinOp.tok_addOp {op : BinOp} (h : op.prec = 0) : op.tok.addOp? = some op := by
  cases op <;> simp [BinOp.prec] at h <;> rfl

theorem BinOp.tok_mulOp {op : BinOp} (h : op.prec = 1) : op.tok.mulOp? = some op := by
  cases op <;> simp [BinOp.prec] at h <;> rfl

theorem BinOp.tok_not_mulOp {op : BinOp} (h : op.prec = 0) : op.tok.mulOp? = none := by
  cases op <;> simp [BinOp.prec] at h <;> rfl

/-! ### One-step lemmas about the five parser functions

Every statement has the upward-closed form `∀ g, n ≤ g → parse g … = some …`, so that fuel
bounds compose by addition and no separate monotonicity lemma is needed. -/

theorem termLoop_stop (e : Expr) (rest : List PTok) (h : noMulStart rest) :
    ∀ g, 1 ≤ g → termLoop g e rest = some (e, rest) := by
  intro g hg
  cases g with
  | zero => omega
  | succ n =>
    cases rest with
    | nil => simp [termLoop]
    | cons t r =>
      have ht : t.mulOp? = none := h
      simp [termLoop, ht]

theorem exprLoop_stop (e : Expr) (rest : List PTok) (h : noAddStart rest) :
    ∀ g, 1 ≤ g → exprLoop g e rest = some (e, rest) := by
  intro g hg
  cases g with
  | zero => omega
  | succ n =>
    cases rest with
    | nil => simp [exprLoop]
    | cons t r =>
      have ht : t.addOp? = none := h
      simp [exprLoop, ht]

theorem termLoop_step {t : PTok} {op : BinOp} {a b : Expr} {ts rest : List PTok} {n f : Nat}
    {res : Expr × List PTok} (hop : t.mulOp? = some op)
    (hb : ∀ g, n ≤ g → parseAtom g ts = some (b, rest))
    (hl : ∀ g, f ≤ g → termLoop g (.bin op a b) rest = some res) :
    ∀ g, f + n + 1 ≤ g → termLoop g a (t :: ts) = some res := by
  intro g hg
  cases g with
  | zero => omega
  | succ m =>
    simp only [termLoop, hop]
    rw [hb m (by omega)]
    exact hl m (by omega)

theorem exprLoop_step {t : PTok} {op : BinOp} {a b : Expr} {ts rest : List PTok} {n f : Nat}
    {res : Expr × List PTok} (hop : t.addOp? = some op)
    (hb : ∀ g, n ≤ g → parseTerm g ts = some (b, rest))
    (hl : ∀ g, f ≤ g → exprLoop g (.bin op a b) rest = some res) :
    ∀ g, f + n + 1 ≤ g → exprLoop g a (t :: ts) = some res := by
  intro g hg
  cases g with
  | zero => omega
  | succ m =>
    simp only [exprLoop, hop]
    rw [hb m (by omega)]
    exact hl m (by omega)

theorem atom_to_term {ts rest : List PTok} {e : Expr} {n f : Nat} {res : Expr × List PTok}
    (ha : ∀ g, n ≤ g → parseAtom g ts = some (e, rest))
    (hl : ∀ g, f ≤ g → termLoop g e rest = some res) :
    ∀ g, f + n + 1 ≤ g → parseTerm g ts = some res := by
  intro g hg
  cases g with
  | zero => omega
  | succ m =>
    simp only [parseTerm]
    rw [ha m (by omega)]
    exact hl m (by omega)

theorem term_to_expr {ts rest : List PTok} {e : Expr} {n f : Nat} {res : Expr × List PTok}
    (ha : ∀ g, n ≤ g → parseTerm g ts = some (e, rest))
    (hl : ∀ g, f ≤ g → exprLoop g e rest = some res) :
    ∀ g, f + n + 1 ≤ g → parseExpr g ts = some res := by
  intro g hg
  cases g with
  | zero => omega
  | succ m =>
    simp only [parseExpr]
    rw [ha m (by omega)]
    exact hl m (by omega)

theorem expr_to_atom {ts rest : List PTok} {e : Expr} {n : Nat}
    (h : ∀ g, n ≤ g → parseExpr g ts = some (e, .rparen :: rest)) :
    ∀ g, n + 1 ≤ g → parseAtom g (.lparen :: ts) = some (e, rest) := by
  intro g hg
  cases g with
  | zero => omega
  | succ m =>
    simp only [parseAtom]
    rw [h m (by omega)]

theorem neg_atom {ts rest : List PTok} {e : Expr} {n : Nat}
    (h : ∀ g, n ≤ g → parseAtom g ts = some (e, rest)) :
    ∀ g, n + 1 ≤ g → parseAtom g (.minus :: ts) = some (.neg e, rest) := by
  intro g hg
  cases g with
  | zero => omega
  | succ m =>
    simp only [parseAtom]
    rw [h m (by omega)]

theorem num_atom (q : Rat) (rest : List PTok) :
    ∀ g, 1 ≤ g → parseAtom g (.num q :: rest) = some (.num q, rest) := by
  intro g hg
  cases g with
  | zero => omega
  | succ m => simp [parseAtom]

theorem stat_atom (s : StatName) (rest : List PTok) :
    ∀ g, 1 ≤ g → parseAtom g (.stat s :: rest) = some (.stat s, rest) := by
  intro g hg
  cases g with
  | zero => omega
  | succ m => simp [parseAtom]

/-- An atom followed by something that continues neither loop is a complete expression. -/
theorem atom_to_expr {ts rest : List PTok} {e : Expr} {n : Nat}
    (ha : ∀ g, n ≤ g → parseAtom g ts = some (e, rest))
    (hm : noMulStart rest) (hs : noAddStart rest) :
    ∀ g, n + 4 ≤ g → parseExpr g ts = some (e, rest) := by
  intro g hg
  exact term_to_expr (atom_to_term ha (termLoop_stop e rest hm)) (exprLoop_stop e rest hs)
    g (by omega)

/-! ### Token counts versus tree size (fuel supplied by `parseAll`) -/

/-- Fuel that certainly suffices for the printed form of `e` (at any of the three levels). -/
def Expr.need : Expr → Nat
  | .num _ => 4
  | .stat _ => 4
  | .neg e => e.need + 4
  | .bin _ a b => a.need + b.need + 5

/-- Number of nodes. -/
def Expr.nodes : Expr → Nat
  | .num _ => 1
  | .stat _ => 1
  | .neg e => e.nodes + 1
  | .bin _ a b => a.nodes + b.nodes + 1

theorem Expr.need_le_nodes (e : Expr) : e.need + 1 ≤ 5 * e.nodes := by
  induction e with
  | num q => simp [Expr.need, Expr.nodes]
  | stat s => simp [Expr.need, Expr.nodes]
  | neg e ih => simp [Expr.need, Expr.nodes]; omega
  | bin op a b iha ihb => simp [Expr.need, Expr.nodes]; omega

theorem Expr.nodes_le_toToksP (e : Expr) : ∀ p, e.nodes ≤ (e.toToksP p).length := by
  induction e with
  | num q => intro p; simp [Expr.nodes, Expr.toToksP]
  | stat s => intro p; simp [Expr.nodes, Expr.toToksP]
  | neg e ih =>
    intro p
    have := ih 2
    simp [Expr.nodes, Expr.toToksP]; omega
  | bin op a b iha ihb =>
    intro p
    have h1 := iha op.prec
    have h2 := ihb (op.prec + 1)
    simp only [Expr.nodes, Expr.toToksP]
    split <;> simp <;> omega

/-! ### Fully parenthesised round trip -/

/-- Fuel that certainly suffices for `parseAtom` on the fully parenthesised form of `e`. -/
def Expr.needFull : Expr → Nat
  | .num _ => 1
  | .stat _ => 1
  | .neg e => e.needFull + 6
  | .bin _ a b => a.needFull + b.needFull + 8

theorem Expr.needFull_le (e : Expr) : e.needFull + 2 ≤ 3 * e.toToksFull.length := by
  induction e with
  | num q => simp [Expr.needFull, Expr.toToksFull]
  | stat s => simp [Expr.needFull, Expr.toToksFull]
  | neg e ih => simp [Expr.needFull, Expr.toToksFull]; omega
  | bin op a b iha ihb => simp [Expr.needFull, Expr.toToksFull]; omega

/-- Every fully parenthesised print is an ATOM, whatever follows it. -/
theorem parseAtom_toToksFull (e : Expr) :
    ∀ (rest : List PTok) (g : Nat), e.needFull ≤ g →
      parseAtom g (e.toToksFull ++ rest) = some (e, rest) := by
  induction e with
  | num q =>
    intro rest g hg
    exact num_atom q rest g (by simp [Expr.needFull] at hg; omega)
  | stat s =>
    intro rest g hg
    exact stat_atom s rest g (by simp [Expr.needFull] at hg; omega)
  | neg e ih =>
    intro rest g hg
    simp only [Expr.needFull] at hg
    have h1 : ∀ g, e.needFull + 4 ≤ g →
        parseExpr g (e.toToksFull ++ .rparen :: rest) = some (e, .rparen :: rest) :=
      atom_to_expr (ih (.rparen :: rest)) rfl rfl
    have h2 := neg_atom (expr_to_atom h1) g (by omega)
    simpa [Expr.toToksFull, List.append_assoc] using h2
  | bin op a b iha ihb =>
    intro rest g hg
    simp only [Expr.needFull] at hg
    have hb := ihb (.rparen :: rest)
    have hfin : ∀ g, 1 ≤ g → exprLoop g (.bin op a b) (.rparen :: rest)
        = some (.bin op a b, .rparen :: rest) := exprLoop_stop _ _ rfl
    have hE : ∀ g, a.needFull + b.needFull + 7 ≤ g →
        parseExpr g (a.toToksFull ++ op.tok :: (b.toToksFull ++ .rparen :: rest))
          = some (.bin op a b, .rparen :: rest) := by
      intro g hg
      rcases op.prec_cases with hp | hp
      · -- `+` `-`: `a` is a whole term, the operator continues the `expr` loop
        have hta := atom_to_term (iha (op.tok :: (b.toToksFull ++ .rparen :: rest)))
          (termLoop_stop a _ (BinOp.tok_not_mulOp hp))
        have htb := atom_to_term hb (termLoop_stop b _ rfl)
        have hstep := exprLoop_step (a := a) (BinOp.tok_addOp hp) htb hfin
        exact term_to_expr hta hstep g (by omega)
      · -- `*` `/`: the operator continues the `term` loop
        have hstep := termLoop_step (a := a) (BinOp.tok_mulOp hp) hb
          (termLoop_stop (.bin op a b) (.rparen :: rest) rfl)
        have hta := atom_to_term (iha (op.tok :: (b.toToksFull ++ .rparen :: rest))) hstep
        exact term_to_expr hta hfin g (by omega)
    have h2 := expr_to_atom hE g (by omega)
    simpa [Expr.toToksFull, List.append_assoc] using h2

theorem parseAll_toToksFull (e : Expr) : parseAll e.toToksFull = some e := by
  have hneed := e.needFull_le
  have h := atom_to_expr (parseAtom_toToksFull e []) (rest := []) trivial trivial
    (parseFuel e.toToksFull) (by simp only [parseFuel]; omega)
  simp only [List.append_nil] at h
  simp [parseAll, h]

/-- round trip, fully parenthesised: the grammar parses every printed tree back to itself -/
theorem C20_parse_full (e : Expr) (h : e.nonneg = true) : parseAll e.toToksFull = some e :=
  parseAll_toToksFull e

/-! ### Minimal-parentheses round trip -/

/-- The three levels at once.  `toToksP 2 e` is an atom; `toToksP 1 e` followed by `rest`
    parses as a term to whatever the `term` loop makes of `e` and `rest`; `toToksP 0 e` followed
    by `rest` (not starting with `*` `/`) parses as an expression to whatever the `expr` loop
    makes of `e` and `rest`.  The loop hypotheses are what makes LEFT associativity go through:
    for `a - b` the induction hypothesis for `a` is used with `rest = "- b …"`. -/
theorem parse_toToksP (e : Expr) :
    (∀ (rest : List PTok) (g : Nat), e.need ≤ g →
        parseAtom g (e.toToksP 2 ++ rest) = some (e, rest)) ∧
    (∀ (rest : List PTok) (f : Nat) (res : Expr × List PTok),
        (∀ g, f ≤ g → termLoop g e rest = some res) →
        ∀ g, f + e.need ≤ g → parseTerm g (e.toToksP 1 ++ rest) = some res) ∧
    (∀ (rest : List PTok) (f : Nat) (res : Expr × List PTok), noMulStart rest →
        (∀ g, f ≤ g → exprLoop g e rest = some res) →
        ∀ g, f + e.need ≤ g → parseExpr g (e.toToksP 0 ++ rest) = some res) := by
  induction e with
  | num q =>
    have h2 : ∀ (rest : List PTok) (g : Nat), 1 ≤ g →
        parseAtom g (.num q :: rest) = some (.num q, rest) := num_atom q
    refine ⟨?_, ?_, ?_⟩
    · intro rest g hg
      exact h2 rest g (by simp [Expr.need] at hg; omega)
    · intro rest f res hl g hg
      exact atom_to_term (h2 rest) hl g (by simp [Expr.need] at hg; omega)
    · intro rest f res hr hl g hg
      exact term_to_expr (atom_to_term (h2 rest) (termLoop_stop _ rest hr)) hl g
        (by simp [Expr.need] at hg; omega)
  | stat s =>
    have h2 : ∀ (rest : List PTok) (g : Nat), 1 ≤ g →
        parseAtom g (.stat s :: rest) = some (.stat s, rest) := stat_atom s
    refine ⟨?_, ?_, ?_⟩
    · intro rest g hg
      exact h2 rest g (by simp [Expr.need] at hg; omega)
    · intro rest f res hl g hg
      exact atom_to_term (h2 rest) hl g (by simp [Expr.need] at hg; omega)
    · intro rest f res hr hl g hg
      exact term_to_expr (atom_to_term (h2 rest) (termLoop_stop _ rest hr)) hl g
        (by simp [Expr.need] at hg; omega)
  | neg e ih =>
    have h2 : ∀ (rest : List PTok) (g : Nat), e.need + 1 ≤ g →
        parseAtom g (.minus :: (e.toToksP 2 ++ rest)) = some (.neg e, rest) :=
      fun rest => neg_atom (ih.1 rest)
    refine ⟨?_, ?_, ?_⟩
    · intro rest g hg
      exact h2 rest g (by simp [Expr.need] at hg; omega)
    · intro rest f res hl g hg
      exact atom_to_term (h2 rest) hl g (by simp [Expr.need] at hg; omega)
    · intro rest f res hr hl g hg
      exact term_to_expr (atom_to_term (h2 rest) (termLoop_stop _ rest hr)) hl g
        (by simp [Expr.need] at hg; omega)
  | bin op a b iha ihb =>
    rcases op.prec_cases with hp | hp
    · -- `+` `-` : body = toToksP 0 a ++ op :: toToksP 1 b, parenthesised at levels 1 and 2
      have hB : ∀ rest, noMulStart rest → ∀ g, 1 + b.need ≤ g →
          parseTerm g (b.toToksP 1 ++ rest) = some (b, rest) :=
        fun rest hr => ihb.2.1 rest 1 (b, rest) (termLoop_stop b rest hr)
      have G0 : ∀ (rest : List PTok) (f : Nat) (res : Expr × List PTok), noMulStart rest →
          (∀ g, f ≤ g → exprLoop g (.bin op a b) rest = some res) →
          ∀ g, f + a.need + b.need + 2 ≤ g →
            parseExpr g (a.toToksP 0 ++ op.tok :: (b.toToksP 1 ++ rest)) = some res := by
        intro rest f res hr hl g hg
        have hstep := exprLoop_step (a := a) (BinOp.tok_addOp hp) (hB rest hr) hl
        exact iha.2.2 (op.tok :: (b.toToksP 1 ++ rest)) _ res (BinOp.tok_not_mulOp hp) hstep g
          (by omega)
      have G2 : ∀ (rest : List PTok) (g : Nat), a.need + b.need + 4 ≤ g →
          parseAtom g (.lparen :: (a.toToksP 0 ++ op.tok :: (b.toToksP 1 ++ .rparen :: rest)))
            = some (.bin op a b, rest) := by
        intro rest g hg
        have hE := G0 (.rparen :: rest) 1 (.bin op a b, .rparen :: rest) rfl
          (exprLoop_stop _ _ rfl)
        exact expr_to_atom (n := 1 + a.need + b.need + 2) hE g (by omega)
      refine ⟨?_, ?_, ?_⟩
      · intro rest g hg
        have := G2 rest g (by simp [Expr.need] at hg; omega)
        simpa [Expr.toToksP, hp, List.append_assoc] using this
      · intro rest f res hl g hg
        have := atom_to_term (G2 rest) hl g (by simp [Expr.need] at hg; omega)
        simpa [Expr.toToksP, hp, List.append_assoc] using this
      · intro rest f res hr hl g hg
        have := G0 rest f res hr hl g (by simp [Expr.need] at hg; omega)
        simpa [Expr.toToksP, hp, List.append_assoc] using this
    · -- `*` `/` : body = toToksP 1 a ++ op :: toToksP 2 b, parenthesised at level 2 only
      have G1 : ∀ (rest : List PTok) (f : Nat) (res : Expr × List PTok),
          (∀ g, f ≤ g → termLoop g (.bin op a b) rest = some res) →
          ∀ g, f + a.need + b.need + 1 ≤ g →
            parseTerm g (a.toToksP 1 ++ op.tok :: (b.toToksP 2 ++ rest)) = some res := by
        intro rest f res hl g hg
        have hstep := termLoop_step (a := a) (BinOp.tok_mulOp hp) (ihb.1 rest) hl
        exact iha.2.1 (op.tok :: (b.toToksP 2 ++ rest)) _ res hstep g (by omega)
      have G0 : ∀ (rest : List PTok) (f : Nat) (res : Expr × List PTok), noMulStart rest →
          (∀ g, f ≤ g → exprLoop g (.bin op a b) rest = some res) →
          ∀ g, f + a.need + b.need + 3 ≤ g →
            parseExpr g (a.toToksP 1 ++ op.tok :: (b.toToksP 2 ++ rest)) = some res := by
        intro rest f res hr hl g hg
        have hT := G1 rest 1 (.bin op a b, rest) (termLoop_stop _ rest hr)
        exact term_to_expr (n := 1 + a.need + b.need + 1) hT hl g (by omega)
      have G2 : ∀ (rest : List PTok) (g : Nat), a.need + b.need + 5 ≤ g →
          parseAtom g (.lparen :: (a.toToksP 1 ++ op.tok :: (b.toToksP 2 ++ .rparen :: rest)))
            = some (.bin op a b, rest) := by
        intro rest g hg
        have hE := G0 (.rparen :: rest) 1 (.bin op a b, .rparen :: rest) rfl
          (exprLoop_stop _ _ rfl)
        exact expr_to_atom (n := 1 + a.need + b.need + 3) hE g (by omega)
      refine ⟨?_, ?_, ?_⟩
      · intro rest g hg
        have := G2 rest g (by simp [Expr.need] at hg; omega)
        simpa [Expr.toToksP, hp, List.append_assoc] using this
      · intro rest f res hl g hg
        have := G1 rest f res hl g (by simp [Expr.need] at hg; omega)
        simpa [Expr.toToksP, hp, List.append_assoc] using this
      · intro rest f res hr hl g hg
        have := G0 rest f res hr hl g (by simp [Expr.need] at hg; omega)
        simpa [Expr.toToksP, hp, List.append_assoc] using this

theorem parseAll_toToks (e : Expr) : parseAll e.toToks = some e := by
  show parseAll (e.toToksP 0) = some e
  have hlen := e.nodes_le_toToksP 0
  have hneed := e.need_le_nodes
  have h := (parse_toToksP e).2.2 [] 1 (e, []) trivial (exprLoop_stop e [] trivial)
    (parseFuel (e.toToksP 0)) (by simp only [parseFuel]; omega)
  simp only [List.append_nil] at h
  simp [parseAll, h]

/-- round trip with minimal parentheses: precedence, LEFT associativity and unary minus are
    exactly those of ordinary arithmetic -/
theorem C20_parse_min (e : Expr) (h : e.nonneg = true) : parseAll e.toToks = some e :=
  parseAll_toToks e

/-- Parsing a printed tree and evaluating it is evaluating the tree. -/
theorem C20_parse_eval (st : Stats) (e : Expr) :
    (parseAll e.toToks).bind (Expr.eval st) = e.eval st := by
  rw [parseAll_toToks]; rfl

/-! ### Examples (kernel-evaluated through `String.toList`, the lexer and the parser) -/

-- precedence: `*` binds tighter than `+`
example : parseString "1 + 2 * 3" = some (.bin .add (.num 1) (.bin .mul (.num 2) (.num 3))) := by
  decide +kernel
-- LEFT associativity: `8 / 2 / 2` is `(8 / 2) / 2`, not `8 / (2 / 2)`
example : parseString "8 / 2 / 2" = some (.bin .div (.bin .div (.num 8) (.num 2)) (.num 2)) := by
  decide +kernel
example : parseString "8 / 2 / 2" ≠ some (.bin .div (.num 8) (.bin .div (.num 2) (.num 2))) := by
  decide +kernel
example : parseString "1 - 2 - 3" = some (.bin .sub (.bin .sub (.num 1) (.num 2)) (.num 3)) := by
  decide +kernel
-- unary minus
example : parseString "2 - -3" = some (.bin .sub (.num 2) (.neg (.num 3))) := by decide +kernel
example : parseString "- - mean" = some (.neg (.neg (.stat .mean))) := by decide +kernel
example : parseString "-3" = some (.neg (.num 3)) := by decide +kernel
example : parseString "- 3" = some (.neg (.num 3)) := by decide +kernel
example : parseString "-2 * 3" = some (.bin .mul (.neg (.num 2)) (.num 3)) := by decide +kernel
-- unary plus is accepted and ignored (no node), as in the pyparsing grammar
example : parseString "+ 3" = some (.num 3) := by decide +kernel
example : parseString "- + - 3" = some (.neg (.neg (.num 3))) := by decide +kernel
-- parentheses, identifiers
example : parseString "( max - min ) / 2"
    = some (.bin .div (.bin .sub (.stat .max) (.stat .min)) (.num 2)) := by decide +kernel
example : parseString "mean + 3 * std"
    = some (.bin .add (.stat .mean) (.bin .mul (.num 3) (.stat .std))) := by decide +kernel
example : parseString "mean+3*std" = parseString "mean + 3 * std" := by decide +kernel
-- numbers are exact rationals
example : parseString "1.5e-1" = some (.num (3 / 20)) := by decide +kernel
example : parseString "2.e2" = some (.num 200) := by decide +kernel
example : parseString "1E+3" = some (.num 1000) := by decide +kernel
example : parseString "0.25" = some (.num (1 / 4)) := by decide +kernel
-- rejected inputs
example : parseString "( 1 + 2" = none := by decide +kernel
example : parseString "1 +" = none := by decide +kernel
example : parseString "* 3" = none := by decide +kernel
example : parseString "1 2" = none := by decide +kernel
example : parseString "foo + 1" = none := by decide +kernel
example : parseString "1e" = none := by decide +kernel          -- number `1`, identifier `e`
example : parseString "1 + 2 )" = none := by decide +kernel
example : parseString "( )" = none := by decide +kernel
example : parseString "" = none := by decide +kernel
example : parseString "min2" = none := by decide +kernel
example : parseString "2 # 3" = none := by decide +kernel
-- parser + evaluator
example : (parseString "8 / 2 / 2").bind (Expr.eval ⟨0, 0, 0, 0⟩) = some 2 := by decide +kernel
example : (parseString "1 + 2 * 3").bind (Expr.eval ⟨0, 0, 0, 0⟩) = some 7 := by decide +kernel
example : (parseString "2 - -3").bind (Expr.eval ⟨0, 0, 0, 0⟩) = some 5 := by decide +kernel
example : (parseString "mean + 3 * std").bind (Expr.eval ⟨1, 9, 4, 2⟩) = some 10 := by
  decide +kernel
example : (parseString "( max - min ) / 2").bind (Expr.eval ⟨1, 9, 4, 2⟩) = some 4 := by
  decide +kernel
example : (parseString "1 / ( 2 - 2 )").bind (Expr.eval ⟨0, 0, 0, 0⟩) = none := by decide +kernel
-- the minimal printer keeps exactly the parentheses that matter
example : (Expr.bin .div (.bin .div (.num 8) (.num 2)) (.num 2)).toToks
    = [.num 8, .slash, .num 2, .slash, .num 2] := by decide +kernel
example : (Expr.bin .div (.num 8) (.bin .div (.num 2) (.num 2))).toToks
    = [.num 8, .slash, .lparen, .num 2, .slash, .num 2, .rparen] := by decide +kernel
example : (Expr.bin .sub (.num 2) (.neg (.num 3))).toToks
    = [.num 2, .minus, .minus, .num 3] := by decide +kernel
example : (Expr.neg (.bin .mul (.num 2) (.num 3))).toToks
    = [.minus, .lparen, .num 2, .times, .num 3, .rparen] := by decide +kernel
example : (Expr.bin .mul (.neg (.num 2)) (.num 3)).toToks
    = [.minus, .num 2, .times, .num 3] := by decide +kernel
example : (Expr.bin .mul (.bin .add (.num 1) (.num 2)) (.num 3)).toToksFull
    = [.lparen, .lparen, .num 1, .plus, .num 2, .rparen, .times, .num 3, .rparen] := by
  decide +kernel

end IoosQc
