/-
  C05 — every stream front end restricts the rows to the property's time window
  `starting ≤ t < ending` (an absent bound being open), for every window and every time axis.
-/
import IoosQc.Model.Streams
set_option linter.unusedSimpArgs false
set_option linter.unusedVariables false

namespace IoosQc

/-- NumpyStream / NetcdfStream mechanism = the property's window, for every window (closed,
    half-open, absent bounds, empty) and every time axis. -/
theorem C05_numpy_mask (w : Window) (ts : List Int) : numpyMask w ts = specMask w ts := by
  obtain ⟨s, e⟩ := w
  unfold numpyMask specMask inWindow
  cases s <;> cases e <;> simp <;> induction ts <;> simp_all

/-- The two successive pandas filters (the mechanism before the repair of F-22) keep exactly the in-window rows. -/
theorem C05_pandasMaskOld_eq (w : Window) (rows : List (Nat × Int)) :
    pandasMaskOld w rows =
      rows.map fun r => (rows.filter fun q => inWindow w q.2).any fun q => q.1 == r.1 := by
  obtain ⟨s, e⟩ := w
  cases s <;> cases e <;> simp [pandasMaskOld, inWindow, List.filter_filter, Bool.and_comm]

/-- With distinct row labels a label identifies its row. -/
theorem C05_label_unique (rows : List (Nat × Int)) (hnd : (rows.map (·.1)).Nodup)
    (q r : Nat × Int) (hq : q ∈ rows) (hr : r ∈ rows) (h : q.1 = r.1) : q = r := by
  induction rows with
  | nil => simp at hq
  | cons x xs ih =>
    simp only [List.map_cons, List.nodup_cons, List.mem_map, not_exists, not_and] at hnd
    simp only [List.mem_cons] at hq hr
    rcases hq with rfl | hq <;> rcases hr with rfl | hr
    · rfl
    · exact absurd h.symm (hnd.1 r hr)
    · exact absurd h (hnd.1 q hq)
    · exact ih hnd.2 hq hr

/-- PandasStream mechanism (a positional mask narrowed by each comparison) = the property's window, for ANY row labels. -/
theorem C05_pandas_mask (w : Window) (rows : List (Nat × Int)) :
    pandasMask w rows = specMask w (rows.map (·.2)) := by
  unfold pandasMask; exact C05_numpy_mask w _

/-- The mechanism before the repair of F-22 (two successive filters, then membership of surviving row labels) =
    the property's window, PROVIDED the row labels are distinct. -/
theorem C05_pandas_mask_old (w : Window) (rows : List (Nat × Int)) (hnd : (rows.map (·.1)).Nodup) :
    pandasMaskOld w rows = specMask w (rows.map (·.2)) := by
  rw [C05_pandasMaskOld_eq]
  unfold specMask
  simp only [List.map_map]
  apply List.map_congr_left
  intro r hr
  simp only [Function.comp]
  cases hp : inWindow w r.2
  · rw [Bool.eq_false_iff]
    intro hany
    simp only [List.any_eq_true, List.mem_filter, beq_iff_eq] at hany
    obtain ⟨q, ⟨hq, hpq⟩, hl⟩ := hany
    have := C05_label_unique rows hnd q r hq hr hl
    subst this
    simp [hp] at hpq
  · simp only [List.any_eq_true, List.mem_filter, beq_iff_eq]
    exact ⟨r, ⟨hr, hp⟩, rfl⟩

/-- XarrayStream mechanism (positions of the selected labels scattered into an all-False mask) =
    the property's window. -/
theorem C05_xarray_mask (w : Window) (ts : List Int) : xarrayMask w ts = specMask w ts := by
  unfold xarrayMask specMask
  apply List.ext_getElem
  · simp
  · intro i h1 h2
    have hi : i < ts.length := by simpa using h2
    simp only [List.getElem_map, List.getElem_range]
    rw [Bool.eq_iff_iff]
    simp [List.contains_iff_mem, List.mem_filter, hi]

/-- Consequently all front ends select the same rows. -/
theorem C05_frontends_agree (w : Window) (ts : List Int) (labels : List Nat)
    (hl : labels.length = ts.length) :
    numpyMask w ts = pandasMask w (labels.zip ts) ∧ numpyMask w ts = xarrayMask w ts := by
  have h1 : (labels.zip ts).map (·.1) = labels := List.map_fst_zip (by omega)
  have h2 : (labels.zip ts).map (·.2) = ts := List.map_snd_zip (by omega)
  refine ⟨?_, ?_⟩
  · rw [C05_numpy_mask, C05_pandas_mask w (labels.zip ts), h2]
  · rw [C05_numpy_mask, C05_xarray_mask]

/-- Selecting rows with the mask keeps exactly the in-window rows, in original order. -/
theorem C05_selectRows (w : Window) (ts : List Int) : selectRows (specMask w ts) ts = ts.filter (inWindow w) := by
  unfold selectRows specMask
  induction ts with
  | nil => simp
  | cons t ts ih =>
    simp only [List.map_cons, List.zip_cons_cons, List.filterMap_cons, List.filter_cons]
    cases h : inWindow w t <;> simp [ih]

/-- The same mask restricts every column alike: a column zipped with time, then selected, equals
    selecting each. -/
theorem C05_selectRows_zip {α : Type} (mask : List Bool) (xs : List α) (ts : List Int) (h : xs.length = ts.length) :
    selectRows mask (xs.zip ts) = (selectRows mask xs).zip (selectRows mask ts) := by
  unfold selectRows
  induction mask generalizing xs ts with
  | nil => simp
  | cons m ms ih =>
    cases xs with
    | nil => simp
    | cons x xs =>
      cases ts with
      | nil => simp at h
      | cons t ts =>
        have h' : xs.length = ts.length := by simpa using h
        simp only [List.zip_cons_cons, List.filterMap_cons]
        cases m <;> simp [ih xs ts h']

/-- Regression witness of the fixed finding F-22: the distinct-labels hypothesis of `C05_pandas_mask_old` is needed — with a
    duplicated row label `index.isin` also marks the out-of-window row carrying the same label; the repaired mechanism does not. -/
example : pandasMaskOld ⟨none, some 15⟩ [(0, 10), (0, 20)] = [true, true] := by decide
theorem C05_pandas_old_bad_witness :
    pandasMaskOld ⟨none, some 15⟩ [(0, 10), (0, 20)]
      ≠ specMask ⟨none, some 15⟩ ([(0, 10), (0, 20)].map (·.2)) := by decide
example : pandasMask ⟨none, some 15⟩ [(0, 10), (0, 20)] = [true, false] := by decide

/-- Non-vacuity: half-open window `[10, 20)`; a row exactly on `starting` is included, a row exactly
    on `ending` is excluded, in every front end. -/
example : specMask ⟨some 10, some 20⟩ [9, 10, 15, 19, 20, 21] = [false, true, true, true, false, false] := by
  decide
example : numpyMask ⟨some 10, some 20⟩ [9, 10, 15, 19, 20, 21] = [false, true, true, true, false, false] := by
  decide
example : pandasMask ⟨some 10, some 20⟩ [(5, 9), (4, 10), (3, 15), (2, 19), (1, 20), (0, 21)]
    = [false, true, true, true, false, false] := by decide
example : xarrayMask ⟨some 10, some 20⟩ [9, 10, 15, 19, 20, 21] = [false, true, true, true, false, false] := by
  decide
example : inWindow ⟨some 10, some 20⟩ 20 = false ∧ inWindow ⟨some 10, some 20⟩ 10 = true := by decide
/-- absent bounds are open; an empty window selects nothing; unsorted time axes are fine -/
example : numpyMask ⟨none, some 20⟩ [25, -3, 20, 19] = [false, true, false, true] := by decide
example : xarrayMask ⟨some 20, none⟩ [25, -3, 20, 19] = [true, false, true, false] := by decide
example : pandasMask ⟨some 20, some 20⟩ [(0, 19), (1, 20), (2, 21)] = [false, false, false] := by decide
example : selectRows (specMask ⟨some 10, some 20⟩ [9, 10, 15, 20]) ["a", "b", "c", "d"] = ["b", "c"] := by
  decide

/-! ### rows whose time is NaT -/

/-- The comparison mechanism of the front ends on a time column with NaT rows selects exactly
    the property's window rows: a NaT row belongs to no context that has a bound (in particular
    not to a window with only an `ending`), and to every context without a window. -/
theorem C05_numpy_mask_nat (w : Window) (ts : List (Option Int)) : numpyMaskOpt w ts = specMaskOpt w ts := by
  obtain ⟨s, e⟩ := w
  unfold numpyMaskOpt specMaskOpt inWindowOpt inWindow geOpt ltOpt
  cases s <;> cases e <;> simp <;> induction ts with
  | nil => simp_all
  | cons t ts ih => cases t <;> simp_all

/-- Without NaT the two notions coincide. -/
theorem C05_specMaskOpt_some (w : Window) (ts : List Int) : specMaskOpt w (ts.map some) = specMask w ts := by
  simp [specMaskOpt, specMask, inWindowOpt, Function.comp_def]

example : specMaskOpt ⟨none, some 20⟩ [some 5, none, some 25] = [true, false, false] := by decide
example : numpyMaskOpt ⟨none, some 20⟩ [some 5, none, some 25] = [true, false, false] := by decide
example : specMaskOpt ⟨none, none⟩ [some 5, none] = [true, true] := by decide

end IoosQc
