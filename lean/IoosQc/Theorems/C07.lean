/-
  C07 — every equivalent spelling of a configuration yields the same set of calls.
-/
import IoosQc.Props.C07
set_option linter.unusedSimpArgs false
set_option linter.unusedVariables false
namespace IoosQc

/-! ### `dict_depth` -/

theorem J.depthVals_le_iff (kvs : List (String × J)) (n : Nat) :
    J.depthVals kvs ≤ n ↔ ∀ p ∈ kvs, p.2.depth ≤ n := by
  induction kvs with
  | nil => simp [J.depthVals]
  | cons p rest ih =>
    obtain ⟨k, v⟩ := p
    simp only [J.depthVals, List.mem_cons, forall_eq_or_imp, Nat.max_le, ih]

theorem J.le_depthVals (kvs : List (String × J)) (p : String × J) (hp : p ∈ kvs) :
    p.2.depth ≤ J.depthVals kvs :=
  (J.depthVals_le_iff kvs _).1 (Nat.le_refl _) p hp

theorem J.depth_obj (kvs : List (String × J)) : (J.obj kvs).depth = 1 + J.depthVals kvs := by
  simp [J.depth]

theorem J.depth_obj_le (kvs : List (String × J)) (n : Nat) (h : ∀ p ∈ kvs, p.2.depth ≤ n) :
    (J.obj kvs).depth ≤ n + 1 := by
  have := (J.depthVals_le_iff kvs n).2 h
  rw [J.depth_obj]; omega

theorem J.le_depth_obj (kvs : List (String × J)) (p : String × J) (hp : p ∈ kvs) (n : Nat)
    (h : n ≤ p.2.depth) : n + 1 ≤ (J.obj kvs).depth := by
  have := J.le_depthVals kvs p hp
  rw [J.depth_obj]; omega

theorem isParamMapping_depth (j : J) (h : isParamMapping j = true) : j.depth ≤ 1 := by
  cases j with
  | obj kvs =>
    simp only [isParamMapping, List.all_eq_true, beq_iff_eq] at h
    exact J.depth_obj_le kvs 0 (fun p hp => by rw [h p hp]; exact Nat.le_refl _)
  | _ => simp [J.depth]

theorem NModule.toJ_depth_le (m : NModule) (h : m.tests.all (fun t => isParamMapping t.kwargs) = true) :
    m.toJ.2.depth ≤ 2 := by
  simp only [List.all_eq_true] at h
  refine J.depth_obj_le _ 1 ?_
  intro p hp
  simp only [List.mem_map] at hp
  obtain ⟨t, ht, rfl⟩ := hp
  exact isParamMapping_depth _ (h t ht)

/-- layout 4 precondition: a bare module mapping whose parameters are scalars / lists is at most
    three levels deep. -/
theorem C07_depth_modules (ms : List NModule)
    (hw : ms.all (fun m => m.tests.all fun t => isParamMapping t.kwargs) = true) :
    (modulesJ ms).depth ≤ 3 := by
  simp only [List.all_eq_true] at hw
  refine J.depth_obj_le _ 2 ?_
  intro p hp
  simp only [List.mem_map] at hp
  obtain ⟨m, hm, rfl⟩ := hp
  exact NModule.toJ_depth_le m (by simpa [List.all_eq_true] using hw m hm)

/-- a well-formed stream mapping is at most four levels deep -/
theorem C07_depth_streams_le (ss : List NStream)
    (hw : ss.all (fun s => s.modules.all fun m => m.tests.all fun t => isParamMapping t.kwargs) = true) :
    (streamsJ ss).depth ≤ 4 := by
  simp only [List.all_eq_true] at hw
  refine J.depth_obj_le _ 3 ?_
  intro p hp
  simp only [List.mem_map] at hp
  obtain ⟨s, hs, rfl⟩ := hp
  exact C07_depth_modules s.modules (by simpa [List.all_eq_true] using hw s hs)

/-- layout 3 precondition: a bare stream mapping in which some test carries a parameter mapping is
    at least four levels deep. -/
theorem C07_depth_streams (ss : List NStream) (hp : hasParams ss = true) : 4 ≤ (streamsJ ss).depth := by
  simp only [hasParams, List.any_eq_true] at hp
  obtain ⟨s, hs, m, hm, t, ht, hkw⟩ := hp
  have h1 : 1 ≤ t.kwargs.depth := by
    cases hk : t.kwargs with
    | obj kvs => rw [J.depth_obj]; omega
    | _ => simp [hk] at hkw
  have h2 : 2 ≤ m.toJ.2.depth :=
    J.le_depth_obj _ (t.name, t.kwargs) (List.mem_map.2 ⟨t, ht, rfl⟩) 1 h1
  have h3 : 3 ≤ s.toJ.2.depth :=
    J.le_depth_obj _ m.toJ (List.mem_map.2 ⟨m, hm, rfl⟩) 2 h2
  exact J.le_depth_obj _ s.toJ (List.mem_map.2 ⟨s, hs, rfl⟩) 3 h3

/-! ### The context mapping -/

theorem NCtx.toJ_get_streams (c : NCtx) : c.toJ.get? "streams" = some (streamsJ c.streams) := by
  cases hw : c.window <;> cases hr : c.region <;> simp [NCtx.toJ, J.get?, hw, hr]

theorem NCtx.toJ_get_window (c : NCtx) : (c.toJ.get? "window").getD .null = c.window := by
  cases hw : c.window <;> cases hr : c.region <;> simp [NCtx.toJ, J.get?, hw, hr]

theorem NCtx.toJ_has_contexts (c : NCtx) : c.toJ.has "contexts" = false := by
  cases hw : c.window <;> cases hr : c.region <;> simp [NCtx.toJ, J.has, J.get?, hw, hr]

theorem NCtx.toJ_has_streams (c : NCtx) : c.toJ.has "streams" = true := by
  simp [J.has, NCtx.toJ_get_streams]

theorem NCtx.regionOf_toJ (c : NCtx) (hr : c.regionSeen = c.region) : regionOf c.toJ = c.regionObserved := by
  cases hw : c.window <;> cases hg : c.region <;>
    simp [NCtx.toJ, regionOf, NCtx.regionObserved, J.get?, J.has, hw, hg, hr]

/-- one module: the `knownMod` guard is redundant -/
theorem moduleCalls_eq (knownMod : String → Bool) (known : String → String → Bool)
    (hk : ∀ m t, known m t = true → knownMod m = true) (sid : String) (w r : J) (m : NModule) :
    (if (!knownMod m.name) = true then []
     else (m.tests.map fun t => (t.name, t.kwargs)).filterMap fun (x : String × J) =>
       if known m.name x.1 = true then some (⟨sid, m.name, x.1, orEmpty x.2, w, r⟩ : CallSpec) else none)
    = m.tests.filterMap fun t =>
        if known m.name t.name = true then some (⟨sid, m.name, t.name, orEmpty t.kwargs, w, r⟩ : CallSpec) else none := by
  cases hm : knownMod m.name with
  | true => simp [List.filterMap_map, Function.comp_def]
  | false =>
    have hn : ∀ t, known m.name t = false := by
      intro t
      cases h : known m.name t with
      | false => rfl
      | true => have := hk _ _ h; simp [hm] at this
    simp [hn]

/-- a context mapping parses to the spec of the typed context (stated for contexts whose region is
    observed as written, `regionSeen = region`) -/
theorem C07_context (knownMod : String → Bool) (known : String → String → Bool)
    (hk : ∀ m t, known m t = true → knownMod m = true) (c : NCtx) (hr : c.regionSeen = c.region) :
    contextCalls knownMod known c.toJ = c.spec known := by
  have h1 := NCtx.toJ_get_streams c
  have h2 := NCtx.toJ_get_window c
  have h3 := NCtx.regionOf_toJ c hr
  simp only [contextCalls, h1, h2, h3, Option.getD_some, streamsJ, J.items, List.flatMap_map, NCtx.spec]
  congr 1; funext s
  simp only [NStream.toJ, J.items, List.flatMap_map, Function.comp_def]
  congr 1; funext m
  simp only [NModule.toJ, J.items]
  exact moduleCalls_eq knownMod known hk s.id c.window c.regionObserved m

/-! ### The layout dispatch -/

theorem J.has_obj_false (kvs : List (String × J)) (k : String) (h : ∀ p ∈ kvs, p.1 ≠ k) :
    (J.obj kvs).has k = false := by
  have : kvs.find? (fun p => decide (p.1 = k)) = none := by
    rw [List.find?_eq_none]
    intro p hp; simpa using h p hp
  simp [J.has, J.get?, this]

theorem streamsJ_not_reserved (ss : List NStream) (hw : ss.all (fun s => !reserved s.id) = true) :
    (streamsJ ss).has "contexts" = false ∧ (streamsJ ss).has "streams" = false := by
  simp only [List.all_eq_true] at hw
  constructor <;>
  · refine J.has_obj_false _ _ ?_
    intro p hp
    simp only [List.mem_map] at hp
    obtain ⟨s, hs, rfl⟩ := hp
    have := hw s hs
    simp [reserved] at this
    simp [NStream.toJ, this]

theorem modulesJ_not_reserved (ms : List NModule) (hw : ms.all (fun m => !reserved m.name) = true) :
    (modulesJ ms).has "contexts" = false ∧ (modulesJ ms).has "streams" = false := by
  simp only [List.all_eq_true] at hw
  constructor <;>
  · refine J.has_obj_false _ _ ?_
    intro p hp
    simp only [List.mem_map] at hp
    obtain ⟨m, hm, rfl⟩ := hp
    have := hw m hm
    simp [reserved] at this
    simp [NModule.toJ, this]

/-- layout 1: list of contexts -/
theorem C07_layout_contexts (knownMod : String → Bool) (known : String → String → Bool)
    (hk : ∀ m t, known m t = true → knownMod m = true) (cs : List NCtx)
    (hr : ∀ c ∈ cs, c.regionSeen = c.region) (dk : String) :
    configCalls knownMod known dk (contextsJ cs) = specCalls known cs := by
  have h1 : (contextsJ cs).get? "contexts" = some (.arr (cs.map NCtx.toJ)) := by
    simp [contextsJ, J.get?]
  simp only [configCalls, J.has, h1, Option.isSome_some, if_true, specCalls, List.flatMap_map]
  clear h1
  induction cs with
  | nil => rfl
  | cons c cs ih =>
    simp only [List.flatMap_cons]
    rw [C07_context knownMod known hk c (hr c (by simp)), ih (fun c hc => hr c (by simp [hc]))]

/-- layout 2: a single context with 'streams' -/
theorem C07_layout_context (knownMod : String → Bool) (known : String → String → Bool)
    (hk : ∀ m t, known m t = true → knownMod m = true) (c : NCtx)
    (hr : c.regionSeen = c.region) (dk : String) :
    configCalls knownMod known dk c.toJ = c.spec known := by
  simp only [configCalls, NCtx.toJ_has_contexts, NCtx.toJ_has_streams, if_true, if_false, Bool.false_eq_true]
  exact C07_context knownMod known hk c hr

/-- layout 3: bare stream mapping (no reserved stream ids, at least four levels deep) -/
theorem C07_layout_streams' (knownMod : String → Bool) (known : String → String → Bool)
    (hk : ∀ m t, known m t = true → knownMod m = true) (ss : List NStream)
    (hw : ss.all (fun s => !reserved s.id) = true) (hd : 4 ≤ (streamsJ ss).depth) (dk : String) :
    configCalls knownMod known dk (streamsJ ss) = (⟨.null, .null, .null, ss⟩ : NCtx).spec known := by
  obtain ⟨h1, h2⟩ := streamsJ_not_reserved ss hw
  simp only [configCalls, h1, h2, hd, if_true, if_false, Bool.false_eq_true]
  exact C07_context knownMod known hk ⟨.null, .null, .null, ss⟩ rfl

theorem C07_layout_streams (knownMod : String → Bool) (known : String → String → Bool)
    (hk : ∀ m t, known m t = true → knownMod m = true) (ss : List NStream)
    (hw : ss.all NStream.wf = true) (hp : hasParams ss = true) (dk : String) :
    configCalls knownMod known dk (streamsJ ss) = (⟨.null, .null, .null, ss⟩ : NCtx).spec known := by
  refine C07_layout_streams' knownMod known hk ss ?_ (C07_depth_streams ss hp) dk
  simp only [List.all_eq_true] at hw ⊢
  intro s hs
  have := hw s hs
  simp only [NStream.wf, Bool.and_eq_true] at this
  exact this.1

/-- layout 4: bare module mapping bound to the default stream id (no reserved module names, at most
    three levels deep); the default stream id itself is unconstrained -/
theorem C07_layout_modules' (knownMod : String → Bool) (known : String → String → Bool)
    (hk : ∀ m t, known m t = true → knownMod m = true) (ms : List NModule)
    (hw : ms.all (fun m => !reserved m.name) = true) (hd : (modulesJ ms).depth ≤ 3) (dk : String) :
    configCalls knownMod known dk (modulesJ ms) = (⟨.null, .null, .null, [⟨dk, ms⟩]⟩ : NCtx).spec known := by
  obtain ⟨h1, h2⟩ := modulesJ_not_reserved ms hw
  have hd' : ¬ 4 ≤ (modulesJ ms).depth := by omega
  simp only [configCalls, h1, h2, hd', if_true, if_false, Bool.false_eq_true]
  exact C07_context knownMod known hk ⟨.null, .null, .null, [⟨dk, ms⟩]⟩ rfl

theorem NStream.wf_modules (s : NStream) (hw : s.wf = true) :
    s.modules.all (fun m => !reserved m.name) = true ∧
    s.modules.all (fun m => m.tests.all fun t => isParamMapping t.kwargs) = true := by
  simp only [NStream.wf, Bool.and_eq_true, List.all_eq_true] at hw ⊢
  exact ⟨fun m hm => (hw.2 m hm).1, fun m hm => (hw.2 m hm).2⟩

theorem C07_layout_modules (knownMod : String → Bool) (known : String → String → Bool)
    (hk : ∀ m t, known m t = true → knownMod m = true) (ms : List NModule) (dk : String)
    (hw : NStream.wf ⟨dk, ms⟩ = true) :
    configCalls knownMod known dk (modulesJ ms) = (⟨.null, .null, .null, [⟨dk, ms⟩]⟩ : NCtx).spec known := by
  obtain ⟨h1, h2⟩ := NStream.wf_modules ⟨dk, ms⟩ hw
  exact C07_layout_modules' knownMod known hk ms h1 (C07_depth_modules ms h2) dk

/-! ### Unknown modules and unknown tests are skipped -/

def pruneModule (known : String → String → Bool) (m : NModule) : NModule :=
  ⟨m.name, m.tests.filter fun t => known m.name t.name⟩

def pruneStream (knownMod : String → Bool) (known : String → String → Bool) (s : NStream) : NStream :=
  ⟨s.id, (s.modules.filter fun m => knownMod m.name).map (pruneModule known)⟩

/-- drop the modules that do not import and the tests that do not exist -/
def pruneCtx (knownMod : String → Bool) (known : String → String → Bool) (c : NCtx) : NCtx :=
  { c with streams := c.streams.map (pruneStream knownMod known) }

theorem pruneModule_calls (known : String → String → Bool) (sid : String) (w r : J) (m : NModule) :
    ((pruneModule known m).tests.filterMap fun t =>
        if known (pruneModule known m).name t.name = true
        then some (⟨sid, (pruneModule known m).name, t.name, orEmpty t.kwargs, w, r⟩ : CallSpec) else none)
    = m.tests.filterMap fun t =>
        if known m.name t.name = true then some (⟨sid, m.name, t.name, orEmpty t.kwargs, w, r⟩ : CallSpec) else none := by
  simp only [pruneModule, List.filterMap_filter]
  congr 1; funext t
  split <;> simp_all

theorem pruneStream_calls (knownMod : String → Bool) (known : String → String → Bool)
    (hk : ∀ m t, known m t = true → knownMod m = true) (sid : String) (w r : J) (ms : List NModule) :
    (((ms.filter fun m => knownMod m.name).map (pruneModule known)).flatMap fun m =>
      m.tests.filterMap fun t =>
        if known m.name t.name = true then some (⟨sid, m.name, t.name, orEmpty t.kwargs, w, r⟩ : CallSpec) else none)
    = ms.flatMap fun m =>
      m.tests.filterMap fun t =>
        if known m.name t.name = true then some (⟨sid, m.name, t.name, orEmpty t.kwargs, w, r⟩ : CallSpec) else none := by
  induction ms with
  | nil => rfl
  | cons m ms ih =>
    cases hm : knownMod m.name with
    | true =>
      simp only [List.filter_cons, hm, if_true, List.map_cons, List.flatMap_cons, ih,
        pruneModule_calls known sid w r m]
    | false =>
      have hn : ∀ t, known m.name t = false := by
        intro t
        cases h : known m.name t with
        | false => rfl
        | true => have := hk _ _ h; simp [hm] at this
      simp only [List.filter_cons, hm, Bool.false_eq_true, if_false, List.flatMap_cons, ih]
      simp [hn]

/-- unknown modules and unknown tests are skipped without affecting the remaining calls: removing
    them from the typed configuration leaves the spec (hence, by the layout theorems, the exposed
    calls) unchanged -/
theorem C07_unknown_skipped (knownMod : String → Bool) (known : String → String → Bool)
    (hk : ∀ m t, known m t = true → knownMod m = true) (c : NCtx) :
    (pruneCtx knownMod known c).spec known = c.spec known := by
  simp only [NCtx.spec, pruneCtx, List.flatMap_map, NCtx.regionObserved]
  congr 1; funext s
  exact pruneStream_calls knownMod known hk s.id _ _ s.modules

/-- the same on the model side: the calls exposed for the pruned context mapping are the calls
    exposed for the original one -/
theorem C07_unknown_skipped_calls (knownMod : String → Bool) (known : String → String → Bool)
    (hk : ∀ m t, known m t = true → knownMod m = true) (c : NCtx) (hr : c.regionSeen = c.region) :
    contextCalls knownMod known (pruneCtx knownMod known c).toJ = contextCalls knownMod known c.toJ := by
  rw [C07_context knownMod known hk _ (by simpa [pruneCtx] using hr), C07_context knownMod known hk c hr,
    C07_unknown_skipped knownMod known hk]

/-! ### Multiset equality is reflexive -/

mutual
theorem J.beq_refl : ∀ j : J, j.beq j = true
  | .null => by simp [J.beq]
  | .bool b => by simp [J.beq]
  | .num q => by simp [J.beq]
  | .str s => by simp [J.beq]
  | .arr xs => by simp [J.beq, J.beqList_refl xs]
  | .obj kvs => by simp [J.beq, J.beqKvs_refl kvs]
theorem J.beqList_refl : ∀ xs : List J, J.beqList xs xs = true
  | [] => by simp [J.beqList]
  | x :: xs => by simp [J.beqList, J.beq_refl x, J.beqList_refl xs]
theorem J.beqKvs_refl : ∀ kvs : List (String × J), J.beqKvs kvs kvs = true
  | [] => by simp [J.beqKvs]
  | (k, x) :: kvs => by simp [J.beqKvs, J.beq_refl x, J.beqKvs_refl kvs]
end

theorem CallSpec.beq_refl (x : CallSpec) : x.beq x = true := by
  simp [CallSpec.beq, J.beq_refl]

theorem sameCalls_refl (l : List CallSpec) : sameCalls l l = true := by
  induction l with
  | nil => rfl
  | cons x xs ih => simp [sameCalls, removeFirst, CallSpec.beq_refl, ih]

/-! ### The observation-level predicate -/

theorem specCalls_singleton (known : String → String → Bool) (c : NCtx) :
    specCalls known [c] = c.spec known := by
  simp [specCalls]

/-- for every layout in the domain the exposed calls are, in order, the calls the property demands
    (hypotheses actually used: `NStream.wf` of every stream and, for the `streams` layout,
    `hasParams`; neither `noDupKeys` nor any condition on the default key is needed) -/
theorem C07_main_eq (knownMod : String → Bool) (known : String → String → Bool)
    (hk : ∀ m t, known m t = true → knownMod m = true) (l : Layout) (dk : String) (cs : List NCtx) (t : J)
    (hd : C07.inDom l cs = true) (hl : layoutJ l cs = some t) (hr : ∀ c ∈ cs, c.regionSeen = c.region) :
    configCalls knownMod known dk t = specCalls known (rebindDefault l dk cs) := by
  simp only [C07.inDom, Bool.and_eq_true, List.all_eq_true] at hd
  obtain ⟨⟨hwf, _⟩, hparams⟩ := hd
  cases l with
  | contexts =>
    simp only [layoutJ, Option.some.injEq] at hl
    subst hl
    exact C07_layout_contexts knownMod known hk cs hr dk
  | context =>
    match cs, hl with
    | [c], hl =>
      simp only [layoutJ, Option.some.injEq] at hl
      subst hl
      rw [show rebindDefault .context dk [c] = [c] from rfl, specCalls_singleton]
      exact C07_layout_context knownMod known hk c (hr c (by simp)) dk
  | streams =>
    match cs, hl with
    | [c], hl =>
      simp only [layoutJ] at hl
      split at hl
      · rename_i hw hg
        simp only [Option.some.injEq] at hl
        subst hl
        have hp : hasParams c.streams = true := by simpa using hparams
        have hw' : c.streams.all NStream.wf = true := by
          have := (hwf c (by simp)).1
          simpa [List.all_eq_true] using this
        rw [show rebindDefault .streams dk [c] = [c] from rfl, specCalls_singleton, C07_layout_streams knownMod known hk c.streams hw' hp dk]
        simp [NCtx.spec, NCtx.regionObserved, hw, hg]
      · simp at hl
  | modules =>
    match cs, hl with
    | [c], hl =>
      simp only [layoutJ] at hl
      split at hl
      · rename_i s hw hg hs
        simp only [Option.some.injEq] at hl
        subst hl
        have hs' : s.wf = true := by
          have := (hwf c (by simp)).1
          simpa [hs] using this
        obtain ⟨h1, h2⟩ := NStream.wf_modules s hs'
        rw [show rebindDefault .modules dk [c]
              = [{ c with streams := c.streams.map fun s => { s with id := dk } }] from rfl,
          specCalls_singleton,
          C07_layout_modules' knownMod known hk s.modules h1 (C07_depth_modules s.modules h2) dk]
        simp [NCtx.spec, NCtx.regionObserved, hw, hg, hs]
      · simp at hl

/-- the observation-level predicate holds of the model for every layout in the domain -/
theorem C07_main (knownMod : String → Bool) (known : String → String → Bool)
    (hk : ∀ m t, known m t = true → knownMod m = true) (l : Layout) (dk : String) (cs : List NCtx) (t : J)
    (hd : C07.inDom l cs = true) (hl : layoutJ l cs = some t) (hr : ∀ c ∈ cs, c.regionSeen = c.region) :
    C07.holds known l dk cs (configCalls knownMod known dk t) = true := by
  unfold C07.holds
  rw [C07_main_eq knownMod known hk l dk cs t hd hl hr]
  exact sameCalls_refl _

/-- the real module / test tables satisfy the compatibility hypothesis -/
theorem realTest_realModule : ∀ m t, realTest m t = true → realModule m = true := by
  intro m t h
  simp only [realTest, realTests, List.contains_eq_mem, List.mem_cons, Prod.mk.injEq, List.mem_nil_iff,
    or_false, decide_eq_true_eq] at h
  simp only [realModule, Bool.or_eq_true, beq_iff_eq]
  rcases h with ⟨rfl, -⟩ | ⟨rfl, -⟩ | ⟨rfl, -⟩ | ⟨rfl, -⟩ | ⟨rfl, -⟩ | ⟨rfl, -⟩ | ⟨rfl, -⟩ | ⟨rfl, -⟩ | ⟨rfl, -⟩ | ⟨rfl, -⟩ | ⟨rfl, -⟩ | ⟨rfl, -⟩ | ⟨rfl, -⟩ <;> simp

/-- C07 for the real ioos_qc module / test tables -/
theorem C07_main_real (l : Layout) (dk : String) (cs : List NCtx) (t : J)
    (hd : C07.inDom l cs = true) (hl : layoutJ l cs = some t) (hr : ∀ c ∈ cs, c.regionSeen = c.region) :
    C07.holds realTest l dk cs (configCalls realModule realTest dk t) = true :=
  C07_main realModule realTest realTest_realModule l dk cs t hd hl hr

/-! ### Known finding F-09 -/

/-- F-09 as a theorem: a bare stream mapping in which no test has a parameter mapping is only three
    levels deep, is therefore read as a MODULE mapping (stream ids taken for module names), and
    exposes no call at all although the configuration names an existing test -/
theorem C07_F09_witness : ∃ ss : List NStream, ss.all NStream.wf = true ∧ hasParams ss = false ∧
    (streamsJ ss).depth = 3 ∧
    configCalls realModule realTest "_stream" (streamsJ ss) = [] ∧
    ((⟨.null, .null, .null, ss⟩ : NCtx).spec realTest) ≠ [] := by
  refine ⟨[⟨"sea_water_temperature", [⟨"qartod", [⟨"gross_range_test", .null⟩]⟩]⟩], ?_, ?_, ?_, ?_, ?_⟩
  · decide +kernel
  · decide +kernel
  · decide +kernel
  · decide +kernel
  · decide +kernel

/-- F-09 in general: without a parameter mapping a well-formed bare stream mapping never reaches
    depth four, so the `streams` branch of the dispatch is never taken -/
theorem C07_F09_depth (ss : List NStream) (hp : hasParams ss = false) : (streamsJ ss).depth ≤ 3 := by
  refine J.depth_obj_le _ 2 ?_
  intro p hp'
  simp only [List.mem_map] at hp'
  obtain ⟨s, hs, rfl⟩ := hp'
  refine J.depth_obj_le _ 1 ?_
  intro p hp'
  simp only [List.mem_map] at hp'
  obtain ⟨m, hm, rfl⟩ := hp'
  refine J.depth_obj_le _ 0 ?_
  intro p hp'
  simp only [List.mem_map] at hp'
  obtain ⟨t, ht, rfl⟩ := hp'
  cases hkw : t.kwargs with
  | obj kvs =>
    have : hasParams ss = true := by
      simp only [hasParams, List.any_eq_true]
      exact ⟨s, hs, m, hm, t, ht, by simp [hkw]⟩
    simp [hp] at this
  | _ => simp [J.depth]

/-! ### Non-vacuity -/

section Examples

private def grossKw : J := .obj [("suspect_span", .arr [.num 1, .num 11]), ("fail_span", .arr [.num 0, .num 12])]
private def win : J := .obj [("starting", .str "2020-01-01"), ("ending", .str "2020-02-01")]
private def geo : J := .obj [("geometry", .obj [("type", .str "Point")])]

private def triples (l : List CallSpec) : List (String × String × String) :=
  l.map fun c => (c.stream, c.module, c.test)

/-- two contexts, the first with a window and a region; an unknown module and an unknown test -/
private def exCs : List NCtx :=
  [ ⟨win, geo, geo, [⟨"temp", [⟨"qartod", [⟨"gross_range_test", grossKw⟩, ⟨"no_such_test", .null⟩]⟩,
                               ⟨"no_such_module", [⟨"gross_range_test", grossKw⟩]⟩]⟩]⟩,
    ⟨.null, .null, .null, [⟨"temp", [⟨"qartod", [⟨"spike_test", .obj []⟩]⟩]⟩,
                           ⟨"window", [⟨"axds", [⟨"valid_range_test", .null⟩]⟩]⟩]⟩ ]

example : C07.inDom .contexts exCs = true := by decide +kernel
example : triples (configCalls realModule realTest "_stream" (contextsJ exCs))
    = [("temp", "qartod", "gross_range_test"), ("temp", "qartod", "spike_test"), ("window", "axds", "valid_range_test")] := by
  decide +kernel
example : (configCalls realModule realTest "_stream" (contextsJ exCs)).map (fun c => c.window.beq win)
    = [true, false, false] := by decide +kernel
example : C07.holds realTest .contexts "_stream" exCs
    (configCalls realModule realTest "_stream" (contextsJ exCs)) = true := by decide +kernel

/-- one context, one stream carrying the default id: expressible in all four layouts -/
private def exOne : List NCtx :=
  [ ⟨.null, .null, .null, [⟨"_stream", [⟨"qartod", [⟨"gross_range_test", grossKw⟩, ⟨"no_such_test", .null⟩]⟩,
                                          ⟨"argo", [⟨"speed_test", .null⟩]⟩]⟩]⟩ ]

private def exCalls (l : Layout) : List (String × String × String) :=
  match layoutJ l exOne with
  | some t => triples (configCalls realModule realTest "_stream" t)
  | none => []

example : C07.inDom .contexts exOne = true ∧ C07.inDom .context exOne = true ∧
    C07.inDom .streams exOne = true ∧ C07.inDom .modules exOne = true := by decide +kernel
example : exCalls .contexts = [("_stream", "qartod", "gross_range_test"), ("_stream", "argo", "speed_test")] := by
  decide +kernel
example : exCalls .context = exCalls .contexts ∧ exCalls .streams = exCalls .contexts ∧
    exCalls .modules = exCalls .contexts := by decide +kernel
example : ∀ l ∈ [Layout.contexts, .context, .streams, .modules], ∀ t, layoutJ l exOne = some t →
    C07.holds realTest l "_stream" exOne (configCalls realModule realTest "_stream" t) = true :=
  fun l _ t ht => C07_main_real l "_stream" exOne t (by cases l <;> decide +kernel) ht
    (by intro c hc; simp only [exOne, List.mem_singleton] at hc; subst hc; rfl)

/-- probes: a reserved default key, a stream id named like a context key, a repeated test name -/
example : triples (configCalls realModule realTest "streams" (modulesJ [⟨"qartod", [⟨"spike_test", .null⟩]⟩]))
    = [("streams", "qartod", "spike_test")] := by decide +kernel
example : triples (configCalls realModule realTest "_stream"
      (streamsJ [⟨"window", [⟨"qartod", [⟨"spike_test", .obj []⟩, ⟨"spike_test", .null⟩]⟩]⟩]))
    = [("window", "qartod", "spike_test"), ("window", "qartod", "spike_test")] := by decide +kernel

end Examples

end IoosQc
