/-
  C02 — missing-data discipline.  A missing observation is flagged MISSING (or UNKNOWN at the
  positions where the test is undefined anyway: spike end points, speed's first point, a
  one-point density profile), and a present observation is flagged MISSING only if some other
  value the test needs at that position is missing.  All tests that document missing handling
  (everything but `pressure_increasing_test`), all lengths, all placements of missing values.

  Per test the proof is a pointwise "`xxxAt … = MISSING ↔ …`" lemma, lifted to the whole output
  by `C02_holds_range`.

  FINDING.  As `C02.holdsAt` / `TestCall.inDom` are written, the statement is FALSE for
  `argo.speed_test`: `inDom` (via `hopsConsistent`) forces a hop distance to be missing WHERE a
  coordinate is missing, but not ONLY there.  A supplied distance that is missing although its
  four coordinates are present makes the model answer MISSING at a present position none of
  whose needed coordinates is missing (`C02_speed_counterexample`).  `C02_main` therefore carries
  the extra hypothesis `C02.speedHopsExact c` — the converse of `hopsConsistent`, constraining
  `speed` calls only — and `C02_main_nonspeed` is the corollary that excludes the constructor.
-/
import IoosQc.Lemmas.Basic
import IoosQc.Theorems.C08
import IoosQc.Theorems.C09
import IoosQc.Theorems.C14
set_option linter.unusedSimpArgs false
set_option linter.unusedVariables false

namespace IoosQc

/-! ### The extra hypothesis for `speed` -/

/-- `hopsExact` (Props/Domain.lean: among the `n − 1` hops of the track a distance is missing ONLY
    where one of the hop's four coordinates is) for `speed` calls, nothing for the other tests. -/
def C02.speedHopsExact : TestCall → Bool
  | .speed lon lat _ _ _ hops => hopsExact lon lat hops
  | _ => true

/-- Every call but a `speed` call. -/
def C02.notSpeed : TestCall → Bool
  | .speed _ _ _ _ _ _ => false
  | _ => true

theorem hexact_of_exact (lon lat hops : List V) (h : hopsExact lon lat hops = true) :
    ∀ j, j + 1 < lon.length → getV hops j = none →
      (getV lon j).isNone ∨ (getV lat j).isNone ∨ (getV lon (j + 1)).isNone ∨ (getV lat (j + 1)).isNone := by
  intro j hj hn
  unfold hopsExact at h
  rw [List.all_eq_true] at h
  have := h j (List.mem_range.2 (by omega))
  simp [hn] at this
  grind

/-! ### From pointwise to the whole output -/

theorem C02_holdsFrom_range' (c : TestCall) (g : Nat → Int) (n k : Nat)
    (h : ∀ i, k ≤ i → i < k + n → C02.holdsAt c i (g i) = true) :
    C02.holdsFrom c k ((List.range' k n).map g) = true := by
  induction n generalizing k with
  | zero => simp [C02.holdsFrom]
  | succ n ih =>
    simp only [List.range'_succ, List.map_cons, C02.holdsFrom, Bool.and_eq_true]
    exact ⟨h k (Nat.le_refl _) (by omega), ih (k + 1) (fun i h1 h2 => h i (by omega) (by omega))⟩

/-- C02 holds on an output given position by position as soon as it holds at every position. -/
theorem C02_holds_range (c : TestCall) (n : Nat) (f : Nat → Flag)
    (h : ∀ i, i < n → C02.holdsAt c i ((f i).code : Int) = true) :
    C02.holds c (Res.toObs (.ok ((List.range n).map f))) = true := by
  simp only [C02.holds, Res.toObs, List.map_map, List.range_eq_range']
  exact C02_holdsFrom_range' c _ n 0 (fun i _ hi => h i (by omega))

/-- Mapping over a series is mapping over its index range. -/
theorem map_eq_range_getV {β : Type} (xs : List V) (f : V → β) :
    xs.map f = (List.range xs.length).map (fun i => f (getV xs i)) := by
  apply List.ext_getElem
  · simp
  · intro i h1 h2
    have hi : i < xs.length := by simpa using h1
    simp [getV, List.getD_eq_getElem?_getD, hi]

theorem C02_holds_map (c : TestCall) (xs : List V) (f : V → Flag)
    (h : ∀ i, i < xs.length → C02.holdsAt c i ((f (getV xs i)).code : Int) = true) :
    C02.holds c (Res.toObs (.ok (xs.map f))) = true := by
  rw [map_eq_range_getV]
  exact C02_holds_range c xs.length _ h

/-! ### `holdsAt` in terms of flags -/

theorem holdsAt_missing (c : TestCall) (i : Nat) (f : Flag)
    (hm : obsMissing c i = true) (hf : f = .missing) : C02.holdsAt c i (f.code : Int) = true := by
  subst hf; simp [C02.holdsAt, hm, Flag.code]

theorem holdsAt_undefined (c : TestCall) (i : Nat) (f : Flag)
    (hu : undefinedAt c i = true) (hf : f = .unknown ∨ f = .missing) (hm : obsMissing c i = true) :
    C02.holdsAt c i (f.code : Int) = true := by
  rcases hf with hf | hf <;> subst hf <;> simp [C02.holdsAt, hm, hu, Flag.code]

theorem holdsAt_present (c : TestCall) (i : Nat) (f : Flag)
    (hm : obsMissing c i = false) (hf : f = .missing → neededMissing c i = true) :
    C02.holdsAt c i (f.code : Int) = true := by
  cases f <;> simp_all [C02.holdsAt, Flag.code]

/-! ### Pointwise: when is the flag MISSING? -/

theorem grossAt_missing_iff (fl : Rat × Rat) (u : Option (Rat × Rat)) (x : V) :
    grossAt fl u x = .missing ↔ x = none := by
  unfold grossAt overrides outside vlt vgt
  cases x with
  | none => cases u <;> simp
  | some v => cases u <;> simp <;> grind

theorem validAt_missing_iff (lo hi : V) (si ei : Bool) (x : V) :
    validAt lo hi si ei x = .missing ↔ x = none := by
  unfold validAt overrides
  cases x <;> simp <;> grind

theorem rocAt_missing_iff (thr : Rat) (xs : List V) (ts : List Int) (i : Nat) :
    rocAt thr xs ts i = .missing ↔ getV xs i = none := by
  unfold rocAt overrides
  cases getV xs i <;> simp <;> grind

theorem flatShort_missing_iff (x : V) : overrides .good [(x.isNone, .missing)] = .missing ↔ x = none := by
  unfold overrides
  cases x <;> simp

theorem flatAt_missing_iff (ks kf : Nat) (tol : Rat) (xs : List V) (i : Nat) :
    flatAt ks kf tol xs i = .missing ↔ getV xs i = none := by
  unfold flatAt overrides
  cases getV xs i <;> simp <;> grind

theorem attenAt_missing_iff (s : Stat) (sus fail : Rat) (x : V) :
    attenAt s sus fail x = .missing ↔ x = none := by
  unfold attenAt overrides
  cases x <;> simp <;> grind

theorem classify_ne_missing (m : Member) (v : Rat) : classify m v ≠ .missing := by
  unfold classify
  (repeat' split) <;> simp

theorem climAt_missing_iff (periodOf : Period → Int → Int) (ms : List Member) (noDepth : Bool)
    (t : Int) (x z : V) (hz : noDepth = true → z = none) :
    climAt periodOf ms noDepth t x z = .missing ↔ x = none := by
  cases x with
  | none => simp [climAt_missing]
  | some v =>
    rw [climAt_present periodOf ms noDepth t v z hz]
    cases (ms.filter fun m => memberCovers periodOf m t z).getLast? with
    | none => simp
    | some m => simpa using classify_ne_missing m v

theorem densAt_missing_iff (sus fail : Option Rat) (rho z : List V) (i : Nat) :
    densAt sus fail rho z i = .missing ↔
      (recMissing rho z i || (decide (0 < i) && recMissing rho z (i - 1))) = true := by
  unfold densAt overrides
  cases recMissing rho z i <;> cases (decide (0 < i) && recMissing rho z (i - 1)) <;>
    simp <;> (repeat' split) <;> simp

theorem speedAt_zero (sus fail : Rat) (lon lat : List V) (ts : List Int) (hops : List V) :
    speedAt sus fail lon lat ts hops 0 = .unknown := by
  unfold speedAt hopAt overrides; simp

/-- Past the first point: MISSING exactly when the hop distance into the point is missing —
    given that the hop into a position with neither coordinate is missing (`hcons`). -/
theorem speedAt_missing_iff (sus fail : Rat) (lon lat : List V) (ts : List Int) (hops : List V)
    (i : Nat) (hi : 0 < i)
    (hmiss : getV lon i = none → getV lat i = none → getV hops (i - 1) = none) :
    speedAt sus fail lon lat ts hops i = .missing ↔ getV hops (i - 1) = none := by
  have h0 : i ≠ 0 := by omega
  unfold speedAt hopAt overrides vgt
  cases hd : getV hops (i - 1) with
  | none => simp [h0, hd]
  | some d =>
    cases hlo : getV lon i <;> cases hla : getV lat i
    · have := hmiss hlo hla
      simp [hd] at this
    all_goals (simp [h0, hd, hlo, hla]; grind)

/-! ### Pointwise C02 -/

theorem C02_at_of_iff (c : TestCall) (i : Nat) (f : Flag) (x : V)
    (hobs : obsMissing c i = x.isNone) (hiff : f = .missing ↔ x = none) :
    C02.holdsAt c i (f.code : Int) = true := by
  cases x with
  | none => exact holdsAt_missing c i f (by simp [hobs]) (hiff.2 rfl)
  | some v => exact holdsAt_present c i f (by simp [hobs]) (fun h => by simp [hiff] at h)

theorem spike_C02_at (meth : String) (m : SpikeMethod) (sus fail : Option Rat) (xs : List V)
    (i : Nat) (hi : i < xs.length) :
    C02.holdsAt (.spike meth sus fail xs) i ((spikeAt m sus fail xs i).code : Int) = true := by
  have h := spikeAt_spec m sus fail xs i
  unfold spikeSpecAt at h
  by_cases hend : i = 0 ∨ i + 1 = xs.length
  · simp only [hend, if_true] at h
    have hu : undefinedAt (.spike meth sus fail xs) i = true := by
      simp only [undefinedAt, Bool.or_eq_true, beq_iff_eq]; exact hend
    cases hx : getV xs i with
    | none =>
      simp [hx] at h
      exact holdsAt_undefined _ _ _ hu h (by simp [obsMissing, hx])
    | some v =>
      simp [hx] at h
      exact holdsAt_present _ _ _ (by simp [obsMissing, hx]) (fun hm => by simp [h] at hm)
  · simp only [hend, if_false] at h
    have h0 : 0 < i := by omega
    have hn : i + 1 < xs.length := by omega
    cases hx : getV xs i with
    | none =>
      simp [hx] at h
      exact holdsAt_missing _ _ _ (by simp [obsMissing, hx]) h
    | some v =>
      apply holdsAt_present _ _ _ (by simp [obsMissing, hx])
      intro hm
      simp only [neededMissing, h0, hn, decide_true, Bool.true_and, Bool.or_eq_true]
      cases hp : getV xs (i - 1) with
      | none => simp
      | some p =>
        cases hq : getV xs (i + 1) with
        | none => simp
        | some q =>
          exfalso
          simp [hx, hp, hq] at h
          rw [hm] at h
          revert h
          (repeat' split) <;> simp

theorem density_C02_at (sus fail : Option Rat) (rho z : List V) (i : Nat) :
    C02.holdsAt (.density rho z sus fail) i ((densAt sus fail rho z i).code : Int) = true := by
  cases hx : getV rho i with
  | none =>
    apply holdsAt_missing _ _ _ (by simp [obsMissing, hx])
    rw [densAt_missing_iff]
    simp [recMissing, hx]
  | some v =>
    apply holdsAt_present _ _ _ (by simp [obsMissing, hx])
    intro hm
    rw [densAt_missing_iff] at hm
    simp only [neededMissing]
    simp [recMissing, hx] at hm ⊢
    grind

theorem location_C02_at (b : Box) (bbox : SeqArg) (rangeMax : Option Rat) (n : Nat)
    (lon lat hops : List V) (i : Nat) (hn : i < n)
    (hr : ∀ r, rangeMax = some r → 0 ≤ r) (hcons : HopsConsistent lon lat hops) :
    C02.holdsAt (.location lon lat bbox rangeMax hops) i
      ((locationAt b rangeMax n (getV lon i) (getV lat i) (hopAt hops i)).code : Int) = true := by
  have h := locationAt_spec b rangeMax n lon lat hops i hn hr hcons
  unfold locSpecAt at h
  cases hx : getV lon i <;> cases hy : getV lat i <;> simp only [hx, hy] at h
  · exact holdsAt_missing _ _ _ (by simp [obsMissing, hx, hy]) (by simpa using h)
  · exact holdsAt_present _ _ _ (by simp [obsMissing, hx, hy]) (fun hm => by simp [hm] at h)
  · exact holdsAt_present _ _ _ (by simp [obsMissing, hx, hy]) (fun hm => by simp [hm] at h)
  · apply holdsAt_present _ _ _ (by simp [obsMissing, hx, hy])
    intro hm
    exfalso
    rw [hm] at h
    revert h
    (repeat' split) <;> simp

theorem speed_C02_at (sus fail : Rat) (lon lat : List V) (ts : List Int) (hops : List V) (i : Nat)
    (hn : i < lon.length)
    (hcons : HopsConsistent lon lat hops)
    (hexact : ∀ j, j + 1 < lon.length → getV hops j = none →
      (getV lon j).isNone ∨ (getV lat j).isNone ∨ (getV lon (j + 1)).isNone ∨ (getV lat (j + 1)).isNone) :
    C02.holdsAt (.speed lon lat ts sus fail hops) i
      ((speedAt sus fail lon lat ts hops i).code : Int) = true := by
  cases i with
  | zero =>
    rw [speedAt_zero]
    cases hm : obsMissing (.speed lon lat ts sus fail hops) 0 with
    | true => exact holdsAt_undefined _ _ _ (by simp [undefinedAt]) (Or.inl rfl) hm
    | false => exact holdsAt_present _ _ _ hm (fun h => by simp at h)
  | succ k =>
    have hmiss : getV lon (k + 1) = none → getV lat (k + 1) = none → getV hops (k + 1 - 1) = none := by
      intro h1 h2
      exact hcons k (Or.inr (Or.inr (Or.inl (by simp [h1]))))
    have hiff := speedAt_missing_iff sus fail lon lat ts hops (k + 1) (by omega) hmiss
    cases hm : obsMissing (.speed lon lat ts sus fail hops) (k + 1) with
    | true =>
      apply holdsAt_missing _ _ _ hm
      simp only [obsMissing, Bool.and_eq_true, Option.isNone_iff_eq_none] at hm
      exact hiff.2 (hmiss hm.1 hm.2)
    | false =>
      apply holdsAt_present _ _ _ hm
      intro hmis
      have hnone := hiff.1 hmis
      simp only [Nat.add_sub_cancel] at hnone
      have := hexact k hn hnone
      simp only [neededMissing, Nat.add_sub_cancel, Nat.zero_lt_succ, decide_true, Bool.true_and,
        Bool.or_eq_true]
      grind

/-! ### What a successful run looks like, for the tests that can raise -/

theorem grossRange_form (fail : SeqArg) (suspect : Option SeqArg) (inp : List V) (fs : List Flag)
    (h : grossRange fail suspect inp = .ok fs) : ∃ fl u, fs = inp.map (grossAt fl u) := by
  unfold grossRange fixedLength at h
  cases hseq : fail.isSeq <;> simp [hseq, bind, Except.bind, pure, Except.pure] at h
  split at h
  · simp at h
  · split at h
    · rename_i a b _
      cases suspect with
      | none => simp at h; subst h; exact ⟨_, _, rfl⟩
      | some s =>
        simp at h
        cases hs : s.isSeq <;> simp [hs] at h
        split at h
        · simp at h
        · split at h
          · split at h <;> simp [throw, throwThe, MonadExceptOf.throw] at h
            subst h; exact ⟨_, _, rfl⟩
          · simp [throw, throwThe, MonadExceptOf.throw] at h
    · simp [throw, throwThe, MonadExceptOf.throw] at h

theorem locationTest_form (lon lat : List V) (bbox : SeqArg) (rangeMax : Option Rat)
    (hops : List V) (fs : List Flag)
    (h : locationTest lon lat bbox rangeMax hops = .ok fs) :
    ∃ b, fs = (List.range lon.length).map fun i =>
      locationAt b rangeMax lon.length (getV lon i) (getV lat i) (hopAt hops i) := by
  unfold locationTest fixedLength at h
  cases hseq : bbox.isSeq <;> simp [hseq, bind, Except.bind, pure, Except.pure] at h
  split at h
  · simp at h
  · split at h
    · split at h <;> simp [throw, throwThe, MonadExceptOf.throw] at h
      subst h; exact ⟨_, rfl⟩
    · simp [throw, throwThe, MonadExceptOf.throw] at h

theorem spikeTest_form (method : String) (sus fail : Option Rat) (inp : List V) (fs : List Flag)
    (h : spikeTest method sus fail inp = .ok fs) :
    ∃ m, fs = (List.range inp.length).map (spikeAt m sus fail inp) := by
  unfold spikeTest at h
  split at h
  · simp [throw, throwThe, MonadExceptOf.throw] at h
  · simp [pure, Except.pure] at h; subst h; exact ⟨_, rfl⟩

theorem rocTest_form (inp : List V) (ts : List Int) (thr : Rat) (fs : List Flag)
    (h : rocTest inp ts thr = .ok fs) : fs = (List.range inp.length).map (rocAt thr inp ts) := by
  unfold rocTest at h
  split at h
  · simp [throw, throwThe, MonadExceptOf.throw] at h
  · simp [pure, Except.pure] at h; subst h; rfl

theorem attenuatedTest_form (checkType : String) (inp : List V) (ts : List Int) (sus fail : Rat)
    (period : Option Rat) (minObs : Option Nat) (minPeriod : Option Rat) (fs : List Flag)
    (h : attenuatedTest checkType inp ts sus fail period minObs minPeriod = .ok fs) :
    ∃ st : Nat → Stat, fs = (List.range inp.length).map fun i => attenAt (st i) sus fail (getV inp i) := by
  unfold attenuatedTest at h
  split at h
  · simp [throw, throwThe, MonadExceptOf.throw] at h
  · rename_i ct _
    cases period with
    | none =>
      simp [pure, Except.pure] at h; subst h
      exact ⟨fun _ => wholeStat ct inp, map_eq_range_getV inp _⟩
    | some P =>
      simp [pure, Except.pure] at h; subst h
      exact ⟨_, rfl⟩

theorem densityTest_form (rho z : List V) (sus fail : Option Rat) (fs : List Flag)
    (h : densityTest rho z sus fail = .ok fs) :
    (rho.length < 2 ∧ fs = (List.range rho.length).map fun _ => Flag.unknown) ∨
    (2 ≤ rho.length ∧ fs = (List.range rho.length).map (densAt sus fail rho z)) := by
  unfold densityTest at h
  split at h
  · simp [throw, throwThe, MonadExceptOf.throw] at h
  · split at h
    · rename_i h0
      simp [pure, Except.pure] at h; subst h; left; simp [h0]
    · split at h
      · rename_i h0 h1
        have e : rho.length = 1 := by omega
        simp [pure, Except.pure] at h; subst h; left; simp [e, List.range_succ]
      · simp [pure, Except.pure] at h; subst h; right; exact ⟨by omega, rfl⟩

theorem speedTest_form (lon lat : List V) (ts : List Int) (sus fail : Rat) (hops : List V)
    (fs : List Flag) (h : speedTest lon lat ts sus fail hops = .ok fs) :
    (lon.length < 2 ∧ fs = (List.range lon.length).map fun _ => Flag.unknown) ∨
    (2 ≤ lon.length ∧ fs = (List.range lon.length).map (speedAt sus fail lon lat ts hops)) := by
  unfold speedTest at h
  split at h
  · simp [throw, throwThe, MonadExceptOf.throw] at h
  · split at h
    · rename_i h0
      simp [pure, Except.pure] at h; subst h; left; simp [h0]
    · split at h
      · rename_i h0 h1
        have e : lon.length = 1 := by omega
        simp [pure, Except.pure] at h; subst h; left; simp [e, List.range_succ]
      · simp [pure, Except.pure] at h; subst h; right; exact ⟨by omega, rfl⟩

/-- A one-point profile / track: UNKNOWN is admissible whether or not the point is missing. -/
theorem unknown_C02_at (c : TestCall) (i : Nat)
    (hu : obsMissing c i = true → undefinedAt c i = true) :
    C02.holdsAt c i ((Flag.unknown).code : Int) = true := by
  cases hm : obsMissing c i with
  | true => exact holdsAt_undefined _ _ _ (hu hm) (Or.inl rfl) hm
  | false => exact holdsAt_present _ _ _ hm (fun h => by simp at h)

/-! ### C02 -/

/-- C02 (model side): a missing observation is MISSING (or UNKNOWN where the test is undefined
    anyway), and a present observation is MISSING only if a value the test needs is missing — all
    tests that document missing handling, all lengths, all placements.

    `hx` constrains `speed` calls only (it is `true` by definition for every other test): the
    supplied hop distances are missing only where a coordinate is.  It cannot be dropped, see
    `C02_speed_counterexample`. -/
theorem C02_main_of_exact (periodOf : Period → Int → Int) (c : TestCall)
    (ha : C02.applies c = true) (hd : c.inDom = true) (hx : C02.speedHopsExact c = true) :
    C02.holds c (c.run periodOf).toObs = true := by
  cases hrun : c.run periodOf with
  | error e => rfl
  | ok fs =>
    cases c with
    | gross f s inp =>
      obtain ⟨fl, u, rfl⟩ := grossRange_form f s inp fs hrun
      exact C02_holds_map _ inp _ (fun i _ =>
        C02_at_of_iff _ i _ (getV inp i) rfl (grossAt_missing_iff fl u _))
    | valid lo hi si ei inp =>
      simp only [TestCall.run, validRange, pure, Except.pure, Except.ok.injEq] at hrun
      subst hrun
      exact C02_holds_map _ inp _ (fun i _ =>
        C02_at_of_iff _ i _ (getV inp i) rfl (validAt_missing_iff lo hi si ei _))
    | location lon lat bbox r hops =>
      obtain ⟨b, rfl⟩ := locationTest_form lon lat bbox r hops fs hrun
      have hcons := hcons_of_consistent lon lat hops (by
        simp only [TestCall.inDom, Bool.and_eq_true] at hd; exact hd.1.2)
      have hr := location_inDom_range lon lat bbox r hops hd
      exact C02_holds_range _ _ _ (fun i hi =>
        location_C02_at b bbox r lon.length lon lat hops i hi hr hcons)
    | climatology ms inp t z =>
      simp only [TestCall.run, climatologyTest, pure, Except.pure, Except.ok.injEq] at hrun
      subst hrun
      exact C02_holds_range _ _ _ (fun i _ =>
        C02_at_of_iff _ i _ (getV inp i) rfl
          (climAt_missing_iff periodOf ms _ _ _ _ (fun hall => getV_of_all_none z i hall)))
    | spike meth s f inp =>
      obtain ⟨m, rfl⟩ := spikeTest_form meth s f inp fs hrun
      exact C02_holds_range _ _ _ (fun i hi => spike_C02_at meth m s f inp i hi)
    | roc inp t thr =>
      have := rocTest_form inp t thr fs hrun
      subst this
      exact C02_holds_range _ _ _ (fun i _ =>
        C02_at_of_iff _ i _ (getV inp i) rfl (rocAt_missing_iff thr inp t i))
    | flatLine inp t s f tol =>
      simp only [TestCall.run, flatLineTest, pure, Except.pure] at hrun
      split at hrun
      · simp only [Except.ok.injEq] at hrun
        subst hrun
        exact C02_holds_map _ inp _ (fun i _ =>
          C02_at_of_iff _ i _ (getV inp i) rfl (flatShort_missing_iff _))
      · simp only [Except.ok.injEq] at hrun
        subst hrun
        exact C02_holds_range _ _ _ (fun i _ =>
          C02_at_of_iff _ i _ (getV inp i) rfl (flatAt_missing_iff _ _ tol inp i))
    | attenuated ct inp t s f p mo mp =>
      obtain ⟨st, rfl⟩ := attenuatedTest_form ct inp t s f p mo mp fs hrun
      exact C02_holds_range _ _ _ (fun i _ =>
        C02_at_of_iff _ i _ (getV inp i) rfl (attenAt_missing_iff (st i) s f _))
    | density rho z s f =>
      rcases densityTest_form rho z s f fs hrun with ⟨hlt, rfl⟩ | ⟨hge, rfl⟩
      · exact C02_holds_range _ _ _ (fun i hi => unknown_C02_at _ i (fun _ => by
          simp only [undefinedAt, beq_iff_eq]; omega))
      · exact C02_holds_range _ _ _ (fun i _ => density_C02_at s f rho z i)
    | pressure p => simp [C02.applies] at ha
    | speed lon lat t s f hops =>
      rcases speedTest_form lon lat t s f hops fs hrun with ⟨hlt, rfl⟩ | ⟨hge, rfl⟩
      · exact C02_holds_range _ _ _ (fun i hi => unknown_C02_at _ i (fun _ => by
          simp only [undefinedAt, beq_iff_eq]; omega))
      · have hcons := hcons_of_consistent lon lat hops (by
          simp only [TestCall.inDom, Bool.and_eq_true] at hd; exact hd.2)
        have hexact := hexact_of_exact lon lat hops hx
        exact C02_holds_range _ _ _ (fun i hi => speed_C02_at s f lon lat t hops i hi hcons hexact)

/-- C02 for every test but `speed`, exactly as the property is written (no extra hypothesis on
    the data). -/
theorem C02_main_nonspeed (periodOf : Period → Int → Int) (c : TestCall)
    (ha : C02.applies c = true) (hd : c.inDom = true) (hns : C02.notSpeed c = true) :
    C02.holds c (c.run periodOf).toObs = true := by
  apply C02_main_of_exact periodOf c ha hd
  cases c <;> first | rfl | simp [C02.notSpeed] at hns

/-- C02 on the whole domain: `inDom` says the supplied hop distances are missing exactly where a
    coordinate of the hop is, which is what `hx` asks for. -/
theorem C02_main (periodOf : Period → Int → Int) (c : TestCall)
    (ha : C02.applies c = true) (hd : c.inDom = true) :
    C02.holds c (c.run periodOf).toObs = true := by
  apply C02_main_of_exact periodOf c ha hd
  cases c <;> first
    | rfl
    | (simp only [TestCall.inDom, Bool.and_eq_true] at hd
       exact hopsExact_of_consistent _ _ _ hd.2)

/-- Why the domain demands exact hop lists (COUNTEREXAMPLE to `C02_main_of_exact` without `hx`): a
    two-point track, every coordinate present, whose supplied hop distance is missing.  The
    model — like the code when the geodesic routine returns NaN — flags the second point MISSING
    although the observation is present and no coordinate it needs is missing. -/
theorem C02_speed_counterexample :
    C02.applies (.speed [some 0, some 1] [some 0, some 1] [0, 1] 1 2 [none]) = true ∧
    (TestCall.speed [some 0, some 1] [some 0, some 1] [0, 1] 1 2 [none]).inDom = false ∧
    C02.speedHopsExact (.speed [some 0, some 1] [some 0, some 1] [0, 1] 1 2 [none]) = false ∧
    ((TestCall.speed [some 0, some 1] [some 0, some 1] [0, 1] 1 2 [none]).run (fun _ t => t)).toObs
      = .flags [2, 9] ∧
    C02.holds (.speed [some 0, some 1] [some 0, some 1] [0, 1] 1 2 [none])
      ((TestCall.speed [some 0, some 1] [some 0, some 1] [0, 1] 1 2 [none]).run (fun _ t => t)).toObs
      = false := by
  decide +kernel

/-! ### Non-vacuity -/

/-- The hypotheses are satisfiable on a `speed` call with missing values (so `hx` does not make
    the theorem vacuous there): both coordinates missing at positions 0 and 3, a real hop 1 → 2
    (FAIL), missing hops everywhere a coordinate is missing and only there. -/
example :
    C02.applies (.speed [none, some 1, some 2, none, some 4] [none, some 1, some 2, none, some 4]
      [0, 1, 2, 3, 4] 1 2 [none, some 5, none, none]) = true ∧
    (TestCall.speed [none, some 1, some 2, none, some 4] [none, some 1, some 2, none, some 4]
      [0, 1, 2, 3, 4] 1 2 [none, some 5, none, none]).inDom = true ∧
    C02.speedHopsExact (.speed [none, some 1, some 2, none, some 4] [none, some 1, some 2, none, some 4]
      [0, 1, 2, 3, 4] 1 2 [none, some 5, none, none]) = true ∧
    ((TestCall.speed [none, some 1, some 2, none, some 4] [none, some 1, some 2, none, some 4]
      [0, 1, 2, 3, 4] 1 2 [none, some 5, none, none]).run (fun _ t => t)).toObs = .flags [2, 9, 4, 9, 9] := by
  decide +kernel

/-- … and `C02_main` applies to it. -/
example : C02.holds (.speed [none, some 1, some 2, none, some 4] [none, some 1, some 2, none, some 4]
      [0, 1, 2, 3, 4] 1 2 [none, some 5, none, none])
    ((TestCall.speed [none, some 1, some 2, none, some 4] [none, some 1, some 2, none, some 4]
      [0, 1, 2, 3, 4] 1 2 [none, some 5, none, none]).run IoosQc.periodOf).toObs = true :=
  C02_main _ _ (by decide +kernel) (by decide +kernel)

/-- `C02_main_nonspeed` on a location track with one and with both coordinates missing. -/
example : C02.holds (.location [some 0, none, none, some 1] [some 0, some 3, none, some 1]
      ⟨true, [-10, -10, 10, 10]⟩ (some 6) [none, none, none])
    ((TestCall.location [some 0, none, none, some 1] [some 0, some 3, none, some 1]
      ⟨true, [-10, -10, 10, 10]⟩ (some 6) [none, none, none]).run IoosQc.periodOf).toObs = true :=
  C02_main_nonspeed _ _ (by decide +kernel) (by decide +kernel) (by decide +kernel)

/-- Spike (differential): a missing end point (UNKNOWN: the test is undefined there anyway), a
    missing interior point (MISSING), present neighbours of a missing point (MISSING, because a
    needed value is missing) and a present point with both neighbours present (GOOD). -/
example :
    ((TestCall.spike "differential" (some 1) (some 2)
      [none, some 1, some 2, some 2, none, some 1]).run (fun _ t => t)).toObs = .flags [2, 9, 1, 9, 9, 2] ∧
    C02.holds (.spike "differential" (some 1) (some 2) [none, some 1, some 2, some 2, none, some 1])
      ((TestCall.spike "differential" (some 1) (some 2)
        [none, some 1, some 2, some 2, none, some 1]).run (fun _ t => t)).toObs = true := by
  decide +kernel

/-- The predicate is not trivially true: flagging a missing interior point GOOD violates it. -/
example : C02.holds (.gross ⟨true, [0, 4]⟩ none [some 1, none, some 5]) (.flags [1, 1, 4]) = false ∧
    C02.holds (.gross ⟨true, [0, 4]⟩ none [some 1, none, some 5]) (.flags [1, 9, 4]) = true ∧
    ((TestCall.gross ⟨true, [0, 4]⟩ none [some 1, none, some 5]).run (fun _ t => t)).toObs
      = .flags [1, 9, 4] := by
  decide +kernel

end IoosQc
