/-
  C03 — range tests flag by inclusive interval membership, fail before suspect.
  `gross_range_test` / `axds.valid_range_test`: the code-shaped models satisfy the property
  sentence for every series (any length), every span pair (any order, degenerate, touching),
  every inclusivity setting.
-/
import IoosQc.Lemmas.Basic
set_option linter.unusedSimpArgs false
set_option linter.unusedVariables false

namespace IoosQc

theorem sort2_eq (a b : Rat) : sort2 a b = (lo2 a b, hi2 a b) := by
  unfold sort2 lo2 hi2; split <;> rfl

theorem grossAt_spec (fa fb : Rat) (s : Option (Rat × Rat)) (x : V) :
    grossAt (sort2 fa fb) (s.map fun p => sort2 p.1 p.2) x ∈ grossSpecAt fa fb s x := by
  unfold grossAt grossSpecAt overrides outside sort2 lo2 hi2 vlt vgt
  cases x with
  | none => cases s <;> simp
  | some v =>
    cases s with
    | none => simp; split <;> split <;> simp_all <;> grind
    | some p =>
      obtain ⟨sa, sb⟩ := p
      simp
      split <;> split <;> simp_all <;> grind

/-- C03 (gross range): the model's output conforms to the property sentence, for all inputs:
    every series, spans in either order, degenerate or touching, suspect ⊄ fail ⇒ ValueError,
    malformed spans rejected. -/
theorem C03_gross (fail : SeqArg) (suspect : Option SeqArg) (inp : List V) :
    conforms (grossSpec fail suspect inp) (grossRange fail suspect inp).toObs = true := by
  unfold grossSpec grossRange fixedLength
  cases hseq : fail.isSeq <;> simp [hseq, conforms, Res.toObs, bind, Except.bind, pure, Except.pure]
  match hv : fail.vals with
  | [] => simp [hv, conforms, Res.toObs]
  | [_] => simp [hv, conforms, Res.toObs]
  | _ :: _ :: _ :: _ => simp [hv, conforms, Res.toObs]
  | [fa, fb] =>
    simp [hv]
    cases suspect with
    | none =>
      simp
      have := conforms_flags_map inp (grossSpecAt fa fb none) (grossAt (sort2 fa fb) none)
        (fun x _ => by simpa using grossAt_spec fa fb none x)
      simpa [conforms, Res.toObs] using this
    | some s =>
      simp
      cases hs : s.isSeq <;> simp [hs, conforms, Res.toObs]
      match hsv : s.vals with
      | [] => simp [hsv, conforms, Res.toObs]
      | [_] => simp [hsv, conforms, Res.toObs]
      | _ :: _ :: _ :: _ => simp [hsv, conforms, Res.toObs]
      | [sa, sb] =>
        simp [hsv, sort2_eq]
        by_cases hc : lo2 sa sb < lo2 fa fb ∨ hi2 fa fb < hi2 sa sb
        · simp [hc, conforms, Res.toObs, throw, throwThe, MonadExceptOf.throw]
        · simp [hc, conforms, Res.toObs]
          have := conforms_flags_map inp (grossSpecAt fa fb (some (sa, sb)))
            (grossAt (sort2 fa fb) (some (sort2 sa sb)))
            (fun x _ => by simpa using grossAt_spec fa fb (some (sa, sb)) x)
          simpa [conforms, Res.toObs, sort2_eq] using this

theorem validAt_spec (lo hi : V) (si ei : Bool) (x : V) :
    validAt lo hi si ei x ∈ validSpecAt lo hi si ei x := by
  unfold validAt validSpecAt overrides vlt vgt vle vge
  cases x <;> cases lo <;> cases hi <;> cases si <;> cases ei <;> simp <;> grind

/-- C03 (valid range): FAIL exactly outside the span under the four inclusivity settings,
    absent bound = unbounded, for every series. -/
theorem C03_valid (lo hi : V) (si ei : Bool) (inp : List V) :
    conforms (.flags (inp.map (validSpecAt lo hi si ei))) (validRange lo hi si ei inp).toObs = true := by
  unfold validRange
  exact conforms_flags_map inp _ _ (fun x _ => validAt_spec lo hi si ei x)

/-! Consequences spelled out (each is a direct reading of the property text). -/

/-- Both end points of the fail span are acceptable: never FAIL. -/
theorem C03_gross_endpoints_not_fail (fa fb : Rat) (s : Option (Rat × Rat)) :
    grossAt (sort2 fa fb) s (some fa) ≠ .fail ∧ grossAt (sort2 fa fb) s (some fb) ≠ .fail := by
  unfold grossAt overrides outside sort2 vlt vgt
  cases s <;> simp <;> grind

/-- The two numbers of a span may be given in either order. -/
theorem C03_gross_order (fa fb : Rat) (s : Option (Rat × Rat)) (x : V) :
    grossAt (sort2 fa fb) s x = grossAt (sort2 fb fa) s x := by
  have : sort2 fa fb = sort2 fb fa := by unfold sort2; grind
  rw [this]

/-- Non-vacuity: a concrete call exercising SUSPECT, FAIL, GOOD and MISSING. -/
example : (grossRange ⟨true, [4, 0]⟩ (some ⟨true, [1, 3]⟩)
    [some (-1), some 0, some (1/2), some 2, none, some 5]).toObs = .flags [4, 3, 3, 1, 9, 4] := by
  decide +kernel

end IoosQc
