/-
  IoosQc.Theorems.NpSrc10 — the call-extraction loops of `ContextConfig.__init__`: the source-shaped
  transcription equals `contextCalls`.

    C07_src_context    NpSrc.ContextConfig_calls knownMod known c (window of c) (region of c) = contextCalls knownMod known c
-/
import IoosQc.Model.NpConfig
set_option linter.unusedSimpArgs false
set_option linter.unusedVariables false

namespace IoosQc.NpSrc

theorem forIn_id_eq_foldl'' {α β : Type} (l : List α) (init : β) (f : α → β → Id (ForInStep β)) (g : α → β → β)
    (h : ∀ a b, f a b = pure (ForInStep.yield (g a b))) : forIn l init f = pure (l.foldl (fun b a => g a b) init) := by
  induction l generalizing init with
  | nil => simp
  | cons a l ih => simp [List.forIn_cons, h, ih]

/-- what one test entry adds -/
def testStep (known : String → String → Bool) (sid pkg : String) (window region : J) (calls : List CallSpec) (e : String × J) : List CallSpec :=
  if !(known pkg e.1) then calls else calls ++ [⟨sid, pkg, e.1, orEmpty e.2, window, region⟩]

def pkgStep (knownMod : String → Bool) (known : String → String → Bool) (sid : String) (window region : J)
    (calls : List CallSpec) (e : String × J) : List CallSpec :=
  if !(knownMod e.1) then calls else e.2.items.foldl (testStep known sid e.1 window region) calls

def streamStep (knownMod : String → Bool) (known : String → String → Bool) (window region : J)
    (calls : List CallSpec) (e : String × J) : List CallSpec :=
  e.2.items.foldl (pkgStep knownMod known e.1 window region) calls

theorem calls_eq_foldl (knownMod : String → Bool) (known : String → String → Bool) (config window region : J) :
    ContextConfig_calls knownMod known config window region
      = (streamsOf config).foldl (streamStep knownMod known window region) [] := by
  unfold ContextConfig_calls
  simp only [Id.run]
  rw [forIn_id_eq_foldl'' _ _ _ (fun e calls => streamStep knownMod known window region calls e)]
  · rfl
  · rintro ⟨sid, sc⟩ calls
    simp only [streamStep]
    rw [forIn_id_eq_foldl'' _ _ _ (fun e calls => pkgStep knownMod known sid window region calls e)]
    · rfl
    · rintro ⟨pkg, mods⟩ calls'
      simp only [pkgStep]
      by_cases hk : knownMod pkg = true
      · simp only [hk, Bool.not_true, Bool.false_eq_true, if_false]
        rw [forIn_id_eq_foldl'' _ _ _ (fun e calls => testStep known sid pkg window region calls e)]
        · rfl
        · rintro ⟨tn, kw⟩ calls''
          simp only [testStep]
          by_cases ht : known pkg tn = true <;> simp [ht]
      · simp [hk]

/-! ### folds that only append -/

theorem test_fold (known : String → String → Bool) (sid pkg : String) (window region : J) (es : List (String × J)) (calls : List CallSpec) :
    es.foldl (testStep known sid pkg window region) calls
      = calls ++ es.filterMap fun (e : String × J) =>
          if known pkg e.1 then some ⟨sid, pkg, e.1, orEmpty e.2, window, region⟩ else none := by
  induction es generalizing calls with
  | nil => simp
  | cons e es ih =>
    simp only [List.foldl_cons, ih, testStep, List.filterMap_cons]
    by_cases h : known pkg e.1 = true <;> simp [h]

theorem pkg_fold (knownMod : String → Bool) (known : String → String → Bool) (sid : String) (window region : J)
    (es : List (String × J)) (calls : List CallSpec) :
    es.foldl (pkgStep knownMod known sid window region) calls
      = calls ++ es.flatMap fun (e : String × J) =>
          if !knownMod e.1 then [] else e.2.items.filterMap fun (t : String × J) =>
            if known e.1 t.1 then some ⟨sid, e.1, t.1, orEmpty t.2, window, region⟩ else none := by
  induction es generalizing calls with
  | nil => simp
  | cons e es ih =>
    simp only [List.foldl_cons, ih, pkgStep, List.flatMap_cons]
    by_cases h : knownMod e.1 = true
    · simp [h, test_fold, List.append_assoc]
    · simp [h]

theorem stream_fold (knownMod : String → Bool) (known : String → String → Bool) (window region : J)
    (es : List (String × J)) (calls : List CallSpec) :
    es.foldl (streamStep knownMod known window region) calls
      = calls ++ es.flatMap fun (e : String × J) =>
          e.2.items.flatMap fun (p : String × J) =>
            if !knownMod p.1 then [] else p.2.items.filterMap fun (t : String × J) =>
              if known p.1 t.1 then some ⟨e.1, p.1, t.1, orEmpty t.2, window, region⟩ else none := by
  induction es generalizing calls with
  | nil => simp
  | cons e es ih =>
    simp only [List.foldl_cons, ih, streamStep, List.flatMap_cons, pkg_fold, List.append_assoc]

/-- The translator's call-extraction loops are the model of C07 (`contextCalls`), for the window and region `ContextConfig` parsed. -/
theorem C07_src_context (knownMod : String → Bool) (known : String → String → Bool) (c : J) :
    ContextConfig_calls knownMod known c ((c.get? "window").getD .null) (regionOf c) = contextCalls knownMod known c := by
  rw [calls_eq_foldl, stream_fold]
  simp only [List.nil_append, contextCalls, streamsOf]

end IoosQc.NpSrc
