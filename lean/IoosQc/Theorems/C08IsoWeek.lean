/-
  IoosQc.Theorems.C08IsoWeek — `isoWeek` (IoosQc.Model.Calendar) computes the ISO-8601 week number.

  ISO 8601: weeks run Monday–Sunday; a week belongs to the year that contains its Thursday; the
  week number of a day is 1 + (number of whole weeks between the Thursday of its week and
  1 January of that Thursday's year).  `isoWeekSpec` states exactly that; `C08_cal_isoWeek_spec`
  proves `isoWeek z = isoWeekSpec z` for ALL integers `z` (no bounded enumeration).
  Core tactics only; default heartbeat limit everywhere.
-/
import IoosQc.Theorems.C08Calendar

set_option linter.unusedSimpArgs false
set_option linter.unusedVariables false

namespace IoosQc

/-- The Thursday of the Monday–Sunday week containing day `z`. -/
def isoThursday (z : Int) : Int := z - weekdayOfDays z + 3

/-- ISO week number, by the definition of the standard. -/
def isoWeekSpec (z : Int) : Int :=
  let th := isoThursday z
  let y := (civilFromDays th).1
  (th - daysFromCivil y 1 1) / 7 + 1

theorem C08_cal_aux_isoWeekSpec_eq (z : Int) :
    isoWeekSpec z =
      (isoThursday z - daysFromCivil (civilFromDays (isoThursday z)).1 1 1) / 7 + 1 := by rfl

/-! ## Year of a day number from its bracket -/

/-- 1 January is monotone in the year (ALL integers) -/
theorem C08_cal_aux_jan1_mono (a b : Int) (h : a ≤ b) :
    daysFromCivil a 1 1 ≤ daysFromCivil b 1 1 := by
  rw [C08_cal_aux_jan1, C08_cal_aux_jan1]; omega

/-- a day number between 1 January of `y` and 1 January of `y + 1` has civil year `y`
    (ALL integers) -/
theorem C08_cal_year_of_bracket (d y : Int) (h1 : daysFromCivil y 1 1 ≤ d)
    (h2 : d < daysFromCivil (y + 1) 1 1) : (civilFromDays d).1 = y := by
  have hb := C08_cal_year_bracket d
  generalize (civilFromDays d).1 = y' at *
  by_cases hlt : y' < y
  · have := C08_cal_aux_jan1_mono (y' + 1) y (by omega); omega
  · by_cases hgt : y < y'
    · have := C08_cal_aux_jan1_mono (y + 1) y' (by omega); omega
    · omega

/-! ## Number of ISO weeks of a year, in arithmetic form -/

/-- `isoWeeksInYear` in terms of the day numbers of 1 January of `y` and of `y + 1` -/
theorem C08_cal_aux_weeks_arith (y : Int) :
    isoWeeksInYear y =
      if (daysFromCivil y 1 1 + 3) % 7 = 3 ∨
          (daysFromCivil (y + 1) 1 1 - daysFromCivil y 1 1 = 366 ∧
            (daysFromCivil y 1 1 + 3) % 7 = 2) then 53 else 52 := by
  have hl := C08_cal_year_length y
  unfold isoWeeksInYear weekdayOfDays
  simp only [Bool.or_eq_true, Bool.and_eq_true, beq_iff_eq]
  generalize isLeap y = b at *
  cases b <;> simp only [if_true, if_false, Bool.false_eq_true, false_and, true_and, or_false] at hl ⊢
  · split <;> split <;> omega
  · split <;> split <;> omega

/-- year length is 365 or 366 -/
theorem C08_cal_aux_year_len_values (y : Int) :
    daysFromCivil (y + 1) 1 1 - daysFromCivil y 1 1 = 365 ∨
      daysFromCivil (y + 1) 1 1 - daysFromCivil y 1 1 = 366 := by
  have hl := C08_cal_year_length y
  generalize isLeap y = b at *
  cases b <;> simp only [if_true, if_false, Bool.false_eq_true] at hl <;> omega

/-! ## The three cases, as pure integer arithmetic

`J` = 1 January of the civil year of `z`, `L` = length of that year, `Lp` = length of the previous
year, `W`/`Wp` = `isoWeeksInYear` of the year / of the previous year (in arithmetic form). -/

/-- case (a): the Thursday lies in the civil year of `z` -/
theorem C08_cal_aux_iso_case_inner (z J L W Wp : Int) (hJ : J ≤ z) (hz : z < J + L)
    (hL : L = 365 ∨ L = 366)
    (hW : W = if (J + 3) % 7 = 3 ∨ (L = 366 ∧ (J + 3) % 7 = 2) then 53 else 52)
    (h1 : J ≤ z - (z + 3) % 7 + 3) (h2 : z - (z + 3) % 7 + 3 < J + L) :
    (if (z - J + 1 - ((z + 3) % 7 + 1) + 10) / 7 < 1 then Wp
      else if (z - J + 1 - ((z + 3) % 7 + 1) + 10) / 7 > W then 1
      else (z - J + 1 - ((z + 3) % 7 + 1) + 10) / 7) =
      (z - (z + 3) % 7 + 3 - J) / 7 + 1 := by
  subst hW
  split
  · omega
  · split <;> split <;> omega

/-- case (b): the Thursday lies in the previous civil year -/
theorem C08_cal_aux_iso_case_prev (z J Lp W Wp : Int) (hJ : J ≤ z)
    (hLp : Lp = 365 ∨ Lp = 366)
    (hWp : Wp = if (J - Lp + 3) % 7 = 3 ∨ (Lp = 366 ∧ (J - Lp + 3) % 7 = 2) then 53 else 52)
    (h1 : z - (z + 3) % 7 + 3 < J) :
    (if (z - J + 1 - ((z + 3) % 7 + 1) + 10) / 7 < 1 then Wp
      else if (z - J + 1 - ((z + 3) % 7 + 1) + 10) / 7 > W then 1
      else (z - J + 1 - ((z + 3) % 7 + 1) + 10) / 7) =
      (z - (z + 3) % 7 + 3 - (J - Lp)) / 7 + 1 := by
  subst hWp
  split
  · split <;> omega
  · omega

/-- case (c): the Thursday lies in the next civil year -/
theorem C08_cal_aux_iso_case_next (z J L W Wp : Int) (hJ : J ≤ z) (hz : z < J + L)
    (hL : L = 365 ∨ L = 366)
    (hW : W = if (J + 3) % 7 = 3 ∨ (L = 366 ∧ (J + 3) % 7 = 2) then 53 else 52)
    (h1 : J + L ≤ z - (z + 3) % 7 + 3) :
    (if (z - J + 1 - ((z + 3) % 7 + 1) + 10) / 7 < 1 then Wp
      else if (z - J + 1 - ((z + 3) % 7 + 1) + 10) / 7 > W then 1
      else (z - J + 1 - ((z + 3) % 7 + 1) + 10) / 7) =
      (z - (z + 3) % 7 + 3 - (J + L)) / 7 + 1 := by
  subst hW
  split
  · omega
  · split <;> split <;> omega

/-! ## Main theorem -/

/-- `isoWeek` is the ISO-8601 week number (ALL integers) -/
theorem C08_cal_isoWeek_spec (z : Int) : isoWeek z = isoWeekSpec z := by
  have hb := C08_cal_year_bracket z
  have hW := C08_cal_aux_weeks_arith (civilFromDays z).1
  have hWp := C08_cal_aux_weeks_arith ((civilFromDays z).1 - 1)
  have hL := C08_cal_aux_year_len_values (civilFromDays z).1
  have hLp := C08_cal_aux_year_len_values ((civilFromDays z).1 - 1)
  have hLn := C08_cal_aux_year_len_values ((civilFromDays z).1 + 1)
  rw [C08_cal_aux_isoWeek_eq, C08_cal_aux_isoWeekSpec_eq]
  unfold isoThursday weekdayOfDays
  generalize (civilFromDays z).1 = y at *
  have e1 : y - 1 + 1 = y := by omega
  rw [e1] at hWp hLp
  by_cases c1 : z - (z + 3) % 7 + 3 < daysFromCivil y 1 1
  · have hy : (civilFromDays (z - (z + 3) % 7 + 3)).1 = y - 1 :=
      C08_cal_year_of_bracket _ _ (by omega) (by rw [e1]; omega)
    rw [hy]
    have := C08_cal_aux_iso_case_prev z (daysFromCivil y 1 1)
      (daysFromCivil y 1 1 - daysFromCivil (y - 1) 1 1) (isoWeeksInYear y)
      (isoWeeksInYear (y - 1)) hb.1 hLp
      (by rw [hWp]; simp only [show daysFromCivil y 1 1 - (daysFromCivil y 1 1 - daysFromCivil (y - 1) 1 1) = daysFromCivil (y - 1) 1 1 from by omega]) c1
    rw [this]
    simp only [show daysFromCivil y 1 1 - (daysFromCivil y 1 1 - daysFromCivil (y - 1) 1 1) = daysFromCivil (y - 1) 1 1 from by omega]
  · by_cases c2 : z - (z + 3) % 7 + 3 < daysFromCivil (y + 1) 1 1
    · have hy : (civilFromDays (z - (z + 3) % 7 + 3)).1 = y :=
        C08_cal_year_of_bracket _ _ (by omega) c2
      rw [hy]
      exact C08_cal_aux_iso_case_inner z (daysFromCivil y 1 1)
        (daysFromCivil (y + 1) 1 1 - daysFromCivil y 1 1) (isoWeeksInYear y)
        (isoWeeksInYear (y - 1)) hb.1 (by omega) hL hW (by omega) (by omega)
    · have hy : (civilFromDays (z - (z + 3) % 7 + 3)).1 = y + 1 :=
        C08_cal_year_of_bracket _ _ (by omega) (by omega)
      rw [hy]
      have := C08_cal_aux_iso_case_next z (daysFromCivil y 1 1)
        (daysFromCivil (y + 1) 1 1 - daysFromCivil y 1 1) (isoWeeksInYear y)
        (isoWeeksInYear (y - 1)) hb.1 (by omega) hL hW (by omega)
      rw [this]
      simp only [show daysFromCivil y 1 1 + (daysFromCivil (y + 1) 1 1 - daysFromCivil y 1 1) = daysFromCivil (y + 1) 1 1 from by omega]

/-! ## Corollaries -/

/-- the Thursday of a week is a Thursday, and lies in the same Monday–Sunday week -/
theorem C08_cal_isoThursday_weekday (z : Int) :
    weekdayOfDays (isoThursday z) = 3 ∧
      isoThursday z - weekdayOfDays (isoThursday z) = z - weekdayOfDays z := by
  unfold isoThursday weekdayOfDays; omega

/-- the Thursday is at most three days away -/
theorem C08_cal_isoThursday_near (z : Int) : z - 3 ≤ isoThursday z ∧ isoThursday z ≤ z + 3 := by
  unfold isoThursday weekdayOfDays; omega

/-- two days of the same Monday–Sunday week have the same ISO week number (ALL integers) -/
theorem C08_cal_isoWeek_same_week (z z' : Int)
    (h : z - weekdayOfDays z = z' - weekdayOfDays z') : isoWeek z = isoWeek z' := by
  rw [C08_cal_isoWeek_spec, C08_cal_isoWeek_spec, C08_cal_aux_isoWeekSpec_eq,
    C08_cal_aux_isoWeekSpec_eq]
  have : isoThursday z = isoThursday z' := by unfold isoThursday; omega
  rw [this]

/-- the ISO week number of a day is the ISO week number of the Thursday of its week -/
theorem C08_cal_isoWeek_thursday (z : Int) : isoWeek (isoThursday z) = isoWeek z :=
  C08_cal_isoWeek_same_week _ _ (C08_cal_isoThursday_weekday z).2

/-- seven days later the week number is one more, unless the Thursday has moved into the next
    civil year, in which case it is 1 (ALL integers) -/
theorem C08_cal_isoWeek_next_week (z : Int) :
    isoWeek (z + 7) =
      if (civilFromDays (isoThursday (z + 7))).1 = (civilFromDays (isoThursday z)).1
        then isoWeek z + 1 else 1 := by
  rw [C08_cal_isoWeek_spec, C08_cal_isoWeek_spec, C08_cal_aux_isoWeekSpec_eq,
    C08_cal_aux_isoWeekSpec_eq]
  have hth : isoThursday (z + 7) = isoThursday z + 7 := by
    unfold isoThursday weekdayOfDays; omega
  rw [hth]
  generalize isoThursday z = th
  have hb := C08_cal_year_bracket th
  have hLn := C08_cal_aux_year_len_values ((civilFromDays th).1 + 1)
  generalize (civilFromDays th).1 = y at *
  by_cases c : th + 7 < daysFromCivil (y + 1) 1 1
  · have hy : (civilFromDays (th + 7)).1 = y := C08_cal_year_of_bracket _ _ (by omega) c
    rw [hy, if_pos rfl]; omega
  · have hy : (civilFromDays (th + 7)).1 = y + 1 :=
      C08_cal_year_of_bracket _ _ (by omega) (by omega)
    rw [hy, if_neg (by omega)]; omega

/-- the year changes with the next week's Thursday only by one -/
theorem C08_cal_isoWeek_next_week_year (z : Int) :
    (civilFromDays (isoThursday (z + 7))).1 = (civilFromDays (isoThursday z)).1 ∨
      (civilFromDays (isoThursday (z + 7))).1 = (civilFromDays (isoThursday z)).1 + 1 := by
  have hth : isoThursday (z + 7) = isoThursday z + 7 := by
    unfold isoThursday weekdayOfDays; omega
  rw [hth]
  generalize isoThursday z = th
  have hb := C08_cal_year_bracket th
  have hLn := C08_cal_aux_year_len_values ((civilFromDays th).1 + 1)
  generalize (civilFromDays th).1 = y at *
  by_cases c : th + 7 < daysFromCivil (y + 1) 1 1
  · exact Or.inl (C08_cal_year_of_bracket _ _ (by omega) c)
  · exact Or.inr (C08_cal_year_of_bracket _ _ (by omega) (by omega))

theorem C08_cal_aux_jan_d (y d : Int) : daysFromCivil y 1 d = daysFromCivil y 1 1 + (d - 1) := by
  unfold daysFromCivil
  simp only [show ((1 : Int) ≤ 2) = True from by decide, show ((1 : Int) > 2) = False from by decide,
    if_true, if_false, ite_true, ite_false]
  omega

/-- 4 January of every year is in ISO week 1 (ALL integers) -/
theorem C08_cal_week1_contains_jan4 (y : Int) : isoWeek (daysFromCivil y 1 4) = 1 := by
  rw [C08_cal_isoWeek_spec, C08_cal_aux_isoWeekSpec_eq, C08_cal_aux_jan_d y 4]
  have hL := C08_cal_aux_year_len_values y
  have hn := C08_cal_isoThursday_near (daysFromCivil y 1 1 + (4 - 1))
  have hw := C08_cal_weekday_range (daysFromCivil y 1 1 + (4 - 1))
  have hdef : isoThursday (daysFromCivil y 1 1 + (4 - 1)) =
      daysFromCivil y 1 1 + (4 - 1) - weekdayOfDays (daysFromCivil y 1 1 + (4 - 1)) + 3 := rfl
  generalize isoThursday (daysFromCivil y 1 1 + (4 - 1)) = th at *
  have hy : (civilFromDays th).1 = y := C08_cal_year_of_bracket _ _ (by omega) (by omega)
  rw [hy]; omega

/-- week 1 is the week whose Thursday is among the first seven days of the Thursday's civil year,
    i.e. the week of the first Thursday (ALL integers) -/
theorem C08_cal_isoWeek_one_iff (z : Int) :
    isoWeek z = 1 ↔
      isoThursday z < daysFromCivil (civilFromDays (isoThursday z)).1 1 1 + 7 := by
  rw [C08_cal_isoWeek_spec, C08_cal_aux_isoWeekSpec_eq]
  have hb := C08_cal_year_bracket (isoThursday z)
  omega

/-! ## Single dates by kernel evaluation -/

-- 2018-12-31 (Monday): its Thursday is 2019-01-03, week 1 of 2019
example : isoWeekSpec 17896 = 1 := by decide +kernel
-- 2021-01-01 (Friday): its Thursday is 2020-12-31, week 53 of 2020
example : isoWeekSpec 18628 = 53 := by decide +kernel
-- 2016-01-03 (Sunday): its Thursday is 2015-12-31, week 53 of 2015
example : isoWeekSpec 16803 = 53 := by decide +kernel
-- 2020-12-31 (Thursday), week 53 of 2020
example : isoWeekSpec 18627 = 53 := by decide +kernel
example : isoWeekSpec (daysFromCivil 2018 12 31) = 1 ∧ isoWeekSpec (daysFromCivil 2021 1 1) = 53 ∧
    isoWeekSpec (daysFromCivil 2016 1 3) = 53 ∧ isoWeekSpec (daysFromCivil 2020 12 31) = 53 := by
  decide +kernel
example : isoThursday 17896 = 17899 ∧ civilFromDays 17899 = (2019, 1, 3) := by decide +kernel

end IoosQc
