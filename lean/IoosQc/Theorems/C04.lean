/-
  C04 — aggregation reports, per point, the worst flag any test produced.
  All statements are for columns / vector lists of any size.
-/
import IoosQc.Props.C04
import IoosQc.Lemmas.Basic
set_option linter.unusedSimpArgs false
set_option linter.unusedVariables false

namespace IoosQc

theorem passFor_eq (p acc : Flag) (col : List Cell) :
    passFor p acc col = if Cell.flag p ∈ col then p else acc := by
  unfold passFor
  induction col generalizing acc with
  | nil => simp
  | cons c cs ih =>
    simp only [List.foldl_cons, ih, List.mem_cons]
    by_cases h : c = Cell.flag p
    · simp [h]
    · have : ¬ (Cell.flag p = c) := fun e => h e.symm
      simp [h, this]

theorem compareAt_ite (col : List Cell) :
    compareAt col =
      if Cell.flag .fail ∈ col then .fail
      else if Cell.flag .suspect ∈ col then .suspect
      else if Cell.flag .good ∈ col then .good
      else if Cell.flag .unknown ∈ col then .unknown
      else .missing := by
  simp only [compareAt, priorities, List.foldl_cons, List.foldl_nil, passFor_eq]
  split <;> simp_all

theorem Flag.rank_inj {f g : Flag} (h : f.rank = g.rank) : f = g := by
  cases f <;> cases g <;> simp [Flag.rank] at h <;> rfl

private theorem worstFold_ge (fs : List Flag) (a : Flag) :
    a.rank ≤ (fs.foldl (fun a f => if a.rank < f.rank then f else a) a).rank ∧
    ∀ f ∈ fs, f.rank ≤ (fs.foldl (fun a f => if a.rank < f.rank then f else a) a).rank := by
  induction fs generalizing a with
  | nil => simp
  | cons g gs ih =>
    simp only [List.foldl_cons, List.mem_cons]
    have h := ih (if a.rank < g.rank then g else a)
    by_cases hlt : a.rank < g.rank
    · simp only [hlt, if_true] at h ⊢
      refine ⟨by omega, ?_⟩
      intro f hf
      rcases hf with rfl | hf
      · exact h.1
      · exact h.2 f hf
    · simp only [hlt, if_false] at h ⊢
      refine ⟨h.1, ?_⟩
      intro f hf
      rcases hf with rfl | hf
      · omega
      · exact h.2 f hf

private theorem worstFold_mem (fs : List Flag) (a : Flag) :
    (fs.foldl (fun a f => if a.rank < f.rank then f else a) a) = a ∨
    (fs.foldl (fun a f => if a.rank < f.rank then f else a) a) ∈ fs := by
  induction fs generalizing a with
  | nil => simp
  | cons g gs ih =>
    simp only [List.foldl_cons, List.mem_cons]
    rcases ih (if a.rank < g.rank then g else a) with h | h
    · rw [h]; split <;> simp
    · exact Or.inr (Or.inr h)

theorem mem_filterMap_flag (col : List Cell) (f : Flag) :
    f ∈ col.filterMap Cell.flag? ↔ Cell.flag f ∈ col := by
  simp only [List.mem_filterMap]
  constructor
  · rintro ⟨c, hc, h⟩
    cases c <;> simp [Cell.flag?] at h
    subst h; exact hc
  · intro h; exact ⟨_, h, rfl⟩

/-- The roll-up is never better than any evaluated input flag. -/
theorem C04_worst_ge (col : List Cell) (f : Flag) (h : Cell.flag f ∈ col) :
    f.rank ≤ (worstOf col).rank :=
  (worstFold_ge _ _).2 f ((mem_filterMap_flag col f).2 h)

/-- The roll-up is one of the input flags, or MISSING when nothing remains. -/
theorem C04_worst_mem (col : List Cell) :
    worstOf col = .missing ∨ Cell.flag (worstOf col) ∈ col := by
  rcases worstFold_mem (col.filterMap Cell.flag?) .missing with h | h
  · exact Or.inl h
  · exact Or.inr ((mem_filterMap_flag col _).1 h)

/-- Code-shaped loop = maximum by precedence, for every column. -/
theorem C04_compareAt (col : List Cell) : compareAt col = worstOf col := by
  rw [compareAt_ite]
  have hge := C04_worst_ge col
  have hmem := C04_worst_mem col
  apply Flag.rank_inj
  split
  · next h => have := hge _ h; revert this; cases worstOf col <;> simp [Flag.rank]
  · split
    · next h1 h =>
      have := hge _ h
      rcases hmem with hm | hm
      · rw [hm] at this; simp [Flag.rank] at this
      · revert this hm h1; cases worstOf col <;> simp_all [Flag.rank]
    · split
      · next h1 h2 h =>
        have := hge _ h
        rcases hmem with hm | hm
        · rw [hm] at this; simp [Flag.rank] at this
        · revert this hm h1 h2; cases worstOf col <;> simp_all [Flag.rank]
      · split
        · next h1 h2 h3 h =>
          have := hge _ h
          rcases hmem with hm | hm
          · rw [hm] at this; simp [Flag.rank] at this
          · revert this hm h1 h2 h3; cases worstOf col <;> simp_all [Flag.rank]
        · next h1 h2 h3 h4 =>
          rcases hmem with hm | hm
          · rw [hm]
          · revert hm h1 h2 h3 h4; cases worstOf col <;> simp_all [Flag.rank]

/-- C04 main: `qartod_compare` conforms to the property for any number of vectors of any length
    over flags / masked / non-flag values. -/
theorem C04_main (vs : List (List Cell)) :
    C04.holds vs (qartodCompare vs).toObs = true := by
  unfold C04.holds C04.spec qartodCompare
  cases vs with
  | nil => simp [conforms, Res.toObs, throw, throwThe, MonadExceptOf.throw]
  | cons v rest =>
    simp only []
    split
    · exact conforms_flags_range _ _ _ (fun i _ => by simp [C04_compareAt])
    · simp [conforms, Res.toObs, throw, throwThe, MonadExceptOf.throw]

/-- Two columns with the same *set* of flags aggregate to the same flag: order and multiplicity of
    the inputs are irrelevant. -/
theorem C04_set_ext (a b : List Cell) (h : ∀ f, Cell.flag f ∈ a ↔ Cell.flag f ∈ b) :
    compareAt a = compareAt b := by
  simp only [compareAt_ite, h]

theorem C04_perm (a b : List Cell) (h : a.Perm b) : compareAt a = compareAt b :=
  C04_set_ext a b (fun f => h.mem_iff)

theorem C04_dup (a : List Cell) (c : Cell) (h : c ∈ a) : compareAt (c :: a) = compareAt a :=
  C04_set_ext _ _ (fun f => by simp only [List.mem_cons]; constructor
                               · rintro (rfl | h') <;> assumption
                               · intro h'; exact Or.inr h')

/-- Grouping: aggregating a partial aggregate with the rest equals aggregating everything,
    provided the first group is non-degenerate in the sense that MISSING means "a MISSING flag or
    nothing": the partial aggregate re-enters as a flag cell. -/
theorem C04_assoc (a b : List Cell) :
    compareAt (Cell.flag (compareAt a) :: b) = compareAt (a ++ b) := by
  simp only [compareAt_ite (Cell.flag (compareAt a) :: b), compareAt_ite (a ++ b), List.mem_cons,
    List.mem_append, Cell.flag.injEq]
  rw [compareAt_ite a]
  by_cases h1 : Cell.flag Flag.fail ∈ a <;> by_cases h2 : Cell.flag Flag.suspect ∈ a <;>
  by_cases h3 : Cell.flag Flag.good ∈ a <;> by_cases h4 : Cell.flag Flag.unknown ∈ a <;>
  simp [h1, h2, h3, h4]

theorem C04_idem (a : List Cell) : compareAt [Cell.flag (compareAt a)] = compareAt a := by
  have := C04_assoc a []
  simpa using this

/-- Non-vacuity / table: masked and junk cells are ignored, MISSING where nothing remains. -/
example : compareAt [.flag .good, .masked, .junk 7, .flag .suspect, .flag .unknown] = .suspect := by decide
example : compareAt [.masked, .junk 0] = .missing := by decide
example : (qartodCompare [[.flag .good, .flag .missing, .junk 5], [.flag .fail, .masked, .masked]]).toObs
    = .flags [4, 9, 9] := by decide

end IoosQc
