/-
  C05 / C18 — `Call.run`: what a test function receives, for every configured and every passed
  keyword mapping and every signature; a call that raises contributes nothing and never raises.
-/
import IoosQc.Model.CallRun
set_option linter.unusedSimpArgs false
set_option linter.unusedVariables false

namespace IoosQc

private theorem lookup_map_merge (a b : KwArgs) (k : String) :
    (a.map (fun kv => (kv.1, (b.lookup kv.1).getD kv.2))).lookup k =
      (a.lookup k).map (fun v => (b.lookup k).getD v) := by
  induction a with
  | nil => simp
  | cons kv a ih =>
    obtain ⟨k', v'⟩ := kv
    by_cases h : k = k'
    · subst h; simp [List.lookup]
    · have h' : (k == k') = false := by simpa using h
      simp [List.lookup, h', ih]

private theorem lookup_filter_absent (a b : KwArgs) (k : String) :
    (b.filter (fun kv => (a.lookup kv.1).isNone)).lookup k =
      if (a.lookup k).isNone then b.lookup k else none := by
  induction b with
  | nil => simp
  | cons kv b ih =>
    obtain ⟨k', v'⟩ := kv
    rw [List.filter_cons]
    by_cases h : k = k'
    · subst h
      by_cases ha : (a.lookup k).isNone = true
      · rw [if_pos ha, if_pos ha]; simp [List.lookup_cons]
      · rw [if_neg ha, if_neg ha, ih, if_neg ha]
    · have h' : (k == k') = false := by simpa using h
      by_cases ha' : (a.lookup k').isNone = true
      · rw [if_pos ha']; simp only [List.lookup_cons, h']; exact ih
      · rw [if_neg ha']; simp only [List.lookup_cons, h']; exact ih

/-- A key of the merged dict carries the PASSED value when one was passed, else the configured one. -/
theorem C05_call_merge_lookup (a b : KwArgs) (k : String) :
    (dictMerge a b).lookup k = ((b.lookup k).orElse fun _ => a.lookup k) := by
  unfold dictMerge
  rw [List.lookup_append, lookup_map_merge, lookup_filter_absent]
  cases ha : a.lookup k <;> cases hb : b.lookup k <;> simp [ha, hb]

private theorem lookup_filter_sig (l : KwArgs) (sig : List String) (k : String) :
    (l.filter (fun kv => sig.contains kv.1)).lookup k = if sig.contains k then l.lookup k else none := by
  induction l with
  | nil => simp
  | cons kv l ih =>
    obtain ⟨k', v'⟩ := kv
    rw [List.filter_cons]
    by_cases h : k = k'
    · subst h
      by_cases hs : sig.contains k = true
      · rw [if_pos hs, if_pos hs]; simp [List.lookup_cons]
      · rw [if_neg hs, if_neg hs, ih, if_neg hs]
    · have h' : (k == k') = false := by simpa using h
      by_cases hs' : sig.contains k' = true
      · rw [if_pos hs']; simp only [List.lookup_cons, h']; exact ih
      · rw [if_neg hs']; simp only [List.lookup_cons, h']; exact ih

/-- What the test function receives for keyword `k`: nothing unless `k` is a parameter of the
    function; otherwise the stream's value if the stream passed one, else the configured one. -/
theorem C05_call_kwargs (configured passed : KwArgs) (sig : List String) (k : String) :
    (callKwargs configured passed sig).lookup k =
      if sig.contains k then ((passed.lookup k).orElse fun _ => configured.lookup k) else none := by
  unfold callKwargs
  rw [lookup_filter_sig, C05_call_merge_lookup]

/-- Every keyword handed over is a parameter of the function. -/
theorem C05_call_only_signature (configured passed : KwArgs) (sig : List String) :
    ∀ kv ∈ callKwargs configured passed sig, kv.1 ∈ sig := by
  intro kv h
  unfold callKwargs at h
  have := (List.mem_filter.mp h).2
  simpa using this

/-- A call never raises and yields at most one result; it yields none exactly when the function raised. -/
theorem C18_call_run {β} (f : KwArgs → Except Err β) (configured passed : KwArgs) (sig : List String) :
    (callRun f configured passed sig).length ≤ 1 ∧
    ((callRun f configured passed sig) = [] ↔ ∃ e, f (callKwargs configured passed sig) = .error e) := by
  unfold callRun
  cases h : f (callKwargs configured passed sig) with
  | ok r => simp
  | error e => simp

example : callKwargs [("tolerance", 1), ("zinp", 2), ("bogus", 3)] [("inp", 10), ("zinp", 11), ("lat", 12)] ["inp", "zinp", "tolerance"]
    = [("tolerance", 1), ("zinp", 11), ("inp", 10)] := by decide

end IoosQc
