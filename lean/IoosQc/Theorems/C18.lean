/-
  C18 — fault isolation.  Every statement is for any number of healthy and failing entries, every
  fault kind, at every position.
-/
import IoosQc.Props.C18
set_option linter.unusedSimpArgs false
set_option linter.unusedVariables false

namespace IoosQc

/-- The run with failing entries equals the run of the healthy entries alone. -/
theorem C18_isolation (es : List Entry) : runEntries es = runEntries (es.filter Entry.healthy) := by
  induction es with
  | nil => rfl
  | cons e es ih =>
    by_cases h : e.healthy = true
    · simp [runEntries, List.filter_cons, h] at ih ⊢
      exact ih
    · simp [runEntries, List.filter_cons, h] at ih ⊢
      exact ih

/-- Inserting a failing entry anywhere changes nothing. -/
theorem C18_insert_fault (a b : List Entry) (f : Entry) (hf : f.healthy = false) :
    runEntries (a ++ f :: b) = runEntries (a ++ b) := by
  simp [runEntries, List.filterMap_append, hf]

/-- Inserting any number of failing entries at any positions changes nothing: if `es'` is `es`
    with extra failing entries interleaved (i.e. the healthy sublists coincide), the runs agree. -/
theorem C18_insert_faults (es es' : List Entry) (h : es.filter Entry.healthy = es'.filter Entry.healthy) :
    runEntries es = runEntries es' := by
  rw [C18_isolation es, C18_isolation es', h]

/-- Every healthy entry yields exactly the result it yields when configured alone. -/
theorem C18_alone (es : List Entry) (e : Entry) (he : e ∈ es) (hh : e.healthy = true) :
    (e.key, e.result) ∈ runEntries es ∧ runEntries [e] = [(e.key, e.result)] := by
  constructor
  · simp only [runEntries, List.mem_filterMap]
    exact ⟨e, he, by simp [hh]⟩
  · simp [runEntries, hh]

/-- A failing entry contributes no result of its own. -/
theorem C18_fault_silent (f : Entry) (hf : f.healthy = false) : runEntries [f] = [] := by
  simp [runEntries, hf]

/-- The observation-level predicate holds of the model. -/
theorem C18_main (es : List Entry) : C18.holds es (runEntries es) = true := by
  simp [C18.holds, countOf]

example : runEntries [⟨"v1:qartod.spike_test", none, 7⟩, ⟨"v1:nosuch.x", some .unknownModule, 0⟩,
    ⟨"v2:qartod.gross_range_test", some .badParams, 0⟩, ⟨"v2:argo.speed_test", none, 9⟩]
    = [("v1:qartod.spike_test", 7), ("v2:argo.speed_test", 9)] := by decide

end IoosQc
