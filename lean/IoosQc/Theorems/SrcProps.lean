/-
  IoosQc.Theorems.SrcProps — the property theorems stated DIRECTLY about the programs
  `harness/translate.py` regenerates from /repo's source (`Model/NpSrc.lean`, `NpAgg.lean`,
  `NpStore.lean`): each follows from the refinement theorem `Cxx_src_*` (translated program =
  pointwise model) and the property theorem about the pointwise model.  On every run the source
  pin of the property re-derives the refinement for the definition generated from the CURRENT
  source, so these are statements about what the code says now.

  `conforms (spec …)` is the predicate the driver evaluates on the real function's output.
-/
import IoosQc.Theorems.NpSrc
import IoosQc.Theorems.NpSrc2
import IoosQc.Theorems.NpSrc3
import IoosQc.Theorems.NpSrc4
import IoosQc.Theorems.NpSrc5
import IoosQc.Theorems.NpSrc6
import IoosQc.Theorems.NpSrc7
import IoosQc.Theorems.C03
import IoosQc.Theorems.C04
import IoosQc.Theorems.C08
import IoosQc.Theorems.C09
import IoosQc.Theorems.C10
import IoosQc.Theorems.C11
import IoosQc.Theorems.C12
import IoosQc.Theorems.C13
import IoosQc.Theorems.C14
import IoosQc.Theorems.C19
import IoosQc.Theorems.C01
import IoosQc.Theorems.C02
import IoosQc.Theorems.C16
import IoosQc.Theorems.C17

namespace IoosQc.NpSrc
open IoosQc.Np

/-- C03 for the translated `gross_range_test`. -/
theorem C03_prog_gross (inp : List V) (f : SeqArg) (s : Option SeqArg) :
    conforms (grossSpec f s inp) (gross_range_test inp f s).toObs = true := by
  rw [C03_src_gross]; exact C03_gross f s inp

/-- C03 for the translated `valid_range_test`, whatever the caller's masked array holds under its mask. -/
theorem C03_prog_valid (inp : List V) (span : V × V) (si ei : Bool) (junk : List Fl) :
    conforms (.flags (inp.map (validSpecAt span.1 span.2 si ei))) (valid_range_test inp span si ei junk).toObs = true := by
  rw [C03_src_valid]; exact C03_valid span.1 span.2 si ei inp

/-- C04 for the translated `qartod_compare`. -/
theorem C04_prog_compare (vs : List (List IoosQc.Cell)) : C04.holds vs (qartod_compare vs).toObs = true := by
  rw [C04_src_compare]; exact C04_main vs

/-- C08 for the translated `climatology_test` (+ `ClimatologyConfig.check`). -/
theorem C08_prog_climatology (periodOf : Period → Int → Int) (ms : List Member) (inp : List V) (t : List Int) (z : List V)
    (h : (TestCall.climatology ms inp t z).inDom = true) :
    conforms ((TestCall.climatology ms inp t z).spec periodOf) (climatology_test periodOf ms inp t z).toObs = true := by
  have hl : t.length = inp.length ∧ z.length = inp.length := by
    simp only [TestCall.inDom, Bool.and_eq_true, beq_iff_eq] at h
    exact ⟨h.1.1.symm, h.1.2.symm⟩
  rw [C08_src_climatology periodOf ms inp t z hl.1 hl.2]
  exact C08_climatology periodOf ms inp t z h

/-- C09 for the translated `spike_test`. -/
theorem C09_prog_spike (inp : List V) (sus fail : Option Rat) (method : String) :
    conforms (spikeSpec method sus fail inp) (spike_test inp sus fail method).toObs = true := by
  rw [C09_src_spike]; exact C09_spike method sus fail inp

/-- C10 for the translated `rate_of_change_test` and `speed_test`. -/
theorem C10_prog_roc (inp : List V) (ts : List Int) (thr : Rat) (h : (TestCall.roc inp ts thr).inDom = true) :
    conforms (rocSpec inp ts thr) (rate_of_change_test inp ts thr).toObs = true := by
  rw [C10_src_roc]; exact C10_roc inp ts thr h

theorem C10_prog_speed (lon lat : List V) (ts : List Int) (sus fail : Rat) (hops : List V)
    (h : (TestCall.speed lon lat ts sus fail hops).inDom = true) :
    conforms (speedSpec lon lat ts sus fail hops) (speed_test lon lat ts sus fail hops).toObs = true := by
  rw [C10_src_speed]; exact C10_speed lon lat ts sus fail hops h

/-- C11 for the translated `flat_line_test`. -/
theorem C11_prog_flat (inp : List V) (ts : List Int) (sus fail tol : Rat) (h : (TestCall.flatLine inp ts sus fail tol).inDom = true) :
    conforms (flatSpec inp ts sus fail tol) (flat_line_test inp ts sus fail tol).toObs = true := by
  rw [C11_src_flat]; exact C11_flat inp ts sus fail tol h

/-- C12 for the translated `attenuated_signal_test`. -/
theorem C12_prog_atten (checkType : String) (inp : List V) (ts : List Int) (sus fail : Rat) (period : Option Rat)
    (minObs : Option Nat) (minPeriod : Option Rat) :
    conforms (attenSpec checkType inp ts sus fail period minObs minPeriod)
      (attenuated_signal_test inp ts sus fail period minObs minPeriod checkType).toObs = true := by
  rw [C12_src_atten]; exact C12_atten checkType inp ts sus fail period minObs minPeriod

/-- C13 for the translated `density_inversion_test` and `pressure_increasing_test`. -/
theorem C13_prog_density (rho z : List V) (sus fail : Option Rat) :
    conforms (densSpec rho z sus fail) (density_inversion_test rho z sus fail).toObs = true := by
  rw [C13_src_density]; exact C13_density rho z sus fail

theorem C13_prog_pressure (p : List V) :
    conforms (.flags ((List.range p.length).map (pressSpecAt p))) (pressure_increasing_test p).toObs = true := by
  rw [C13_src_pressure]; exact C13_pressure p

/-- C14 for the translated `location_test`. -/
theorem C14_prog_location (lon lat : List V) (bbox : SeqArg) (rm : Option Rat) (hops : List V)
    (h : (TestCall.location lon lat bbox rm hops).inDom = true) :
    conforms (locSpec lon lat bbox rm hops) (location_test lon lat bbox rm hops).toObs = true := by
  rw [C14_src_location]; exact C14_location lon lat bbox rm hops h

/-- C19 for the translated `PandasStore.save` (default axis names, no colliding column names). -/
theorem C19_prog_save (c : StoreCase) (h : noCollision c = true) :
    C19.holds c (save c.rs defaultAxes c.writeData c.writeAxes c.inc c.exc) = true := by
  rw [C19_src_save]; exact C19_main c h

/-! ## every call of a QC test, through the translated programs -/

/-- `TestCall.run` with every test replaced by the program translated from the source (`junk`: what a caller's masked array may
    hold under its mask, seen only by `valid_range_test`). -/
def runSrc (periodOf : Period → Int → Int) (junk : List Fl) : TestCall → Res
  | .gross f s inp => gross_range_test inp f s
  | .valid lo hi si ei inp => valid_range_test inp (lo, hi) si ei junk
  | .location lon lat b r h => location_test lon lat b r h
  | .climatology ms inp t z => climatology_test periodOf ms inp t z
  | .spike m s f inp => spike_test inp s f m
  | .roc inp t thr => rate_of_change_test inp t thr
  | .flatLine inp t s f tol => flat_line_test inp t s f tol
  | .attenuated ct inp t s f p mo mp => attenuated_signal_test inp t s f p mo mp ct
  | .density rho z s f => density_inversion_test rho z s f
  | .pressure p => pressure_increasing_test p
  | .speed lon lat t s f h => speed_test lon lat t s f h

/-- The translated programs compute the pointwise models, test by test, on the properties' domain. -/
theorem C01_prog_run (periodOf : Period → Int → Int) (junk : List Fl) (c : TestCall) (h : c.inDom = true) :
    runSrc periodOf junk c = c.run periodOf := by
  cases c with
  | gross f s inp => exact C03_src_gross inp f s
  | valid lo hi si ei inp => exact C03_src_valid inp (lo, hi) si ei junk
  | location lon lat b r hh => exact C14_src_location lon lat b r hh
  | climatology ms inp t z =>
    have hl : t.length = inp.length ∧ z.length = inp.length := by
      simp only [TestCall.inDom, Bool.and_eq_true, beq_iff_eq] at h
      exact ⟨h.1.1.symm, h.1.2.symm⟩
    exact C08_src_climatology periodOf ms inp t z hl.1 hl.2
  | spike m s f inp => exact C09_src_spike inp s f m
  | roc inp t thr => exact C10_src_roc inp t thr
  | flatLine inp t s f tol => exact C11_src_flat inp t s f tol
  | attenuated ct inp t s f p mo mp => exact C12_src_atten inp t s f p mo mp ct
  | density rho z s f => exact C13_src_density rho z s f
  | pressure p => exact C13_src_pressure p
  | speed lon lat t s f hh => exact C10_src_speed lon lat t s f hh

/-- C01 (one valid flag per element, no exception for valid parameters) for the translated programs. -/
theorem C01_prog_total (periodOf : Period → Int → Int) (junk : List Fl) (c : TestCall) (hd : c.inDom = true)
    (h : c.validParams periodOf = true) : C01.holds c (runSrc periodOf junk c).toObs = true := by
  rw [C01_prog_run periodOf junk c hd]; exact C01_total periodOf c h

/-- C02 (a missing observation is never reported as evaluated) for the translated programs. -/
theorem C02_prog_main (periodOf : Period → Int → Int) (junk : List Fl) (c : TestCall)
    (ha : C02.applies c = true) (hd : c.inDom = true) : C02.holds c (runSrc periodOf junk c).toObs = true := by
  rw [C01_prog_run periodOf junk c hd]; exact C02_main periodOf c ha hd

/-- C16 (stricter thresholds never produce a better flag) for the translated programs. -/
theorem C16_prog_main (periodOf : Period → Int → Int) (junk junk' : List Fl) (c c' : TestCall)
    (hs : stricter c c' = true) (hd : c.inDom = true) (hd' : c'.inDom = true) (hv : c.validParams periodOf = true) :
    C16.holds (runSrc periodOf junk c).toObs (runSrc periodOf junk' c').toObs = true := by
  rw [C01_prog_run periodOf junk c hd, C01_prog_run periodOf junk' c' hd']; exact C16_main periodOf c c' hs hd hd' hv

/-- C17 (offset / time-shift invariance, locality) for the translated programs. -/
theorem C17_prog_main (periodOf : Period → Int → Int) (junk junk' : List Fl) (t : Transform) (c c' : TestCall)
    (ht : applyT t c = some c') (hd : c.inDom = true) (hd' : c'.inDom = true) (hv : c.validParams periodOf = true) :
    C17.holds t c (runSrc periodOf junk c).toObs (runSrc periodOf junk' c').toObs = true := by
  rw [C01_prog_run periodOf junk c hd, C01_prog_run periodOf junk' c' hd']; exact C17_main periodOf t c c' ht hd hv

/-- Non-vacuity: concrete calls through the translated programs (kernel evaluation). -/
example : (runSrc (fun _ t => t) [] (.spike "average" (some 3) none [some 1, none, some 100, some 1])).toOption
    = some [.unknown, .missing, .missing, .unknown] := by decide +kernel
example : (runSrc (fun _ t => t) [.nan, .num 100] (.valid (some 0) (some 3) true false [some 1, none, some 5])).toOption
    = some [.good, .missing, .fail] := by decide +kernel
example : (runSrc (fun _ t => t) [] (.density [some 1, some 0, none, some 5] [some 0, some 1, some 2, some 3] (some 0) none)).toOption
    = some [.suspect, .suspect, .missing, .missing] := by decide +kernel

end IoosQc.NpSrc
