/-
  C13 — profile tests flag both points of an inverted pair, in either cast direction.
  `density_inversion_test` / `argo.pressure_increasing_test`: the code-shaped models
  (`densityTest`, `pressureTest`) satisfy the property sentence (`densSpec`, `pressSpecAt`) for
  every profile, every missing placement, every threshold pair (one or both absent), and a
  profile and its reverse (upcast vs downcast) receive mirrored flags when nothing is missing.

  No hypothesis beyond the statements given: all three hold for every length, n = 0, 1 included.
  Mathlib-free.
-/
import IoosQc.Lemmas.Basic
set_option linter.unusedSimpArgs false
set_option linter.unusedVariables false

namespace IoosQc

/-! ### density_inversion_test -/

theorem rsign_mul (z0 z1 r0 r1 : Rat) :
    rsign (z1 - z0) * (r1 - r0) = if z0 < z1 then r1 - r0 else if z1 < z0 then r0 - r1 else 0 := by
  unfold rsign
  have a : z1 - z0 < 0 ↔ z1 < z0 := by grind
  have b : 0 < z1 - z0 ↔ z0 < z1 := by grind
  simp only [a, b]
  by_cases h1 : z0 < z1
  · have h2 : ¬ z1 < z0 := by grind
    simp only [h1, h2, ↓reduceIte]; grind
  · by_cases h2 : z1 < z0
    · simp only [h1, h2, ↓reduceIte]; grind
    · simp only [h1, h2, ↓reduceIte]; grind

/-- The code's `sign(Δz)·Δρ < thr` is the property's "change in the direction of increasing depth". -/
theorem vlt_densDelta (rho z : List V) (thr : Rat) (j : Nat) :
    vlt (densDelta rho z j) thr = pairBelow rho z thr j := by
  unfold densDelta pairBelow vlt
  cases getV rho j <;> cases getV rho (j + 1) <;> cases getV z j <;> cases getV z (j + 1) <;>
    simp [rsign_mul]

theorem densPairBelow_eq (rho z : List V) (thr : Rat) (i : Nat) :
    densPairBelow rho z thr i = inPairBelow rho z (some thr) i := by
  unfold densPairBelow inPairBelow
  simp [vlt_densDelta]

theorem inPairBelow_none (rho z : List V) (i : Nat) : inPairBelow rho z none i = false := rfl

theorem overrides_dens (b1 b2 m1 m2 : Bool) :
    overrides .good [(b1, .suspect), (b2, .fail), (m1, .missing), (m2, .missing)] ∈
      (if (m1 || m2) = true then [Flag.missing] else if b2 = true then [Flag.fail]
       else if b1 = true then [Flag.suspect] else [Flag.good]) := by
  cases b1 <;> cases b2 <;> cases m1 <;> cases m2 <;> simp [overrides]

theorem densAt_spec (sus fail : Option Rat) (rho z : List V) (i : Nat) (hn : rho.length ≠ 1) :
    densAt sus fail rho z i ∈ densSpecAt sus fail rho z i := by
  unfold densAt densSpecAt
  rw [if_neg hn]
  cases sus <;> cases fail <;> simp only [densPairBelow_eq] <;> exact overrides_dens _ _ _ _

theorem C13_density (rho z : List V) (sus fail : Option Rat) :
    conforms (densSpec rho z sus fail) (densityTest rho z sus fail).toObs = true := by
  unfold densSpec densityTest
  by_cases hl : rho.length = z.length
  · simp only [hl, bne_self_eq_false, Bool.false_eq_true, ↓reduceIte]
    rw [← hl]
    by_cases h0 : rho.length = 0
    · simp [h0, conforms, Res.toObs, conformsList, pure, Except.pure]
    · by_cases h1 : rho.length < 2
      · have e1 : rho.length = 1 := by omega
        simp [e1, conforms, Res.toObs, conformsList, pure, Except.pure, List.range_succ, densSpecAt,
          allowedCode, Flag.code]
      · simp only [h0, h1, ↓reduceIte, pure, Except.pure]
        exact conforms_flags_range _ _ _ (fun i _ => densAt_spec sus fail rho z i (by omega))
  · simp [hl, conforms, Res.toObs, throw, throwThe, MonadExceptOf.throw]

/-! ### argo.pressure_increasing_test -/

theorem pressDelta_cons (a b : V) (t : List V) (j : Nat) :
    pressDelta (a :: b :: t) (j + 1) = pressDelta (b :: t) j := by
  simp [pressDelta, getV]

theorem vsum_telescope (a : Rat) (t : List Rat) :
    vsum ((List.range t.length).map (pressDelta ((a :: t).map some))) = some (t.getLastD a - a) := by
  induction t generalizing a with
  | nil => simp [vsum]; grind
  | cons b t ih =>
    have := ih b
    simp only [List.length_cons, List.range_succ_eq_map, List.map_cons, List.map_map]
    have hf : (pressDelta (some a :: some b :: List.map some t) ∘ Nat.succ)
        = pressDelta (some b :: List.map some t) := by
      funext j; simp [Function.comp, pressDelta_cons]
    rw [hf]
    simp only [List.map_cons] at this
    simp only [vsum, this]
    simp [pressDelta, getV, vsub]
    grind

theorem all_present (p : List V) (h : p.any Option.isNone = false) : ∃ l : List Rat, p = l.map some := by
  induction p with
  | nil => exact ⟨[], rfl⟩
  | cons x xs ih =>
    simp only [List.any_cons, Bool.or_eq_false_iff] at h
    obtain ⟨l, hl⟩ := ih h.2
    cases x with
    | none => simp at h
    | some v => exact ⟨v :: l, by simp [hl]⟩

/-- With nothing missing, the code's direction flip is "last below first". -/
theorem pressFlip_present (a : Rat) (t : List Rat) :
    pressFlip ((a :: t).map some) = decide (t.getLastD a < a) := by
  unfold pressFlip
  have := vsum_telescope a t
  simp only [List.length_map, List.length_cons, Nat.add_sub_cancel]
  rw [this]
  simp
  grind

theorem pressAt_mem (p : List V) (f : Bool) (i : Nat) : pressAt p f i ∈ [Flag.good, Flag.suspect] := by
  unfold pressAt overrides
  generalize (decide (0 < i) && _) = c
  cases c <;> simp

theorem getV_map_some (l : List Rat) (k : Nat) (h : k < l.length) :
    getV (l.map some) k = some l[k] := by
  unfold getV
  rw [List.getD_eq_getElem?_getD, List.getElem?_map, List.getElem?_eq_getElem h]
  rfl

theorem pressAt_spec (p : List V) (i : Nat) (hi : i < p.length) :
    pressAt p (pressFlip p) i ∈ pressSpecAt p i := by
  unfold pressSpecAt
  by_cases hm : p.any Option.isNone = true
  · rw [if_pos hm]; exact pressAt_mem _ _ _
  · rw [if_neg hm]
    by_cases h0 : i = 0
    · subst h0; simp [pressAt, overrides]
    · rw [if_neg h0]
      obtain ⟨l, rfl⟩ := all_present p (Bool.eq_false_iff.2 hm)
      cases l with
      | nil => simp at hi
      | cons a t =>
        rw [pressFlip_present]
        simp only [List.length_map] at hi
        have hi1 : i - 1 < (a :: t).length := by omega
        have g1 : getV ((a :: t).map some) (i - 1) = some ((a :: t)[i - 1]) :=
          getV_map_some _ _ hi1
        have g2 : getV ((a :: t).map some) i = some ((a :: t)[i]) :=
          getV_map_some _ _ hi
        have hd : pressDelta ((a :: t).map some) (i - 1) = some ((a :: t)[i] - (a :: t)[i - 1]) := by
          unfold pressDelta
          have e : i - 1 + 1 = i := by omega
          rw [e, g1, g2]; rfl
        have hh : ((a :: t).map some).head?.join = some a := by simp
        have hl : ((a :: t).map some).getLast?.join = some (t.getLastD a) := by
          simp [List.getLast?_cons]
        rw [hh, hl, g1, g2]
        unfold pressAt overrides
        simp only [hd]
        generalize (a :: t)[i] = y
        generalize (a :: t)[i - 1] = x
        generalize t.getLastD a = w
        have hpos : 0 < i := by omega
        simp [hpos]
        split <;> (try split) <;> (try split) <;> simp_all <;> grind

theorem C13_pressure (p : List V) :
    conforms (.flags ((List.range p.length).map (pressSpecAt p))) (pressureTest p).toObs = true := by
  unfold pressureTest
  exact conforms_flags_range _ _ _ (fun i hi => pressAt_spec p i hi)

/-! ### upcast vs downcast -/

theorem getV_reverse (xs : List V) (i : Nat) (hi : i < xs.length) :
    getV xs.reverse i = getV xs (xs.length - 1 - i) := by
  unfold getV
  rw [List.getD_eq_getElem?_getD, List.getD_eq_getElem?_getD, List.getElem?_reverse hi]

theorem rsign_neg_mul (z0 z1 r0 r1 : Rat) :
    rsign (z0 - z1) * (r0 - r1) = rsign (z1 - z0) * (r1 - r0) := by
  rw [rsign_mul, rsign_mul]
  by_cases h1 : z0 < z1 <;> by_cases h2 : z1 < z0 <;> simp [h1, h2] <;> grind

theorem densDelta_reverse (rho z : List V) (hl : rho.length = z.length) (j : Nat)
    (hj : j + 1 < rho.length) :
    densDelta rho.reverse z.reverse j = densDelta rho z (rho.length - 2 - j) := by
  unfold densDelta
  rw [getV_reverse rho j (by omega), getV_reverse rho (j + 1) (by omega),
    getV_reverse z j (by omega), getV_reverse z (j + 1) (by omega), ← hl]
  have e1 : rho.length - 1 - j = rho.length - 2 - j + 1 := by omega
  have e2 : rho.length - 1 - (j + 1) = rho.length - 2 - j := by omega
  rw [e1, e2]
  cases getV rho (rho.length - 2 - j) <;> cases getV rho (rho.length - 2 - j + 1) <;>
    cases getV z (rho.length - 2 - j) <;> cases getV z (rho.length - 2 - j + 1) <;>
    simp [rsign_neg_mul]

theorem densPairBelow_reverse (rho z : List V) (hl : rho.length = z.length) (thr : Rat) (i : Nat)
    (hi : i < rho.length) :
    densPairBelow rho.reverse z.reverse thr i = densPairBelow rho z thr (rho.length - 1 - i) := by
  unfold densPairBelow
  rw [List.length_reverse, Bool.or_comm]
  congr 1
  · by_cases h : 0 < i
    · have e : rho.length - 1 - i + 1 < rho.length := by omega
      rw [densDelta_reverse rho z hl (i - 1) (by omega)]
      have e2 : rho.length - 2 - (i - 1) = rho.length - 1 - i := by omega
      simp [h, e, e2]
    · have e : ¬ rho.length - 1 - i + 1 < rho.length := by omega
      simp [h, e]
  · by_cases h : i + 1 < rho.length
    · have e : 0 < rho.length - 1 - i := by omega
      rw [densDelta_reverse rho z hl i h]
      have e2 : rho.length - 2 - i = rho.length - 1 - i - 1 := by omega
      simp [h, e, e2]
    · have e : ¬ 0 < rho.length - 1 - i := by omega
      simp [h, e]

theorem recMissing_false (rho z : List V) (hr : ∀ v ∈ rho, v ≠ none) (hz : ∀ v ∈ z, v ≠ none)
    (hl : rho.length = z.length) (i : Nat) (hi : i < rho.length) : recMissing rho z i = false := by
  unfold recMissing getV
  have h1 := hr rho[i] (List.getElem_mem hi)
  have h2 := hz (z[i]'(by omega)) (List.getElem_mem _)
  rw [List.getD_eq_getElem?_getD, List.getD_eq_getElem?_getD, List.getElem?_eq_getElem hi,
    List.getElem?_eq_getElem (by omega)]
  cases h3 : rho[i] <;> cases h4 : z[i]'(by omega) <;> simp_all

theorem densAt_reverse (rho z : List V) (sus fail : Option Rat)
    (hr : ∀ v ∈ rho, v ≠ none) (hz : ∀ v ∈ z, v ≠ none) (hl : rho.length = z.length)
    (i : Nat) (hi : i < rho.length) :
    densAt sus fail rho.reverse z.reverse i = densAt sus fail rho z (rho.length - 1 - i) := by
  have hr' : ∀ v ∈ rho.reverse, v ≠ none := fun v hv => hr v (List.mem_reverse.1 hv)
  have hz' : ∀ v ∈ z.reverse, v ≠ none := fun v hv => hz v (List.mem_reverse.1 hv)
  have hl' : rho.reverse.length = z.reverse.length := by simp [hl]
  have m1 := recMissing_false _ _ hr' hz' hl' i (by simpa using hi)
  have m2 := recMissing_false _ _ hr hz hl (rho.length - 1 - i) (by omega)
  have m3 : (decide (0 < i) && recMissing rho.reverse z.reverse (i - 1)) = false := by
    rw [recMissing_false _ _ hr' hz' hl' (i - 1) (by simp; omega)]; simp
  have m4 : (decide (0 < rho.length - 1 - i) && recMissing rho z (rho.length - 1 - i - 1)) = false := by
    rw [recMissing_false _ _ hr hz hl _ (by omega)]; simp
  unfold densAt
  rw [m1, m2, m3, m4]
  cases sus <;> cases fail <;> simp only [densPairBelow_reverse rho z hl _ i hi]

/-- upcast vs downcast: with nothing missing, reversing the profile mirrors the flags -/
theorem C13_reverse (rho z : List V) (sus fail : Option Rat)
    (hr : ∀ v ∈ rho, v ≠ none) (hz : ∀ v ∈ z, v ≠ none) (hl : rho.length = z.length) :
    densityTest rho.reverse z.reverse sus fail = (densityTest rho z sus fail).map List.reverse := by
  unfold densityTest
  simp only [List.length_reverse, hl, bne_self_eq_false, Bool.false_eq_true, ↓reduceIte]
  rw [← hl]
  by_cases h0 : rho.length = 0
  · simp [h0, pure, Except.pure, Except.map]
  · by_cases h1 : rho.length < 2
    · simp [h0, h1, pure, Except.pure, Except.map]
    · simp only [h0, h1, ↓reduceIte, pure, Except.pure, Except.map]
      congr 1
      apply List.ext_getElem
      · simp
      · intro i hi1 hi2
        simp only [List.length_map, List.length_range] at hi1
        simp only [List.getElem_map, List.getElem_range, List.getElem_reverse, List.length_map,
          List.length_range]
        exact densAt_reverse rho z sus fail hr hz hl i hi1

/-! Consequences spelled out. -/

/-- A single point is UNKNOWN. -/
theorem C13_density_single (r d : V) (sus fail : Option Rat) :
    densityTest [r] [d] sus fail = .ok [.unknown] := rfl

/-- Mismatched lengths are rejected (ValueError). -/
theorem C13_density_length_mismatch (rho z : List V) (sus fail : Option Rat)
    (hl : rho.length ≠ z.length) : densityTest rho z sus fail = .error .value := by
  unfold densityTest
  simp [hl, throw, throwThe, MonadExceptOf.throw]

/-- Both members of an adjacent, fully present pair whose change is below the fail threshold are
    FAIL (when the records before them are present too). -/
theorem C13_density_pair_fail (rho z : List V) (sus : Option Rat) (f : Rat) (j : Nat)
    (hj : j + 1 < rho.length) (hp : pairBelow rho z f j = true)
    (hm0 : recMissing rho z j = false) (hm1 : recMissing rho z (j + 1) = false)
    (hm : 0 < j → recMissing rho z (j - 1) = false) :
    densAt sus (some f) rho z j = .fail ∧ densAt sus (some f) rho z (j + 1) = .fail := by
  have hn : rho.length ≠ 1 := by omega
  have a := densAt_spec sus (some f) rho z j hn
  have b := densAt_spec sus (some f) rho z (j + 1) hn
  unfold densSpecAt at a b
  have c : (decide (0 < j) && recMissing rho z (j - 1)) = false := by
    by_cases h : 0 < j
    · simp [hm h]
    · simp [h]
  have ia : inPairBelow rho z (some f) j = true := by
    unfold inPairBelow; simp [hj, hp]
  have ib : inPairBelow rho z (some f) (j + 1) = true := by
    unfold inPairBelow; simp [hp]
  simp [hn, hm0, c, ia] at a
  simp [hn, hm0, hm1, ib] at b
  exact ⟨a, b⟩

/-- Why `C13_reverse` asks for nothing missing: a missing value also marks the *next* record,
    which is not a mirror-symmetric rule. -/
example :
    (densityTest [some 1, none, some 3, some 4] [some 1, some 2, some 3, some 4] none none).toObs
      = .flags [1, 9, 9, 1] ∧
    (densityTest [some 4, some 3, none, some 1] [some 4, some 3, some 2, some 1] none none).toObs
      = .flags [1, 1, 9, 9] := by
  decide +kernel

/-- Non-vacuity: a downcast with a SUSPECT pair (−0.02 < −0.01), a FAIL pair (−0.04 < −0.03),
    and a missing depth marking itself and its successor. -/
example : (densityTest
    [some 1024, some 1025, some (1025 - 1/50), some 1025, some (1025 - 1/25), some 1026, some 1027, some 1028]
    [some 0, some 10, some 20, some 30, some 40, some 50, none, some 70]
    (some (-1/100)) (some (-3/100))).toObs = .flags [1, 3, 3, 4, 4, 1, 9, 9] := by
  decide +kernel

/-- The same profile (complete part) as an upcast: mirrored flags. -/
example : (densityTest
    [some 1026, some (1025 - 1/25), some 1025, some (1025 - 1/50), some 1025, some 1024]
    [some 50, some 40, some 30, some 20, some 10, some 0]
    (some (-1/100)) (some (-3/100))).toObs = .flags [1, 4, 4, 3, 3, 1] := by
  decide +kernel

/-- Pressure: increasing profile (a repeat and a drop are SUSPECT), decreasing profile (a rise and
    a repeat are SUSPECT). -/
example : (pressureTest [some 0, some 10, some 10, some 5, some 20]).toObs = .flags [1, 1, 3, 3, 1] ∧
    (pressureTest [some 20, some 10, some 12, some 5, some 5]).toObs = .flags [1, 1, 3, 1, 3] := by
  decide +kernel

end IoosQc
