/-
  IoosQc.Theorems.NpSrc2 — more source-shaped transcriptions (the translator's output in
  `Model/NpSrc.lean`) proved equal to the pointwise models of `Model/Tests.lean`:

    C13_src_density    NpSrc.density_inversion_test   = densityTest
-/
import IoosQc.Model.NpSrc
import IoosQc.Theorems.NpRefine
import IoosQc.Theorems.NpSrc
set_option linter.unusedSimpArgs false
set_option linter.unusedVariables false

namespace IoosQc.NpSrc
open IoosQc.Np

/-! ## generic index lemmas -/

theorem getElem?_setInit1 {α : Type} (dst src : List α) (i : Nat) :
    (setInit1 dst src)[i]? = if i < src.length then src[i]? else dst[i]? := by
  simp only [setInit1, List.getElem?_append]
  split
  · rfl
  · rw [List.getElem?_drop]; congr 1; omega

theorem length_setInit1 {α : Type} (dst src : List α) (h : src.length ≤ dst.length) :
    (setInit1 dst src).length = dst.length := by
  simp [setInit1]; omega

theorem length_setTail {α : Type} (dst src : List α) (h : src.length + 1 = dst.length) :
    (setTail dst src).length = dst.length := by
  cases dst with
  | nil => simp at h
  | cons x r => simp [setTail] at h ⊢; omega

theorem length_setWhereB (fl : List Flag) (c : BArr) (x : Flag) : (setWhereB fl c x).length = min fl.length c.length := by
  simp [setWhereB]

theorem length_setWhere (fl : List Flag) (c : List Bool) (x : Flag) : (setWhere fl c x).length = min fl.length c.length := by
  simp [setWhere]

theorem length_tail1 {α : Type} (a : List α) : (tail1 a).length = a.length - 1 := by simp [tail1]
theorem length_init1 {α : Type} (a : List α) : (init1 a).length = a.length - 1 := by simp [init1]

/-- raw datum of a masked boolean array at `i` (False beyond the end) -/
def bAt (c : BArr) (i : Nat) : Bool := ((c[i]?).map (·.d)).getD false

/-- `fl[:-1][c] = x; fl[1:][c] = x` — both members of every selected adjacent pair. -/
def pairStep (fl : List Flag) (c : BArr) (x : Flag) : List Flag :=
  let s := setInit1 fl (setWhereB (init1 fl) c x)
  setTail s (setWhereB (tail1 s) c x)

theorem getElem?_pairStep (fl : List Flag) (c : BArr) (x : Flag) (hl : c.length + 1 = fl.length) (i : Nat) :
    (pairStep fl c x)[i]? = (fl[i]?).map fun f => if bAt c i || (decide (0 < i) && bAt c (i - 1)) then x else f := by
  have hs : (setInit1 fl (setWhereB (init1 fl) c x)).length = fl.length := by
    apply length_setInit1; simp [length_setWhereB, length_init1]; omega
  have hS : ∀ k, (setInit1 fl (setWhereB (init1 fl) c x))[k]? = (fl[k]?).map fun f => if bAt c k then x else f := by
    intro k
    rw [getElem?_setInit1, length_setWhereB, length_init1, getElem?_setWhereB, getElem?_init1]
    by_cases hk : k + 1 < fl.length
    · have h1 : k < min (fl.length - 1) c.length := by omega
      have hc : k < c.length := by omega
      simp only [h1, hk, if_true, bAt, List.getElem?_eq_getElem hc, List.getElem?_eq_getElem (by omega : k < fl.length),
        Option.map_some, Option.getD_some]
    · have h1 : ¬ k < min (fl.length - 1) c.length := by omega
      have hc : c[k]? = none := by simp; omega
      simp only [h1, if_false, bAt, hc, Option.map_none, Option.getD_none]
      cases fl[k]? <;> simp
  unfold pairStep
  rw [getElem?_setTail _ _ _ (by simp [length_setWhereB, length_tail1, hs]; omega)]
  cases i with
  | zero =>
    simp only [if_true, hS, Nat.lt_irrefl, decide_false, Bool.false_and, Bool.or_false]
  | succ j =>
    simp only [Nat.succ_ne_zero, if_false, Nat.add_sub_cancel, getElem?_setWhereB, getElem?_tail1, hS, Nat.zero_lt_succ,
      decide_true, Bool.true_and]
    by_cases hj : j + 1 < fl.length
    · have hc : j < c.length := by omega
      simp only [List.getElem?_eq_getElem hj, List.getElem?_eq_getElem hc, Option.map_some, bAt, Option.getD_some]
      cases (c[j]).d <;> simp <;> rfl
    · have hf : fl[j + 1]? = none := by simp; omega
      simp [hf]

theorem length_pairStep (fl : List Flag) (c : BArr) (x : Flag) (hl : c.length + 1 = fl.length) :
    (pairStep fl c x).length = fl.length := by
  have hs : (setInit1 fl (setWhereB (init1 fl) c x)).length = fl.length := by
    apply length_setInit1; simp [length_setWhereB, length_init1]; omega
  unfold pairStep
  rw [length_setTail _ _ (by simp [length_setWhereB, length_tail1, hs]; omega), hs]

theorem bAt_eqTrue (c : BArr) (i : Nat) : bAt (eqTrue c) i = ((c[i]?).map fun x => !x.m && x.d).getD false := by
  simp only [bAt, eqTrue, List.getElem?_map]; cases c[i]? <;> rfl

/-- The `if any(c):` guard is only an optimisation: without a selected pair the two writes do nothing. -/
theorem guarded_pairStep (fl : List Flag) (c : BArr) (x : Flag) (hl : c.length + 1 = fl.length) :
    (if anyB c then pairStep fl (eqTrue c) x else fl) = pairStep fl (eqTrue c) x := by
  by_cases h : anyB c = true
  · simp [h]
  · simp only [h, if_false]
    have hall : ∀ i, bAt (eqTrue c) i = false := by
      intro i
      rw [bAt_eqTrue]
      cases hc : c[i]? with
      | none => rfl
      | some y =>
        have hy := List.mem_of_getElem? hc
        have h' : ∀ x ∈ c, x.m = false → x.d = false := by simpa [anyB, List.any_eq_false] using h
        have := h' y hy
        cases hm : y.m <;> simp [hm]
        exact this hm
    apply List.ext_getElem?
    intro i
    rw [getElem?_pairStep _ _ _ (by simpa [eqTrue] using hl)]
    simp only [hall, Bool.false_or, Bool.and_false, Bool.false_eq_true, if_false]
    cases fl[i]? <;> rfl

/-! ## density_inversion_test -/

/-- The cell of `delta = np.sign(np.diff(zinp)) * np.diff(inp)` for the pair (j, j+1). -/
def deltaCell (r0 r1 z0 z1 : V) : Cell :=
  binCell Fl.mul ⟨Fl.sign (Fl.sub (cellOf z1).d (cellOf z0).d), (cellOf z1).m || (cellOf z0).m⟩
    ⟨Fl.sub (cellOf r1).d (cellOf r0).d, (cellOf r1).m || (cellOf r0).m⟩

def deltaArr (rho z : List V) : MArr := maBin Fl.mul (uf1 Fl.sign (maDiff (ofInput z))) (maDiff (ofInput rho))

theorem length_deltaArr (rho z : List V) (h : rho.length = z.length) : (deltaArr rho z).length = rho.length - 1 := by
  simp [deltaArr, maBin, uf1, length_maDiff, length_ofInput, h]

theorem getElem?_deltaArr (rho z : List V) (h : rho.length = z.length) (j : Nat) (hj : j + 1 < rho.length) :
    (deltaArr rho z)[j]? = some (deltaCell (getV rho j) (getV rho (j + 1)) (getV z j) (getV z (j + 1))) := by
  have r1 := getElem?_getV rho (j + 1) hj
  have r0 := getElem?_getV rho j (by omega)
  have z1 := getElem?_getV z (j + 1) (by omega)
  have z0 := getElem?_getV z j (by omega)
  simp only [deltaArr, getElem?_maBin, getElem?_uf1, getElem?_maDiff, getElem?_ofInput, r1, r0, z1, z0, Option.map_some,
    deltaCell]

theorem deltaCell_lt (rho z : List V) (j : Nat) (thr : Rat) :
    (let c := deltaCell (getV rho j) (getV rho (j + 1)) (getV z j) (getV z (j + 1)); !c.m && c.d.ltS thr)
      = vlt (densDelta rho z j) thr := by
  simp only [densDelta]
  cases getV rho j <;> cases getV rho (j + 1) <;> cases getV z j <;> cases getV z (j + 1) <;>
    simp [deltaCell, binCell, cellOf, Fl.sub, Fl.lift2, Fl.sign, Fl.mul, Fl.ltS, vlt]

theorem bAt_eqTrue_lt (rho z : List V) (h : rho.length = z.length) (thr : Rat) (j : Nat) :
    bAt (eqTrue (ltS (deltaArr rho z) thr)) j = (decide (j + 1 < rho.length) && vlt (densDelta rho z j) thr) := by
  rw [bAt_eqTrue]
  by_cases hj : j + 1 < rho.length
  · simp only [ltS, List.getElem?_map, getElem?_deltaArr rho z h j hj, Option.map_some, Option.getD_some, hj, decide_true,
      Bool.true_and]
    exact deltaCell_lt rho z j thr
  · have : (ltS (deltaArr rho z) thr)[j]? = none := by
      simp [ltS, length_deltaArr rho z h]; omega
    simp [this, hj]

/-- the threshold step of the body, as the translator writes it -/
def densStep (o : Option Rat) (fl : List Flag) (delta : MArr) (x : Flag) : List Flag :=
  match o with
  | some s => if anyB (ltS delta s) then pairStep fl (eqTrue (ltS delta s)) x else fl
  | none => fl

theorem getElem?_densStep (o : Option Rat) (fl : List Flag) (rho z : List V) (h : rho.length = z.length)
    (hl : fl.length = rho.length) (hn : 0 < rho.length) (x : Flag) (i : Nat) :
    (densStep o fl (deltaArr rho z) x)[i]? =
      (fl[i]?).map fun f => if (match o with | some s => densPairBelow rho z s i | none => false) then x else f := by
  cases o with
  | none => simp [densStep]
  | some s =>
    have hlen : (eqTrue (ltS (deltaArr rho z) s)).length + 1 = fl.length := by
      simp [eqTrue, ltS, length_deltaArr rho z h, hl]; omega
    simp only [densStep]
    rw [guarded_pairStep _ _ _ (by simpa [eqTrue] using hlen), getElem?_pairStep _ _ _ hlen]
    congr 1
    funext f
    rw [bAt_eqTrue_lt rho z h, bAt_eqTrue_lt rho z h]
    simp only [densPairBelow]
    cases i with
    | zero => simp
    | succ k =>
      have : (decide (k + 1 < rho.length) && vlt (densDelta rho z k) s) = vlt (densDelta rho z k) s ∨ ¬ (k + 1 < rho.length) := by
        by_cases hk : k + 1 < rho.length <;> simp [hk]
      by_cases hk : k + 1 < rho.length
      · simp [hk]
      · -- beyond the end: fl[i]? is none, both sides are applied to nothing; but `congr` asked for all f: show equal anyway
        have h0 : densDelta rho z k = none := by
          simp [densDelta, getV, List.getD_eq_getElem?_getD]
          have : rho[k + 1]? = none := by simp; omega
          simp [this]
        have h1 : ¬ (k + 1 + 1 < rho.length) := by omega
        simp [hk, h1, h0, vlt]

theorem length_densStep (o : Option Rat) (fl : List Flag) (delta : MArr) (x : Flag) (hl : delta.length + 1 = fl.length) :
    (densStep o fl delta x).length = fl.length := by
  cases o with
  | none => rfl
  | some s =>
    simp only [densStep]
    split
    · exact length_pairStep _ _ _ (by simpa [eqTrue, ltS] using hl)
    · rfl

/-- the body after the size checks -/
def densBody (sus fail : Option Rat) (rho z : List V) : List Flag :=
  let fl := densStep fail (densStep sus (ones rho.length) (deltaArr rho z) .suspect) (deltaArr rho z) .fail
  let miss := bor2 (maskOf (ofInput rho)) (maskOf (ofInput z))
  let fl := setWhere fl miss .missing
  setTail fl (setWhere (tail1 fl) (init1 miss) .missing)

theorem getElem?_miss (rho z : List V) (h : rho.length = z.length) (i : Nat) (hi : i < rho.length) :
    (bor2 (maskOf (ofInput rho)) (maskOf (ofInput z)))[i]? = some (recMissing rho z i) := by
  have r := getElem?_getV rho i hi
  have zz := getElem?_getV z i (by omega)
  simp only [bor2, maskOf, List.getElem?_zipWith, List.getElem?_map, getElem?_ofInput, r, zz, Option.map_some, recMissing]
  cases getV rho i <;> cases getV z i <;> rfl

theorem densBody_eq (sus fail : Option Rat) (rho z : List V) (h : rho.length = z.length) (hn : 2 ≤ rho.length) :
    densBody sus fail rho z = (List.range rho.length).map (densAt sus fail rho z) := by
  have hd := length_deltaArr rho z h
  have hl1 : (densStep sus (ones rho.length) (deltaArr rho z) .suspect).length = rho.length := by
    rw [length_densStep _ _ _ _ (by simp [ones, hd]; omega)]; simp [ones]
  have hl2 : (densStep fail (densStep sus (ones rho.length) (deltaArr rho z) .suspect) (deltaArr rho z) .fail).length = rho.length := by
    rw [length_densStep _ _ _ _ (by rw [hl1, hd]; omega), hl1]
  have hml : (bor2 (maskOf (ofInput rho)) (maskOf (ofInput z))).length = rho.length := by
    simp [bor2, maskOf, length_ofInput, h]
  apply List.ext_getElem?
  intro i
  unfold densBody
  simp only []
  rw [getElem?_setTail _ _ _ (by simp [length_setWhere, length_tail1, length_init1, hl2, hml]; omega)]
  by_cases hi : i < rho.length
  · have hr : ((List.range rho.length).map (densAt sus fail rho z))[i]? = some (densAt sus fail rho z i) := by
      simp [List.getElem?_range hi]
    rw [hr]
    cases i with
    | zero =>
      simp only [if_true, getElem?_setWhere, getElem?_densStep fail _ rho z h hl1 (by omega),
        getElem?_densStep sus (ones rho.length) rho z h (by simp [ones]) (by omega), getElem?_ones, hi, Option.map_some,
        getElem?_miss rho z h 0 hi]
      simp only [densAt, overrides, List.foldl, Nat.lt_irrefl, decide_false, Bool.false_and]
      simp
      rfl
    | succ k =>
      have hk : k < rho.length := by omega
      simp only [Nat.succ_ne_zero, if_false, Nat.add_sub_cancel, getElem?_setWhere, getElem?_tail1, getElem?_init1,
        getElem?_densStep fail _ rho z h hl1 (by omega), getElem?_densStep sus (ones rho.length) rho z h (by simp [ones]) (by omega),
        getElem?_ones, hi, if_true, Option.map_some, getElem?_miss rho z h (k + 1) hi, getElem?_miss rho z h k hk, hml]
      simp only [densAt, overrides, List.foldl, Nat.zero_lt_succ, decide_true, Bool.true_and, Nat.add_sub_cancel]
      rfl
  · have hr : ((List.range rho.length).map (densAt sus fail rho z))[i]? = none := by simp; omega
    rw [hr]
    cases i with
    | zero => omega
    | succ k =>
      simp only [Nat.succ_ne_zero, if_false, Nat.add_sub_cancel]
      rw [List.getElem?_eq_none_iff]
      simp [length_setWhere, length_tail1, length_init1, hl2, hml]; omega

theorem density_eq (rho z : List V) (sus fail : Option Rat) :
    density_inversion_test rho z sus fail = densityTest rho z sus fail := by
  unfold density_inversion_test densityTest
  by_cases hl : rho.length = z.length
  · by_cases h0 : rho.length = 0
    · simp [h0, length_ofInput, bind, Except.bind, pure, Except.pure, throw, throwThe, MonadExceptOf.throw, ← hl]
    · by_cases h1 : rho.length < 2
      · have h11 : rho.length = 1 := by omega
        simp [h0, h1, h11, length_ofInput, bind, Except.bind, pure, Except.pure, throw, throwThe, MonadExceptOf.throw, ← hl,
          ones, setAt0]
      · have hb := densBody_eq sus fail rho z hl (by omega)
        simp only [densBody, densStep, deltaArr] at hb
        cases sus <;> cases fail <;>
          simp [h0, h1, length_ofInput, bind, Except.bind, pure, Except.pure, throw, throwThe, MonadExceptOf.throw, ← hl,
            pairStep] at hb ⊢ <;>
          rw [← hb] <;> (repeat' split) <;> simp_all
  · simp [hl, length_ofInput, bind, Except.bind, pure, Except.pure, throw, throwThe, MonadExceptOf.throw]

/-- The translator's `density_inversion_test` is the pointwise model. -/
theorem C13_src_density (rho z : List V) (sus fail : Option Rat) :
    density_inversion_test rho z sus fail = densityTest rho z sus fail := density_eq rho z sus fail

/-! ## axds.valid_range_test — with ARBITRARY raw data under the mask -/

theorem length_ofInputJunk (xs : List V) (junk : List Fl) : (ofInputJunk xs junk).length = xs.length := by
  simp [ofInputJunk]

theorem getElem?_ofInputJunk (xs : List V) (junk : List Fl) (i : Nat) (hi : i < xs.length) :
    (ofInputJunk xs junk)[i]? = some (junkCell (getV xs i) (junk.getD i .nan)) := by
  simp [ofInputJunk, List.getElem?_range hi]

/-- the flag the body leaves at one position, from the cell there -/
def validFlagOf (lo hi : V) (si ei : Bool) (c : Cell) : Flag :=
  let f : Flag := .good
  let f := match lo with
    | some l => if si then (if c.d.ltS l then .fail else f) else (if c.d.leS l then .fail else f)
    | none => f
  let f := match hi with
    | some h => if ei then (if c.d.gtS h then .fail else f) else (if c.d.geS h then .fail else f)
    | none => f
  if c.m then .missing else f

theorem validFlagOf_eq (lo hi : V) (si ei : Bool) (x : V) (j : Fl) :
    validFlagOf lo hi si ei (junkCell x j) = validAt lo hi si ei x := by
  cases x <;> cases lo <;> cases hi <;> cases si <;> cases ei <;>
    simp [validFlagOf, junkCell, validAt, overrides, vlt, vle, vgt, vge, Fl.ltS, Fl.leS, Fl.gtS, Fl.geS] <;>
    (repeat' split) <;> simp_all

theorem getElem?_leS (a : MArr) (r : Rat) (i : Nat) : (leS a r)[i]? = (a[i]?).map fun x => ⟨x.d.leS r, x.m⟩ := by simp [leS]

def validBody (lo hi : V) (si ei : Bool) (inp : MArr) : List Flag :=
  let fl := ones inp.length
  let fl := match lo with
    | some l => if si = true then setWhereB fl (ltS inp l) .fail else setWhereB fl (leS inp l) .fail
    | none => fl
  let fl := match hi with
    | some h => if ei = true then setWhereB fl (gtS inp h) .fail else setWhereB fl (geS inp h) .fail
    | none => fl
  setWhere fl (maskOf inp) .missing

theorem validBody_getElem? (lo hi : V) (si ei : Bool) (inp : MArr) (i : Nat) :
    (validBody lo hi si ei inp)[i]? = (inp[i]?).map (validFlagOf lo hi si ei) := by
  by_cases hi' : i < inp.length
  · have hc : inp[i]? = some inp[i] := List.getElem?_eq_getElem hi'
    cases lo <;> cases hi <;> cases si <;> cases ei <;>
      simp [validBody, validFlagOf, getElem?_setWhere, getElem?_setWhereB, getElem?_ones, getElem?_ltS, getElem?_gtS,
        getElem?_leS, getElem?_geS, maskOf, hc, hi']
  · have hc : inp[i]? = none := by simp; omega
    rw [hc, Option.map_none, List.getElem?_eq_none_iff]
    cases lo <;> cases hi <;> cases si <;> cases ei <;>
      simp [validBody, setWhere, setWhereB, ones, maskOf, ltS, leS, gtS, geS] <;> omega

/-- The translator's `valid_range_test` is the pointwise model WHATEVER number the caller's masked
    array holds under its mask (this function does not fill masked cells with NaN: the comparison
    does flag the hidden number, and the closing `flag_arr[inp.mask] = MISSING` repairs it). -/
theorem C03_src_valid (inp : List V) (span : V × V) (si ei : Bool) (junk : List Fl) :
    valid_range_test inp span si ei junk = validRange span.1 span.2 si ei inp := by
  have hb : validBody span.1 span.2 si ei (ofInputJunk inp junk) = inp.map (validAt span.1 span.2 si ei) := by
    apply List.ext_getElem?
    intro i
    rw [validBody_getElem?]
    by_cases hi : i < inp.length
    · rw [getElem?_ofInputJunk inp junk i hi, Option.map_some, validFlagOf_eq]
      simp [getElem?_getV inp i hi]
    · have h1 : (ofInputJunk inp junk)[i]? = none := by simp [length_ofInputJunk]; omega
      have h2 : (inp.map (validAt span.1 span.2 si ei))[i]? = none := by simp; omega
      rw [h1, h2]; rfl
  unfold valid_range_test validRange
  rw [← hb]
  rcases span with ⟨lo, hi⟩
  cases lo <;> cases hi <;> cases si <;> cases ei <;>
    simp [validBody, bind, Except.bind, pure, Except.pure]

/-- Non-vacuity: the hidden number IS flagged on the way (FAIL under the mask before the last statement). -/
example : (valid_range_test [some 1, none, some 5] (some 0, some 3) true false [.nan, .num 100, .nan]).toOption
    = some [.good, .missing, .fail] := by decide +kernel
example : (setWhereB (ones 3) (geS (ofInputJunk [some 1, none, some 5] [.nan, .num 100, .nan]) 3) .fail)
    = [.good, .fail, .fail] := by decide +kernel

/-! ## argo.pressure_increasing_test — plain arrays, an index array -/

def toFl (v : V) : Fl := match v with | some q => .num q | none => .nan

theorem getElem?_setIdx (idx : List Nat) (fl : List Flag) (x : Flag) (i : Nat) :
    (setIdx fl idx x)[i]? = (fl[i]?).map fun f => if i ∈ idx then x else f := by
  induction idx generalizing fl with
  | nil => simp [setIdx]
  | cons j js ih =>
    simp only [setIdx, List.foldl_cons] at ih ⊢
    rw [ih, List.getElem?_set]
    by_cases hji : j = i
    · subst hji
      by_cases hj : j < fl.length
      · simp [hj, List.getElem?_eq_getElem hj]
      · have : fl[j]? = none := by simp; omega
        simp [hj, this]
    · have : ¬ i = j := fun h => hji h.symm
      simp [hji, this]

theorem length_setIdx (idx : List Nat) (fl : List Flag) (x : Flag) : (setIdx fl idx x).length = fl.length := by
  induction idx generalizing fl with
  | nil => rfl
  | cons j js ih => simp only [setIdx, List.foldl_cons] at ih ⊢; rw [ih]; simp

theorem mem_where_succ (c : List Bool) (i : Nat) :
    i ∈ (npWhere c).map (· + 1) ↔ (0 < i ∧ c.getD (i - 1) false = true) := by
  simp only [npWhere, List.mem_map, List.mem_filter, List.mem_range]
  constructor
  · rintro ⟨j, ⟨_, hj⟩, rfl⟩
    exact ⟨Nat.succ_pos _, by simpa using hj⟩
  · rintro ⟨h0, hc⟩
    refine ⟨i - 1, ⟨?_, hc⟩, by omega⟩
    by_cases hl : i - 1 < c.length
    · exact hl
    · have : c.getD (i - 1) false = false := by
        rw [List.getD_eq_getElem?_getD]
        have : c[i - 1]? = none := by simp; omega
        simp [this]
      rw [this] at hc; cases hc

theorem sumList_toFl (xs : List V) : Fl.sumList (xs.map toFl) = toFl (vsum xs) := by
  induction xs with
  | nil => rfl
  | cons x xs ih =>
    simp only [List.map_cons, Fl.sumList, ih, vsum]
    cases x <;> cases vsum xs <;> simp [toFl, Fl.add, Fl.lift2]

theorem npDiff_filled (p : List V) :
    npDiff (ofInputFilled p) = (List.range (p.length - 1)).map fun j => toFl (pressDelta p j) := by
  apply List.ext_getElem?
  intro j
  simp only [npDiff, List.getElem?_zipWith, getElem?_tail1, getElem?_init1, ofInputFilled, List.getElem?_map, List.length_map]
  by_cases hj : j + 1 < p.length
  · have h1 := getElem?_getV p (j + 1) hj
    have h0 := getElem?_getV p j (by omega)
    have hr : (List.range (p.length - 1))[j]? = some j := List.getElem?_range (by omega)
    simp only [hj, if_true, h1, h0, Option.map_some, hr, pressDelta, vsub]
    cases getV p (j + 1) <;> cases getV p j <;> simp [toFl, Fl.sub, Fl.lift2]
  · have h1 : p[j + 1]? = none := by simp; omega
    have hr : (List.range (p.length - 1))[j]? = none := by simp; omega
    simp [hj, h1, hr]

def negSum (o : V) : Bool := match o with | some s => decide (s < 0) | none => false

theorem pressFlip_eq (p : List V) : pressFlip p = negSum (vsum ((List.range (p.length - 1)).map (pressDelta p))) := by
  unfold pressFlip negSum; cases vsum ((List.range (p.length - 1)).map (pressDelta p)) <;> rfl

theorem sign_mean_lt (xs : List V) :
    (Fl.sign (npMean (xs.map toFl))).ltS 0 = negSum (vsum xs) := by
  unfold npMean negSum
  by_cases h0 : xs.length = 0
  · have : xs = [] := List.eq_nil_of_length_eq_zero h0
    subst this
    simp [Fl.sign, Fl.ltS, vsum]
  · simp only [List.length_map, h0, if_false, sumList_toFl]
    cases hv : vsum xs with
    | none => simp [toFl, Fl.divS, Fl.sign, Fl.ltS]
    | some s =>
      have hn : (0 : Rat) < ((xs.length : Nat) : Rat) := by
        have : 0 < xs.length := Nat.pos_of_ne_zero h0
        exact_mod_cast this
      have hdiv : s / ((xs.length : Nat) : Rat) < 0 ↔ s < 0 := by
        rw [Rat.div_lt_iff hn, Rat.zero_mul]
      simp only [toFl, Fl.divS, Fl.sign, Fl.ltS, rsign]
      by_cases hs : s < 0
      · have := hdiv.mpr hs
        simp [hs, this]; decide
      · have hq : ¬ s / ((xs.length : Nat) : Rat) < 0 := fun h => hs (hdiv.mp h)
        simp only [hs, hq, if_false, decide_false]
        split <;> simp <;> decide

theorem sign_of_neg (xs : List V) (s : Rat) (hv : vsum xs = some s) (hs : s < 0) :
    Fl.sign (npMean (xs.map toFl)) = .num (-1) := by
  unfold npMean
  have h0 : xs.length ≠ 0 := by
    intro h
    have : xs = [] := List.eq_nil_of_length_eq_zero h
    subst this
    simp [vsum] at hv; subst hv; exact absurd hs (by decide)
  have hn : (0 : Rat) < ((xs.length : Nat) : Rat) := by
    have : 0 < xs.length := Nat.pos_of_ne_zero h0
    exact_mod_cast this
  have : s / ((xs.length : Nat) : Rat) < 0 := by rw [Rat.div_lt_iff hn, Rat.zero_mul]; exact hs
  simp [List.length_map, h0, sumList_toFl, hv, toFl, Fl.divS, Fl.sign, rsign, this]

theorem pressure_key (p : List V) (delta : FArr) (flip : Bool)
    (hd : ∀ j, delta.getD j .nan = match pressDelta p j with
        | some d => if j + 1 < p.length then (if flip then .num (-1 * d) else .num d) else .nan | none => .nan)
    (hl : delta.length = p.length - 1) :
    setIdx (ones (ofInputFilled p).length) ((npWhere (npLeS delta 0)).map (· + 1)) .suspect
      = (List.range p.length).map (pressAt p flip) := by
  have hlenF : (ofInputFilled p).length = p.length := by simp [ofInputFilled]
  apply List.ext_getElem?
  intro i
  by_cases hi : i < p.length
  · have hr : ((List.range p.length).map (pressAt p flip))[i]? = some (pressAt p flip i) := by
      simp [List.getElem?_range hi]
    rw [hr, getElem?_setIdx, getElem?_ones, hlenF]
    simp only [hi, if_true, Option.map_some, mem_where_succ, pressAt, overrides, List.foldl]
    congr 1
    have hg : (npLeS delta 0).getD (i - 1) false = (delta.getD (i - 1) .nan).leS 0 := by
      simp only [npLeS, List.getD_eq_getElem?_getD, List.getElem?_map]
      cases delta[i - 1]? <;> simp [Fl.leS]
    rw [hg, hd]
    cases i with
    | zero => simp
    | succ k =>
      have hk : k + 1 < p.length := hi
      simp only [Nat.zero_lt_succ, true_and, Nat.add_sub_cancel, decide_true, Bool.true_and, hk, if_true]
      cases pressDelta p k with
      | none => simp [Fl.leS]
      | some d =>
        cases flip
        · simp [Fl.leS]
        · have : (-1 * d ≤ 0) ↔ (0 ≤ d) := by grind
          simp [Fl.leS, this]
  · have hr : ((List.range p.length).map (pressAt p flip))[i]? = none := by simp; omega
    rw [hr, List.getElem?_eq_none_iff]
    simp [length_setIdx, ones, hlenF]; omega

/-- The translator's `pressure_increasing_test` is the pointwise model. -/
theorem C13_src_pressure (p : List V) : pressure_increasing_test p = pressureTest p := by
  unfold pressure_increasing_test pressureTest
  simp only [bind, Except.bind, pure, Except.pure, Id.run]
  rw [npDiff_filled]
  have hmap : ((List.range (p.length - 1)).map fun j => toFl (pressDelta p j))
      = ((List.range (p.length - 1)).map (pressDelta p)).map toFl := by simp
  have hlt := sign_mean_lt ((List.range (p.length - 1)).map (pressDelta p))
  rw [← hmap] at hlt
  cases hf : pressFlip p with
  | false =>
    have hcond : (Fl.sign (npMean ((List.range (p.length - 1)).map fun j => toFl (pressDelta p j)))).ltS 0 = false := by
      rw [hlt, ← pressFlip_eq]; exact hf
    simp only [hcond, Bool.false_eq_true, if_false]
    congr 1
    apply pressure_key p _ false
    · intro j
      rw [List.getD_eq_getElem?_getD, List.getElem?_map]
      by_cases hj : j + 1 < p.length
      · simp [List.getElem?_range (by omega : j < p.length - 1), hj, toFl] <;> (try (cases pressDelta p j <;> rfl))
      · have : (List.range (p.length - 1))[j]? = none := by simp; omega
        simp [this, hj] <;> (try (cases pressDelta p j <;> rfl))
    · simp
  | true =>
    have hcond : (Fl.sign (npMean ((List.range (p.length - 1)).map fun j => toFl (pressDelta p j)))).ltS 0 = true := by
      rw [hlt, ← pressFlip_eq]; exact hf
    obtain ⟨s, hv, hs⟩ : ∃ s, vsum ((List.range (p.length - 1)).map (pressDelta p)) = some s ∧ s < 0 := by
      rw [pressFlip_eq] at hf
      cases hv : vsum ((List.range (p.length - 1)).map (pressDelta p)) with
      | none => simp [hv, negSum] at hf
      | some s => exact ⟨s, rfl, by simpa [hv, negSum] using hf⟩
    have hsign := sign_of_neg _ s hv hs
    rw [← hmap] at hsign
    have hneg : (Fl.num (-1)).ltS 0 = true := by decide +kernel
    simp only [hsign, hneg, if_true]
    congr 1
    apply pressure_key p _ true
    · intro j
      rw [List.getD_eq_getElem?_getD]
      simp only [npMulS, List.getElem?_map]
      by_cases hj : j + 1 < p.length
      · simp [List.getElem?_range (by omega : j < p.length - 1), hj, toFl]
        cases pressDelta p j <;> simp [Fl.mul, Fl.lift2]
      · have : (List.range (p.length - 1))[j]? = none := by simp; omega
        simp [this, hj] <;> (try (cases pressDelta p j <;> rfl))
    · simp [npMulS]

/-! ## argo.speed_test -/

theorem setAt0_eq (fl : List Flag) (x : Flag) (h : 0 < fl.length) : setAt0 fl x = Except.ok (setFirst fl x) := by
  cases fl with
  | nil => simp at h
  | cons f r => rfl

/-- the body after the size checks (n ≥ 2) -/
def speedBody (sus fail : Rat) (lon lat : MArr) (ts : List Int) (hops : List V) : List Flag :=
  let fl := setWhere (ones lon.length) (band (maskOf lon) (maskOf lat)) .missing
  let dist := greatCircle hops lon.length
  let speed := setTail (zeros ts.length) (uf1 Fl.abs (maDivArr (tail1 dist) (dtSeconds ts)))
  let fl := setWhereB fl (gtS speed sus) .suspect
  let fl := setWhereB fl (gtS speed fail) .fail
  let fl := setFirst fl .unknown
  setWhere fl (maskOf dist) .missing

theorem getElem?_speedQ (hops : List V) (ts : List Int) (n : Nat) (hn : n = ts.length) (j : Nat) (h : j + 1 < n) :
    (uf1 Fl.abs (maDivArr (tail1 (greatCircle hops n)) (dtSeconds ts)))[j]? =
      some (let c := divCell (hopCell (hopAt hops (j + 1))) (((ts.getD (j + 1) 0 - ts.getD j 0 : Int) : Rat)); ⟨c.d.abs, c.m⟩) := by
  have hdt := getElem?_dtSeconds ts j (by omega)
  have hg := getElem?_greatCircle hops n (j + 1) h
  simp only [uf1, maDivArr, List.getElem?_map, List.getElem?_zipWith, getElem?_tail1, hg, hdt, Option.map_some]

theorem speedBody_eq (sus fail : Rat) (lon lat : List V) (ts : List Int) (hops : List V)
    (h1 : lon.length = lat.length) (h2 : lon.length = ts.length) (hn : 2 ≤ lon.length) :
    speedBody sus fail (ofInput lon) (ofInput lat) ts hops = (List.range lon.length).map (speedAt sus fail lon lat ts hops) := by
  apply List.ext_getElem?
  intro i
  have hzt : ts.length = lon.length := h2.symm
  generalize hQ : uf1 Fl.abs (maDivArr (tail1 (greatCircle hops lon.length)) (dtSeconds ts)) = Q
  have hlq : Q.length + 1 = (zeros lon.length).length := by
    subst hQ
    simp [uf1, maDivArr, length_tail1, length_dtSeconds, greatCircle, zeros, hzt]; omega
  have hsp := getElem?_setTail (zeros lon.length) Q i hlq
  have hbody : speedBody sus fail (ofInput lon) (ofInput lat) ts hops
      = setWhere (setFirst (setWhereB (setWhereB (setWhere (ones lon.length) (band (maskOf (ofInput lon)) (maskOf (ofInput lat))) .missing)
          (gtS (setTail (zeros lon.length) Q) sus) .suspect) (gtS (setTail (zeros lon.length) Q) fail) .fail) .unknown)
          (maskOf (greatCircle hops lon.length)) .missing := by
    simp only [speedBody, length_ofInput, hQ, hzt]
  rw [hbody]
  by_cases hi : i < lon.length
  · have hr : ((List.range lon.length).map (speedAt sus fail lon lat ts hops))[i]? = some (speedAt sus fail lon lat ts hops i) := by
      simp [List.getElem?_range hi]
    have hx := getElem?_getV lon i hi
    have hy := getElem?_getV lat i (by omega)
    have hgc := getElem?_greatCircle hops lon.length i hi
    rw [hr]
    cases i with
    | zero =>
      have h0 : 0 < lon.length := hi
      simp only [getElem?_setWhere, getElem?_setFirst, getElem?_setWhereB, getElem?_ones, hi, if_true, gtS, maskOf,
        List.getElem?_map, hsp, getElem?_ofInput, hx, hy, Option.map_some, getElem?_zeros, getElem?_band, hgc]
      cases hv : getV lon 0 <;> cases hw : getV lat 0 <;>
        simp [speedAt, overrides, cellOf, hv, hw, vgt, Fl.gtS, hopAt, hopCell]
    | succ j =>
      have hq := getElem?_speedQ hops ts lon.length h2 j hi
      rw [hQ] at hq
      simp only [getElem?_setWhere, getElem?_setFirst, getElem?_setWhereB, getElem?_ones, hi, if_true, gtS, maskOf,
        List.getElem?_map, hsp, getElem?_ofInput, hx, hy, Option.map_some, getElem?_zeros, getElem?_band, hgc,
        Nat.succ_ne_zero, if_false, Nat.add_sub_cancel, hq]
      cases hv : getV lon (j + 1) <;> cases hw : getV lat (j + 1) <;> cases hh : hopAt hops (j + 1) <;>
        simp [speedAt, overrides, cellOf, hv, hw, hh, vgt, Fl.gtS, Fl.divS, Fl.abs, Fl.isNan, divCell, hopCell] <;>
        (repeat' split) <;> simp_all
  · have hr : ((List.range lon.length).map (speedAt sus fail lon lat ts hops))[i]? = none := by simp; omega
    rw [hr, List.getElem?_eq_none_iff]
    simp [setWhere, setWhereB, maskOf, ones, length_ofInput, gtS, band, length_setFirst, greatCircle]
    omega

/-- The translator's `speed_test` is the pointwise model (`great_circle_distance` being the model input `hops`). -/
theorem C10_src_speed (lon lat : List V) (ts : List Int) (sus fail : Rat) (hops : List V) :
    speed_test lon lat ts sus fail hops = speedTest lon lat ts sus fail hops := by
  unfold speed_test speedTest
  by_cases hg : (lon.length != lat.length || lon.length != ts.length) = true
  · simp [length_ofInput, hg, bind, Except.bind, throw, throwThe, MonadExceptOf.throw]
  · have hg' : lon.length = lat.length ∧ lon.length = ts.length := by simpa using hg
    have h1 : lon.length = lat.length := hg'.1
    have h2 : lon.length = ts.length := hg'.2
    simp only [length_ofInput, hg, Bool.false_eq_true, if_false, bind, Except.bind, pure, Except.pure]
    by_cases h0 : lon.length = 0
    · simp [h0]
    · by_cases hlt : lon.length < 2
      · have h11 : lon.length = 1 := by omega
        have hpos : 0 < (setWhere (ones lon.length) (band (maskOf (ofInput lon)) (maskOf (ofInput lat))) .missing).length := by
          simp [length_setWhere, ones, band, maskOf, length_ofInput, ← h1]; omega
        have hone : setFirst (setWhere (ones lon.length) (band (maskOf (ofInput lon)) (maskOf (ofInput lat))) .missing) .unknown
            = [.unknown] := by
          have hl : (setWhere (ones lon.length) (band (maskOf (ofInput lon)) (maskOf (ofInput lat))) .missing).length = 1 := by
            simp [length_setWhere, ones, band, maskOf, length_ofInput, ← h1, h11]
          match hm : setWhere (ones lon.length) (band (maskOf (ofInput lon)) (maskOf (ofInput lat))) .missing, hl with
          | [f], _ => rfl
        simp [h0, hlt, setAt0_eq _ _ hpos, hone]
      · have hb := speedBody_eq sus fail lon lat ts hops h1 h2 (by omega)
        have hzt : ts.length = lon.length := h2.symm
        have hpos : 0 < (setWhereB (setWhereB (setWhere (ones lon.length) (band (maskOf (ofInput lon)) (maskOf (ofInput lat))) .missing)
            (gtS (setTail (zeros ts.length) (uf1 Fl.abs (maDivArr (tail1 (greatCircle hops lon.length)) (dtSeconds ts)))) sus) .suspect)
            (gtS (setTail (zeros ts.length) (uf1 Fl.abs (maDivArr (tail1 (greatCircle hops lon.length)) (dtSeconds ts)))) fail) .fail).length := by
          have hl : (setTail (zeros ts.length) (uf1 Fl.abs (maDivArr (tail1 (greatCircle hops lon.length)) (dtSeconds ts)))).length = lon.length := by
            rw [length_setTail]
            · simp [zeros, hzt]
            · simp [uf1, maDivArr, length_tail1, length_dtSeconds, greatCircle, zeros, hzt]; omega
          simp [length_setWhereB, length_setWhere, ones, band, maskOf, length_ofInput, gtS, hl, ← h1]; omega
        simp only [speedBody, length_ofInput] at hb
        simp [h0, hlt, setAt0_eq _ _ hpos, ← hb]

end IoosQc.NpSrc
