/-
  IoosQc.Theorems.NpSrc — the source-shaped transcriptions (`Model/NpSrc.lean`, the translator's
  output) compute the pointwise models of `Model/Tests.lean`:

    C03_src_gross   NpSrc.gross_range_test     = grossRange
    C09_src_spike   NpSrc.spike_test           = spikeTest
    C10_src_roc     NpSrc.rate_of_change_test  = rocTest

  through the structured array-level definitions of `Model/Np.lean` and the refinement theorems of
  `Theorems/NpRefine.lean`.
-/
import IoosQc.Model.NpSrc
import IoosQc.Theorems.NpRefine
set_option linter.unusedSimpArgs false
set_option linter.unusedVariables false

namespace IoosQc.NpSrc
open IoosQc.Np

theorem gross_eq_arr (inp : List V) (f : SeqArg) (s : Option SeqArg) : gross_range_test inp f s = grossArr f s inp := by
  unfold gross_range_test grossArr sortedSpan grossBody
  rcases f with ⟨fs, fv⟩
  rcases fv with _ | ⟨a, _ | ⟨b, _ | ⟨c, t⟩⟩⟩ <;> cases fs <;>
    simp [fixedLength, bind, Except.bind, pure, Except.pure, throw, throwThe, MonadExceptOf.throw]
  cases s with
  | none => simp [length_ofInput]
  | some s =>
    rcases s with ⟨ss, sv⟩
    rcases sv with _ | ⟨c, _ | ⟨d, _ | ⟨e, t⟩⟩⟩ <;> cases ss <;>
      simp [fixedLength, bind, Except.bind, pure, Except.pure, throw, throwThe, MonadExceptOf.throw, length_ofInput]

/-- The translator's `gross_range_test` is the pointwise model (hence C03, C01, C02, C15–C17 for it). -/
theorem C03_src_gross (inp : List V) (f : SeqArg) (s : Option SeqArg) : gross_range_test inp f s = grossRange f s inp := by
  rw [gross_eq_arr, C03_np_gross]

theorem roc_eq_arr (inp : List V) (ts : List Int) (thr : Rat) : rate_of_change_test inp ts thr = rocArr inp ts thr := by
  unfold rate_of_change_test rocArr rocBody
  by_cases h : inp.length = ts.length <;>
    simp [h, length_ofInput, bind, Except.bind, pure, Except.pure, throw, throwThe, MonadExceptOf.throw]

theorem C10_src_roc (inp : List V) (ts : List Int) (thr : Rat) : rate_of_change_test inp ts thr = rocTest inp ts thr := by
  rw [roc_eq_arr, C10_np_roc]

theorem length_spikeDiffAverage (a : MArr) : (spikeDiffAverage a).length = a.length := by
  cases a with
  | nil => simp [spikeDiffAverage, uf1, maBin]
  | cons x r => simp [spikeDiffAverage, uf1, maBin, maskedInvalid, zeros, setInner, maDivS, init2, tail2, List.replicate_succ]; omega

theorem length_spikeDiffDifferential (a : MArr) : (spikeDiffDifferential a).length = a.length := by
  cases a with
  | nil => simp [spikeDiffDifferential, zeros, setInner]
  | cons x r =>
    simp [spikeDiffDifferential, zeros, setInner, List.replicate_succ, setZeroWhereB, geS, maBin, tail1, init1, maDiff, uf2, uf1]

theorem spike_eq_arr (inp : List V) (sus fail : Option Rat) (method : String) :
    spike_test inp sus fail method = spikeArr method sus fail inp := by
  unfold spike_test spikeArr spikeFlags applyThr
  by_cases ha : method = "average"
  · have hl := length_spikeDiffAverage (ofInput inp)
    unfold spikeDiffAverage at hl
    cases sus <;> cases fail <;>
      simp [ha, spikeDiffAverage, hl, bind, Except.bind, pure, Except.pure, throw, throwThe, MonadExceptOf.throw]
  · by_cases hd : method = "differential"
    · have hl := length_spikeDiffDifferential (ofInput inp)
      unfold spikeDiffDifferential at hl
      cases sus <;> cases fail <;>
        simp [ha, hd, spikeDiffDifferential, hl, bind, Except.bind, pure, Except.pure, throw, throwThe, MonadExceptOf.throw]
    · simp [ha, hd, bind, Except.bind, pure, Except.pure, throw, throwThe, MonadExceptOf.throw]

theorem C09_src_spike (inp : List V) (sus fail : Option Rat) (method : String) :
    spike_test inp sus fail method = spikeTest method sus fail inp := by
  rw [spike_eq_arr, C09_np_spike]

/-- Non-vacuity: the leak is real.  With a missing predecessor the `diff` array holds |x| under
    the mask, the raw comparison flags it SUSPECT, and only the closing MISSING assignment makes
    the flag MISSING — the array-level run and the pointwise model agree. -/
example : (spike_test [some 1, none, some 100, some 1] (some 3) none "average").toOption
    = some [.unknown, .missing, .missing, .unknown] := by decide +kernel
example : (spikeDiffAverage (ofInput [some 1, none, some 100, some 1]))[2]? = some ⟨.num 100, true⟩ := by decide +kernel

end IoosQc.NpSrc
