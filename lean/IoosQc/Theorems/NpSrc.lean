/-
  IoosQc.Theorems.NpSrc — the source-shaped transcriptions (`Model/NpSrc.lean`, the translator's
  output) compute the pointwise models of `Model/Tests.lean`:

    C03_src_gross   NpSrc.gross_range_test     = grossRange
    C09_src_spike   NpSrc.spike_test           = spikeTest
    C10_src_roc     NpSrc.rate_of_change_test  = rocTest

  through the structured array-level definitions of `Model/Np.lean` and the refinement theorems of
  `Theorems/NpRefine.lean`.
-/
import IoosQc.Model.NpSrc
import IoosQc.Theorems.NpRefine
set_option linter.unusedSimpArgs false
set_option linter.unusedVariables false

namespace IoosQc.NpSrc
open IoosQc.Np

theorem gross_eq_arr (inp : List V) (f : SeqArg) (s : Option SeqArg) : gross_range_test inp f s = grossArr f s inp := by
  unfold gross_range_test grossArr sortedSpan grossBody
  rcases f with ⟨fs, fv⟩
  rcases fv with _ | ⟨a, _ | ⟨b, _ | ⟨c, t⟩⟩⟩ <;> cases fs <;>
    simp [fixedLength, bind, Except.bind, pure, Except.pure, throw, throwThe, MonadExceptOf.throw]
  cases s with
  | none => simp [length_ofInput]
  | some s =>
    rcases s with ⟨ss, sv⟩
    rcases sv with _ | ⟨c, _ | ⟨d, _ | ⟨e, t⟩⟩⟩ <;> cases ss <;>
      simp [fixedLength, bind, Except.bind, pure, Except.pure, throw, throwThe, MonadExceptOf.throw, length_ofInput]

/-- The translator's `gross_range_test` is the pointwise model (hence C03, C01, C02, C15–C17 for it). -/
theorem C03_src_gross (inp : List V) (f : SeqArg) (s : Option SeqArg) : gross_range_test inp f s = grossRange f s inp := by
  rw [gross_eq_arr, C03_np_gross]

theorem roc_eq_arr (inp : List V) (ts : List Int) (thr : Rat) : rate_of_change_test inp ts thr = rocArr inp ts thr := by
  unfold rate_of_change_test rocArr rocBody
  by_cases h : inp.length = ts.length <;>
    simp [h, length_ofInput, bind, Except.bind, pure, Except.pure, throw, throwThe, MonadExceptOf.throw]

theorem C10_src_roc (inp : List V) (ts : List Int) (thr : Rat) : rate_of_change_test inp ts thr = rocTest inp ts thr := by
  rw [roc_eq_arr, C10_np_roc]

theorem length_spikeDiffAverage (a : MArr) : (spikeDiffAverage a).length = a.length := by
  cases a with
  | nil => simp [spikeDiffAverage, uf1, maBin]
  | cons x r => simp [spikeDiffAverage, uf1, maBin, maskedInvalid, zeros, setInner, maDivS, init2, tail2, List.replicate_succ]; omega

theorem length_spikeDiffDifferential (a : MArr) : (spikeDiffDifferential a).length = a.length := by
  cases a with
  | nil => simp [spikeDiffDifferential, zeros, setInner]
  | cons x r =>
    simp [spikeDiffDifferential, zeros, setInner, List.replicate_succ, setZeroWhereB, geS, maBin, tail1, init1, maDiff, uf2, uf1]

theorem spike_eq_arr (inp : List V) (sus fail : Option Rat) (method : String) :
    spike_test inp sus fail method = spikeArr method sus fail inp := by
  unfold spike_test spikeArr spikeFlags applyThr
  by_cases ha : method = "average"
  · have hl := length_spikeDiffAverage (ofInput inp)
    unfold spikeDiffAverage at hl
    cases sus <;> cases fail <;>
      simp [ha, spikeDiffAverage, hl, bind, Except.bind, pure, Except.pure, throw, throwThe, MonadExceptOf.throw]
  · by_cases hd : method = "differential"
    · have hl := length_spikeDiffDifferential (ofInput inp)
      unfold spikeDiffDifferential at hl
      cases sus <;> cases fail <;>
        simp [ha, hd, spikeDiffDifferential, hl, bind, Except.bind, pure, Except.pure, throw, throwThe, MonadExceptOf.throw]
    · simp [ha, hd, bind, Except.bind, pure, Except.pure, throw, throwThe, MonadExceptOf.throw]

theorem C09_src_spike (inp : List V) (sus fail : Option Rat) (method : String) :
    spike_test inp sus fail method = spikeTest method sus fail inp := by
  rw [spike_eq_arr, C09_np_spike]

/-! ## location_test -/

theorem getElem?_band (a b : List Bool) (i : Nat) :
    (band a b)[i]? = match a[i]?, b[i]? with | some x, some y => some (x && y) | _, _ => none := by
  simp only [band, List.getElem?_zipWith]; cases a[i]? <;> cases b[i]? <;> rfl

theorem getElem?_bxor (a b : List Bool) (i : Nat) :
    (bxor a b)[i]? = match a[i]?, b[i]? with | some x, some y => some (x != y) | _, _ => none := by
  simp only [bxor, List.getElem?_zipWith]; cases a[i]? <;> cases b[i]? <;> rfl

theorem getElem?_bor (a b : BArr) (i : Nat) :
    (bor a b)[i]? = match a[i]?, b[i]? with | some x, some y => some ⟨x.d || y.d, x.m || y.m⟩ | _, _ => none := by
  simp only [bor, List.getElem?_zipWith]; cases a[i]? <;> cases b[i]? <;> rfl

theorem getElem?_ltS (a : MArr) (r : Rat) (i : Nat) : (ltS a r)[i]? = (a[i]?).map fun x => ⟨x.d.ltS r, x.m⟩ := by simp [ltS]
theorem getElem?_gtS (a : MArr) (r : Rat) (i : Nat) : (gtS a r)[i]? = (a[i]?).map fun x => ⟨x.d.gtS r, x.m⟩ := by simp [gtS]

theorem getElem?_greatCircle (hops : List V) (n i : Nat) (h : i < n) :
    (greatCircle hops n)[i]? = some (hopCell (hopAt hops i)) := by
  simp [greatCircle, List.getElem?_range h]

/-- The flag the array-level `location_test` body leaves at one position. -/
theorem location_flag (b : Box) (rm : Option Rat) (n i : Nat) (x y : V) (hops : List V) :
    (let f0 : Flag := .good
     let f1 := if ((cellOf x).m && (cellOf y).m) then Flag.missing else f0
     let f2 := if ((cellOf x).m != (cellOf y).m) then Flag.fail else f1
     let f3 := match rm with
       | some r => if decide (n > 1) && (hopCell (hopAt hops i)).d.gtS r then Flag.suspect else f2
       | none => f2
     if ((((cellOf x).d.ltS b.minx || (cellOf y).d.ltS b.miny) || (cellOf x).d.gtS b.maxx) || (cellOf y).d.gtS b.maxy) then Flag.fail
     else f3)
      = locationAt b rm n x y (hopAt hops i) := by
  cases x <;> cases y <;> cases rm <;> cases hh : hopAt hops i <;>
    simp [locationAt, overrides, cellOf, hopCell, outsideBox, vlt, vgt, Fl.ltS, Fl.gtS, hh] <;>
    (repeat' split) <;> simp_all

/-- The body of the translated `location_test` after the argument checks. -/
def locBody (b : Box) (rm : Option Rat) (hops : List V) (lon lat : MArr) : List Flag :=
  let f := setWhere (setWhere (ones lon.length) (band (maskOf lon) (maskOf lat)) .missing) (bxor (maskOf lon) (maskOf lat)) .fail
  let f := match rm with
    | some r => if lon.length > 1 then setWhereB f (gtS (greatCircle hops lon.length) r) .suspect else f
    | none => f
  setWhereB f (bor (bor (bor (ltS lon b.minx) (ltS lat b.miny)) (gtS lon b.maxx)) (gtS lat b.maxy)) .fail

theorem locBody_eq (b : Box) (rm : Option Rat) (hops : List V) (lon lat : List V) (hl : lon.length = lat.length) :
    locBody b rm hops (ofInput lon) (ofInput lat)
      = (List.range lon.length).map fun i => locationAt b rm lon.length (getV lon i) (getV lat i) (hopAt hops i) := by
  apply List.ext_getElem?
  intro i
  by_cases hi : i < lon.length
  · have hx := getElem?_getV lon i hi
    have hy := getElem?_getV lat i (by omega)
    have hgc := getElem?_greatCircle hops lon.length i hi
    rw [show ((List.range lon.length).map fun i =>
          locationAt b rm lon.length (getV lon i) (getV lat i) (hopAt hops i))[i]?
        = some (locationAt b rm lon.length (getV lon i) (getV lat i) (hopAt hops i)) by
      simp [List.getElem?_range hi]]
    rw [← location_flag]
    cases rm with
    | none =>
      simp only [locBody, getElem?_setWhereB, getElem?_setWhere, getElem?_ones, getElem?_band, getElem?_bxor, getElem?_bor,
        getElem?_ltS, getElem?_gtS, maskOf, List.getElem?_map, getElem?_ofInput, length_ofInput, hx, hy, hi, if_true,
        Option.map_some]
    | some r =>
      by_cases hn : lon.length > 1
      · simp only [locBody, hn, if_true, getElem?_setWhereB, getElem?_setWhere, getElem?_ones, getElem?_band, getElem?_bxor,
          getElem?_bor, getElem?_ltS, getElem?_gtS, maskOf, List.getElem?_map, getElem?_ofInput, length_ofInput, hx, hy, hi,
          hgc, Option.map_some, decide_true, Bool.true_and]
      · simp only [locBody, hn, if_false, getElem?_setWhereB, getElem?_setWhere, getElem?_ones, getElem?_band, getElem?_bxor,
          getElem?_bor, getElem?_ltS, getElem?_gtS, maskOf, List.getElem?_map, getElem?_ofInput, length_ofInput, hx, hy, hi,
          if_true, Option.map_some, decide_false, Bool.false_and]
        simp
  · have h1 : ((List.range lon.length).map fun i =>
        locationAt b rm lon.length (getV lon i) (getV lat i) (hopAt hops i))[i]? = none := by
      simp; omega
    rw [h1, List.getElem?_eq_none_iff]
    cases rm with
    | none => simp [locBody, setWhereB, setWhere, bor, ltS, gtS, maskOf, band, bxor, ones, length_ofInput, hl]; omega
    | some r =>
      by_cases hn : lon.length > 1 <;>
        simp [locBody, hn, setWhereB, setWhere, bor, ltS, gtS, maskOf, band, bxor, ones, length_ofInput, hl, greatCircle] <;> omega

theorem location_eq (lon lat : List V) (bbox : SeqArg) (rm : Option Rat) (hops : List V) :
    location_test lon lat bbox rm hops = locationTest lon lat bbox rm hops := by
  unfold location_test locationTest boxOf
  rcases bbox with ⟨bs, bv⟩
  rcases bv with _ | ⟨x0, _ | ⟨y0, _ | ⟨x1, _ | ⟨y1, _ | ⟨z, t⟩⟩⟩⟩⟩ <;> cases bs <;>
    simp [fixedLength, bind, Except.bind, pure, Except.pure, throw, throwThe, MonadExceptOf.throw]
  by_cases hl : lon.length = lat.length
  · have hb := locBody_eq ⟨x0, y0, x1, y1⟩ rm hops lon lat hl
    simp only [length_ofInput, hl, if_true]
    rw [← hl, ← hb]
    cases rm with
    | none => simp [locBody, length_ofInput, hl]
    | some r => by_cases hn : lat.length > 1 <;> simp [locBody, length_ofInput, hl, hn]
  · simp [hl, length_ofInput]

/-- The translator's `location_test` is the pointwise model (`great_circle_distance` being the model input `hops`). -/
theorem C14_src_location (lon lat : List V) (bbox : SeqArg) (rm : Option Rat) (hops : List V) :
    location_test lon lat bbox rm hops = locationTest lon lat bbox rm hops := location_eq lon lat bbox rm hops

/-- Non-vacuity: the leak is real.  With a missing predecessor the `diff` array holds |x| under
    the mask, the raw comparison flags it SUSPECT, and only the closing MISSING assignment makes
    the flag MISSING — the array-level run and the pointwise model agree. -/
example : (spike_test [some 1, none, some 100, some 1] (some 3) none "average").toOption
    = some [.unknown, .missing, .missing, .unknown] := by decide +kernel
example : (spikeDiffAverage (ofInput [some 1, none, some 100, some 1]))[2]? = some ⟨.num 100, true⟩ := by decide +kernel

end IoosQc.NpSrc
