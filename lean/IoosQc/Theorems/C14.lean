/-
  C14 — location_test: MISSING when both coordinates are missing, FAIL when exactly one is or
  the position is strictly outside the bounding box (edges are inside), else SUSPECT when the
  hop from the previous fully present position exceeds `range_max` (strictly), else GOOD.
  FAIL by the box overrides SUSPECT by the hop.

  The conformance theorem needs, besides the domain predicate `inDom` (range_max ≥ 0; hop list
  of length n−1 with non-negative entries), the harness invariant `hcons`: a hop distance is
  missing whenever one of its four coordinates is.  `inDom` alone does not imply it and the
  statement is false without it (`C14_needs_hcons` below is the machine-checked counterexample).
-/
import IoosQc.Lemmas.Basic
set_option linter.unusedSimpArgs false
set_option linter.unusedVariables false

namespace IoosQc

/-- The harness invariant on the supplied hop distances: `hops[j]` (distance from position `j`
    to position `j+1`) is missing whenever one of the four coordinates involved is missing. -/
def HopsConsistent (lon lat hops : List V) : Prop :=
  ∀ j, (getV lon j).isNone ∨ (getV lat j).isNone ∨ (getV lon (j+1)).isNone ∨ (getV lat (j+1)).isNone
    → getV hops j = none

/-- First position: no hop, so only the box and the missing-coordinate rules apply
    (needs `0 ≤ range_max`: the code compares the hop 0 against it). -/
theorem locationAt_spec_zero (b : Box) (rangeMax : Option Rat) (n : Nat) (lon lat hops : List V)
    (hr : ∀ r, rangeMax = some r → 0 ≤ r) :
    locationAt b rangeMax n (getV lon 0) (getV lat 0) (hopAt hops 0)
      ∈ locSpecAt b rangeMax lon lat hops 0 := by
  unfold locationAt locSpecAt overrides hopAt outsideBox vlt vgt
  cases hx : getV lon 0 <;> cases hy : getV lat 0 <;> cases rangeMax <;>
    simp [List.foldl] <;> grind

/-- Later positions. -/
theorem locationAt_spec_succ (b : Box) (rangeMax : Option Rat) (n : Nat) (lon lat hops : List V)
    (i : Nat) (hn : i + 1 < n)
    (hcons : HopsConsistent lon lat hops) :
    locationAt b rangeMax n (getV lon (i+1)) (getV lat (i+1)) (hopAt hops (i+1))
      ∈ locSpecAt b rangeMax lon lat hops (i+1) := by
  have h1n : 1 < n := by omega
  have hc := hcons i
  unfold locationAt locSpecAt overrides hopAt outsideBox vlt vgt
  simp only [Nat.add_sub_cancel, Nat.succ_ne_zero, if_false, h1n, decide_true, Bool.true_and]
  cases hx : getV lon (i+1) <;> cases hy : getV lat (i+1) <;>
    cases hp : getV lon i <;> cases hq : getV lat i <;>
    cases hd : getV hops i <;> cases rangeMax <;>
    simp_all [List.foldl] <;> grind

theorem locationAt_spec (b : Box) (rangeMax : Option Rat) (n : Nat) (lon lat hops : List V)
    (i : Nat) (hn : i < n)
    (hr : ∀ r, rangeMax = some r → 0 ≤ r)
    (hcons : HopsConsistent lon lat hops) :
    locationAt b rangeMax n (getV lon i) (getV lat i) (hopAt hops i)
      ∈ locSpecAt b rangeMax lon lat hops i := by
  cases i with
  | zero => exact locationAt_spec_zero b rangeMax n lon lat hops hr
  | succ k => exact locationAt_spec_succ b rangeMax n lon lat hops k hn hcons

/-- The domain predicate gives `0 ≤ range_max`. -/
theorem location_inDom_range (lon lat : List V) (bbox : SeqArg) (rangeMax : Option Rat) (hops : List V)
    (h : (TestCall.location lon lat bbox rangeMax hops).inDom = true) :
    ∀ r, rangeMax = some r → 0 ≤ r := by
  intro r hr
  subst hr
  simp [TestCall.inDom] at h
  exact h.2

/-- C14: location_test model conforms to the property sentence for every track, box argument,
    range_max and hop list in the domain, given hop distances consistent with the track
    (`hcons`, guaranteed by the harness; see `C14_needs_hcons` for why it cannot be dropped). -/
theorem C14_location (lon lat : List V) (bbox : SeqArg) (rangeMax : Option Rat) (hops : List V)
    (h : (TestCall.location lon lat bbox rangeMax hops).inDom = true) :
    conforms (locSpec lon lat bbox rangeMax hops) (locationTest lon lat bbox rangeMax hops).toObs = true := by
  have hcons := hcons_of_consistent lon lat hops (by
    simp only [TestCall.inDom, Bool.and_eq_true] at h; exact h.1.2)
  have hr := location_inDom_range lon lat bbox rangeMax hops h
  unfold locSpec locationTest fixedLength
  cases hseq : bbox.isSeq <;> simp [hseq, conforms, Res.toObs, bind, Except.bind, pure, Except.pure]
  match hv : bbox.vals with
  | [] => simp [hv, conforms, Res.toObs]
  | [_] => simp [hv, conforms, Res.toObs]
  | [_, _] => simp [hv, conforms, Res.toObs]
  | [_, _, _] => simp [hv, conforms, Res.toObs]
  | _ :: _ :: _ :: _ :: _ :: _ => simp [hv, conforms, Res.toObs]
  | [x0, y0, x1, y1] =>
    simp [hv]
    by_cases hl : lon.length = lat.length
    · simp [hl]
      have := conforms_flags_range lat.length
        (locSpecAt ⟨x0, y0, x1, y1⟩ rangeMax lon lat hops)
        (fun i => locationAt ⟨x0, y0, x1, y1⟩ rangeMax lat.length (getV lon i) (getV lat i) (hopAt hops i))
        (fun i hi => locationAt_spec _ rangeMax lat.length lon lat hops i hi hr hcons)
      simpa [conforms, Res.toObs] using this
    · simp [hl, conforms, Res.toObs, throw, throwThe, MonadExceptOf.throw]

/-! Consequences spelled out (each is a direct reading of the property text). -/

/-- A fully present position inside the box, edges included, is never FAIL, whatever the hop
    and `range_max`. -/
theorem C14_inside_not_fail (b : Box) (rangeMax : Option Rat) (n : Nat) (x y : Rat) (d : V)
    (hx0 : b.minx ≤ x) (hx1 : x ≤ b.maxx) (hy0 : b.miny ≤ y) (hy1 : y ≤ b.maxy) :
    locationAt b rangeMax n (some x) (some y) d ≠ .fail := by
  unfold locationAt overrides outsideBox vlt vgt
  cases rangeMax <;> cases d <;> simp [List.foldl] <;> grind

/-- Box edges are inside: `lon = minx` or `lon = maxx` does not FAIL when the latitude is
    inside, and `lat = miny` or `lat = maxy` does not FAIL when the longitude is inside. -/
theorem C14_box_edges (b : Box) (rangeMax : Option Rat) (n : Nat) (x y : Rat) (d : V)
    (hbx : b.minx ≤ b.maxx) (hby : b.miny ≤ b.maxy) :
    (b.miny ≤ y → y ≤ b.maxy →
      locationAt b rangeMax n (some b.minx) (some y) d ≠ .fail ∧
      locationAt b rangeMax n (some b.maxx) (some y) d ≠ .fail) ∧
    (b.minx ≤ x → x ≤ b.maxx →
      locationAt b rangeMax n (some x) (some b.miny) d ≠ .fail ∧
      locationAt b rangeMax n (some x) (some b.maxy) d ≠ .fail) := by
  refine ⟨fun h0 h1 => ⟨?_, ?_⟩, fun h0 h1 => ⟨?_, ?_⟩⟩
  · exact C14_inside_not_fail b rangeMax n _ _ d (Rat.le_refl) hbx h0 h1
  · exact C14_inside_not_fail b rangeMax n _ _ d hbx (Rat.le_refl) h0 h1
  · exact C14_inside_not_fail b rangeMax n _ _ d h0 h1 (Rat.le_refl) hby
  · exact C14_inside_not_fail b rangeMax n _ _ d h0 h1 hby (Rat.le_refl)

/-- The four corners of a (non-empty) box are GOOD when no hop limit applies. -/
theorem C14_corners_good (b : Box) (n : Nat) (d : V)
    (hbx : b.minx ≤ b.maxx) (hby : b.miny ≤ b.maxy) :
    locationAt b none n (some b.minx) (some b.miny) d = .good ∧
    locationAt b none n (some b.minx) (some b.maxy) d = .good ∧
    locationAt b none n (some b.maxx) (some b.miny) d = .good ∧
    locationAt b none n (some b.maxx) (some b.maxy) d = .good := by
  unfold locationAt overrides outsideBox vlt vgt
  simp [List.foldl]
  grind

/-- FAIL by the box overrides SUSPECT by the hop: a position strictly outside the box is FAIL
    whatever the hop distance and `range_max`. -/
theorem C14_fail_overrides_suspect (b : Box) (rangeMax : Option Rat) (n : Nat) (x y : Rat) (d : V)
    (hout : x < b.minx ∨ b.maxx < x ∨ y < b.miny ∨ b.maxy < y) :
    locationAt b rangeMax n (some x) (some y) d = .fail := by
  unfold locationAt overrides outsideBox vlt vgt
  cases rangeMax <;> cases d <;> simp [List.foldl] <;> grind

/-- In particular when the hop is over the limit. -/
theorem C14_fail_overrides_suspect' (b : Box) (r : Rat) (n : Nat) (x y h : Rat)
    (hn : 1 < n) (hhop : r < h)
    (hout : x < b.minx ∨ b.maxx < x ∨ y < b.miny ∨ b.maxy < y) :
    locationAt b (some r) n (some x) (some y) (some h) = .fail :=
  C14_fail_overrides_suspect b (some r) n x y (some h) hout

/-- Inside the box, a hop strictly over `range_max` is SUSPECT, a hop equal to it is GOOD. -/
theorem C14_hop_strict (b : Box) (r : Rat) (n : Nat) (x y h : Rat) (hn : 1 < n)
    (hx0 : b.minx ≤ x) (hx1 : x ≤ b.maxx) (hy0 : b.miny ≤ y) (hy1 : y ≤ b.maxy) :
    (r < h → locationAt b (some r) n (some x) (some y) (some h) = .suspect) ∧
    locationAt b (some r) n (some x) (some y) (some r) = .good := by
  unfold locationAt overrides outsideBox vlt vgt
  simp [List.foldl, hn]
  grind

/-- Exactly one coordinate missing is FAIL; both missing is MISSING (consistent hops: no hop). -/
theorem C14_missing_coords (b : Box) (rangeMax : Option Rat) (n : Nat) (v : Rat) :
    locationAt b rangeMax n (some v) none none = .fail ∧
    locationAt b rangeMax n none (some v) none = .fail ∧
    locationAt b rangeMax n none none none = .missing := by
  unfold locationAt overrides outsideBox vlt vgt
  cases rangeMax <;> simp [List.foldl]

/-! ### Why `hcons` and `0 ≤ range_max` are needed -/

/-- Machine-checked counterexample: a call inside `inDom` whose hop list carries a distance
    although the second position is entirely missing.  The model (like the code, which takes
    the distances as given) answers SUSPECT there, the property says MISSING. -/
theorem C14_needs_hcons :
    (TestCall.location [some 0, none] [some 0, none] ⟨true, [-10, -10, 10, 10]⟩ (some 1) [some 5]).inDom = false ∧
    (locationTest [some 0, none] [some 0, none] ⟨true, [-10, -10, 10, 10]⟩ (some 1) [some 5]).toObs
      = .flags [1, 3] ∧
    conforms (locSpec [some 0, none] [some 0, none] ⟨true, [-10, -10, 10, 10]⟩ (some 1) [some 5])
      (locationTest [some 0, none] [some 0, none] ⟨true, [-10, -10, 10, 10]⟩ (some 1) [some 5]).toObs
      = false := by
  decide +kernel

/-- Outside the domain (negative `range_max`) the first point, whose hop is 0, is SUSPECT. -/
theorem C14_needs_range_nonneg :
    (TestCall.location [some 0, some 0] [some 0, some 0] ⟨true, [-10, -10, 10, 10]⟩ (some (-1)) [some 0]).inDom = false ∧
    conforms (locSpec [some 0, some 0] [some 0, some 0] ⟨true, [-10, -10, 10, 10]⟩ (some (-1)) [some 0])
      (locationTest [some 0, some 0] [some 0, some 0] ⟨true, [-10, -10, 10, 10]⟩ (some (-1)) [some 0]).toObs
      = false := by
  decide +kernel

/-! ### Non-vacuity -/

/-- A concrete track exercising GOOD, SUSPECT (hop 7 > 6), FAIL by the box over SUSPECT by the
    hop (lon 20, hop 16), FAIL by one missing coordinate, MISSING, GOOD after a gap (no hop),
    and GOOD on a box corner with hop = range_max. -/
example : (locationTest [some 0, some 5, some 20, none, none, some 1, some 10]
    [some 0, some 5, some 0, some 3, none, some 1, some (-10)] ⟨true, [-10, -10, 10, 10]⟩ (some 6)
    [some 7, some 16, none, none, none, some 6]).toObs = .flags [1, 3, 4, 4, 9, 1, 1] := by
  decide +kernel

/-- The hypotheses of `C14_location` are satisfiable on that track (so the theorem is not
    vacuous): it is in the domain and its hop list is consistent. -/
example : conforms
    (locSpec [some 0, some 5, some 20, none, none, some 1, some 10]
      [some 0, some 5, some 0, some 3, none, some 1, some (-10)] ⟨true, [-10, -10, 10, 10]⟩ (some 6)
      [some 7, some 16, none, none, none, some 6])
    (locationTest [some 0, some 5, some 20, none, none, some 1, some 10]
      [some 0, some 5, some 0, some 3, none, some 1, some (-10)] ⟨true, [-10, -10, 10, 10]⟩ (some 6)
      [some 7, some 16, none, none, none, some 6]).toObs = true := by
  apply C14_location
  decide +kernel

/-- Malformed box arguments and unequal lengths are rejected. -/
example : (locationTest [some 0] [some 0] ⟨false, [0, 0, 1, 1]⟩ none []).toObs = .error .type ∧
    (locationTest [some 0] [some 0] ⟨true, [0, 0, 1]⟩ none []).toObs = .error .value ∧
    (locationTest [some 0] [some 0, some 1] ⟨true, [0, 0, 1, 1]⟩ none []).toObs = .error .value := by
  decide +kernel


end IoosQc
