/-
  C09 — spike_test: end points UNKNOWN, interior points classified by the spike magnitude
  (average / differential method) against the thresholds with strict comparisons, FAIL before
  SUSPECT; a missing observation is MISSING; unknown method string ⇒ ValueError.
-/
import IoosQc.Lemmas.Basic
set_option linter.unusedSimpArgs false
set_option linter.unusedVariables false

namespace IoosQc

theorem rmin_eq_lo2 (a b : Rat) : rmin a b = lo2 a b := rfl

/-- End positions: UNKNOWN, or MISSING when the value itself is missing. -/
theorem spikeAt_spec_end (m : SpikeMethod) (sus fail : Option Rat) (xs : List V) (i : Nat)
    (hi : i = 0 ∨ i + 1 = xs.length) :
    spikeAt m sus fail xs i ∈ spikeSpecAt m sus fail xs i := by
  unfold spikeAt spikeSpecAt spikeDiff overrides
  simp only [hi, if_true]
  cases hx : getV xs i <;> cases m <;> simp [List.foldl] <;> grind

/-- Interior positions. -/
theorem spikeAt_spec_mid (m : SpikeMethod) (sus fail : Option Rat) (xs : List V) (i : Nat)
    (hi : ¬ (i = 0 ∨ i + 1 = xs.length)) :
    spikeAt m sus fail xs i ∈ spikeSpecAt m sus fail xs i := by
  have h0 : ¬ i = 0 := fun h => hi (Or.inl h)
  have hn : ¬ i + 1 = xs.length := fun h => hi (Or.inr h)
  unfold spikeAt spikeSpecAt spikeDiff overrides spikeMag
  simp only [hi, if_false]
  cases hx : getV xs i with
  | none =>
    cases getV xs (i - 1) <;> simp [List.foldl]
  | some x =>
    cases hp : getV xs (i - 1) with
    | none => simp [anyFlag]
    | some p =>
      cases hq : getV xs (i + 1) with
      | none => simp [anyFlag]
      | some q =>
        cases m <;> cases sus <;> cases fail <;>
          simp [List.foldl, vgt, h0, hn, rmin_eq_lo2] <;> grind

theorem spikeAt_spec (m : SpikeMethod) (sus fail : Option Rat) (xs : List V) (i : Nat) :
    spikeAt m sus fail xs i ∈ spikeSpecAt m sus fail xs i := by
  by_cases hi : i = 0 ∨ i + 1 = xs.length
  · exact spikeAt_spec_end m sus fail xs i hi
  · exact spikeAt_spec_mid m sus fail xs i hi

/-- C09: for every method string, thresholds (each possibly absent) and series of any length,
    the model's output conforms to the property sentence. -/
theorem C09_spike (method : String) (sus fail : Option Rat) (inp : List V) :
    conforms (spikeSpec method sus fail inp) (spikeTest method sus fail inp).toObs = true := by
  unfold spikeSpec spikeTest
  by_cases h1 : method = "average"
  · simp only [h1, if_true]
    exact conforms_flags_range _ _ _ (fun i _ => spikeAt_spec .average sus fail inp i)
  · by_cases h2 : method = "differential"
    · subst h2
      simp only [h1, if_false, if_true]
      exact conforms_flags_range _ _ _ (fun i _ => spikeAt_spec .differential sus fail inp i)
    · simp [h1, h2, conforms, Res.toObs, throw, throwThe, MonadExceptOf.throw]

/-! Consequences spelled out (each is a direct reading of the property text). -/

/-- End points are UNKNOWN when present (whatever the thresholds and the method). -/
theorem C09_endpoints (m : SpikeMethod) (sus fail : Option Rat) (xs : List V) (i : Nat) (x : Rat)
    (hi : i = 0 ∨ i + 1 = xs.length) (hx : getV xs i = some x) :
    spikeAt m sus fail xs i = .unknown := by
  have h := spikeAt_spec_end m sus fail xs i hi
  unfold spikeSpecAt at h
  simpa [hi, hx] using h

/-- A missing interior observation is MISSING. -/
theorem C09_missing (m : SpikeMethod) (sus fail : Option Rat) (xs : List V) (i : Nat)
    (h0 : 0 < i) (hn : i + 1 < xs.length) (hx : getV xs i = none) :
    spikeAt m sus fail xs i = .missing := by
  have hi : ¬ (i = 0 ∨ i + 1 = xs.length) := by omega
  have h := spikeAt_spec_mid m sus fail xs i hi
  unfold spikeSpecAt at h
  simpa [hi, hx] using h

/-- A spike magnitude exactly equal to a threshold is not a spike (interior point, all three
    values present, average method): the comparisons are strict. -/
theorem C09_threshold_equality (sus fail : Option Rat) (xs : List V) (i : Nat) (p x q : Rat)
    (h0 : 0 < i) (hn : i + 1 < xs.length)
    (hp : getV xs (i-1) = some p) (hx : getV xs i = some x) (hq : getV xs (i+1) = some q)
    (hs : sus = some (rabs (x - (p+q)/2))) (hf : fail = some (rabs (x - (p+q)/2))) :
    spikeAt .average sus fail xs i = .good := by
  have hi : ¬ (i = 0 ∨ i + 1 = xs.length) := by omega
  have h := spikeAt_spec_mid .average sus fail xs i hi
  unfold spikeSpecAt at h
  simpa [hi, hx, hp, hq, hs, hf] using h

/-- The same for the differential method: thresholds equal to the magnitude do not flag. -/
theorem C09_threshold_equality_diff (sus fail : Option Rat) (xs : List V) (i : Nat) (p x q : Rat)
    (h0 : 0 < i) (hn : i + 1 < xs.length)
    (hp : getV xs (i-1) = some p) (hx : getV xs i = some x) (hq : getV xs (i+1) = some q)
    (d : Rat) (hd : spikeMag .differential (some p) (some x) (some q) = some d)
    (hs : sus = some d) (hf : fail = some d) :
    spikeAt .differential sus fail xs i = .good := by
  have hi : ¬ (i = 0 ∨ i + 1 = xs.length) := by omega
  have h0' : ¬ i = 0 := by omega
  have hn' : ¬ i + 1 = xs.length := by omega
  unfold spikeAt spikeDiff overrides
  simp [hi, h0', hn', hp, hx, hq, hd, hs, hf, vgt, List.foldl]

/-- FAIL takes precedence over SUSPECT: above both thresholds the flag is FAIL. -/
theorem C09_fail_over_suspect (s f : Rat) (xs : List V) (i : Nat) (p x q : Rat)
    (h0 : 0 < i) (hn : i + 1 < xs.length)
    (hp : getV xs (i-1) = some p) (hx : getV xs i = some x) (hq : getV xs (i+1) = some q)
    (hs : s < rabs (x - (p+q)/2)) (hf : f < rabs (x - (p+q)/2)) :
    spikeAt .average (some s) (some f) xs i = .fail := by
  have hi : ¬ (i = 0 ∨ i + 1 = xs.length) := by omega
  have h := spikeAt_spec_mid .average (some s) (some f) xs i hi
  unfold spikeSpecAt at h
  simpa [hi, hx, hp, hq, hs, hf] using h

/-- Unknown method is rejected with ValueError. -/
theorem C09_method (method : String) (sus fail : Option Rat) (inp : List V)
    (h1 : method ≠ "average") (h2 : method ≠ "differential") :
    spikeTest method sus fail inp = .error .value := by
  unfold spikeTest
  simp [h1, h2, throw, throwThe, MonadExceptOf.throw]

/-- Non-vacuity: a concrete call exercising UNKNOWN ends, FAIL and MISSING (missing value and
    missing neighbour). -/
example : (spikeTest "average" (some 1) (some 2)
    [some 1, some 5, some 1, some 2, none, some 1, some 1]).toObs
    = .flags [2, 4, 4, 9, 9, 9, 2] := by
  decide +kernel

/-- The differential method on the same series: the point after the spike is GOOD. -/
example : (spikeTest "differential" (some 1) (some 2)
    [some 1, some 5, some 1, some 2, none, some 1, some 1]).toObs
    = .flags [2, 4, 1, 9, 9, 9, 2] := by
  decide +kernel

/-- SUSPECT with magnitude = fail threshold (strict), GOOD, and a missing end point. -/
example : (spikeTest "average" (some 1) (some 2)
    [some 0, some 3, some 2, some 2, some 2, none]).toObs
    = .flags [2, 3, 1, 1, 9, 9] := by
  decide +kernel

/-- An unknown method string raises ValueError. -/
example : (spikeTest "median" (some 1) (some 2) [some 1, some 5, some 1]).toObs = .error .value := by
  decide +kernel


end IoosQc
