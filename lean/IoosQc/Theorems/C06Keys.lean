/-
  C06 — "exactly one result per (stream id, module, test)": the collection keys are the distinct
  keys of the yielded context results, each once, in order of first appearance.
-/
import IoosQc.Props.C06
set_option linter.unusedSimpArgs false
set_option linter.unusedVariables false

namespace IoosQc

private def keyStep (acc : List String) (c : CtxPiece) : List String :=
  if acc.contains c.key then acc else acc ++ [c.key]

private theorem keyFold_nodup (cs : List CtxPiece) (acc : List String) (h : acc.Nodup) :
    (cs.foldl keyStep acc).Nodup := by
  induction cs generalizing acc with
  | nil => simpa
  | cons c cs ih =>
    simp only [List.foldl_cons]
    apply ih
    unfold keyStep
    by_cases hc : acc.contains c.key = true
    · rw [if_pos hc]; exact h
    · rw [if_neg hc]
      rw [List.nodup_append]
      refine ⟨h, by simp, ?_⟩
      intro a ha b hb
      simp only [List.mem_singleton] at hb
      subst hb
      intro hab
      subst hab
      exact hc (by simpa using ha)

private theorem keyFold_mem (cs : List CtxPiece) (acc : List String) (k : String) :
    k ∈ cs.foldl keyStep acc ↔ k ∈ acc ∨ ∃ c ∈ cs, c.key = k := by
  induction cs generalizing acc with
  | nil => simp
  | cons c cs ih =>
    simp only [List.foldl_cons, ih, List.mem_cons, exists_eq_or_imp]
    unfold keyStep
    by_cases hc : acc.contains c.key = true
    · rw [if_pos hc]
      constructor
      · rintro (h | h)
        · exact Or.inl h
        · exact Or.inr (Or.inr h)
      · rintro (h | h | h)
        · exact Or.inl h
        · exact Or.inl (by rw [← h]; simpa using hc)
        · exact Or.inr h
    · rw [if_neg hc]
      simp only [List.mem_append, List.mem_singleton]
      constructor
      · rintro ((h | h) | h)
        · exact Or.inl h
        · exact Or.inr (Or.inl h.symm)
        · exact Or.inr (Or.inr h)
      · rintro (h | h | h)
        · exact Or.inl (Or.inl h)
        · exact Or.inl (Or.inr h.symm)
        · exact Or.inr h

/-- Each collection key occurs exactly once. -/
theorem C06_keys_nodup (cs : List CtxPiece) : (distinctKeys cs).Nodup := by
  have := keyFold_nodup cs [] (by simp)
  exact this

/-- A key is collected iff some yielded context result carries it. -/
theorem C06_keys_complete (cs : List CtxPiece) (k : String) :
    k ∈ distinctKeys cs ↔ ∃ c ∈ cs, c.key = k := by
  have := keyFold_mem cs [] k
  simp only [List.not_mem_nil, false_or] at this
  exact this

/-- The key set does not depend on the yield order. -/
theorem C06_keys_perm (cs ds : List CtxPiece) (h : cs.Perm ds) (k : String) :
    k ∈ distinctKeys cs ↔ k ∈ distinctKeys ds := by
  rw [C06_keys_complete, C06_keys_complete]
  constructor
  · rintro ⟨c, hc, rfl⟩; exact ⟨c, h.mem_iff.1 hc, rfl⟩
  · rintro ⟨c, hc, rfl⟩; exact ⟨c, h.mem_iff.2 hc, rfl⟩

end IoosQc
