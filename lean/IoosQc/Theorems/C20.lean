/-
  C20 — the stack machine computes ordinary arithmetic, whatever is already on the stack.
-/
import IoosQc.Props.C20
set_option linter.unusedSimpArgs false
set_option linter.unusedVariables false

namespace IoosQc

/-- Core lemma: evaluating the reversed postfix form of `e` on top of ANY remaining stack
    yields `e`'s value and leaves the remainder untouched (or fails iff `e` divides by zero). -/
theorem evalRev_compile (st : Stats) (e : Expr) :
    ∀ (fuel : Nat) (rest : List Tok), e.compile.length ≤ fuel →
      evalRev st fuel (e.compile.reverse ++ rest) = (e.eval st).map (fun v => (v, rest)) := by
  induction e with
  | num q =>
    intro fuel rest h
    cases fuel with
    | zero => simp [Expr.compile] at h
    | succ n => simp [Expr.compile, evalRev, Expr.eval]
  | stat s =>
    intro fuel rest h
    cases fuel with
    | zero => simp [Expr.compile] at h
    | succ n => simp [Expr.compile, evalRev, Expr.eval]
  | neg e ih =>
    intro fuel rest h
    cases fuel with
    | zero => simp [Expr.compile] at h
    | succ n =>
      have hl : e.compile.length ≤ n := by simp [Expr.compile] at h; omega
      simp only [Expr.compile, List.reverse_append, List.reverse_cons, List.reverse_nil,
        List.nil_append, List.cons_append, evalRev, Expr.eval]
      rw [ih n rest hl]
      cases e.eval st <;> simp
  | bin op a b iha ihb =>
    intro fuel rest h
    cases fuel with
    | zero => simp [Expr.compile] at h
    | succ n =>
      have hla : a.compile.length ≤ n := by simp [Expr.compile] at h; omega
      have hlb : b.compile.length ≤ n := by simp [Expr.compile] at h; omega
      simp only [Expr.compile, List.reverse_append, List.reverse_cons, List.reverse_nil,
        List.nil_append, List.cons_append, List.append_assoc, evalRev, Expr.eval]
      rw [ihb n (a.compile.reverse ++ rest) hlb]
      cases hb : b.eval st with
      | none => cases a.eval st <;> simp
      | some y =>
        simp only [Option.map_some]
        rw [iha n rest hla]
        cases ha : a.eval st with
        | none => simp
        | some x => cases op <;> simp <;> split <;> simp_all

/-- C20 (history independence + correctness): whatever earlier successful, failed or rejected
    evaluations left on the persistent stack (`pre` is arbitrary), `eval_fx` returns the ordinary
    arithmetic value of the expression, and fails exactly when it divides by zero. -/
theorem C20_eval_history (st : Stats) (pre : List Tok) (e : Expr) :
    evalFx st pre e = e.eval st := by
  unfold evalFx
  simp only [List.reverse_append]
  rw [evalRev_compile st e _ pre.reverse (by simp; omega)]
  cases e.eval st <;> simp

theorem C20_main (st : Stats) (pre : List Tok) (e : Expr) :
    C20.holdsEval st e (evalFxObs st pre e) = true := by
  unfold C20.holdsEval evalFxObs
  rw [C20_eval_history]
  cases e.eval st <;> simp

/-- Two different histories give the same answer. -/
theorem C20_history_irrelevant (st : Stats) (pre pre' : List Tok) (e : Expr) :
    evalFx st pre e = evalFx st pre' e := by
  rw [C20_eval_history, C20_eval_history]

/-- Left associativity and precedence are properties of the tree the parser builds; on the
    evaluator side: `8 / 2 / 2 = 2`, `1 + 2 * 3 = 7`, `2 - -3 = 5`, with junk on the stack. -/
example : evalFx ⟨0, 0, 0, 0⟩ [.op .add, .ident "oops", .num 7]
    (.bin .div (.bin .div (.num 8) (.num 2)) (.num 2)) = some 2 := by decide +kernel
example : evalFx ⟨0, 0, 0, 0⟩ [] (.bin .add (.num 1) (.bin .mul (.num 2) (.num 3))) = some 7 := by
  decide +kernel
example : evalFx ⟨1, 9, 4, 2⟩ [.uminus] (.bin .sub (.stat .mean) (.neg (.bin .mul (.num 3) (.stat .std)))) = some 10 := by
  decide +kernel
example : evalFx ⟨0, 0, 0, 0⟩ [] (.bin .div (.num 1) (.bin .sub (.num 2) (.num 2))) = none := by decide +kernel

/-- Validator examples (accepted / rejected), incl. Python float() literal oddities. -/
example : validFx "mean + 3 * std" = true := by decide +kernel
example : validFx "( max - min ) / 2.5e-1" = true := by decide +kernel
example : validFx "min+1" = false := by decide +kernel
example : validFx "mean  + 1" = false := by decide +kernel      -- double space: empty token
example : validFx "1_0 + .5 + nan + -inf" = true := by decide +kernel
example : validFx "1__0" = false := by decide +kernel
example : validFx "__import__('os')" = false := by decide +kernel

end IoosQc
