/-
  IoosQc.Theorems.NpSrc3 — `flat_line_test`: the source-shaped transcription (strided 2-D window of
  the raw data, masked row minima / maxima, `np.ma.filled`, `np.insert`, two inlined `run_test`
  calls) equals the pointwise model `flatLineTest`.

    C11_src_flat    NpSrc.flat_line_test = flatLineTest
-/
import IoosQc.Model.NpSrc
import IoosQc.Theorems.NpRefine
import IoosQc.Theorems.NpSrc2
set_option linter.unusedSimpArgs false
set_option linter.unusedVariables false

namespace IoosQc.NpSrc
open IoosQc.Np

/-- the unmasked numbers of one strided row are the present values of the window -/
theorem rowVals_window (xs : List V) (r k : Nat) :
    rowVals (maskedInvalid ((((ofInput xs).drop r).take (k + 1)).map fun c => ⟨c.d, false⟩)) = present ((xs.drop r).take (k + 1)) := by
  simp only [ofInput, ← List.map_drop, ← List.map_take, maskedInvalid, List.map_map, rowVals, present, List.filterMap_map]
  congr 1
  funext v
  cases v <;> simp [cellOf, Fl.isNan]

theorem getElem?_rollingWindow (xs : List V) (k r : Nat) (h : r + k < xs.length) :
    (rollingWindow (ofInput xs) k)[r]? =
      some (maskedInvalid ((((ofInput xs).drop r).take (k + 1)).map fun c => ⟨c.d, false⟩)) := by
  simp only [rollingWindow, List.getElem?_map, length_ofInput]
  rw [List.getElem?_range (by omega)]
  rfl

theorem length_rollingWindow (a : MArr) (k : Nat) : (rollingWindow a k).length = a.length - k := by
  simp [rollingWindow]

/-- one inlined `run_test` call -/
def runTest (inp : MArr) (D : Int) (tol : Rat) (flag_arr : List Flag) (thr : Rat) (x : Flag) : List Flag :=
  let count := flatCount thr D
  let window := rollingWindow inp count
  let data_range := uf1 Fl.abs (maBin Fl.sub (rowMax window) (rowMin window))
  setWhere flag_arr (insertFalse (min inp.length count) (filledFalse (ltS data_range tol))) x

def ltOpt (o : Option Rat) (tol : Rat) : Bool := match o with | some r => decide (r < tol) | none => false

theorem flatHit_eq (xs : List V) (k : Nat) (tol : Rat) (i : Nat) :
    flatHit xs k tol i = (decide (k ≤ i) && ltOpt (spread (present (windowEnding xs i k))) tol) := by
  unfold flatHit ltOpt; cases spread (present (windowEnding xs i k)) <;> rfl

theorem spread_cell (vs : List Rat) (tol : Rat) :
    (let c := binCell Fl.sub (optCell (lmax vs)) (optCell (lmin vs)); !c.m && (Fl.abs c.d).ltS tol)
      = ltOpt (spread vs) tol := by
  cases vs with
  | nil => simp [lmax, lmin, optCell, binCell, spread, ltOpt]
  | cons v vs => simp [lmax, lmin, optCell, binCell, spread, Fl.sub, Fl.lift2, Fl.abs, Fl.ltS, ltOpt]

theorem getElem?_testResults (xs : List V) (k : Nat) (tol : Rat) (i : Nat) (hi : i < xs.length) :
    (insertFalse (min (ofInput xs).length k)
        (filledFalse (ltS (uf1 Fl.abs (maBin Fl.sub (rowMax (rollingWindow (ofInput xs) k)) (rowMin (rollingWindow (ofInput xs) k)))) tol)))[i]?
      = some (flatHit xs k tol i) := by
  simp only [insertFalse, length_ofInput, List.getElem?_append, List.length_replicate]
  by_cases hk : k ≤ i
  · have h1 : ¬ i < min xs.length k := by omega
    have hmin : min xs.length k = k := by omega
    simp only [h1, if_false, hmin]
    have hw := getElem?_rollingWindow xs k (i - k) (by omega)
    simp only [filledFalse, ltS, uf1, List.getElem?_map, getElem?_maBin, rowMax, rowMin, hw, Option.map_some, rowVals_window]
    have hs := spread_cell (present ((xs.drop (i - k)).take (k + 1))) tol
    simp only [flatHit_eq, hk, decide_true, Bool.true_and, windowEnding, Nat.not_lt.mpr hk, if_false]
    rw [← hs]
  · have h1 : i < min xs.length k := by omega
    have h2 : i < k := by omega
    simp only [h1, if_true, List.getElem?_replicate, flatHit_eq, hk, decide_false, Bool.false_and, h2]

theorem length_testResults (xs : List V) (k : Nat) (tol : Rat) :
    (insertFalse (min (ofInput xs).length k)
        (filledFalse (ltS (uf1 Fl.abs (maBin Fl.sub (rowMax (rollingWindow (ofInput xs) k)) (rowMin (rollingWindow (ofInput xs) k)))) tol))).length
      = xs.length := by
  simp [insertFalse, filledFalse, ltS, uf1, maBin, rowMax, rowMin, length_rollingWindow, length_ofInput]
  omega

theorem getElem?_runTest (xs : List V) (D : Int) (tol : Rat) (fl : List Flag) (thr : Rat) (x : Flag) (i : Nat)
    (hi : i < xs.length) :
    (runTest (ofInput xs) D tol fl thr x)[i]? = (fl[i]?).map fun f => if flatHit xs (flatCount thr D) tol i then x else f := by
  simp only [runTest, getElem?_setWhere, getElem?_testResults xs _ tol i hi]
  cases fl[i]? <;> rfl

theorem length_runTest (xs : List V) (D : Int) (tol : Rat) (fl : List Flag) (thr : Rat) (x : Flag) (h : fl.length = xs.length) :
    (runTest (ofInput xs) D tol fl thr x).length = xs.length := by
  simp only [runTest, length_setWhere, length_testResults, h]; omega

/-- The translator's `flat_line_test` is the pointwise model. -/
theorem C11_src_flat (inp : List V) (ts : List Int) (sus fail tol : Rat) :
    flat_line_test inp ts sus fail tol = flatLineTest inp ts sus fail tol := by
  unfold flat_line_test flatLineTest
  by_cases h3 : inp.length < 3
  · simp only [length_ofInput, h3, if_true, bind, Except.bind, pure, Except.pure]
    congr 1
    apply List.ext_getElem?
    intro i
    simp only [getElem?_setWhere, getElem?_ones, maskOf, List.getElem?_map, getElem?_ofInput]
    by_cases hi : i < inp.length
    · simp only [hi, if_true, List.getElem?_eq_getElem hi, Option.map_some]
      cases inp[i] <;> simp [cellOf, overrides]
    · have : inp[i]? = none := by simp; omega
      simp [hi, this]
  · simp only [length_ofInput, h3, if_false, bind, Except.bind, pure, Except.pure]
    congr 1
    have hbody : ∀ (fl : List Flag) (thr : Rat) (x : Flag),
        setWhere fl (insertFalse (min inp.length (flatCount thr (medianStep ts)))
          (filledFalse (ltS (uf1 Fl.abs (maBin Fl.sub (rowMax (rollingWindow (ofInput inp) (flatCount thr (medianStep ts))))
            (rowMin (rollingWindow (ofInput inp) (flatCount thr (medianStep ts)))))) tol))) x
          = runTest (ofInput inp) (medianStep ts) tol fl thr x := by
      intro fl thr x; simp only [runTest, length_ofInput]
    simp only [hbody]
    apply List.ext_getElem?
    intro i
    by_cases hi : i < inp.length
    · have hr : ((List.range inp.length).map (flatAt (flatCount sus (medianStep ts)) (flatCount fail (medianStep ts)) tol inp))[i]?
          = some (flatAt (flatCount sus (medianStep ts)) (flatCount fail (medianStep ts)) tol inp i) := by
        simp [List.getElem?_range hi]
      rw [hr, getElem?_setWhere, getElem?_runTest inp _ tol _ fail .fail i hi, getElem?_runTest inp _ tol _ sus .suspect i hi,
        getElem?_ones]
      simp only [hi, if_true, Option.map_some, maskOf, List.getElem?_map, getElem?_ofInput, getElem?_getV inp i hi]
      cases hv : getV inp i <;> simp [flatAt, overrides, cellOf, hv]
    · have hr : ((List.range inp.length).map (flatAt (flatCount sus (medianStep ts)) (flatCount fail (medianStep ts)) tol inp))[i]? = none := by
        simp; omega
      rw [hr, List.getElem?_eq_none_iff, length_setWhere, length_runTest inp _ _ _ _ _ (length_runTest inp _ _ _ _ _ (by simp [ones]))]
      omega

end IoosQc.NpSrc
