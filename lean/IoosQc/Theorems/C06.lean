/-
  C06 — collected results put every context's flags back on the right input rows, whatever the
  number of contexts and the order in which they were yielded.
-/
import IoosQc.Props.C06
set_option linter.unusedSimpArgs false
set_option linter.unusedVariables false
namespace IoosQc

theorem rankAt_zero (ms : List Bool) : rankAt ms 0 = 0 := by simp [rankAt]
theorem rankAt_cons_true_succ (ms : List Bool) (i : Nat) : rankAt (true :: ms) (i + 1) = rankAt ms i + 1 := by
  simp [rankAt]
theorem rankAt_cons_false_succ (ms : List Bool) (i : Nat) : rankAt (false :: ms) (i + 1) = rankAt ms i := by
  simp [rankAt]

/-- a selected row's rank is a valid index into the context's values -/
theorem rankAt_lt_count (mask : List Bool) (i : Nat) (h : mask.getD i false = true) :
    rankAt mask i < mask.count true := by
  induction mask generalizing i with
  | nil => simp at h
  | cons m ms ih =>
    cases i with
    | zero =>
      have : m = true := by simpa using h
      subst this
      simp [rankAt_zero]
    | succ j =>
      have h' : ms.getD j false = true := by simpa using h
      have := ih j h'
      cases m
      · simpa [rankAt_cons_false_succ] using this
      · simpa [rankAt_cons_true_succ] using this

/-- numpy boolean-mask assignment never changes the length of the target -/
theorem scatter_length (acc : List (Option Int)) (mask : List Bool) (vals : List Int) :
    (scatter acc mask vals).length = acc.length := by
  induction acc generalizing mask vals with
  | nil => simp [scatter]
  | cons a as ih =>
    cases mask with
    | nil => simp [scatter]
    | cons m ms =>
      cases m with
      | false => simp [scatter, ih]
      | true => cases vals <;> simp [scatter, ih]

/-- pointwise characterisation of numpy boolean-mask assignment -/
theorem scatter_getD (acc : List (Option Int)) (mask : List Bool) (vals : List Int) (i : Nat)
    (hm : mask.length = acc.length) (hv : vals.length = mask.count true) :
    (scatter acc mask vals).getD i none
      = if mask.getD i false then (vals[rankAt mask i]?) else acc.getD i none := by
  induction acc generalizing mask vals i with
  | nil =>
    cases mask with
    | nil => simp [scatter]
    | cons m ms => simp at hm
  | cons a as ih =>
    cases mask with
    | nil => simp at hm
    | cons m ms =>
      have hm' : ms.length = as.length := by simpa using hm
      cases m with
      | false =>
        have hv' : vals.length = ms.count true := by simpa using hv
        cases i with
        | zero => simp [scatter]
        | succ j => simpa [scatter, rankAt_cons_false_succ] using ih ms vals j hm' hv'
      | true =>
        cases vals with
        | nil => simp at hv
        | cons v vs =>
          have hv' : vs.length = ms.count true := by simpa using hv
          cases i with
          | zero => simp [scatter, rankAt_zero]
          | succ j => simpa [scatter, rankAt_cons_true_succ] using ih ms vs j hm' hv'


theorem Piece.wf_iff (n : Nat) (p : Piece) :
    p.wf n = true ↔ p.mask.length = n ∧ p.vals.length = p.mask.count true := by
  simp [Piece.wf]

theorem Piece.valueAt_covers (p : Piece) (i : Nat) (v : Int) (h : p.valueAt i = some v) :
    p.mask.getD i false = true := by
  unfold Piece.valueAt at h
  split at h
  · assumption
  · simp at h

/-- One well-formed context scattered into the accumulator: a covered row is overwritten with the
    context's value, an uncovered row is left alone. -/
theorem scatter_piece (n : Nat) (p : Piece) (hw : p.wf n = true) (acc : List (Option Int))
    (ha : acc.length = n) (i : Nat) :
    (scatter acc p.mask p.vals).getD i none = (p.valueAt i).or (acc.getD i none) := by
  obtain ⟨h1, h2⟩ := (Piece.wf_iff n p).1 hw
  rw [scatter_getD acc p.mask p.vals i (by omega) h2]
  unfold Piece.valueAt
  by_cases hc : p.mask.getD i false = true
  · have hlt := rankAt_lt_count p.mask i hc
    have : rankAt p.mask i < p.vals.length := by omega
    rw [if_pos hc, if_pos hc, List.getElem?_eq_getElem this]
    rfl
  · rw [if_neg hc, if_neg hc]
    rfl

theorem coveredValue_nil (i : Nat) : coveredValue [] i = none := by simp [coveredValue]

theorem coveredValue_cons (p : Piece) (ps : List Piece) (i : Nat) :
    coveredValue (p :: ps) i = (coveredValue ps i).or (p.valueAt i) := by
  unfold coveredValue
  cases h : p.valueAt i with
  | none => simp [List.filterMap_cons, h]
  | some v =>
    simp only [List.filterMap_cons, h, List.getLast?_cons]
    cases (List.filterMap (fun x => x.valueAt i) ps).getLast? <;> simp

theorem foldl_scatter_length (n : Nat) (ps : List Piece) (acc : List (Option Int)) (ha : acc.length = n) :
    (ps.foldl (fun acc p => scatter acc p.mask p.vals) acc).length = n := by
  induction ps generalizing acc with
  | nil => simpa using ha
  | cons p ps ih => simpa using ih _ (by rw [scatter_length]; exact ha)

/-- The fold over all contexts, from an arbitrary accumulator. -/
theorem foldl_scatter_getD (n : Nat) (ps : List Piece) (hw : ∀ p ∈ ps, p.wf n = true)
    (acc : List (Option Int)) (ha : acc.length = n) (i : Nat) :
    (ps.foldl (fun acc p => scatter acc p.mask p.vals) acc).getD i none
      = (coveredValue ps i).or (acc.getD i none) := by
  induction ps generalizing acc with
  | nil => simp [coveredValue_nil]
  | cons p ps ih =>
    have hwp : p.wf n = true := hw p (by simp)
    have hws : ∀ q ∈ ps, q.wf n = true := fun q hq => hw q (by simp [hq])
    rw [List.foldl_cons, ih hws _ (by rw [scatter_length]; exact ha), scatter_piece n p hwp acc ha,
      coveredValue_cons, Option.or_assoc]

theorem C06_getD_map_of_lt {α β : Type} (f : α → β) (l : List α) (i : Nat) (d : β) (d' : α)
    (h : i < l.length) : (l.map f).getD i d = f (l.getD i d') := by
  simp [List.getD_eq_getElem?_getD, List.getElem?_map, List.getElem?_eq_getElem h]

theorem C06_collect_length (n : Nat) (ps : List Piece) : (collectColumn n ps).length = n :=
  foldl_scatter_length n ps _ (by simp)

/-- C06 main (list form): whatever the number of contexts and their yield order, a row covered by a
    context carries that context's value at the row's rank, an uncovered row stays masked. -/
theorem C06_collect_spec (n : Nat) (ps : List Piece) (hw : ∀ p ∈ ps, p.wf n = true) (i : Nat) (hi : i < n) :
    (collectColumn n ps).getD i none = coveredValue ps i := by
  unfold collectColumn
  rw [foldl_scatter_getD n ps hw _ (by simp) i]
  simp [hi]

theorem C06_dict_length (n : Nat) (ps : List Piece) : (collectDict n ps).length = n := by
  unfold collectDict
  rw [List.length_map]
  exact foldl_scatter_length n ps _ (by simp)

/-- dict form agrees with the list form on covered rows and is UNKNOWN (2) elsewhere -/
theorem C06_dict_spec (n : Nat) (ps : List Piece) (hw : ∀ p ∈ ps, p.wf n = true) (i : Nat) (hi : i < n) :
    (collectDict n ps).getD i 0 = (coveredValue ps i).getD 2 := by
  unfold collectDict
  have hlen := foldl_scatter_length n ps (List.replicate n (some 2)) (by simp)
  have h := foldl_scatter_getD n ps hw (List.replicate n (some 2)) (by simp) i
  rw [C06_getD_map_of_lt _ _ _ 0 none (by omega), h]
  cases coveredValue ps i <;> simp [hi]


/-- Row `i` is not selected by both masks. -/
def notBothAt (i : Nat) (a b : Piece) : Prop :=
  ¬ (a.mask.getD i false = true ∧ b.mask.getD i false = true)

theorem disjointMasks_at (a b : List Bool) (h : disjointMasks a b = true) (i : Nat) :
    ¬ (a.getD i false = true ∧ b.getD i false = true) := by
  induction a generalizing b i with
  | nil => simp
  | cons x xs ih =>
    cases b with
    | nil => simp
    | cons y ys =>
      simp only [disjointMasks, List.zipWith_cons_cons, List.all_cons, Bool.and_eq_true] at h
      cases i with
      | zero =>
        intro hc
        have hx : x = true := by simpa using hc.1
        have hy : y = true := by simpa using hc.2
        subst hx; subst hy
        simp at h
      | succ j =>
        have := ih ys (by simpa [disjointMasks] using h.2) j
        simpa using this

theorem pairwiseDisjoint_pairwise (ps : List Piece) (h : pairwiseDisjoint ps = true) (i : Nat) :
    ps.Pairwise (notBothAt i) := by
  induction ps with
  | nil => exact List.Pairwise.nil
  | cons p ps ih =>
    simp only [pairwiseDisjoint, Bool.and_eq_true, List.all_eq_true] at h
    refine List.Pairwise.cons ?_ (ih h.2)
    intro q hq
    exact disjointMasks_at p.mask q.mask (h.1 q hq) i

/-- With at most one context covering row `i`, the covered value is the value of any covering context. -/
theorem coveredValue_eq_some_iff (ps : List Piece) (i : Nat) (hd : ps.Pairwise (notBothAt i)) (v : Int) :
    coveredValue ps i = some v ↔ ∃ p ∈ ps, p.valueAt i = some v := by
  induction ps generalizing v with
  | nil => simp [coveredValue_nil]
  | cons p ps ih =>
    rw [List.pairwise_cons] at hd
    have ih' := ih hd.2 v
    rw [coveredValue_cons]
    constructor
    · intro h
      cases hc : coveredValue ps i with
      | none =>
        rw [hc] at h
        exact ⟨p, by simp, by simpa using h⟩
      | some v' =>
        rw [hc] at h
        have hv : v' = v := by simpa using h
        subst hv
        obtain ⟨q, hq, hqv⟩ := ih'.1 hc
        exact ⟨q, by simp [hq], hqv⟩
    · rintro ⟨q, hq, hqv⟩
      rcases List.mem_cons.1 hq with rfl | hq'
      · cases hc : coveredValue ps i with
        | none => simpa using hqv
        | some v' =>
          exfalso
          obtain ⟨q', hq', hqv'⟩ := (ih hd.2 v').1 hc
          exact hd.1 q' hq' ⟨Piece.valueAt_covers _ i v hqv, Piece.valueAt_covers q' i v' hqv'⟩
      · rw [ih'.2 ⟨q, hq', hqv⟩]
        rfl


theorem notBothAt_symm (i : Nat) {a b : Piece} (h : notBothAt i a b) : notBothAt i b a :=
  fun hc => h ⟨hc.2, hc.1⟩

/-- For disjoint windows the covered value does not depend on the listing order. -/
theorem coveredValue_perm (ps qs : List Piece) (hp : ps.Perm qs) (hd : pairwiseDisjoint ps = true)
    (i : Nat) : coveredValue ps i = coveredValue qs i := by
  have h1 := pairwiseDisjoint_pairwise ps hd i
  have h2 : qs.Pairwise (notBothAt i) := (hp.pairwise_iff (fun h => notBothAt_symm i h)).1 h1
  apply Option.ext
  intro v
  rw [coveredValue_eq_some_iff ps i h1 v, coveredValue_eq_some_iff qs i h2 v]
  constructor
  · rintro ⟨p, hp', hv⟩
    exact ⟨p, hp.mem_iff.1 hp', hv⟩
  · rintro ⟨p, hp', hv⟩
    exact ⟨p, hp.mem_iff.2 hp', hv⟩

/-- for disjoint windows the outcome does not depend on the order in which contexts were listed or
    yielded -/
theorem C06_order_independent (n : Nat) (ps qs : List Piece) (hp : ps.Perm qs)
    (hw : ∀ p ∈ ps, p.wf n = true) (hd : pairwiseDisjoint ps = true) :
    collectColumn n ps = collectColumn n qs := by
  have hwq : ∀ q ∈ qs, q.wf n = true := fun q hq => hw q (hp.mem_iff.2 hq)
  apply List.ext_getElem
  · rw [C06_collect_length, C06_collect_length]
  · intro i h1 h2
    have hi : i < n := by rw [C06_collect_length] at h1; exact h1
    have e1 := C06_collect_spec n ps hw i hi
    have e2 := C06_collect_spec n qs hwq i hi
    rw [List.getD_eq_getElem?_getD, List.getElem?_eq_getElem h1] at e1
    rw [List.getD_eq_getElem?_getD, List.getElem?_eq_getElem h2] at e2
    simp only [Option.getD_some] at e1 e2
    rw [e1, e2, coveredValue_perm ps qs hp hd i]

/-- the dict form is order independent too -/
theorem C06_dict_order_independent (n : Nat) (ps qs : List Piece) (hp : ps.Perm qs)
    (hw : ∀ p ∈ ps, p.wf n = true) (hd : pairwiseDisjoint ps = true) :
    collectDict n ps = collectDict n qs := by
  have hwq : ∀ q ∈ qs, q.wf n = true := fun q hq => hw q (hp.mem_iff.2 hq)
  apply List.ext_getElem
  · rw [C06_dict_length, C06_dict_length]
  · intro i h1 h2
    have hi : i < n := by rw [C06_dict_length] at h1; exact h1
    have e1 := C06_dict_spec n ps hw i hi
    have e2 := C06_dict_spec n qs hwq i hi
    rw [List.getD_eq_getElem?_getD, List.getElem?_eq_getElem h1] at e1
    rw [List.getD_eq_getElem?_getD, List.getElem?_eq_getElem h2] at e2
    simp only [Option.getD_some] at e1 e2
    rw [e1, e2, coveredValue_perm ps qs hp hd i]

/-- the observation-level predicates hold of the model -/
theorem C06_main (n : Nat) (ps : List Piece) (hw : ∀ p ∈ ps, p.wf n = true) (strict : Bool) :
    C06.columnOk n ps strict (collectColumn n ps) = true ∧ C06.dictOk n ps (collectDict n ps) = true := by
  constructor
  · unfold C06.columnOk
    simp only [Bool.and_eq_true, beq_iff_eq, List.all_eq_true, List.mem_range]
    refine ⟨C06_collect_length n ps, ?_⟩
    intro i hi
    have e := C06_collect_spec n ps hw i hi
    have hlt : i < (collectColumn n ps).length := by rw [C06_collect_length]; exact hi
    have e0 : (collectColumn n ps).getD i (some 0) = (collectColumn n ps).getD i none := by
      simp [List.getD_eq_getElem?_getD, List.getElem?_eq_getElem hlt]
    rw [e0, e]
    cases coveredValue ps i <;> simp
  · unfold C06.dictOk
    simp only [Bool.and_eq_true, beq_iff_eq, List.all_eq_true, List.mem_range]
    exact ⟨C06_dict_length n ps, fun i hi => C06_dict_spec n ps hw i hi⟩


/-! Non-vacuity: three contexts over 6 rows — rows 0,1 / an empty window / rows 3,4; rows 2 and 5
    are covered by nobody. -/
section Examples

private def pA : Piece := ⟨[true, true, false, false, false, false], [11, 12]⟩
private def pE : Piece := ⟨[false, false, false, false, false, false], []⟩
private def pB : Piece := ⟨[false, false, false, true, true, false], [31, 32]⟩

example : (∀ p ∈ [pA, pE, pB], p.wf 6 = true) ∧ pairwiseDisjoint [pA, pE, pB] = true := by decide
example : collectColumn 6 [pA, pE, pB] = [some 11, some 12, none, some 31, some 32, none] := by decide
example : collectDict 6 [pA, pE, pB] = [11, 12, 2, 31, 32, 2] := by decide
example : collectColumn 6 [pB, pA, pE] = [some 11, some 12, none, some 31, some 32, none] := by decide
example : collectDict 6 [pB, pA, pE] = [11, 12, 2, 31, 32, 2] := by decide
example : (List.range 6).map (coveredValue [pA, pE, pB]) = [some 11, some 12, none, some 31, some 32, none] := by
  decide
example : C06.columnOk 6 [pA, pE, pB] true (collectColumn 6 [pB, pE, pA]) = true
    ∧ C06.dictOk 6 [pA, pE, pB] (collectDict 6 [pB, pE, pA]) = true := by decide
/-- the predicates reject a misplaced value and an unmasked uncovered row -/
example : C06.columnOk 6 [pA, pE, pB] true [some 12, some 11, none, some 31, some 32, none] = false := by decide
example : C06.columnOk 6 [pA, pE, pB] true [some 11, some 12, some 1, some 31, some 32, none] = false := by decide
example : C06.dictOk 6 [pA, pE, pB] [11, 12, 2, 31, 32, 1] = false := by decide
/-- the disjointness hypothesis of `C06_order_independent` is needed: with overlapping windows the
    context yielded last wins -/
example : collectColumn 2 [⟨[true, true], [1, 2]⟩, ⟨[false, true], [7]⟩] = [some 1, some 7]
    ∧ collectColumn 2 [⟨[false, true], [7]⟩, ⟨[true, true], [1, 2]⟩] = [some 1, some 2] := by decide

end Examples

end IoosQc
