/-
  C11 — flat_line_test flags a point when the last ⌊threshold / step⌋ + 1 points stayed within
  the tolerance.  The code-shaped model (median time step through `Array.qsort`, integer floor
  division of the truncated threshold, |max − min| of the present window values, numpy-style
  overrides) satisfies the property sentence on every in-domain call: any series length, any
  strictly increasing axis (regular or not), any non-negative thresholds, any tolerance.
-/
import IoosQc.Lemmas.C11Helpers
set_option linter.unusedSimpArgs false
set_option linter.unusedVariables false

namespace IoosQc

/-- Mapping over a series is mapping over its index range. -/
theorem map_eq_range_map {β : Type} (xs : List V) (f : V → β) :
    xs.map f = (List.range xs.length).map (fun i => f (getV xs i)) := by
  apply List.ext_getElem
  · simp
  · intro i h1 h2
    have hi : i < xs.length := by simpa using h1
    simp [getV, List.getD_eq_getElem?_getD, hi]

/-- Fewer than three points: GOOD / MISSING only. -/
theorem flatShort_spec (reg : Option Int) (sus fail tol : Rat) (xs : List V) (i : Nat)
    (hn : xs.length < 3) :
    overrides .good [((getV xs i).isNone, .missing)] ∈ flatSpecAt reg sus fail tol xs i := by
  unfold flatSpecAt overrides
  cases getV xs i <;> simp [hn]

/-- C11: flat_line_test model conforms to the property sentence: on a regularly sampled series
    (step D ≥ 1 s) a present point n is FAIL iff n ≥ k_f = ⌊fail/D⌋ and (max − min of the present
    values among the k_f+1 points ending at n) < tolerance, else SUSPECT likewise with k_s, else
    GOOD; missing ⇒ MISSING; fewer than 3 points ⇒ never SUSPECT/FAIL; irregular axes: spec only
    constrains to {GOOD,SUSPECT,FAIL}/MISSING. -/
theorem C11_flat (inp : List V) (ts : List Int) (sus fail tol : Rat)
    (h : (TestCall.flatLine inp ts sus fail tol).inDom = true) :
    conforms (flatSpec inp ts sus fail tol) (flatLineTest inp ts sus fail tol).toObs = true := by
  unfold flatSpec flatLineTest
  simp only []
  by_cases hn : inp.length < 3
  · simp only [hn, if_true, pure, Except.pure]
    rw [map_eq_range_map inp (fun x => overrides .good [(x.isNone, .missing)])]
    exact conforms_flags_range _ _ _ (fun i _ => flatShort_spec _ sus fail tol inp i hn)
  · simp only [hn, if_false, pure, Except.pure]
    apply conforms_flags_range
    intro i _
    cases hd : diffs ts with
    | nil => exact flatAt_any sus fail tol inp i _ _ hn
    | cons D rest =>
      simp only []
      by_cases hreg : regularStep ts D = true ∧ 1 ≤ D
      · obtain ⟨hr, hD⟩ := hreg
        simp only [hr, hD, decide_true, Bool.and_self, if_true]
        rw [medianStep_regular ts D rest hd hr]
        exact flatAt_spec D hD sus fail tol inp i _ _ (flatCount_eq sus D hD) (flatCount_eq fail D hD) hn
      · have : (regularStep ts D && decide (1 ≤ D)) = false := by
          cases hr : regularStep ts D <;> simp_all
        simp only [this]
        exact flatAt_any sus fail tol inp i _ _ hn

/-! Consequences spelled out (each is a direct reading of the property text). -/

/-- (a) Fewer than three points: every present point is GOOD, every missing one MISSING, whatever
    the thresholds, the tolerance and the time axis. -/
theorem C11_short (inp : List V) (ts : List Int) (sus fail tol : Rat) (hn : inp.length < 3) :
    flatLineTest inp ts sus fail tol =
      .ok (inp.map fun x => match x with | some _ => Flag.good | none => Flag.missing) := by
  unfold flatLineTest overrides
  simp only [hn, if_true, pure, Except.pure]
  congr 1
  apply List.map_congr_left
  intro x _
  cases x <;> simp

/-- (b) FAIL overrides SUSPECT: a present point whose fail window is flat is FAIL even when its
    suspect window is flat too. -/
theorem C11_fail_over_suspect (ks kf : Nat) (tol : Rat) (xs : List V) (i : Nat) (v : Rat)
    (hv : getV xs i = some v) (hf : flatWindowBelow xs kf tol i = true) :
    flatAt ks kf tol xs i = .fail := by
  unfold flatAt overrides
  simp [flatHit_eq, hv, hf]

/-- … and SUSPECT needs the fail window *not* flat. -/
theorem C11_suspect_iff (ks kf : Nat) (tol : Rat) (xs : List V) (i : Nat) (v : Rat)
    (hv : getV xs i = some v) :
    flatAt ks kf tol xs i = .suspect ↔
      (flatWindowBelow xs ks tol i = true ∧ flatWindowBelow xs kf tol i = false) := by
  unfold flatAt overrides
  simp only [flatHit_eq, hv]
  cases flatWindowBelow xs ks tol i <;> cases flatWindowBelow xs kf tol i <;> simp

/-- A missing point is MISSING whatever its windows look like. -/
theorem C11_missing (ks kf : Nat) (tol : Rat) (xs : List V) (i : Nat) (hv : getV xs i = none) :
    flatAt ks kf tol xs i = .missing := by
  unfold flatAt overrides
  simp [hv]

/-- (c) Strict comparison: a tolerance equal to the range of the window does not flag. -/
theorem C11_tolerance_equal_no_hit (xs : List V) (k i : Nat) (v : Rat) (vs : List Rat)
    (hw : present (windowEnding xs i k) = v :: vs) :
    flatHit xs k (vs.foldl rmax v - vs.foldl rmin v) i = false := by
  rw [flatHit_eq]
  unfold flatWindowBelow
  simp [hw]

/-- (d) A window holding only missing values does not flag. -/
theorem C11_all_missing_no_hit (xs : List V) (k i : Nat) (tol : Rat)
    (hw : ∀ x ∈ windowEnding xs i k, x = none) : flatHit xs k tol i = false := by
  have hp : present (windowEnding xs i k) = [] := by
    unfold present
    rw [List.filterMap_eq_nil_iff]
    intro x hx
    simp [hw x hx]
  unfold flatHit
  simp [hp, spread, lmax]

/-- The window is not long enough before index `k`: no hit. -/
theorem C11_early_no_hit (xs : List V) (k i : Nat) (tol : Rat) (hi : i < k) :
    flatHit xs k tol i = false := by
  unfold flatHit
  have : ¬ k ≤ i := by omega
  simp [this]

/-- The step of a regular axis is recovered by the median, so the counts the model uses are the
    ⌊threshold / step⌋ of the property text. -/
theorem C11_counts (ts : List Int) (D : Int) (rest : List Int) (thr : Rat)
    (hd : diffs ts = D :: rest) (hr : regularStep ts D = true) (hD : 1 ≤ D) :
    flatCount thr (medianStep ts) = ((thr / (D : Rat)).floor).toNat := by
  rw [medianStep_regular ts D rest hd hr, flatCount_eq thr D hD]

/-- Non-vacuity: one-minute sampling, suspect after 2 min (3 points), fail after 3 min
    (4 points), tolerance 1/2: exercises GOOD, SUSPECT and FAIL, and the reset after a jump. -/
example : (flatLineTest
    [some 1, some 1, some 1, some 1, some 1, some 2, some 2, some 2, some 2, some 5, some 5]
    [0, 60, 120, 180, 240, 300, 360, 420, 480, 540, 600] 120 180 (1/2)).toObs
    = .flags [1, 1, 3, 4, 4, 1, 1, 3, 4, 1, 1] := by
  have hm : medianStep [0, 60, 120, 180, 240, 300, 360, 420, 480, 540, 600] = 60 :=
    medianStep_regular _ 60 (List.replicate 9 60) (by decide +kernel) (by decide +kernel)
  unfold flatLineTest
  simp only [hm]
  decide +kernel

/-- … and the spec pins exactly these flags down (regular axis, every position a singleton). -/
example : (match flatSpec
    [some 1, some 1, some 1, some 1, some 1, some 2, some 2, some 2, some 2, some 5, some 5]
    [0, 60, 120, 180, 240, 300, 360, 420, 480, 540, 600] 120 180 (1/2) with
    | .flags al => al == [[.good], [.good], [.suspect], [.fail], [.fail], [.good], [.good],
                          [.suspect], [.fail], [.good], [.good]]
    | .reject _ => false) = true := by
  decide +kernel

end IoosQc
