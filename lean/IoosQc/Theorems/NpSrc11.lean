/-
  IoosQc.Theorems.NpSrc11 — `fx_parser.evaluate_stack` / `eval_fx`: the source-shaped transcription
  (`Model/NpFx.lean`: `s.pop()`, the tuple test, the chain of `if` / `elif` on the popped string, `opn[op](op1, op2)`
  with op2 popped FIRST, `float(op)`) run on a stack of strings computes what the model `evalRev` computes on the
  tokens those strings stand for.

    classify                  which model token a stack entry stands for (none: outside the property's grammar)
    C20_src_eval              evaluate_stack on classified stacks = evalRev (value, rest, and raising alike)
    C20_src_evalFx            eval_fx (the copy of the whole persistent stack, reversed) = evalFx
    C20_src_history           … and therefore the ordinary arithmetic value, whatever was pushed before
-/
import IoosQc.Model.NpFx
import IoosQc.Theorems.C20
set_option linter.unusedSimpArgs false
set_option linter.unusedVariables false

namespace IoosQc.NpFx
open IoosQc IoosQc.NpSrc

def pfDemo' (s : String) : Option Rat := if s == "2.5" then some (5 / 2) else none

def opTok : Op2 → Option Tok
  | .add => some (.op .add)
  | .sub => some (.op .sub)
  | .mul => some (.op .mul)
  | .truediv => some (.op .div)
  | .pow => none

/-- The model token a stack entry stands for.  `none`: an entry outside the grammar of the property
    (function calls, `PI`, `E`, `^`, strings that are longer pieces of "+-*/^"). -/
def classify (pyFloat : String → Option Rat) : SE → Option Tok
  | .call _ _ => none
  | .str op =>
    if op == "unary -" then some .uminus
    else if strIn op "+-*/^" then
      (match lookupOp opn op with
       | .ok o => opTok o
       | .error _ => none)
    else if op == "PI" then none
    else if op == "E" then none
    else if op == "mean" then some (.stat .mean)
    else if op == "min" then some (.stat .min)
    else if op == "max" then some (.stat .max)
    else if op == "std" then some (.stat .std)
    else if fnNames.contains op then none
    else
      match alpha0 op with
      | .error _ => none
      | .ok true => some (.ident op)
      | .ok false =>
        match pyFloat op with
        | some q => some (.num q)
        | none => some (.ident op)          -- `float(op)` raises ValueError: an error like any unknown identifier

/-- entry-wise: the stack of strings stands for the stack of tokens -/
def Stands (pyFloat : String → Option Rat) : List SE → List Tok → Prop
  | [], [] => True
  | se :: r, t :: r' => classify pyFloat se = some t ∧ Stands pyFloat r r'
  | _, _ => False

/-- what `evalRev` says about the transcription's outcome -/
def Agrees (pf : String → Option Rat) (res : FxR (Rat × List SE)) (m : Option (Rat × List Tok)) : Prop :=
  match m with
  | none => res = .error .raised
  | some (v, r') => ∃ r, res = .ok (v, r) ∧ Stands pf r r'

theorem C20_src_eval (pf : String → Option Rat) (st : Stats) :
    ∀ (fuel : Nat) (stack : List SE) (toks : List Tok), Stands pf stack toks →
      Agrees pf (tie (evaluate_stack pf st.get) fuel stack) (evalRev st fuel toks) := by
  intro fuel
  induction fuel with
  | zero => intro stack toks _; simp [tie, evalRev, Agrees]
  | succ fuel ih =>
    intro stack toks hs
    match stack, toks, hs with
    | [], [], _ => simp [tie, evaluate_stack, evalRev, Agrees, pop, bind, Except.bind]
    | se :: r, t :: r', ⟨hc, hr⟩ =>
      cases se with
      | call n k => simp [classify] at hc
      | str op =>
        simp only [classify] at hc
        split at hc
        · rename_i h1
          have ht : t = .uminus := by simpa using hc.symm
          subst ht
          have := ih r r' hr
          simp only [tie, evaluate_stack, pop, untuple, bind, Except.bind, h1, if_true, evalRev]
          cases hm : evalRev st fuel r' with
          | none => rw [hm] at this; simp only [Agrees] at this ⊢; rw [this]
          | some p =>
            obtain ⟨v, rr⟩ := p
            rw [hm] at this
            obtain ⟨r1, he, hs1⟩ := this
            rw [he]
            exact ⟨r1, rfl, hs1⟩
        · rename_i h1
          split at hc
          · rename_i h2
            have hx := ih r r' hr
            simp only [tie, evaluate_stack, pop, untuple, bind, Except.bind, h1, h2, if_true, if_false, evalRev]
            simp only [Bool.false_eq_true, if_false]
            cases hl : lookupOp opn op with
            | error e => rw [hl] at hc; simp at hc
            | ok o =>
              rw [hl] at hc
              simp only at hc
              cases hm : evalRev st fuel r' with
              | none =>
                rw [hm] at hx; simp only [Agrees] at hx
                rw [hx]
                cases o <;> simp [opTok] at hc <;> subst hc <;> simp [Agrees, hm]
              | some p =>
                obtain ⟨y, r1'⟩ := p
                rw [hm] at hx
                obtain ⟨r1, he, hs1⟩ := hx
                rw [he]
                have hx2 := ih r1 r1' hs1
                cases hm2 : evalRev st fuel r1' with
                | none =>
                  rw [hm2] at hx2; simp only [Agrees] at hx2
                  simp only [hx2]
                  cases o <;> simp [opTok] at hc <;> subst hc <;> simp [Agrees, hm, hm2]
                | some p2 =>
                  obtain ⟨x, r2'⟩ := p2
                  rw [hm2] at hx2
                  obtain ⟨r2, he2, hs2⟩ := hx2
                  simp only [he2]
                  cases o <;> simp [opTok] at hc <;> subst hc <;> simp [Agrees, hm, hm2, Op2.app, pure, Except.pure]
                  · exact hs2
                  · exact hs2
                  · exact hs2
                  · by_cases hy : y = 0 <;> simp [hy, hs2]
          · rename_i h2
            simp only [tie, evaluate_stack, pop, untuple, bind, Except.bind, h1, h2, if_true, if_false, evalRev, Bool.false_eq_true]
            repeat' split at hc
            all_goals (first | (exfalso; simp at hc; done) | (simp only [Option.some.injEq] at hc; subst hc; simp_all [Agrees, pure, Except.pure, fromFloat]))


theorem Stands.length_eq {pf : String → Option Rat} : ∀ {xs : List SE} {ts : List Tok}, Stands pf xs ts → xs.length = ts.length
  | [], [], _ => rfl
  | _ :: r, _ :: r', ⟨_, h⟩ => by simp [Stands.length_eq h]

theorem Stands.append {pf : String → Option Rat} : ∀ {xs : List SE} {ts : List Tok} {ys : List SE} {us : List Tok},
    Stands pf xs ts → Stands pf ys us → Stands pf (xs ++ ys) (ts ++ us)
  | [], [], _, _, _, h => by simpa using h
  | _ :: r, _ :: r', _, _, ⟨hc, h⟩, h' => ⟨hc, Stands.append h h'⟩

theorem Stands.reverse {pf : String → Option Rat} : ∀ {xs : List SE} {ts : List Tok},
    Stands pf xs ts → Stands pf xs.reverse ts.reverse
  | [], [], _ => by simp [Stands]
  | x :: r, t :: r', ⟨hc, h⟩ => by
    simp only [List.reverse_cons]
    exact Stands.append (Stands.reverse h) ⟨hc, trivial⟩

def ofOpt (o : Option Rat) : FxR Rat :=
  match o with
  | some v => .ok v
  | none => .error .raised

/-- `eval_fx` after the parse: the whole persistent stack (whatever earlier parses left, then this expression's
    postfix form, as strings) evaluates to what the model `evalFx` says — a value, or an exception. -/
theorem C20_src_evalFx (pf : String → Option Rat) (st : Stats) (exprStack : List SE) (pre : List Tok) (e : Expr)
    (h : Stands pf exprStack (pre ++ e.compile)) :
    eval_fx pf st.get exprStack = ofOpt (evalFx st pre e) := by
  have hl := h.length_eq
  have ha := C20_src_eval pf st (exprStack.length + 1) exprStack.reverse (pre ++ e.compile).reverse h.reverse
  unfold eval_fx evalFx
  rw [hl] at ha ⊢
  simp only [bind, Except.bind]
  cases hm : evalRev st ((pre ++ e.compile).length + 1) (pre ++ e.compile).reverse with
  | none =>
    rw [hm] at ha; simp only [Agrees] at ha
    rw [ha]; rfl
  | some p =>
    obtain ⟨v, r'⟩ := p
    rw [hm] at ha
    obtain ⟨r, he, _⟩ := ha
    rw [he]; rfl

/-- … and therefore the ordinary arithmetic value of the expression, independent of anything pushed before it
    (ZeroDivisionError exactly when the expression divides by zero). -/
theorem C20_src_history (pf : String → Option Rat) (st : Stats) (exprStack : List SE) (pre : List Tok) (e : Expr)
    (h : Stands pf exprStack (pre ++ e.compile)) :
    eval_fx pf st.get exprStack = ofOpt (e.eval st) := by
  rw [C20_src_evalFx pf st exprStack pre e h, C20_eval_history]

/-- the strings the parse actions push for the operator, unary-minus and statistic tokens -/
def symbolOf : Tok → Option String
  | .uminus => some "unary -"
  | .op .add => some "+"
  | .op .sub => some "-"
  | .op .mul => some "*"
  | .op .div => some "/"
  | .stat .min => some "min"
  | .stat .max => some "max"
  | .stat .mean => some "mean"
  | .stat .std => some "std"
  | _ => none

/-- every operator / statistic token of the model is what its own symbol stands for, whatever `float` does -/
theorem C20_src_symbols (pf : String → Option Rat) (t : Tok) (s : String) (h : symbolOf t = some s) :
    classify pf (.str s) = some t := by
  cases t with
  | num q => simp [symbolOf] at h
  | ident n => simp [symbolOf] at h
  | uminus => simp [symbolOf] at h; subst h; rfl
  | op o => cases o <;> simp [symbolOf] at h <;> subst h <;> rfl
  | stat n => cases n <;> simp [symbolOf] at h <;> subst h <;> rfl

/-- a string that is none of the reserved words, does not begin with a letter and that `float` accepts stands for that number;
    one that begins with a letter (and is not reserved) or that `float` rejects stands for an "invalid identifier": evaluation raises -/
theorem C20_src_numeral (pf : String → Option Rat) (s : String) (q : Rat)
    (h0 : (s == "unary -") = false) (h1 : strIn s "+-*/^" = false)
    (h2 : (s == "PI") = false ∧ (s == "E") = false ∧ (s == "mean") = false ∧ (s == "min") = false ∧ (s == "max") = false ∧ (s == "std") = false)
    (h3 : fnNames.contains s = false) (h4 : alpha0 s = .ok false) (h5 : pf s = some q) :
    classify pf (.str s) = some (.num q) := by
  obtain ⟨a, b, c, d, e, f⟩ := h2
  have h3' : ¬ s ∈ fnNames := by simpa using h3
  simp [classify, h0, h1, a, b, c, d, e, f, h3', h4, h5]

example : classify pfDemo' (.str "2.5") = some (.num (5 / 2)) := by decide +kernel

/-! non-vacuity: a stack of strings with junk from a failed parse below `mean + 3 * std` -/
def pfDemo (s : String) : Option Rat := if s == "3" then some 3 else none

example : Stands pfDemo [.str "oops", .str "+", .str "mean", .str "3", .str "std", .str "*", .str "+"]
    ([.ident "oops", .op .add] ++ (Expr.bin .add (.stat .mean) (.bin .mul (.num 3) (.stat .std))).compile) := by
  repeat' constructor
  all_goals decide +kernel

example : eval_fx pfDemo (Stats.get ⟨0, 9, 5, 2⟩) [.str "oops", .str "+", .str "mean", .str "3", .str "std", .str "*", .str "+"]
    = .ok 11 := by
  have : (eval_fx pfDemo (Stats.get ⟨0, 9, 5, 2⟩) [.str "oops", .str "+", .str "mean", .str "3", .str "std", .str "*", .str "+"]).toOption
      = some 11 := by decide +kernel
  revert this
  cases eval_fx pfDemo (Stats.get ⟨0, 9, 5, 2⟩) [.str "oops", .str "+", .str "mean", .str "3", .str "std", .str "*", .str "+"] <;> simp [Except.toOption]

end IoosQc.NpFx
