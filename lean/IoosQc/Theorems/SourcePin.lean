/-
  Source pins — theorems about TABLES, quantified over every table that passes a decidable check.

  The harness (harness/extract.py) reads a few literal tables out of /repo's current source with
  Python's `ast` on every run (the flag codes of `QartodFlags`, the priority list of
  `qartod_compare`, the two character classes and the prefix of `cf_safe_name`, the operator
  table of `fx_parser`), writes them into a small generated Lean file and lets the kernel check,
  by `decide`, that they pass the checks below.  The theorems here then say what follows for the
  code that uses such a table: e.g. ANY priority list that is sorted by precedence and mentions
  the four non-MISSING flags aggregates to the worst flag (`C04_pin_priorities`), so a reordered
  or shortened list in the source breaks a proof obligation, while a harmless one (MISSING left
  out, an entry repeated) does not.
-/
import IoosQc.Theorems.C04
import IoosQc.Model.Store
import IoosQc.Model.Fx
import IoosQc.Model.Defaults
import IoosQc.Model.Tests
import IoosQc.Model.Config
import IoosQc.Model.Streams
import IoosQc.Theorems.C05
set_option linter.unusedSimpArgs false
set_option linter.unusedVariables false

namespace IoosQc.Pin

/-! ### Flag codes (`class QartodFlags`) -/

/-- The source's table agrees with `Flag.code` and names every flag. -/
def flagCodesOk (t : List (Flag × Nat)) : Bool :=
  t.all (fun e => e.1.code == e.2) &&
  [Flag.good, .unknown, .suspect, .fail, .missing].all (fun f => t.any (fun e => e.1 == f))

theorem flagCodes_sound (t : List (Flag × Nat)) (h : flagCodesOk t = true) :
    (∀ e ∈ t, e.1.code = e.2) ∧ (∀ f : Flag, ∃ e ∈ t, e.1 = f ∧ e.2 = f.code) := by
  unfold flagCodesOk at h
  simp only [Bool.and_eq_true, List.all_eq_true, beq_iff_eq, List.any_eq_true] at h
  refine ⟨fun e he => h.1 e he, fun f => ?_⟩
  have hf : f ∈ [Flag.good, .unknown, .suspect, .fail, .missing] := by cases f <;> simp
  obtain ⟨e, he, hef⟩ := h.2 f hf
  exact ⟨e, he, hef, by rw [← hef]; exact (h.1 e he).symm⟩

/-! ### Priority list of `qartod_compare` -/

/-- `qartod_compare` at one position, for an arbitrary priority table. -/
def aggregateWith (ps : List Flag) (col : List Cell) : Flag :=
  ps.foldl (fun acc p => passFor p acc col) .missing

theorem aggregateWith_priorities (col : List Cell) : aggregateWith priorities col = compareAt col := rfl

def sortedByRank : List Flag → Bool
  | [] => true
  | p :: ps => ps.all (fun q => p.rank ≤ q.rank) && sortedByRank ps

/-- Sorted by precedence (repetitions allowed) and mentioning the four flags above MISSING. -/
def prioritiesOk (ps : List Flag) : Bool :=
  sortedByRank ps && [Flag.unknown, .good, .suspect, .fail].all (fun f => ps.contains f)

private theorem lastHit_spec (col : List Cell) :
    ∀ (ps : List Flag) (init : Flag), sortedByRank ps = true → (∀ p ∈ ps, init.rank ≤ p.rank) →
      ((ps.foldl (fun acc p => passFor p acc col) init = init ∨
          (ps.foldl (fun acc p => passFor p acc col) init ∈ ps ∧
            Cell.flag (ps.foldl (fun acc p => passFor p acc col) init) ∈ col)) ∧
        (∀ p ∈ ps, Cell.flag p ∈ col → p.rank ≤ (ps.foldl (fun acc p => passFor p acc col) init).rank) ∧
        init.rank ≤ (ps.foldl (fun acc p => passFor p acc col) init).rank) := by
  intro ps
  induction ps with
  | nil => intro init _ _; simp
  | cons p ps ih =>
    intro init hs hi
    simp only [sortedByRank, Bool.and_eq_true, List.all_eq_true, decide_eq_true_eq] at hs
    simp only [List.foldl_cons]
    rw [passFor_eq p init col]
    have hip : init.rank ≤ p.rank := hi p (by simp)
    by_cases hp : Cell.flag p ∈ col
    · simp only [hp, if_true]
      obtain ⟨h1, h2, h3⟩ := ih p hs.2 (fun q hq => hs.1 q hq)
      refine ⟨?_, ?_, Nat.le_trans hip h3⟩
      · rcases h1 with h1 | ⟨h1, h1'⟩
        · right; rw [h1]; exact ⟨by simp, hp⟩
        · right; exact ⟨List.mem_cons_of_mem _ h1, h1'⟩
      · intro q hq hqc
        rcases List.mem_cons.mp hq with rfl | hq
        · exact h3
        · exact h2 q hq hqc
    · simp only [hp, if_false]
      obtain ⟨h1, h2, h3⟩ := ih init hs.2 (fun q hq => hi q (List.mem_cons_of_mem _ hq))
      refine ⟨?_, ?_, h3⟩
      · rcases h1 with h1 | ⟨h1, h1'⟩
        · left; exact h1
        · right; exact ⟨List.mem_cons_of_mem _ h1, h1'⟩
      · intro q hq hqc
        rcases List.mem_cons.mp hq with rfl | hq
        · exact absurd hqc hp
        · exact h2 q hq hqc

/-- ANY admissible priority table makes `qartod_compare` report the worst flag present. -/
theorem priorities_worst (ps : List Flag) (h : prioritiesOk ps = true) (col : List Cell) :
    aggregateWith ps col = worstOf col := by
  rw [← C04_compareAt, compareAt_ite]
  unfold prioritiesOk at h
  simp only [Bool.and_eq_true, List.all_eq_true, List.contains_eq_mem, decide_eq_true_eq] at h
  obtain ⟨hs, hm⟩ := h
  have hu : Flag.unknown ∈ ps := hm _ (by simp)
  have hg : Flag.good ∈ ps := hm _ (by simp)
  have hsu : Flag.suspect ∈ ps := hm _ (by simp)
  have hf : Flag.fail ∈ ps := hm _ (by simp)
  obtain ⟨h1, h2, _⟩ := lastHit_spec col ps .missing hs (fun p _ => by simp [Flag.rank])
  unfold aggregateWith
  generalize ps.foldl (fun acc p => passFor p acc col) Flag.missing = r at h1 h2
  have hr : r = .missing ∨ Cell.flag r ∈ col := by
    rcases h1 with h1 | ⟨_, h1⟩
    · exact Or.inl h1
    · exact Or.inr h1
  by_cases c4 : Cell.flag .fail ∈ col
  · have := h2 _ hf c4
    simp only [c4, if_true]
    cases r <;> simp [Flag.rank] at this ⊢
  · by_cases c3 : Cell.flag .suspect ∈ col
    · have := h2 _ hsu c3
      simp only [c4, c3, if_true, if_false]
      cases r <;> simp [Flag.rank] at this ⊢
      rcases hr with hr | hr
      · cases hr
      · exact c4 hr
    · by_cases c2 : Cell.flag .good ∈ col
      · have := h2 _ hg c2
        simp only [c4, c3, c2, if_true, if_false]
        cases r <;> simp [Flag.rank] at this ⊢
        · rcases hr with hr | hr
          · cases hr
          · exact c3 hr
        · rcases hr with hr | hr
          · cases hr
          · exact c4 hr
      · by_cases c1 : Cell.flag .unknown ∈ col
        · have := h2 _ hu c1
          simp only [c4, c3, c2, c1, if_true, if_false]
          cases r <;> simp [Flag.rank] at this ⊢
          · rcases hr with hr | hr
            · cases hr
            · exact c2 hr
          · rcases hr with hr | hr
            · cases hr
            · exact c3 hr
          · rcases hr with hr | hr
            · cases hr
            · exact c4 hr
        · simp only [c4, c3, c2, c1, if_false]
          rcases hr with hr | hr
          · exact hr
          · cases r
            · exact absurd hr c2
            · exact absurd hr c1
            · exact absurd hr c3
            · exact absurd hr c4
            · rfl

/-- The model's own list is admissible (non-vacuity), and so are harmless variants of it. -/
example : prioritiesOk priorities = true := by decide
example : prioritiesOk [.unknown, .good, .good, .suspect, .fail] = true := by decide
/-- … while a swapped pair or a dropped flag is not. -/
example : prioritiesOk [.missing, .unknown, .suspect, .good, .fail] = false := by decide
example : prioritiesOk [.missing, .unknown, .good, .fail] = false := by decide
example : aggregateWith [.missing, .unknown, .suspect, .good, .fail] [.flag .good, .flag .suspect] ≠
    worstOf [.flag .good, .flag .suspect] := by decide

/-! ### Character classes of `cf_safe_name` -/

def inRanges (rs : List (Nat × Nat)) (c : Char) : Bool := rs.any (fun r => r.1 ≤ c.toNat && c.toNat ≤ r.2)

/-- `cf_safe_name` for arbitrary classes: `lead` = characters that trigger the prefix, `keep` =
    characters left alone, everything else replaced by `repl`. -/
def cfSafeWith (lead keep : List (Nat × Nat)) (pre : List Char) (repl : Char) (s : List Char) : List Char :=
  let s' := match s with
    | c :: _ => if inRanges lead c then pre ++ s else s
    | [] => s
  s'.map fun c => if inRanges keep c then c else repl

def hasAll (want have_ : List (Nat × Nat)) : Bool := want.all (fun r => have_.contains r)

/-- The classes name exactly the ranges 0-9 _ (lead) and _ a-z A-Z 0-9 (keep), in any order and
    with repetitions; prefix `v_`, replacement `_`. -/
def classesOk (lead keep : List (Nat × Nat)) (pre : List Char) (repl : Char) : Bool :=
  hasAll [(48, 57), (95, 95)] lead && hasAll lead [(48, 57), (95, 95)] &&
  hasAll [(95, 95), (97, 122), (65, 90), (48, 57)] keep && hasAll keep [(95, 95), (97, 122), (65, 90), (48, 57)] &&
  pre == ['v', '_'] && repl == '_'

private theorem inRanges_congr (a b : List (Nat × Nat)) (h1 : hasAll a b = true) (h2 : hasAll b a = true) (c : Char) :
    inRanges a c = inRanges b c := by
  unfold hasAll at h1 h2
  simp only [List.all_eq_true, List.contains_eq_mem, decide_eq_true_eq] at h1 h2
  rw [Bool.eq_iff_iff]
  unfold inRanges
  simp only [List.any_eq_true]
  constructor
  · rintro ⟨r, hr, h⟩; exact ⟨r, h1 r hr, h⟩
  · rintro ⟨r, hr, h⟩; exact ⟨r, h2 r hr, h⟩

private theorem lead_canon (c : Char) : inRanges [(48, 57), (95, 95)] c = (isAsciiDigit c || c == '_') := by
  rw [Bool.eq_iff_iff]
  simp only [inRanges, isAsciiDigit, List.any_cons, List.any_nil, Bool.or_false, Bool.or_eq_true, Bool.and_eq_true,
    decide_eq_true_eq, beq_iff_eq, Char.le_def, Char.ext_iff, UInt32.le_iff_toNat_le, UInt32.toNat_inj.symm]
  simp only [Char.toNat]
  have e0 : ('0' : Char).val.toNat = 48 := rfl
  have e9 : ('9' : Char).val.toNat = 57 := rfl
  have eu : ('_' : Char).val.toNat = 95 := rfl
  rw [e0, e9, eu]
  omega

private theorem keep_canon (c : Char) :
    inRanges [(95, 95), (97, 122), (65, 90), (48, 57)] c = isSafeChar c := by
  rw [Bool.eq_iff_iff]
  simp only [inRanges, isSafeChar, List.any_cons, List.any_nil, Bool.or_false, Bool.or_eq_true, Bool.and_eq_true,
    decide_eq_true_eq, beq_iff_eq, Char.le_def, Char.ext_iff, UInt32.le_iff_toNat_le, UInt32.toNat_inj.symm]
  simp only [Char.toNat]
  have e0 : ('0' : Char).val.toNat = 48 := rfl
  have e9 : ('9' : Char).val.toNat = 57 := rfl
  have eu : ('_' : Char).val.toNat = 95 := rfl
  have ea : ('a' : Char).val.toNat = 97 := rfl
  have ez : ('z' : Char).val.toNat = 122 := rfl
  have eA : ('A' : Char).val.toNat = 65 := rfl
  have eZ : ('Z' : Char).val.toNat = 90 := rfl
  rw [e0, e9, eu, ea, ez, eA, eZ]
  omega

/-- ANY admissible pair of classes computes the model's `cfSafeName` on every string. -/
theorem cfSafe_classes (lead keep : List (Nat × Nat)) (pre : List Char) (repl : Char)
    (h : classesOk lead keep pre repl = true) (s : List Char) :
    cfSafeWith lead keep pre repl s = cfSafeName s := by
  unfold classesOk at h
  simp only [Bool.and_eq_true, beq_iff_eq] at h
  obtain ⟨⟨⟨⟨⟨l1, l2⟩, k1⟩, k2⟩, hp⟩, hr⟩ := h
  have hl : ∀ c, inRanges lead c = (isAsciiDigit c || c == '_') := fun c => by
    rw [inRanges_congr lead _ l2 l1 c, lead_canon]
  have hk : ∀ c, inRanges keep c = isSafeChar c := fun c => by
    rw [inRanges_congr keep _ k2 k1 c, keep_canon]
  subst hp; subst hr
  unfold cfSafeWith cfSafeName
  cases s with
  | nil => simp
  | cons c cs => simp only [hl, hk]; rfl

example : classesOk [(48, 57), (95, 95)] [(95, 95), (97, 122), (65, 90), (48, 57)] ['v', '_'] '_' = true := by decide
example : classesOk [(48, 57)] [(95, 95), (97, 122), (65, 90), (48, 57)] ['v', '_'] '_' = false := by decide

/-! ### Operator table of `fx_parser` (`opn`) -/

inductive PyOp where | add | sub | mul | truediv | pow | other
  deriving DecidableEq, Repr

def BinOp.symbol : BinOp → Char
  | .add => '+' | .sub => '-' | .mul => '*' | .div => '/'

def BinOp.pyOp : BinOp → PyOp
  | .add => .add | .sub => .sub | .mul => .mul | .div => .truediv

/-- Every operator symbol of the model is bound, in the source's table, to the `operator`
    function whose arithmetic the model's `Expr.eval` uses — and to nothing else. -/
def fxOpsOk (t : List (Char × PyOp)) : Bool :=
  [BinOp.add, .sub, .mul, .div].all fun o => (t.filter (fun e => e.1 == BinOp.symbol o)).map (·.2) == [BinOp.pyOp o]

theorem fxOps_sound (t : List (Char × PyOp)) (h : fxOpsOk t = true) (o : BinOp) :
    ∀ e ∈ t, e.1 = BinOp.symbol o → e.2 = BinOp.pyOp o := by
  unfold fxOpsOk at h
  simp only [List.all_eq_true, beq_iff_eq] at h
  have ho : o ∈ [BinOp.add, .sub, .mul, .div] := by cases o <;> simp
  intro e he hs
  have hm : e.2 ∈ (t.filter (fun e => e.1 == BinOp.symbol o)).map (·.2) :=
    List.mem_map.mpr ⟨e, List.mem_filter.mpr ⟨he, by simp [hs]⟩, rfl⟩
  rw [h o ho] at hm
  simpa using hm

example : fxOpsOk [('+', .add), ('-', .sub), ('*', .mul), ('/', .truediv), ('^', .pow)] = true := by decide
example : fxOpsOk [('+', .add), ('-', .add), ('*', .mul), ('/', .truediv)] = false := by decide

end IoosQc.Pin

/-! ### The pins, under the names the audit looks for -/
namespace IoosQc

theorem C01_pin_flagCodes (t : List (Flag × Nat)) (h : Pin.flagCodesOk t = true) :
    (∀ e ∈ t, e.1.code = e.2) ∧ (∀ f : Flag, ∃ e ∈ t, e.1 = f ∧ e.2 = f.code) := Pin.flagCodes_sound t h

theorem C04_pin_priorities (ps : List Flag) (h : Pin.prioritiesOk ps = true) (col : List Cell) :
    Pin.aggregateWith ps col = worstOf col := Pin.priorities_worst ps h col

theorem C04_pin_flagCodes (t : List (Flag × Nat)) (h : Pin.flagCodesOk t = true) :
    (∀ e ∈ t, e.1.code = e.2) ∧ (∀ f : Flag, ∃ e ∈ t, e.1 = f ∧ e.2 = f.code) := Pin.flagCodes_sound t h

theorem C19_pin_cfSafe_classes (lead keep : List (Nat × Nat)) (pre : List Char) (repl : Char)
    (h : Pin.classesOk lead keep pre repl = true) (s : List Char) :
    Pin.cfSafeWith lead keep pre repl s = cfSafeName s := Pin.cfSafe_classes lead keep pre repl h s

theorem C20_pin_fxOps (t : List (Char × Pin.PyOp)) (h : Pin.fxOpsOk t = true) (o : BinOp) :
    ∀ e ∈ t, e.1 = Pin.BinOp.symbol o → e.2 = Pin.BinOp.pyOp o := Pin.fxOps_sound t h o

/-! ### Defaults of the signatures (`Model/Defaults.lean` is what the decoder fills in for an omitted keyword) -/

/-- With the source's defaults, a `valid_range_test` call that names neither flag is the lower-inclusive,
    upper-exclusive test of the property sentence. -/
theorem C03_pin_defaults (s e : Bool) (h : (s, e) = (Defaults.validStartInclusive, Defaults.validEndInclusive))
    (lo hi : V) (inp : List V) : validRange lo hi s e inp = validRange lo hi true false inp := by
  cases h; rfl

theorem C09_pin_default_method (m : String) (h : m = Defaults.spikeMethod) (sus fail : Option Rat) (inp : List V) :
    spikeTest m sus fail inp = spikeTest "average" sus fail inp := by
  subst h; rfl

theorem C11_pin_default_tolerance (tol : Rat) (h : tol = Defaults.flatTolerance) (inp : List V) (ts : List Int) (sus fail : Rat) :
    flatLineTest inp ts sus fail tol = flatLineTest inp ts sus fail 0 := by
  subst h; rfl

theorem C12_pin_default_check_type (c : String) (h : c = Defaults.attenCheckType) (inp : List V) (ts : List Int) (sus fail : Rat)
    (period : Option Rat) (minObs : Option Nat) (minPeriod : Option Rat) :
    attenuatedTest c inp ts sus fail period minObs minPeriod = attenuatedTest "std" inp ts sus fail period minObs minPeriod := by
  subst h; rfl

/-! ### Layout dispatch of `Config.__init__`: the chain of tests read from the source -/

namespace Pin

/-- One test of the `if … elif … elif … else` chain in `Config.__init__`. -/
inductive LayoutTest where
  | contextsKey (k : String)     -- `"k" in self.config`: a list of contexts under `k`
  | streamsKey (k : String)      -- `"k" in self.config`: the tree is one context
  | depthGe (n : Nat)            -- `dict_depth(self.config) >= n`: a bare stream-id mapping
  deriving DecidableEq, Repr

/-- `Config(source)` on the parsed tree for an ARBITRARY chain of layout tests (the final `else` binds the tree to the
    default stream id). -/
def configCallsWith (knownMod : String → Bool) (known : String → String → Bool) (defaultKey : String) :
    List LayoutTest → J → List CallSpec
  | [], cfg => contextCalls knownMod known (.obj [("streams", .obj [(defaultKey, cfg)])])
  | .contextsKey k :: rest, cfg =>
      if cfg.has k then
        (match cfg.get? k with
         | some (.arr cs) => cs.flatMap (contextCalls knownMod known)
         | _ => [])
      else configCallsWith knownMod known defaultKey rest cfg
  | .streamsKey k :: rest, cfg =>
      if cfg.has k then (if k = "streams" then contextCalls knownMod known cfg else [])
      else configCallsWith knownMod known defaultKey rest cfg
  | .depthGe n :: rest, cfg =>
      if n ≤ cfg.depth then contextCalls knownMod known (.obj [("streams", cfg)])
      else configCallsWith knownMod known defaultKey rest cfg

/-- the chain the model (`configCalls`) and the theorems of C07 are about -/
def layoutChain : List LayoutTest := [.contextsKey "contexts", .streamsKey "streams", .depthGe 4]

theorem configCallsWith_chain (knownMod : String → Bool) (known : String → String → Bool) (dk : String) (cfg : J) :
    configCallsWith knownMod known dk layoutChain cfg = configCalls knownMod known dk cfg := by
  unfold layoutChain configCalls
  simp only [configCallsWith]
  split <;> (try rfl)

end Pin

/-- The chain of layout tests read from the source of `Config.__init__` (keys, order, depth threshold) and the default stream
    key of its signature are the model's: the layout theorems of C07 speak about the dispatch the code performs. -/
theorem C07_pin_layout (chain : List Pin.LayoutTest) (dk : String) (h : (chain, dk) = (Pin.layoutChain, "_stream"))
    (knownMod : String → Bool) (known : String → String → Bool) (cfg : J) :
    Pin.configCallsWith knownMod known dk chain cfg = configCalls knownMod known "_stream" cfg := by
  cases h; exact Pin.configCallsWith_chain knownMod known "_stream" cfg

/-! ### The window comparisons of the three stream front ends -/

namespace Pin

/-- A comparison operator as written in the source (`column OP bound`). -/
inductive Cmp where | ge | gt | le | lt
  deriving DecidableEq, Repr

def Cmp.eval : Cmp → Int → Int → Bool
  | .ge, t, b => decide (b ≤ t)
  | .gt, t, b => decide (b < t)
  | .le, t, b => decide (t ≤ b)
  | .lt, t, b => decide (t < b)

/-- The row mask of a front end that narrows an all-True mask with `t OPs starting` (when given) and `t OPe ending` (when given). -/
def maskWith (ops : Cmp × Cmp) (w : Window) (ts : List Int) : List Bool :=
  ts.map fun t =>
    (match w.starting with | some a => ops.1.eval t a | none => true) &&
    (match w.ending with | some b => ops.2.eval t b | none => true)

theorem maskWith_spec (w : Window) (ts : List Int) : maskWith (.ge, .lt) w ts = specMask w ts := by
  unfold maskWith specMask inWindow
  cases w.starting <;> cases w.ending <;> simp [Cmp.eval]

end Pin

/-- The comparison operators read from the window code of PandasStream, NumpyStream and XarrayStream (each front end: the operator
    applied to `starting` and the one applied to `ending`) are `>=` and `<`: every front end selects `starting <= t < ending`. -/
theorem C05_pin_window (fes : List (Pin.Cmp × Pin.Cmp)) (h : fes = [(.ge, .lt), (.ge, .lt), (.ge, .lt)])
    (w : Window) (ts : List Int) : ∀ ops ∈ fes, Pin.maskWith ops w ts = specMask w ts := by
  subst h
  intro ops hops
  simp only [List.mem_cons, List.mem_nil_iff, or_false, or_self] at hops
  subst hops
  exact Pin.maskWith_spec w ts

/-- an inclusive `ending` (or an exclusive `starting`) is not the property's window -/
example : Pin.maskWith (.ge, .le) ⟨some 10, some 20⟩ [9, 10, 20, 21] ≠ specMask ⟨some 10, some 20⟩ [9, 10, 20, 21] := by decide
example : Pin.maskWith (.gt, .lt) ⟨some 10, some 20⟩ [9, 10, 20, 21] ≠ specMask ⟨some 10, some 20⟩ [9, 10, 20, 21] := by decide

theorem C14_pin_default_bbox (b : List Rat) (h : b = Defaults.locationBBox) (lon lat : List V) (r : Option Rat) (hops : List V) :
    locationTest lon lat ⟨true, b⟩ r hops = locationTest lon lat ⟨true, [-180, -90, 180, 90]⟩ r hops := by
  subst h; rfl

end IoosQc
