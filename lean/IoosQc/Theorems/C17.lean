/-
  C17 — flags ignore value/time offsets and depend only on the local neighbourhood: the
  invariance theorems of C17a and the locality theorem of C17b assembled over `Transform`.
-/
import IoosQc.Theorems.C17a
import IoosQc.Theorems.C17b
import IoosQc.Theorems.C01
set_option linter.unusedSimpArgs false
set_option linter.unusedVariables false

namespace IoosQc

theorem C17_holds_of_eq (t : Transform) (c : TestCall) (r r' : Res) (fs : List Flag)
    (hr : r = .ok fs) (he : r' = r) (hnr : t ≠ .reverse) (hnp : isPerturb t = none) :
    C17.holds t c r.toObs r'.toObs = true := by
  subst he; subst hr
  simp only [C17.holds, Res.toObs]
  cases t <;> simp_all [isPerturb]

theorem C17_holds_of_reverse (c : TestCall) (r r' : Res) (fs : List Flag)
    (hr : r = .ok fs) (he : r' = r.map List.reverse) :
    C17.holds .reverse c r.toObs r'.toObs = true := by
  subst he; subst hr
  simp [C17.holds, Res.toObs, Except.map, List.map_reverse]

/-- C17: for every transformation the property names and every call it applies to (in the
    domain, with valid parameters), the model's flags are related as the property says: unchanged
    under value / time offsets, negation and joint shifts, mirrored under reversal of a spike
    series, and unchanged outside the test's neighbourhood under a single-point perturbation. -/
theorem C17_main (periodOf : Period → Int → Int) (t : Transform) (c c' : TestCall)
    (ht : applyT t c = some c') (hd : c.inDom = true) (hv : c.validParams periodOf = true) :
    C17.holds t c (c.run periodOf).toObs (c'.run periodOf).toObs = true := by
  obtain ⟨fs, hfs⟩ := C01_run_ok periodOf c hv
  cases t with
  | perturb j v => exact C17_locality periodOf _ j c c' rfl ht hv hd
  | perturbAux j v => exact C17_locality periodOf _ j c c' rfl ht hv hd
  | perturbPos j x y h' => exact C17_locality periodOf _ j c c' rfl ht hv hd
  | addValue k =>
    cases c <;> simp only [applyT, Option.some.injEq, reduceCtorEq] at ht <;> subst ht <;>
      refine C17_holds_of_eq _ _ _ _ fs hfs ?_ (by simp) rfl <;> simp only [TestCall.run]
    · exact C17_add_spike k _ _ _ _
    · exact C17_add_roc k _ _ _
    · exact C17_add_flat k _ _ _ _ _
    · exact C17_add_atten k _ _ _ _ _ _ _ _
    · exact C17_add_density k _ _ _ _
  | negate =>
    cases c <;> simp only [applyT, Option.some.injEq, reduceCtorEq] at ht <;> subst ht <;>
      refine C17_holds_of_eq _ _ _ _ fs hfs ?_ (by simp) rfl <;> simp only [TestCall.run]
    · exact C17_neg_spike _ _ _ _
    · exact C17_neg_roc _ _ _
    · exact C17_neg_flat _ _ _ _ _
    · exact C17_neg_atten _ _ _ _ _ _ _ _
  | shiftBoth k =>
    cases c <;> simp only [applyT, Option.some.injEq, reduceCtorEq] at ht <;> subst ht <;>
      refine C17_holds_of_eq _ _ _ _ fs hfs ?_ (by simp) rfl <;> simp only [TestCall.run]
    · exact C17_both_gross k _ _ _
    · exact C17_both_valid k _ _ _ _ _
  | reverse =>
    cases c <;> simp only [applyT, Option.some.injEq, reduceCtorEq] at ht
    subst ht
    refine C17_holds_of_reverse _ _ _ fs hfs ?_
    simp only [TestCall.run]
    exact C17_reverse_spike _ _ _ _
  | shiftTime τ =>
    cases c <;> simp only [applyT, Option.some.injEq, reduceCtorEq] at ht
    case climatology ms inp tt z =>
      split at ht
      · next hp =>
        simp only [Option.some.injEq] at ht; subst ht
        refine C17_holds_of_eq _ _ _ _ fs hfs ?_ (by simp) rfl
        simp only [TestCall.run]
        have hl : inp.length ≤ tt.length := by
          simp only [TestCall.inDom, Bool.and_eq_true, beq_iff_eq] at hd; omega
        exact C17_shift_climatology periodOf τ ms inp tt z hp hl
      · simp at ht
    case roc inp tt thr =>
      subst ht
      refine C17_holds_of_eq _ _ _ _ fs hfs ?_ (by simp) rfl
      simp only [TestCall.run]; exact C17_shift_roc τ _ _ _
    case flatLine inp tt s f tol =>
      subst ht
      refine C17_holds_of_eq _ _ _ _ fs hfs ?_ (by simp) rfl
      simp only [TestCall.run]; exact C17_shift_flat τ _ _ _ _ _
    case attenuated ct inp tt s f p mo mp =>
      subst ht
      refine C17_holds_of_eq _ _ _ _ fs hfs ?_ (by simp) rfl
      simp only [TestCall.run]
      have hl : inp.length ≤ tt.length := by
        simp only [TestCall.inDom, Bool.and_eq_true, beq_iff_eq] at hd; omega
      exact C17_shift_atten τ ct inp tt s f p mo mp hl
    case speed lon lat tt s f h =>
      subst ht
      refine C17_holds_of_eq _ _ _ _ fs hfs ?_ (by simp) rfl
      simp only [TestCall.run]; exact C17_shift_speed τ _ _ _ _ _ _

end IoosQc
